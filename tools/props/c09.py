"""C09 — indexing, slicing, len.  Proof: SslModel.Thm.C09 (index success condition, slice positions
always valid, step 0, bounds = CPython's adjusted bounds).  Correspondence: `seq` stream —
implementation (folded and run-time) vs. Lean model of at.rs/slyce vs. CPython's own slicing."""
import random

from props import c08
from vlib import driver_run, esc_field, harness_run, sexp_parse, sexp_str, strip_tags

THM_MODULES = ["SslModel.Thm.C09"]
TRANSLATE_PARTS = ["errors"]
MIN, MAX = -2**63, 2**63 - 1


def sstr(s):
    out = '"'
    for ch in s:
        if ch == '"' or ch == "\\":
            out += "\\" + ch
        elif " " <= ch <= "~":
            out += ch
        else:
            out += "\\u{%x}" % ord(ch)
    return out + '"'


def src_str(s):
    """SimpleSL string literal (unescaper syntax)"""
    out = '"'
    for ch in s:
        if ch == '"' or ch == "\\":
            out += "\\" + ch
        else:
            out += ch
    return out + '"'


ARR_ELEMS = [("10", "(i 10)"), ("2.5", "(f 4004000000000000)"), ('"x"', '(s "x")'), ("true", "true"),
             ("14", "(i 14)"), ("()", "unit"), ("[1]", "(arr (i 1))")]


def sequences(tier):
    seqs = []
    lens = [0, 1, 3, 5] if tier == "quick" else [0, 1, 2, 3, 4, 5, 6]
    for n in lens:
        el = [ARR_ELEMS[k % len(ARR_ELEMS)] for k in range(n)]
        seqs.append(("arr", "[" + ", ".join(e[0] for e in el) + "]", [e[1] for e in el]))
    for n in ([2, 4] if tier == "quick" else [1, 2, 3, 6]):
        seqs.append(("arr", "[" + ", ".join(str(100 + k) for k in range(n)) + "]", ["(i %d)" % (100 + k) for k in range(n)]))
    # array literals that the folder cannot turn into one constant (an element is a call / a read of a mut): indexing and
    # slicing them by constants goes through the instruction-level folding of `[..][i]`, not through the run-time routine
    for n in ([1, 3] if tier == "quick" else [1, 2, 3, 5]):
        for pos in sorted({0, n - 1}):
            el = [ARR_ELEMS[k % len(ARR_ELEMS)] for k in range(n)]
            srcs = [e[0] for e in el]
            srcs[pos] = "idf(%s)" % srcs[pos] if pos == 0 else "*cell"
            vals = [e[1] for e in el]
            if pos != 0:
                vals[pos] = "(i 77)"
            seqs.append(("arr", "[" + ", ".join(srcs) + "]", vals, "idf := (x: any) -> any { return x }; cell := mut 77; "))
    # `[v; n]` with a run-time element and a constant length, indexed / sliced by constants: another instruction-level path
    for n in ([0, 1, 3] if tier == "quick" else [0, 1, 2, 3, 5]):
        seqs.append(("arr", "[idf(10); %d]" % n, ["(i 10)"] * n, "idf := (x: any) -> any { return x }; cell := mut 77; "))
        seqs.append(("arr", "[*cell; %d]" % n, ["(i 77)"] * n, "idf := (x: any) -> any { return x }; cell := mut 77; "))
    strs = ["", "abcd", "aé\U0001F600b́c"] if tier == "quick" else ["", "a", "abcdef", "aé\U0001F600b́c", "中文", "x\U0001F600"]
    for s in strs:
        seqs.append(("str", src_str(s), list(s)))
    return seqs


def fn_text(kind, pattern):
    """run-time form: sequence and present bounds are parameters"""
    ty, rt = ("[any]", "[any]") if kind == "arr" else ("string", "string")
    names = [nm for nm, present in zip("abc", pattern) if present]
    params = ", ".join(["s: %s" % ty] + ["%s: int" % n for n in names])
    a, b, c = [(nm if p else "") for nm, p in zip("abc", pattern)]
    return "f := (%s) -> %s { return s[%s:%s:%s] }" % (params, rt, a, b, c)


def opt(v):
    return "_" if v is None else str(v)


def run(res, tier, seed, broken_model):
    rnd = random.Random(seed)
    seqs = sequences(tier)
    hl, keys = [], []
    for sq in seqs:
        kind, text, elems = sq[:3]
        pre = sq[3] if len(sq) > 3 else ""
        n = len(elems)
        first = len(hl)
        idxs = list(range(-(n + 3), n + 4)) + [MIN, MIN + 1, -2**32, 2**32, MAX - 1, MAX]
        for i in idxs:
            et = "any" if kind == "arr" else "string"
            st = "[any]" if kind == "arr" else "string"
            forms = {"literal": "%s[%s]" % (text, c08.lit(i)),
                     "runtime": "f := (s: %s, i: int) -> %s { return s[i] }; f(%s, %s)" % (st, et, text, c08.lit(i))}
            for form, p in forms.items():
                hl.append("prog\t\t" + esc_field(p)); keys.append(("at", kind, text, elems, i, form, p))
        for form, p in {"literal": "std.len(%s)" % text,
                        "runtime": "f := (s: %s) -> int { return std.len(s) }; f(%s)" % ("[any]" if kind == "arr" else "string", text)}.items():
            hl.append("prog\tstd\t" + esc_field(p)); keys.append(("len", kind, text, elems, None, form, p))
        vals = [None, 0, 1, 2, 3, -1, -2, n, n + 1, -n, -n - 1, MIN, MAX]
        steps = [None, 1, 2, 3, -1, -2, -3, 0, n, -n - 1, MIN, MAX, 7]
        triples = [(a, b, c) for a in vals for b in vals for c in steps]
        if tier == "quick":
            triples = [t for k, t in enumerate(triples) if (k + n) % 2 == 0 or MIN in t or MAX in t]
        for k, (a, b, c) in enumerate(triples):
            form = "literal" if (k + n) % 2 == 0 else "runtime"
            forms = [form] if tier == "quick" else ["literal", "runtime"]
            for form in forms:
                la, lb, lc = [("" if v is None else c08.lit(v)) for v in (a, b, c)]
                if form == "literal":
                    p = "%s[%s:%s:%s]" % (text, la, lb, lc)
                else:
                    pat = (a is not None, b is not None, c is not None)
                    args = ", ".join([text] + [c08.lit(v) for v in (a, b, c) if v is not None])
                    p = "%s; f(%s)" % (fn_text(kind, pat), args)
                hl.append("prog\t\t" + esc_field(p)); keys.append(("slice", kind, text, elems, (a, b, c), form, p))
        # grammar forms with fewer colons
        for p, tr in (("%s[:]" % text, (None, None, None)), ("%s[(1):]" % text, (1, None, None)),
                      ("%s[:(2)]" % text, (None, 2, None)), ("%s[(1):(2)]" % text, (1, 2, None)),
                      ("%s[::]" % text, (None, None, None)), ("%s[::(2)]" % text, (None, None, 2))):
            hl.append("prog\t\t" + esc_field(p)); keys.append(("slice", kind, text, elems, tr, "literal", p))
        if pre:
            for j in range(first, len(hl)):
                mode, scope, body = hl[j].split("\t")
                hl[j] = "\t".join([mode, scope, esc_field(pre) + body])
                keys[j] = keys[j][:6] + (pre + keys[j][6],)
    impl = harness_run(hl)
    ml = []
    for k in keys:
        n = len(k[3])
        if k[0] == "at":
            ml.append("seq-at %d %d" % (n, k[4]))
        elif k[0] == "slice":
            ml.append("seq-slice %d %s %s %s" % ((n,) + tuple(opt(v) for v in k[4])))
        else:
            ml.append("seq-at %d 0" % n)
    model = driver_run(ml) if not broken_model else ["(no-model)"] * len(ml)
    res.streams["seq"] = dict(cases=len(keys), sequences=len(seqs))
    res.rule = ("%d sequences (mixed-type arrays of length 0..6, int arrays, ASCII / multi-byte / combining / non-BMP "
                "strings) x every index in -(n+3)..(n+3) plus extreme i64 values x (start, stop, step) triples over "
                "13 values each incl. absent, 0, +-n, +-(n+1), MIN, MAX, folded (literal) and run-time (parameters) forms; "
                "non-trivial = distinct (sequence, index/triple, form) that the checker accepted" % len(seqs))

    def render(kind, elems, positions):
        if kind == "str":
            return "(s %s)" % sstr("".join(elems[p] for p in positions))
        return sexp_str(["arr"] + [sexp_parse(elems[p]) for p in positions])

    for k, il, ml_ in zip(keys, impl, model):
        res.evaluations += 1
        what, kind, text, elems, arg, form, prog = k
        n = len(elems)
        s = sexp_parse(il)
        got = None
        if isinstance(s, list) and s[0] == "accepted":
            r = s[2]
            if r[0] == "value":
                got = sexp_str(strip_tags(r[1]))
                res.nontrivial.add((what, text, str(arg), form))
            elif r[0] == "error":
                got = "(error %s)" % r[1]
                res.nontrivial.add((what, text, str(arg), form))
            else:
                got = sexp_str(r)
            static = sexp_str(s[1])
        elif isinstance(s, list) and s[0] == "rejected" and s[1] == "IndexOutOfBounds":
            got = "(error IndexOutOfBounds)"          # folded index into a literal
            static = None
            res.nontrivial.add((what, text, str(arg), form))
        else:
            got = il
            static = None
        res.count("%s:%s:%s" % (what, kind, form))
        # direct oracle: CPython
        if what == "at":
            i = arg
            if -n <= i < n:
                want = render(kind, elems, [i % n]) if kind == "arr" else "(s %s)" % sstr(elems[i % n])
                if kind == "arr":
                    want = sexp_str(sexp_parse(elems[i % n]))
            else:
                want = "(error IndexOutOfBounds)"
            mwant = None
            if not broken_model:
                mwant = want if (ml_.isdigit() and -n <= i < n and int(ml_) == i % n) or (ml_ == want) else "(model %s)" % ml_
        elif what == "len":
            want = "(i %d)" % n
            mwant = want
        else:
            a, b, c = arg
            if c == 0:
                pos = []
            else:
                pos = list(range(n))[slice(a, b, c)]
            want = render(kind, elems, pos)
            mwant = None
            if not broken_model:
                mpos = ml_.split("]")[0].strip("[").split()
                try:
                    mwant = render(kind, elems, [int(x) for x in mpos])
                except (ValueError, IndexError):
                    mwant = "(model %s)" % ml_
                if "py=same" not in ml_:
                    res.broken.append("model-internal: slyce model and CPython spec differ: %s -> %s" % (ml[0], ml_))
        if len(res.samples) < 6 and res.evaluations % 1777 == 3:
            res.samples.append(dict(program=prog, impl=il, model=ml_, cpython=want))
        if got != want:
            res.violation("`%s` gives %s, expected %s" % (prog, got, want),
                          dict(program=prog, flags="std" if what == "len" else "", impl=il, expected=want, model=ml_),
                          dict(oracle="python-slice", what=what, kind=kind, form=form))
        elif mwant is not None and mwant != got:
            res.disagreements_checked += 1
            res.broken.append("correspondence:seq `%s`: impl=%s model=%s" % (prog, got, ml_))
        else:
            res.traces_validated += 1
        # same kind: static type of a slice is the type of the sliced operand
        if what == "slice" and static is not None and form == "runtime":
            exp = "(arr any)" if kind == "arr" else "str"
            if static != exp:
                res.violation("`%s` has static type %s, expected %s" % (prog, static, exp),
                              dict(program=prog, impl=il, expected=exp), dict(oracle="slice-kind", kind=kind))
