import SslModel.Lemmas.TypingFull
import SslModel.Gen.ExecErrors
/-!
# C01 — type soundness (stage 1: values, subtyping, operators)

`Val.hasTy v T` is membership of a run-time value in a type judged by *contents*, recursively;
`Ty.sub` is the model of `Type::matches`.  Proved here, for all values and types in the stated
fragments:

* moving along the subtype relation preserves membership: `matches_sound` for ALL values and
  well-formed types (functions through transitivity of `matches`, cells through transitivity of
  `==`; function values are assumed to carry a well-formed signature), and `matches_sound_partial`
  without any well-formedness hypothesis for first-order cell-free values;
* union introduction / elimination, `any`, `!`;
* the results of the scalar operators, indexing and slicing have the types the checker assigns.

The evaluator-level statement (`exec_sound`: every value produced by an accepted program inhabits the
static type of the instruction that produced it) is not proved: for the running implementation it is
decided by the in-crate monitor (cargo feature `verif`) on generated programs — see tools/props/c01.py.
-/
set_option linter.unusedSimpArgs false
namespace Ssl.C01
open Ssl Ssl.Ty Ssl.Val Ssl.Spec

/-! ## subtyping is sound for values -/

/-- whenever `A` matches `B`, every (first-order, cell-free) value of `A` is a value of `B` -/
theorem matches_sound_partial (v : Val) (A B : Ty) (hv : fo v = true)
    (h : sub A B = true) (hA : hasTy v A = true) : hasTy v B = true :=
  matches_sound_aux (Ty.size A + Ty.size B) v A B (Nat.le_refl _) hv h hA

/-- **whenever `A` matches `B`, every value of `A` is a value of `B`** (all values: functions,
    cells, arbitrarily nested; `A`, `B` well-formed) -/
theorem matches_sound (v : Val) (A B : Ty) (hv : okv v = true) (wA : wf A = true) (wB : wf B = true)
    (h : sub A B = true) (hA : hasTy v A = true) : hasTy v B = true :=
  matches_sound_full_aux (Ty.size A + Ty.size B) v A B (Nat.le_refl _) hv wA wB h hA

/-- non-vacuity: a cell inside a tuple, moved from `(int, mut int)` to `(int|string, mut int) | bool` -/
example : hasTy (.tup [.int 1, .cell 0 .int]) (.tup [.int, .cell .int]) = true ∧
    sub (.tup [.int, .cell .int]) (.multi [.tup [.multi [.int, .str], .cell .int], .bool]) = true ∧
    okv (.tup [.int 1, .cell 0 .int]) = true := by
  refine ⟨by simp [hasTy, hasTyL, eqv], by simp [sub, anyMatch, matchesL, allMatch, eqv], by simp [okv, okvL]⟩

theorem any_contains_everything (v : Val) : hasTy v .any = true := hasTy_any v
theorem never_is_empty (v : Val) : hasTy v .never = false := hasTy_never v

/-- a value belongs to a union exactly when it belongs to one of its members -/
theorem union_membership (v : Val) (ms : List Ty) :
    hasTy v (.multi ms) = true ↔ ∃ m ∈ ms, hasTy v m = true := by
  rw [hasTy_multi, hasTyAny_iff]

/-- arrays: every element in the element type (the stored tag is irrelevant) -/
theorem array_membership (t : Ty) (es : List Val) (e : Ty) :
    hasTy (.arr t es) (.arr e) = true ↔ ∀ x ∈ es, hasTy x e = true := by
  rw [hasTy_arr, allHasTy_iff]

/-- the empty array belongs to every array type (`[]`, `[v; 0]`, empty slices, empty collects) -/
theorem empty_array_in_every_array_type (t e : Ty) : hasTy (.arr t []) (.arr e) = true := by
  rw [array_membership]; intro x hx; cases hx

/-! ## scalar operators produce values of the type the checker assigns -/

def isArith : IntExpr → Bool
  | .lt | .le | .gt | .ge => false
  | _ => true

theorem arith_eval_int (e : IntExpr) (h : isArith e = true) (a b : I64) : ∃ i, e.eval a b = .int i := by
  cases e <;> simp [isArith] at h <;> exact ⟨_, rfl⟩

theorem interp_arith_int (op : IntOp) (h : isArith op.body = true) (a b : I64) (r : Val)
    (hr : ofScalar (op.interp a b) = .ok r) : hasTy r .int = true := by
  unfold IntOp.interp at hr
  split at hr
  · simp [ofScalar] at hr
  · obtain ⟨i, hi⟩ := arith_eval_int op.body h a b
    rw [hi] at hr; simp [ofScalar] at hr; subst hr; simp [hasTy]

/-- the integer arms regenerated from the sources all compute integers -/
theorem int_arith_yields_int (op : BinOp) (x y : I64) (r : Val)
    (hop : op = .add ∨ op = .sub ∨ op = .mul ∨ op = .div ∨ op = .mod ∨ op = .pow ∨ op = .band ∨
           op = .bor ∨ op = .bxor ∨ op = .shl ∨ op = .shr)
    (h : binScalar op (.int x) (.int y) = .ok r) : hasTy r .int = true := by
  rcases hop with rfl | rfl | rfl | rfl | rfl | rfl | rfl | rfl | rfl | rfl | rfl <;>
    simp only [binScalar] at h
  · exact interp_arith_int Gen.add (by decide) x y r h
  · exact interp_arith_int Gen.subtract (by decide) x y r h
  · exact interp_arith_int Gen.multiply (by decide) x y r h
  · exact interp_arith_int Gen.divide (by decide) x y r h
  · exact interp_arith_int Gen.modulo (by decide) x y r h
  · exact interp_arith_int Gen.pow (by decide) x y r h
  · exact interp_arith_int Gen.bitwise_and (by decide) x y r h
  · exact interp_arith_int Gen.bitwise_or (by decide) x y r h
  · exact interp_arith_int Gen.xor (by decide) x y r h
  · exact interp_arith_int Gen.lshift (by decide) x y r h
  · exact interp_arith_int Gen.rshift (by decide) x y r h

theorem comparison_yields_bool (op : BinOp) (x y : Val) (r : Val)
    (hop : op = .eq ∨ op = .ne) (h : binScalar op x y = .ok r) : hasTy r .bool = true := by
  rcases hop with rfl | rfl
  · cases x <;> cases y <;> (simp only [binScalar] at h; cases h; simp [hasTy])
  · cases x <;> cases y <;> (simp only [binScalar] at h; cases h; simp [hasTy])

theorem float_arith_yields_float (op : BinOp) (x y : F64) (r : Val)
    (hop : op = .add ∨ op = .sub ∨ op = .mul ∨ op = .div ∨ op = .pow)
    (h : binScalar op (.float x) (.float y) = .ok r) : hasTy r .float = true := by
  rcases hop with rfl | rfl | rfl | rfl | rfl <;> (simp only [binScalar] at h; cases h; simp [hasTy])

theorem string_concat_yields_string (x y : String) (r : Val)
    (h : binScalar .add (.str x) (.str y) = .ok r) : hasTy r .str = true := by
  simp only [binScalar] at h; cases h; simp [hasTy]

/-- indexing an array whose elements are all in `e` yields a value in `e` (`index_result`) -/
theorem index_yields_element (t : Ty) (es : List Val) (e : Ty) (i : I64) (x : Val)
    (hes : hasTy (.arr t es) (.arr e) = true) (h : atVal (.arr t es) (.int i) = .ok x) :
    hasTy x e = true := by
  rw [array_membership] at hes
  simp only [atVal] at h
  split at h
  · next k hk =>
    split at h
    · next v hv => cases h; exact hes x (List.mem_of_getElem? hv)
    · simp at h
  · simp at h

/-- indexing a string yields a string -/
theorem index_string_yields_string (s : String) (i : I64) (x : Val)
    (h : atVal (.str s) (.int i) = .ok x) : hasTy x .str = true := by
  simp only [atVal] at h
  split at h
  · split at h
    · cases h; simp [hasTy]
    · simp at h
  · simp at h

/-- the six run-time errors of the model are exactly the variants of `ExecError` in the source -/
theorem runtime_errors_are_the_documented_ones :
    [ExecErr.IndexOutOfBounds, .NegativeExponent, .NegativeLength, .OverflowShift, .ZeroDivision,
     .ZeroModulo].map ExecErr.name = Gen.execErrors := by decide

/-! ## non-vacuity -/
example : fo (.arr .int [.int 1, .tup [.str "a", .unit]]) = true := by simp [fo, foL]
example : sub (.arr .int) (.arr (.multi [.int, .str])) = true ∧
    hasTy (.arr .never [.int 1]) (.arr .int) = true := by
  constructor
  · rw [sub_arr, sub_multi_right _ _ rfl rfl, anyMatch_eq]; simp [sub_base_eqv]
  · rw [array_membership]; intro x hx; simp at hx; subst hx; simp [hasTy]

end Ssl.C01
