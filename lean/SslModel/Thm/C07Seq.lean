import SslModel.Thm.C07
/-!
# C07 — sequences of any length: left to right, each exactly once, nothing after a failure

`Thm/C07.lean` gives the one-step equations (first element, then the rest).  Here they are lifted to lists of ANY
length: `ListRun` threads the store through the elements in order - element `k` is evaluated in the store left by
element `k-1`, once - and `evalList` IS that run (`evalList_run`); if element `k` fails, the result is that failure in the
store it left, and no later element is evaluated (`evalList_stops`: the elements after the failing one do not occur in
the statement at all).  The same for struct fields (`evalFields_run`) and statement lists (`evalSeq_run`: each statement
once, in order, the environment growing as it goes, the value of the last).  Arrays, tuples, call arguments, struct
literals and blocks are these lists (`array_elements_in_order`, `tuple_elements_in_order`,
`call_function_then_arguments` in `Thm/C07.lean`).
-/
namespace Ssl.C07
open Ssl Ssl.Spec

/-- the elements evaluated one after the other: `eᵢ` at fuel `f - i`, in the store left by `eᵢ₋₁` -/
inductive ListRun (env : Env) : Nat → List Expr → St → List Val → St → Prop where
  | nil {f : Nat} {σ : St} : ListRun env (f + 1) [] σ [] σ
  | cons {f : Nat} {e : Expr} {es : List Expr} {σ σ1 σ' : St} {v : Val} {vs : List Val} :
      eval f env e σ = (.ok v, σ1) → ListRun env f es σ1 vs σ' → ListRun env (f + 1) (e :: es) σ (v :: vs) σ'

theorem evalList_run (env : Env) (F : Nat) (es : List Expr) (σ σ' : St) (vs : List Val)
    (h : ListRun env F es σ vs σ') : evalList F env es σ = (.ok vs, σ') := by
  induction h with
  | nil => simp only [evalList]; rfl
  | cons he _ ih => simp only [evalList, bind_def, he, ih]; rfl

/-- the converse: a list that evaluates has evaluated as the run says (so the run is not one possible order, it is THE
    order) -/
theorem run_of_evalList (env : Env) : ∀ (F : Nat) (es : List Expr) (σ σ' : St) (vs : List Val),
    evalList F env es σ = (.ok vs, σ') → ListRun env F es σ vs σ' := by
  intro F
  induction F with
  | zero => intro es σ σ' vs h; simp [evalList, throwS] at h
  | succ f ih =>
    intro es σ σ' vs h
    cases es with
    | nil =>
      simp only [evalList] at h
      have : vs = [] ∧ σ' = σ := by
        have h2 : ((.ok [], σ) : Except Sig (List Val) × St) = (.ok vs, σ') := h
        injection h2 with h3 h4
        injection h3 with h5
        exact ⟨h5.symm, h4.symm⟩
      obtain ⟨rfl, rfl⟩ := this
      exact .nil
    | cons e es =>
      simp only [evalList, bind_def] at h
      cases he : eval f env e σ with
      | mk r σ1 =>
        rw [he] at h
        cases r with
        | error s => simp at h
        | ok v =>
          simp only at h
          cases hl : evalList f env es σ1 with
          | mk r2 σ2 =>
            rw [hl] at h
            cases r2 with
            | error s => simp at h
            | ok ws =>
              have h2 : ((.ok (v :: ws), σ2) : Except Sig (List Val) × St) = (.ok vs, σ') := h
              injection h2 with h3 h4
              injection h3 with h5
              subst h5; subst h4
              exact .cons he (ih es σ1 σ2 ws hl)

/-- a prefix evaluated normally; the last index is the fuel left for what follows -/
inductive PreRun (env : Env) : Nat → List Expr → St → St → Nat → Prop where
  | nil {f : Nat} {σ : St} : PreRun env f [] σ σ f
  | cons {f f' : Nat} {e : Expr} {es : List Expr} {σ σ1 σ' : St} {v : Val} :
      eval f env e σ = (.ok v, σ1) → PreRun env f es σ1 σ' f' → PreRun env (f + 1) (e :: es) σ σ' f'

/-- a failure (error or control signal) of the element after `pre`: the list fails with it, in the store the failing
    element left; `post` is arbitrary - nothing of it is evaluated -/
theorem evalList_stops (env : Env) (F f' : Nat) (pre : List Expr) (e : Expr) (post : List Expr) (σ σ1 σ2 : St) (s : Sig)
    (hpre : PreRun env F pre σ σ1 (f' + 1)) (he : eval f' env e σ1 = (.error s, σ2)) :
    evalList F env (pre ++ e :: post) σ = (.error s, σ2) := by
  generalize hk : f' + 1 = k at hpre
  induction hpre with
  | nil => subst hk; simp only [List.nil_append, evalList, bind_def, he]
  | cons h0 _ ih => simp only [List.cons_append, evalList, bind_def, h0, ih he hk]

/-! ### struct fields and statement lists -/

inductive FieldRun (env : Env) : Nat → List (String × Expr) → St → List (String × Val) → St → Prop where
  | nil {f : Nat} {σ : St} : FieldRun env (f + 1) [] σ [] σ
  | cons {f : Nat} {k : String} {e : Expr} {es : List (String × Expr)} {σ σ1 σ' : St} {v : Val} {vs : List (String × Val)} :
      eval f env e σ = (.ok v, σ1) → FieldRun env f es σ1 vs σ' →
      FieldRun env (f + 1) ((k, e) :: es) σ ((k, v) :: vs) σ'

theorem evalFields_run (env : Env) (F : Nat) (es : List (String × Expr)) (σ σ' : St) (vs : List (String × Val))
    (h : FieldRun env F es σ vs σ') : evalFields F env es σ = (.ok vs, σ') := by
  induction h with
  | nil => simp only [evalFields]; rfl
  | cons he _ ih => simp only [evalFields, bind_def, he, ih]; rfl

/-- statements one after the other, each once, the environment growing; the value is the last statement's -/
inductive SeqRun : Nat → Env → List Expr → St → Val → Env → St → Prop where
  | last {f : Nat} {env env' : Env} {s : Expr} {σ σ' : St} {v : Val} :
      evalStmt f env s σ = (.ok (v, env'), σ') → SeqRun (f + 1) env [s] σ v env' σ'
  | cons {f : Nat} {env env1 env' : Env} {s s2 : Expr} {rest : List Expr} {σ σ1 σ' : St} {v0 v : Val} :
      evalStmt f env s σ = (.ok (v0, env1), σ1) → SeqRun f env1 (s2 :: rest) σ1 v env' σ' →
      SeqRun (f + 1) env (s :: s2 :: rest) σ v env' σ'

theorem evalSeq_run (F : Nat) (env env' : Env) (ss : List Expr) (σ σ' : St) (v : Val)
    (h : SeqRun F env ss σ v env' σ') : evalSeq F env ss σ = (.ok (v, env'), σ') := by
  induction h with
  | last hs => simp only [evalSeq, hs]
  | cons hs _ ih => simp only [evalSeq, bind_def, hs]; exact ih

/-! non-vacuity -/
example : ListRun [[]] 3 [.litInt 1, .litBool true] {} [.int (BitVec.ofInt 64 1), .bool true] {} :=
  .cons (by simp [eval]; rfl) (.cons (by simp [eval]; rfl) .nil)

end Ssl.C07
