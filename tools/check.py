#!/usr/bin/env python3
"""Entry point: check.py <ID> [--tier quick|thorough] [--replay file]
Exit 0 = property held on everything explored; exit 1 + `VIOLATION property=<id> replay=<path>`."""
import argparse
import importlib
import json
import os
import sys

sys.path.insert(0, os.path.dirname(os.path.abspath(__file__)))
import vlib
from vlib import Result, build_harness, finish, proof_step


def main():
    ap = argparse.ArgumentParser()
    ap.add_argument("pid")
    ap.add_argument("--tier", default=os.environ.get("VERIF_TIER", "quick"))
    ap.add_argument("--replay")
    a = ap.parse_args()
    pid = a.pid.upper()
    tier = a.tier if a.tier in ("quick", "thorough") else "quick"
    try:
        seed = int(os.environ.get("VERIF_SEED", "20260924"))
    except ValueError:
        seed = 20260924
    mod = importlib.import_module("props." + pid.lower())
    res = Result(pid, tier, seed)
    if a.replay:
        data = json.load(open(a.replay))
        return mod.replay(res, data) if hasattr(mod, "replay") else replay_generic(data)
    proofs_ok = proof_step(res, mod.THM_MODULES, mod.TRANSLATE_PARTS)
    okh, hout = build_harness()
    if not okh:
        res.broken.append("build:harness failed to build against /repo: " + hout[-1500:])
        res.violation("harness does not build against the current /repo tree", dict(output=hout[-3000:]),
                      dict(oracle="build"), kind="broken-proof-or-tie")
        return finish(res)
    vlib.validate_fallback(res)
    model_ok = os.path.exists(vlib.DRIVER_BIN) and not any(b.startswith("build:driver") for b in res.broken)
    res.checker_cmd = "cd /verif/lean && lake build %s driver  (+ #print axioms per theorem)" % " ".join(mod.THM_MODULES)
    mod.run(res, tier, seed, not model_ok)
    return finish(res)


def replay_generic(data):
    """re-run the recorded program(s) on the current implementation and print the outcome"""
    okh, hout = build_harness()
    r = data.get("replay", {})
    prog = r.get("program")
    if prog is None:
        print(json.dumps(r, indent=1))
        return 0
    flags = r.get("flags", "")
    out = vlib.harness_run(["prog\t%s\t%s" % (flags, vlib.esc_field(prog))])
    print("program:", prog)
    print("implementation now:", out[0])
    for k in ("spec", "model", "impl", "expected"):
        if k in r:
            print("recorded %s: %s" % (k, r[k]))
    return 0


if __name__ == "__main__":
    sys.exit(main())
