"""C13 — mutable cells.  Proof: SslModel.Thm.C13 (fresh cells, reads/writes through locations,
aliases, `=` stores and yields, `op=` reads the content after the right-hand side was evaluated and
leaves the cell unchanged when the operation fails).  Correspondence: random assignment / read
histories over aliasing graphs (cells in arrays, structs, closures, other cells; all declared content
types incl. unions and any; all 12 assignment operators; failing operators mid-history) —
implementation vs. `Spec`, plus the harness's recursive content-in-declared-type walk."""
import random

import progprop
import progstream as P
from gen import ast as A
from vlib import driver_run, esc_field, harness_run, sexp_parse, sexp_str
from gen.programs import INT, BOOL, STR, FLOAT, VOID, tup, fn, iter_of, arr, cell, multi

THM_MODULES = ["SslModel.Thm.C13", "SslModel.Thm.C13Hist", "SslModel.Thm.C01StD"]
TRANSLATE_PARTS = ["scalar"]

I = lambda n: ("i", n)
V = lambda x: ("id", x)
ANY = ("any",)
D = lambda e: ("pre", "deref", e)

CELL_TYPES = [INT, INT, FLOAT, STR, BOOL, arr(ANY), arr(INT), multi(INT, STR), ANY, multi(INT, VOID)]


def value_of(rnd, t):
    k = t[0]
    if k == "int":
        return I(rnd.choice([0, 1, 2, 3, 7, -5, 64, 2**62, -2**63]))
    if k == "float":
        return ("f", rnd.choice([0.0, 1.5, -2.0, 8.0]))
    if k == "str":
        return ("s", rnd.choice(["", "a", "bé"]))
    if k == "bool":
        return (rnd.choice(["true", "false"]),)
    if k == "arr":
        return ("array", [value_of(rnd, t[1] if t[1] != ANY else rnd.choice([INT, STR, BOOL])) for _ in range(rnd.randint(0, 2))])
    if k == "multi":
        return value_of(rnd, rnd.choice(t[1]))
    if k == "any":
        return value_of(rnd, rnd.choice([INT, STR, BOOL, arr(INT)]))
    if k == "void":
        return ("unit",)
    raise ValueError(t)


OPS_FOR = {
    "int": ["set", "add", "sub", "mul", "div", "mod", "pow", "shl", "shr", "band", "bor", "bxor"],
    "float": ["set", "add", "sub", "mul", "div", "pow"],
    "str": ["set", "add"], "bool": ["set", "band", "bor", "bxor"], "arr": ["set", "add"],
    "multi": ["set"], "any": ["set"],
}


def history(rnd, n_ops):
    """a program: cells, aliases through containers / closures / cells of cells, then n_ops updates and reads"""
    stmts = [("set", "log", ("mut", arr(ANY), ("array", [])))]
    cells = []          # (access expression builder, content type)
    ncell = rnd.randint(2, 4)
    for i in range(ncell):
        t = rnd.choice(CELL_TYPES)
        name = "c%d" % i
        stmts.append(("set", name, ("mut", t, value_of(rnd, t))))
        cells.append((V(name), t))
    # aliases
    aliases = list(cells)
    k = 0
    for (acc, t) in list(cells):
        how = rnd.choice(["name", "array", "struct", "tuple", "closure", "cellcell", "param", None])
        k += 1
        if how == "name":
            stmts.append(("set", "a%d" % k, acc)); aliases.append((V("a%d" % k), t))
        elif how == "array":
            stmts.append(("set", "a%d" % k, ("array", [acc, acc]))); aliases.append((("at", V("a%d" % k), I(rnd.choice([0, 1, -1]))), t))
        elif how == "struct":
            stmts.append(("set", "a%d" % k, ("struct", [("f", acc), ("g", I(1))]))); aliases.append((("facc", V("a%d" % k), "f"), t))
        elif how == "tuple":
            stmts.append(("set", "a%d" % k, ("tuple", [I(0), acc]))); aliases.append((("tacc", V("a%d" % k), 1), t))
        elif how == "closure":
            stmts.append(("fndecl", "a%d" % k, [], cell(t), [("return", acc)])); aliases.append((("call", V("a%d" % k), []), t))
        elif how == "cellcell":
            stmts.append(("set", "a%d" % k, ("mut", cell(t), acc))); aliases.append((D(V("a%d" % k)), t))
        elif how == "param":
            # a function that updates whatever cell it is given
            if t == INT:
                stmts.append(("fndecl", "bump%d" % k, [("p", cell(INT))], INT, [("return", ("assign", "add", V("p"), I(1000)))]))
                stmts.append(("assign", "add", V("log"), ("array", [("call", V("bump%d" % k), [acc])])))
    # history
    for _ in range(n_ops):
        acc, t = rnd.choice(aliases)
        r = rnd.random()
        if r < 0.3:
            stmts.append(("assign", "add", V("log"), ("array", [D(acc)])))
            continue
        op = rnd.choice(OPS_FOR[t[0]])
        rhs = value_of(rnd, t)
        if t == INT:
            if op in ("shl", "shr"):
                rhs = I(rnd.choice([0, 1, 3, 63, 64, -1]) if rnd.random() < 0.3 else rnd.randint(0, 5))
            elif op == "pow":
                rhs = I(rnd.choice([0, 1, 2, 3, -1]))
            elif op in ("div", "mod"):
                rhs = I(rnd.choice([1, 2, -3, 0]) if rnd.random() < 0.4 else rnd.choice([1, 2, 5, -3]))
            # the right-hand side may itself update the same cell: the update must use the content *after* it
            if rnd.random() < 0.25:
                rhs = ("bin", "add", rhs, ("assign", "add", acc, I(1)))
        if t == FLOAT and op == "pow":
            rhs = ("f", 2.0)
        stmts.append(("assign", "add", V("log"), ("array", [("assign", op, acc, rhs)])))
    final = ("tuple", [D(V("log"))] + [D(c) for c, _ in cells] + [c for c, _ in cells[:2]])
    return stmts + [final]


def repl_histories(res, rnd, n, broken_model):
    """the same histories fed one statement at a time to ONE interpreter (REPL route): a failing update
    ends that input only, so the cells can be observed afterwards — implementation vs. Spec"""
    hl, ml, metas = [], [], []
    for _ in range(n):
        stmts = history(rnd, rnd.randint(3, 16))[:-1]
        # make failures likely: sprinkle failing compound updates on int cells
        names = sorted({s[1] for s in stmts if s[0] in ("set", "fndecl")})
        cells = [s[1] for s in stmts if s[0] == "set" and s[2][0] == "mut" and s[2][1] == INT]
        extra = []
        for c in cells[:2]:
            op, bad = rnd.choice([("div", 0), ("mod", 0), ("shl", 64), ("shr", -1), ("pow", -1)])
            extra += [("assign", op, V(c), I(bad)), D(V(c)), ("assign", "add", V(c), I(1))]
        stmts = stmts + extra
        hl.append("repl\tstd\t%s\t%s" % (",".join(names), "\t".join(esc_field(A.src(s)) for s in stmts)))
        ml.append("repl std 4000 (%s) %s" % (" ".join(names), " ".join("(" + A.sx(s) + ")" for s in stmts)))
        metas.append(stmts)
    impl = harness_run(hl)
    model = driver_run(ml) if not broken_model else ["(no-model)"] * len(ml)
    res.streams["repl-histories"] = dict(histories=len(hl))
    for stmts, il, mo in zip(metas, impl, model):
        res.evaluations += 1
        a, b = sexp_parse(il), sexp_parse(mo)
        srcs = [A.src(s) for s in stmts]
        if not (isinstance(a, list) and a and a[0] == "repl"):
            res.violation("REPL history crashed: %s" % il[:200], dict(inputs=srcs, impl=il), dict(oracle="repl-crash"))
            continue
        if any(isinstance(st, list) and sexp_str(st[1]).startswith(("(panic", "(parse-panic")) for st in a[1:]):
            k = next(i for i, st in enumerate(a[1:]) if sexp_str(st[1]).startswith(("(panic", "(parse-panic")))
            res.violation("REPL history panics at input %d `%s` of %s: %s" % (k, srcs[k], srcs[:k], sexp_str(a[1 + k][1])),
                          dict(inputs=srcs, impl=il, model=mo), dict(oracle="panic", root="repl-history"))
            continue
        res.nontrivial.add(tuple(srcs))
        if broken_model or not (isinstance(b, list) and b and b[0] == "repl"):
            continue
        na, nb = sexp_str(P.mask_junk(a)), sexp_str(P.mask_junk(b))
        if "(rejected" in na:
            res.count("repl-histories:some-input-rejected")
            continue
        if na != nb:
            k = next((i for i, (x, y) in enumerate(zip(a[1:], b[1:])) if sexp_str(P.mask_junk(x)) != sexp_str(P.mask_junk(y))), 0)
            res.violation("REPL history differs from Spec at input %d `%s` (after %s): impl %s, Spec %s" %
                          (k, srcs[k] if k < len(srcs) else "?", srcs[:k][-4:], sexp_str(a[1 + k])[:300], sexp_str(b[1 + k])[:300]),
                          dict(inputs=srcs, impl=il, model=mo), dict(oracle="spec-diff", cls="repl-history"))
        else:
            res.traces_validated += 1
            res.count("repl-histories:agree")


def templates():
    T = []
    LOG = ("set", "log", ("mut", arr(ANY), ("array", [])))
    # mut evaluated in a loop / in a function gives a fresh cell each time
    T.append([LOG, ("fndecl", "mk", [], cell(INT), [("return", ("mut", INT, I(0)))]),
              ("set", "a", ("call", V("mk"), [])), ("set", "b", ("call", V("mk"), [])), ("assign", "set", V("a"), I(5)),
              ("tuple", [D(V("a")), D(V("b")), ("bin", "eq", V("a"), V("b")), ("bin", "eq", V("a"), V("a"))])])
    T.append([LOG, ("set", "cs", ("mut", arr(cell(INT)), ("array", []))),
              ("for", "k", ("post", "iter", ("array", [I(1), I(2), I(3)])), ("block", [("assign", "add", V("cs"), ("array", [("mut", INT, V("k"))]))])),
              ("assign", "set", ("at", D(V("cs")), I(0)), I(100)), D(V("cs"))])
    # cells created by the INFERRED form `mut e`: the cell's content type is the static type of `e` (possibly a
    # union), also when `e` folds to a constant of one member - a later assignment of another member is
    # well-typed and the cell must still hold a member of its type (the harness walks every reachable cell)
    F_ = ("f", 0.5)
    inferred = [
        [("set", "c", ("mut", None, ("at", ("array", [I(0), F_]), I(0)))), ("assign", "set", V("c"), ("f", 2.5)), ("tuple", [V("c"), D(V("c"))])],
        [("set", "init", ("array", [I(0), ("s", "a")])), ("set", "c", ("mut", None, ("at", V("init"), I(0)))), ("assign", "set", V("c"), ("s", "b")),
         ("tuple", [V("c"), D(V("c"))])],
        [("set", "c", ("mut", None, ("if", ("true",), ("block", [I(1)]), ("block", [("s", "s")])))), ("assign", "set", V("c"), ("s", "t")), ("tuple", [V("c"), D(V("c"))])],
        [("fndecl", "mk", [("v", multi(INT, FLOAT))], fn((), ANY),
          [("return", ("fn", [], ANY, [("set", "c", ("mut", None, V("v"))), ("assign", "set", V("c"), ("f", 2.5)), ("return", ("tuple", [V("c"), D(V("c"))]))]))]),
         ("call", ("call", V("mk"), [I(1)]), [])],
        [("set", "t", ("tuple", [I(1), ("s", "x")])), ("set", "c", ("mut", None, ("array", [("tacc", V("t"), 0)]))),
         ("assign", "add", V("c"), ("array", [I(2)])), ("tuple", [V("c"), D(V("c"))])],
    ]
    T += inferred
    # failing compound operators leave the cell unchanged (observed by continuing in the REPL-like sequence is not
    # possible after an error, so observe through a second program that does the same without the failing step)
    for op, bad in (("div", 0), ("mod", 0), ("shl", 64), ("shr", -1), ("pow", -2)):
        T.append([LOG, ("set", "c", ("mut", INT, I(7))), ("assign", op, V("c"), I(bad)), D(V("c"))])
    # cell of union type keeps a member of the union after any assignment sequence
    U = multi(INT, STR)
    T.append([LOG, ("set", "c", ("mut", U, I(1))), ("assign", "set", V("c"), ("s", "x")), ("set", "d", V("c")), ("assign", "set", V("d"), I(9)),
              ("tuple", [D(V("c")), V("c")])])
    # a `mut any` cell admits every value - also itself (a one-node cycle) and a structure holding it: `c = v` stores v
    # whatever v is, every alias reads it, and the assignment yields it
    T.append([LOG, ("set", "c", ("mut", ANY, I(0))), ("set", "y", ("assign", "set", V("c"), V("c"))),
              ("tuple", [("bin", "eq", D(V("c")), V("c")), ("bin", "eq", V("y"), V("c")), ("bin", "eq", D(V("c")), I(0))])])
    T.append([LOG, ("set", "c", ("mut", ANY, I(7))), ("set", "d", V("c")), ("assign", "set", V("c"), V("d")),
              ("tuple", [("bin", "eq", D(V("c")), V("c")), ("bin", "eq", D(V("d")), V("c")), ("bin", "eq", D(V("c")), I(7))])])
    T.append([LOG, ("set", "c", ("mut", ANY, I(7))), ("set", "a", ("array", [V("c"), ("mut", ANY, I(8))])),
              ("fndecl", "f", [("v", ANY)], ANY, [("return", ("assign", "set", ("at", V("a"), I(0)), V("v")))]),
              ("set", "y", ("call", V("f"), [V("c")])),
              ("tuple", [("bin", "eq", V("y"), V("c")), ("bin", "eq", D(V("c")), V("c")), ("bin", "eq", D(("at", V("a"), I(0))), V("c")),
                         ("bin", "eq", D(V("c")), I(7))])])
    T.append([LOG, ("set", "c", ("mut", ANY, I(1))), ("set", "e", ("mut", ANY, I(2))), ("assign", "set", V("c"), V("e")), ("assign", "set", V("e"), V("c")),
              ("tuple", [("bin", "eq", D(V("c")), V("e")), ("bin", "eq", D(V("e")), V("c")), ("bin", "eq", D(V("c")), V("c"))])])
    # captured cell stays shared, captured value does not
    T.append([LOG, ("set", "c", ("mut", INT, I(1))), ("fndecl", "get", [], INT, [("return", D(V("c")))]),
              ("fndecl", "put", [("v", INT)], INT, [("return", ("assign", "set", V("c"), V("v")))]),
              ("call", V("put"), [I(42)]), ("set", "c", ("mut", INT, I(-1))), ("tuple", [("call", V("get"), []), D(V("c"))])])
    return T


def run(res, tier, seed, broken_model):
    rnd = random.Random(seed)
    n = 400 if tier == "quick" else 12000
    progs = templates() + [history(rnd, rnd.randint(3, 30)) for _ in range(n)]
    recs = P.run_programs(progs, broken_model=broken_model)
    res.streams["histories"] = dict(programs=len(progs), templates=len(templates()))
    good = progprop.judge(res, recs, broken_model, label="cells")
    for r in good:
        # every cell reachable from the final value holds a member of its declared type (harness walk)
        if r.ivalue and not r.ivalue.startswith("(error") and "tags=0" in r.impl:
            res.violation("a cell reachable from the result holds a value outside its declared type: `%s` -> %s" % (r.src[:300], r.impl[:300]),
                          dict(program=r.src, flags=r.flags, impl=r.impl), dict(oracle="cell-content", root=progprop.root_of(r)))
    repl_histories(res, rnd, 120 if tier == "quick" else 3000, broken_model)
    from props import c02
    c02.negative_stream(res, rnd, tier, seed, "C13")
    errs = sum(1 for r in recs if r.ivalue and r.ivalue.startswith("(error"))
    res.count("histories-ending-in-documented-error", errs)
    for r in recs[len(templates()):len(templates()) + 3]:
        res.samples.append(dict(program=r.src[:500], impl=r.impl[:300], model=r.model[:200]))
    res.rule = ("random histories of 3..30 reads / assignments (all 12 operators, failing right-hand sides, right-hand sides that "
                "update the same cell) over 2..4 cells of 10 declared content types (incl. unions, any, arrays) aliased through names, "
                "arrays, structs, tuples, closures, cells of cells and parameters; every intermediate result is logged, all cells "
                "are read at the end; non-trivial = distinct accepted history compared with Spec")
