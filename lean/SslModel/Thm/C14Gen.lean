import SslModel.Thm.C14
/-!
# C14, unbounded: the grouping of ANY chain of binary operators

`Thm/C14.lean` decides the grouping of all operator pairs and triples over the regenerated tables.
This file proves, for the model of pest's Pratt loop and ANY table in which operators of one
precedence share one associativity, what the loop builds for an operand / binary-operator chain of
ANY length `p₀ o₁ p₁ o₂ … oₙ pₙ`:

* the tree reads back, left to right, as the token sequence (`parse_chain_flatten`), and
* at every node `l o r` of the tree: if `l` is itself a binary node with operator `o₁`, then `o₁`
  binds tighter than `o`, or equally tight and the level is left-associative; if `r` is a binary
  node with operator `o₂`, then `o₂` binds tighter than `o`, or equally tight and the level is
  right-associative (`parse_chain_grouping`) — a higher-precedence operator is never split by a
  lower one, and equal precedence groups by the documented associativity, at every depth.

`table_uniform` discharges the hypothesis for the table regenerated from `parser/src/lib.rs`.
-/
set_option linter.unusedSimpArgs false
set_option linter.unusedVariables false
namespace Ssl.C14
open Ssl.Pratt

/-- precedence and right-associativity of an infix operator token -/
def infixPrec (T : Table) (t : Tok) : Option (Nat × Bool) :=
  match T.get t.rule with
  | some (.infixL, p) => some (p, false)
  | some (.infixR, p) => some (p, true)
  | _ => none

def isPrim (T : Table) (t : Tok) : Bool := (T.get t.rule).isNone

mutual
/-- `p (o p)*` -/
def altP (T : Table) : List Tok → Bool
  | [] => false
  | t :: rest => isPrim T t && altO T rest
/-- `(o p)*` -/
def altO (T : Table) : List Tok → Bool
  | [] => true
  | t :: rest => (infixPrec T t).isSome && altP T rest
end

def flatten : Tree → List Tok
  | .prim t => [t]
  | .pre o r => o :: flatten r
  | .post l o => flatten l ++ [o]
  | .bin l o r => flatten l ++ o :: flatten r

def rootOp : Tree → Option Tok
  | .bin _ o _ => some o
  | _ => none

/-- the left operand `l` may stand under `o`: its operator binds tighter, or equally and the level is left-associative -/
def leftOk (T : Table) (l : Tree) (o : Tok) : Prop :=
  ∀ o1 p ra p1 ra1, rootOp l = some o1 → infixPrec T o = some (p, ra) → infixPrec T o1 = some (p1, ra1) →
    p < p1 ∨ (p1 = p ∧ ra = false)

/-- the right operand `r` may stand under `o`: its operator binds tighter, or equally and the level is right-associative -/
def rightOk (T : Table) (o : Tok) (r : Tree) : Prop :=
  ∀ o2 p ra p2 ra2, rootOp r = some o2 → infixPrec T o = some (p, ra) → infixPrec T o2 = some (p2, ra2) →
    p < p2 ∨ (p2 = p ∧ ra = true)

/-- precedence-correct at every node -/
def PC (T : Table) : Tree → Prop
  | .prim _ => True
  | .pre _ r => PC T r
  | .post l _ => PC T l
  | .bin l o r => PC T l ∧ PC T r ∧ leftOk T l o ∧ rightOk T o r

/-- operators of one precedence share one associativity, and precedences are positive -/
structure Uniform (T : Table) : Prop where
  assoc : ∀ o1 o2 p ra1 ra2, infixPrec T o1 = some (p, ra1) → infixPrec T o2 = some (p, ra2) → ra1 = ra2
  pos : ∀ o p ra, infixPrec T o = some (p, ra) → 0 < p

/-- the binding power an operator passes to the parse of its right operand -/
def rbpOf (p : Nat) (ra : Bool) : Nat := if ra then p - 1 else p

/-- the next token, if any, is an operator that does not bind tighter than `rbp` -/
def StopsAt (T : Table) (rest : List Tok) (rbp : Nat) : Prop :=
  ∀ o rest', rest = o :: rest' → ∀ p ra, infixPrec T o = some (p, ra) → p ≤ rbp

/-- the root operator, if any, binds tighter than `rbp` -/
def RootAbove (T : Table) (t : Tree) (rbp : Nat) : Prop :=
  ∀ o p ra, rootOp t = some o → infixPrec T o = some (p, ra) → rbp < p

/-- what `loop` needs of the tree built so far: the next operator does not bind tighter than the
    root operator allowed (`≤ p₁` after a left-associative root, `< p₁` after a right-associative one) -/
def Accepts (T : Table) (lhs : Tree) (toks : List Tok) : Prop :=
  ∀ o1 p1 ra1, rootOp lhs = some o1 → infixPrec T o1 = some (p1, ra1) → StopsAt T toks (rbpOf p1 ra1)

theorem infixPrec_get {T : Table} {t : Tok} {p : Nat} {ra : Bool} (h : infixPrec T t = some (p, ra)) :
    T.get t.rule = some (if ra then .infixR else .infixL, p) := by
  unfold infixPrec at h
  split at h
  · simp only [Option.some.injEq, Prod.mk.injEq] at h; obtain ⟨rfl, rfl⟩ := h; simp [*]
  · simp only [Option.some.injEq, Prod.mk.injEq] at h; obtain ⟨rfl, rfl⟩ := h; simp [*]
  · simp at h

structure Inv (T : Table) (f : Nat) : Prop where
  expr : ∀ toks rbp t rest, altP T toks = true → Pratt.expr T f toks rbp = .ok (t, rest) →
    flatten t ++ rest = toks ∧ PC T t ∧ altO T rest = true ∧ StopsAt T rest rbp ∧ RootAbove T t rbp
  loop : ∀ lhs toks rbp t rest, altO T toks = true → PC T lhs → Accepts T lhs toks →
    Pratt.loop T f lhs toks rbp = .ok (t, rest) →
    flatten t ++ rest = flatten lhs ++ toks ∧ PC T t ∧ altO T rest = true ∧ StopsAt T rest rbp ∧
      (t = lhs ∨ RootAbove T t rbp)

theorem inv_zero (T : Table) : Inv T 0 := by
  constructor <;> intros <;> simp_all [Pratt.expr, Pratt.loop]

theorem inv_succ (T : Table) (hu : Uniform T) (f : Nat) (ih : Inv T f) : Inv T (f + 1) := by
  constructor
  · -- expr: a primary, then the loop
    intro toks rbp t rest ha h
    simp only [Pratt.expr] at h
    cases f with
    | zero => simp [Pratt.nud] at h
    | succ f' =>
      cases toks with
      | nil => simp [altP] at ha
      | cons p0 rest0 =>
        simp only [altP, Bool.and_eq_true, isPrim, Option.isNone_iff_eq_none] at ha
        simp only [Pratt.nud, ha.1] at h
        have hl := ih.loop (.prim p0) rest0 rbp t rest ha.2 trivial
          (by intro o1 p1 ra1 hr; simp [rootOp] at hr) h
        obtain ⟨h1, h2, h3, h4, h5⟩ := hl
        refine ⟨by simpa [flatten] using h1, h2, h3, h4, ?_⟩
        rcases h5 with rfl | h5
        · intro o p ra hr; simp [rootOp] at hr
        · exact h5
  · -- loop
    intro lhs toks rbp t rest ha hpc hacc h
    cases toks with
    | nil =>
      simp only [Pratt.loop, Res.ok.injEq, Prod.mk.injEq] at h
      obtain ⟨rfl, rfl⟩ := h
      exact ⟨rfl, hpc, rfl, (by unfold StopsAt; intro o r' hr; cases hr), Or.inl rfl⟩
    | cons o rest0 =>
      simp only [altO, Bool.and_eq_true, Option.isSome_iff_exists] at ha
      obtain ⟨⟨⟨p, ra⟩, hip⟩, hrest0⟩ := ha
      have hget := infixPrec_get hip
      simp only [Pratt.loop, hget] at h
      by_cases hlt : rbp < p
      · simp only [hlt, if_true] at h
        -- the right operand is parsed with the binding power of `o`
        have key : ∀ rhs rest', Pratt.expr T f rest0 (rbpOf p ra) = .ok (rhs, rest') →
            Pratt.loop T f (.bin lhs o rhs) rest' rbp = .ok (t, rest) →
            flatten t ++ rest = flatten lhs ++ o :: rest0 ∧ PC T t ∧ altO T rest = true ∧ StopsAt T rest rbp ∧
              (t = lhs ∨ RootAbove T t rbp) := by
          intro rhs rest' he hl
          obtain ⟨e1, e2, e3, e4, e5⟩ := ih.expr rest0 (rbpOf p ra) rhs rest' hrest0 he
          have hpc' : PC T (.bin lhs o rhs) := by
            refine ⟨hpc, e2, ?_, ?_⟩
            · intro o1 p' ra' p1 ra1 hr hio hio1
              rw [hip] at hio; cases hio
              have hs := hacc o1 p1 ra1 hr hio1 o rest0 rfl p ra hip
              cases ra1 with
              | true =>
                simp only [rbpOf, if_true] at hs
                have := hu.pos o1 p1 true hio1
                left; omega
              | false =>
                simp only [rbpOf] at hs
                by_cases heq : p1 = p
                · subst heq
                  right; exact ⟨rfl, hu.assoc o o1 p1 ra false hip hio1⟩
                · left; simp at hs; omega
            · intro o2 p' ra' p2 ra2 hr hio hio2
              rw [hip] at hio; cases hio
              have hs := e5 o2 p2 ra2 hr hio2
              cases ra with
              | true =>
                simp only [rbpOf, if_true] at hs
                by_cases heq : p2 = p
                · right; exact ⟨heq, rfl⟩
                · left; omega
              | false =>
                simp only [rbpOf] at hs
                left; simpa using hs
          have hacc' : Accepts T (.bin lhs o rhs) rest' := by
            intro o1 p1 ra1 hr hio1
            simp only [rootOp, Option.some.injEq] at hr; subst hr
            rw [hip] at hio1; cases hio1
            exact e4
          obtain ⟨l1, l2, l3, l4, l5⟩ := ih.loop (.bin lhs o rhs) rest' rbp t rest e3 hpc' hacc' hl
          refine ⟨?_, l2, l3, l4, Or.inr ?_⟩
          · rw [l1, ← e1]; simp [flatten]
          · rcases l5 with rfl | l5
            · intro o' p' ra' hr hio'
              simp only [rootOp, Option.some.injEq] at hr; subst hr
              rw [hip] at hio'; cases hio'; exact hlt
            · exact l5
        cases ra with
        | false =>
          simp only [if_false, Bool.false_eq_true] at h
          cases he : Pratt.expr T f rest0 p with
          | ok pr =>
            obtain ⟨rhs, rest'⟩ := pr
            rw [he] at h
            exact key rhs rest' (by simpa [rbpOf] using he) h
          | _ => rw [he] at h; cases h
        | true =>
          simp only [if_true] at h
          cases he : Pratt.expr T f rest0 (p - 1) with
          | ok pr =>
            obtain ⟨rhs, rest'⟩ := pr
            rw [he] at h
            exact key rhs rest' (by simpa [rbpOf] using he) h
          | _ => rw [he] at h; cases h
      · simp only [hlt, if_false] at h
        simp only [Res.ok.injEq, Prod.mk.injEq] at h
        obtain ⟨rfl, rfl⟩ := h
        refine ⟨rfl, hpc, ?_, ?_, Or.inl rfl⟩
        · simp only [altO, Bool.and_eq_true, Option.isSome_iff_exists]
          exact ⟨⟨(p, ra), hip⟩, hrest0⟩
        · intro o' r' hr p' ra' hio'
          cases hr
          rw [hip] at hio'; cases hio'
          omega

theorem inv_all (T : Table) (hu : Uniform T) : ∀ f, Inv T f
  | 0 => inv_zero T
  | f + 1 => inv_succ T hu f (inv_all T hu f)

/-- ANY operand / binary-operator chain: what the Pratt loop answers reads back as the chain -/
theorem parse_chain_flatten (T : Table) (hu : Uniform T) (toks : List Tok) (t : Tree)
    (ha : altP T toks = true) (h : Pratt.parse T toks = .ok t) : flatten t = toks := by
  unfold Pratt.parse at h
  cases he : Pratt.expr T (3 * toks.length + 3) toks 0 with
  | ok pr =>
    obtain ⟨t', rest⟩ := pr
    rw [he] at h
    simp only [Res.ok.injEq] at h; subst h
    obtain ⟨h1, _, h3, h4, _⟩ := (inv_all T hu _).expr toks 0 t' rest ha he
    -- nothing is left over: a remaining operator would have to bind no tighter than 0
    cases rest with
    | nil => simpa using h1
    | cons o r =>
      exfalso
      simp only [altO, Bool.and_eq_true, Option.isSome_iff_exists] at h3
      obtain ⟨⟨⟨p, ra⟩, hip⟩, _⟩ := h3
      have := h4 o r rfl p ra hip
      have := hu.pos o p ra hip
      omega
  | _ => rw [he] at h; cases h

/-- … and at every node a tighter (or equally tight, correctly associated) operator stands below a looser one -/
theorem parse_chain_grouping (T : Table) (hu : Uniform T) (toks : List Tok) (t : Tree)
    (ha : altP T toks = true) (h : Pratt.parse T toks = .ok t) : PC T t := by
  unfold Pratt.parse at h
  cases he : Pratt.expr T (3 * toks.length + 3) toks 0 with
  | ok pr =>
    obtain ⟨t', rest⟩ := pr
    rw [he] at h
    simp only [Res.ok.injEq] at h; subst h
    exact ((inv_all T hu _).expr toks 0 t' rest ha he).2.1
  | _ => rw [he] at h; cases h

/-- the table regenerated from `parser/src/lib.rs` satisfies the hypothesis -/
def uniformB (T : Table) : Bool :=
  T.all (fun (_, a1, p1) => (a1 == .infixL || a1 == .infixR) → (0 < p1 &&
    T.all (fun (_, a2, p2) => (a2 == .infixL || a2 == .infixR) → p1 == p2 → a1 == a2)))

theorem lookup_mem {α} (r : String) : ∀ (l : List (String × α)) (v : α), List.lookup r l = some v → (r, v) ∈ l
  | [], v, h => by simp [List.lookup] at h
  | (k, w) :: l, v, h => by
    simp only [List.lookup] at h
    split at h
    · next heq =>
      simp only [Option.some.injEq] at h; subst h
      have : r = k := by simpa using heq
      subst this; exact List.mem_cons_self
    · exact List.mem_cons_of_mem _ (lookup_mem r l v h)

theorem infixPrec_mem {T : Table} {o : Tok} {p : Nat} {ra : Bool} (h : infixPrec T o = some (p, ra)) :
    (o.rule, (if ra then Affix.infixR else Affix.infixL), p) ∈ T :=
  lookup_mem o.rule T _ (infixPrec_get h)

theorem uniform_of_uniformB (T : Table) (h : uniformB T = true) : Uniform T := by
  unfold uniformB at h
  rw [List.all_eq_true] at h
  constructor
  · intro o1 o2 p ra1 ra2 h1 h2
    have m1 := h _ (infixPrec_mem h1)
    have m2 := infixPrec_mem h2
    cases ra1 <;> cases ra2 <;> simp at m1 <;> first | rfl | (have := m1.2 _ _ _ m2; simp at this)
  · intro o p ra h1
    have m1 := h _ (infixPrec_mem h1)
    cases ra <;> simp at m1 <;> exact m1.1

/-- the hypothesis holds of the table regenerated from `parser/src/lib.rs` -/
theorem table_uniform : Uniform T := uniform_of_uniformB T (by decide)

/-! ## the loop terminates within the fuel `parse` gives it, and never reaches a `panic!` on a chain -/

theorem flatten_ne_nil : ∀ t : Tree, flatten t ≠ []
  | .prim _ => by simp [flatten]
  | .pre _ _ => by simp [flatten]
  | .post _ _ => by simp [flatten]
  | .bin _ _ _ => by simp [flatten]

/-- with fuel `2·n + 2` for `n` tokens both `expr` and `loop` answer -/
theorem total_aux (T : Table) (hu : Uniform T) : ∀ (n : Nat),
    (∀ toks rbp f, toks.length ≤ n → altP T toks = true → 2 * toks.length + 2 ≤ f →
      ∃ t rest, Pratt.expr T f toks rbp = .ok (t, rest)) ∧
    (∀ lhs toks rbp f, toks.length ≤ n → altO T toks = true → 2 * toks.length + 1 ≤ f →
      ∃ t rest, Pratt.loop T f lhs toks rbp = .ok (t, rest)) := by
  intro n
  induction n with
  | zero =>
    constructor
    · intro toks rbp f hl ha _
      have : toks = [] := by cases toks <;> simp_all
      subst this; simp [altP] at ha
    · intro lhs toks rbp f hl ha hf
      have : toks = [] := by cases toks <;> simp_all
      subst this
      obtain ⟨k, rfl⟩ : ∃ k, f = k + 1 := ⟨f - 1, by omega⟩
      exact ⟨lhs, [], by simp [Pratt.loop]⟩
  | succ n ih =>
    obtain ⟨ihe, ihl⟩ := ih
    have hloop : ∀ lhs toks rbp f, toks.length ≤ n + 1 → altO T toks = true → 2 * toks.length + 1 ≤ f →
        ∃ t rest, Pratt.loop T f lhs toks rbp = .ok (t, rest) := by
      intro lhs toks rbp f hl ha hf
      obtain ⟨k, rfl⟩ : ∃ k, f = k + 1 := ⟨f - 1, by omega⟩
      cases toks with
      | nil => exact ⟨lhs, [], by simp [Pratt.loop]⟩
      | cons o rest0 =>
        simp only [altO, Bool.and_eq_true, Option.isSome_iff_exists] at ha
        obtain ⟨⟨⟨p, ra⟩, hip⟩, hrest0⟩ := ha
        have hget := infixPrec_get hip
        simp only [List.length_cons] at hl hf
        by_cases hlt : rbp < p
        · -- the right operand, then the loop again on what is left
          obtain ⟨rhs, rest', he⟩ := ihe rest0 (rbpOf p ra) k (by omega) hrest0 (by omega)
          obtain ⟨e1, _, e3, _, _⟩ := (inv_all T hu k).expr rest0 (rbpOf p ra) rhs rest' hrest0 he
          have hlen : rest'.length + 1 ≤ rest0.length := by
            have := congrArg List.length e1
            simp only [List.length_append] at this
            have := List.length_pos_iff.mpr (flatten_ne_nil rhs)
            omega
          obtain ⟨t, rest, hl2⟩ := ihl (.bin lhs o rhs) rest' rbp k (by omega) e3 (by omega)
          refine ⟨t, rest, ?_⟩
          cases ra with
          | false =>
            have hget' : T.get o.rule = some (.infixL, p) := by simpa using hget
            have he' : Pratt.expr T k rest0 p = .ok (rhs, rest') := by simpa [rbpOf] using he
            simp only [Pratt.loop, hget', hlt, if_true, he', hl2]
          | true =>
            have hget' : T.get o.rule = some (.infixR, p) := by simpa using hget
            have he' : Pratt.expr T k rest0 (p - 1) = .ok (rhs, rest') := by simpa [rbpOf] using he
            simp only [Pratt.loop, hget', hlt, if_true, he', hl2]
        · exact ⟨lhs, o :: rest0, by simp only [Pratt.loop, hget, hlt, if_false]⟩
    refine ⟨?_, hloop⟩
    intro toks rbp f hl ha hf
    obtain ⟨k, rfl⟩ : ∃ k, f = k + 1 := ⟨f - 1, by omega⟩
    cases toks with
    | nil => simp [altP] at ha
    | cons p0 rest0 =>
      simp only [altP, Bool.and_eq_true, isPrim, Option.isNone_iff_eq_none] at ha
      simp only [List.length_cons] at hl hf
      obtain ⟨k', rfl⟩ : ∃ k', k = k' + 1 := ⟨k - 1, by omega⟩
      obtain ⟨t, rest, hl2⟩ := hloop (.prim p0) rest0 rbp (k' + 1) (by omega) ha.2 (by omega)
      exact ⟨t, rest, by simp only [Pratt.expr, Pratt.nud, ha.1, hl2]⟩

/-- on an operand / binary-operator chain of ANY length the Pratt loop does not panic and does not run out of the fuel
    `parse` gives it: it answers a tree, the tree reads back as the chain and is precedence-correct at every node -/
theorem parse_chain_total (T : Table) (hu : Uniform T) (toks : List Tok) (ha : altP T toks = true) :
    ∃ t, Pratt.parse T toks = .ok t ∧ flatten t = toks ∧ PC T t := by
  obtain ⟨t, rest, he⟩ := (total_aux T hu toks.length).1 toks 0 (3 * toks.length + 3) (Nat.le_refl _) ha (by omega)
  have hp : Pratt.parse T toks = .ok t := by simp only [Pratt.parse, he]
  exact ⟨t, hp, parse_chain_flatten T hu toks t ha hp, parse_chain_grouping T hu toks t ha hp⟩

/-- the unbounded statement for the parser's own table -/
theorem parser_chain_grouping (toks : List Tok) (ha : altP T toks = true) :
    ∃ t, Pratt.parse T toks = .ok t ∧ flatten t = toks ∧ PC T t :=
  parse_chain_total T table_uniform toks ha

/-- the premises are satisfiable by a chain of five operators on three levels, and the conclusion
    says what the documentation says about it -/
example : altP T [a, op "add", b, op "multiply", c, op "pow", d, op "pow", a, op "subtract", b, op "equal", c] = true := by decide

end Ssl.C14
