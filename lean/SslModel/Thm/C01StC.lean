import SslModel.Thm.C01StS
set_option linter.unusedSimpArgs false
set_option linter.unusedVariables false
set_option maxRecDepth 2000
namespace Ssl.CS
open Ssl Ssl.Ty Ssl.Val Ssl.Spec Ssl.Check Ssl.CheckF Ssl.CheckS Ssl.C01
variable {S : STy}

theorem outP_liftE {α} (lp : Bool) (ret : Option Ty) (S : STy) (P : STy → α → Prop) (r : Except Sig α) (σ : St) (hst : StoreOk S σ)
    (h : match r with | .ok a => P S a | .error s => ∃ e, s = .err e) : OutP lp ret S P (liftE r σ) := by
  cases r with
  | ok a => exact ⟨S, ext_refl S, hst, h⟩
  | error s => obtain ⟨e, rfl⟩ := h; simp [OutP, liftE, okSig]

theorem outP_ok {α} {lp : Bool} {ret : Option Ty} {S : STy} {P : STy → α → Prop} {r : Except Sig α × St} {a : α} {σ : St} (h : OutP lp ret S P r)
    (hr : r = (.ok a, σ)) : ∃ S', Ext S S' ∧ StoreOk S' σ ∧ P S' a := by
  subst hr; exact h


/-! ### cells -/

theorem cell_shape {x : Val} {c : Ty} (h : VT S (.cell c) x) :
    ∃ loc ty, x = .cell loc ty ∧ eqv ty c = true ∧ S[loc]? = some ty ∧ wf ty = true := by
  obtain ⟨hs, hg⟩ := h
  cases hg with
  | cell loc ty hl w => exact ⟨loc, ty, rfl, by simpa [asType, sub_cell] using hs, hl, w⟩
  | _ => simp [asType, sub, eqv] at hs

theorem storeOk_fresh {σ : St} (hst : StoreOk S σ) : StoreOk S { cells := σ.cells, nextId := σ.nextId + 1 } := ⟨hst.1, hst.2⟩

theorem storeOk_read {σ : St} (hst : StoreOk S σ) {loc : Nat} {ty : Ty} (hl : S[loc]? = some ty) :
    ∃ v, readCell loc σ = (.ok v, σ) ∧ VT S ty v := by
  obtain ⟨v, hv, hvt⟩ := hst.2.1 loc ty hl
  exact ⟨v, by simp [readCell, hv], hvt⟩

theorem storeOk_write {σ : St} (hst : StoreOk S σ) {loc : Nat} {ty : Ty} (hl : S[loc]? = some ty) {v : Val} (hv : VT S ty v) :
    ∃ σ', writeCell loc v σ = (.ok (), σ') ∧ StoreOk S σ' := by
  have hlt : loc < σ.cells.size := by rw [hst.1]; exact (List.getElem?_eq_some_iff.mp hl).1
  refine ⟨{ σ with cells := σ.cells.set! loc v }, by simp [writeCell, hlt], ?_, ?_, hst.2.2⟩
  · simp [hst.1]
  · intro l t hlt2
    by_cases e : loc = l
    · subst e
      rw [hl] at hlt2
      cases hlt2
      exact ⟨v, by simp [hlt], hv⟩
    · obtain ⟨w, hw, hwt⟩ := hst.2.1 l t hlt2
      exact ⟨w, by simp [Array.getElem?_setIfInBounds, e, hw], hwt⟩

theorem storeOk_new {σ : St} (hst : StoreOk S σ) (ty : Ty) (wty : wf ty = true) {v : Val} (hv : VT S ty v) :
    ∃ σ', newCell ty v σ = (.ok (.cell S.length ty), σ') ∧ StoreOk (S ++ [ty]) σ' ∧ VT (S ++ [ty]) (.cell ty) (.cell S.length ty) := by
  have hle : Ext S (S ++ [ty]) := ⟨[ty], rfl⟩
  refine ⟨{ σ with cells := σ.cells.push v }, by simp [newCell, hst.1], ⟨by simp [hst.1], ?_, ?_⟩, ?_⟩
  · intro l t hlt
    by_cases e : l < S.length
    · rw [List.getElem?_append_left e] at hlt
      obtain ⟨w, hw, hwt⟩ := hst.2.1 l t hlt
      refine ⟨w, ?_, vt_mono hle hwt⟩
      have : l < σ.cells.size := by rw [hst.1]; exact e
      simp [Array.getElem?_push, hw]
      intro h; omega
    · have hl2 := (List.getElem?_eq_some_iff.mp hlt).1
      simp at hl2
      have e2 : l = S.length := by omega
      subst e2
      simp at hlt
      subst hlt
      exact ⟨v, by rw [← hst.1]; simp, vt_mono hle hv⟩
  · intro t ht
    rcases List.mem_append.mp ht with h | h
    · exact hst.2.2 t h
    · simp at h; subst h; exact wty
  · refine ⟨by simp only [asType, sub_cell]; exact eqv_refl ty wty, Good.cell _ _ (by simp) wty⟩


/-- the result type of the non-`add` compound operators: the left type, or `int` with an `int` left operand -/
theorem binTy_compound (bop : BinOp) (l r rt : Ty) (h : binTy bop l r = .ok rt)
    (hb : bop = .sub ∨ bop = .mul ∨ bop = .div ∨ bop = .pow ∨ bop = .band ∨ bop = .bor ∨ bop = .bxor ∨ bop = .mod ∨ bop = .shl ∨ bop = .shr) :
    rt = l ∨ (rt = .int ∧ sub l .int = true) := by
  rcases hb with rfl | rfl | rfl | rfl | rfl | rfl | rfl | rfl | rfl | rfl <;> simp only [binTy] at h <;> split at h
  all_goals first
    | exact Or.inl (okW_ok h).1
    | (rename_i hs; cases h; right; refine ⟨rfl, ?_⟩
       simp only [pairTy, accInt, C01.sub_tup, matchesL, Bool.and_eq_true] at hs; exact hs.1)
    | cases h

theorem assign_step (lp : Bool) (ret : Option Ty) (S : STy) (op : AssignOp) (loc : Nat) (ty cty tv T : Ty) (v : Val) (σ : St)
    (hst : StoreOk S σ) (hl : S[loc]? = some ty) (wty : wf ty = true) (wc : wf cty = true) (wtv : wf tv = true)
    (hsub1 : sub ty cty = true) (hsub2 : sub cty ty = true) (hv : VT S tv v)
    (h3 : (match assignBase op with
           | none => if sub tv cty then okW tv else .ill
           | some BinOp.add => (binTy .add cty tv).bind fun rt => if sub rt cty then okW cty else .ill
           | some bop => (binTy bop cty tv).bind fun _ => if sub (helperRet cty tv) cty then okW cty else .ill) = .ok T) :
    OutP lp ret S (fun S' r => VT S' T r)
      ((match assignBase op with
        | none => do writeCell loc v; pure v
        | some bop => do
          let cur ← readCell loc
          let r ← liftE (binScalar bop cur v)
          writeCell loc r
          pure r) σ) := by
  -- what the compound forms share: the operator's result is a value of the cell's content type
  have compound : ∀ (bop : BinOp) (rt : Ty), binTy bop cty tv = .ok rt → T = cty →
      (sub rt cty = true ∨ rt = cty ∨ (rt = .int ∧ sub cty .int = true)) →
      OutP lp ret S (fun S' r => VT S' T r) ((do
          let cur ← readCell loc
          let r ← liftE (binScalar bop cur v)
          writeCell loc r
          pure r : M Val) σ) := by
    intro bop rt hbin hT hrt
    subst hT
    obtain ⟨cur, hrd, hcur⟩ := storeOk_read hst hl
    have hcur2 : VT S T cur := vt_trans hcur wty wc hsub1
    apply outP_bind lp ret S (fun S' w => S' = S ∧ w = cur) _ _ _ σ (by rw [hrd]; exact ⟨S, ext_refl S, hst, rfl, rfl⟩)
    intro w σ1 S1 _ hst1 _ hw
    obtain ⟨rfl, rfl⟩ := hw
    have hob := out_bin ret bop T tv rt w v hcur2 hv wc wtv hbin
    have wrt : wf rt = true := binTy_wf bop T tv rt hbin
    apply outP_bind lp ret S1 (fun S' r => S' = S1 ∧ VT S1 T r) _ _ _ σ1
    · apply outP_liftE _ _ _ _ _ _ hst1
      cases hbs : binScalar bop w v with
      | error s => rw [hbs] at hob; exact hob
      | ok r =>
        rw [hbs] at hob
        refine ⟨rfl, ?_⟩
        rcases hrt with h | h | ⟨h1, h2⟩
        · exact vt_trans hob wrt wc h
        · subst h; exact hob
        · subst h1
          obtain ⟨k, rfl⟩ := vt_int (vt_trans hcur2 wc rfl h2)
          have : sub Ty.int T = true := by simpa [asType] using hcur2.1
          exact vt_trans hob rfl wc this
    · intro r σ2 S2 _ hst2 _ hr
      obtain ⟨rfl, hr⟩ := hr
      obtain ⟨σ3, hw, hst3⟩ := storeOk_write hst2 hl (vt_trans hr wc wty hsub2)
      apply outP_bind lp ret S2 (fun S' _ => S' = S2) _ _ _ σ2 (by rw [hw]; exact ⟨S2, ext_refl S2, hst3, rfl⟩)
      intro _ σ4 S4 _ hst4 _ h4
      subst h4
      exact outP_pure _ _ _ _ _ _ hst4 hr
  cases op <;> simp only [assignBase] at h3 ⊢
  case set =>
    split at h3
    · rename_i hs
      rw [(okW_ok h3).1]
      have hv2 : VT S ty v := vt_trans hv wtv wty (sub_trans tv cty ty wtv wc wty hs hsub2)
      obtain ⟨σ3, hw, hst3⟩ := storeOk_write hst hl hv2
      apply outP_bind lp ret S (fun S' _ => S' = S) _ _ _ σ (by rw [hw]; exact ⟨S, ext_refl S, hst3, rfl⟩)
      intro _ σ4 S4 _ hst4 _ h4
      subst h4
      exact outP_pure _ _ _ _ _ _ hst4 hv
    · cases h3
  case add =>
    obtain ⟨rt, hbin, h4⟩ := bind_ok h3
    split at h4
    · rename_i hs
      exact compound .add rt hbin (okW_ok h4).1 (Or.inl hs)
    · cases h4
  all_goals
    obtain ⟨rt, hbin, h4⟩ := bind_ok h3
    split at h4
    · exact compound _ rt hbin (okW_ok h4).1 (Or.inr (binTy_compound _ cty tv rt hbin (by simp)))
    · cases h4

theorem mem_asTypeL : ∀ (vs : List Val) (ty : Ty), ty ∈ asTypeL vs → ∃ v ∈ vs, v.asType = ty
  | [], ty, h => by simp [asTypeL] at h
  | v :: vs, ty, h => by
    simp only [asTypeL, List.mem_cons] at h
    rcases h with rfl | h
    · exact ⟨v, by simp, rfl⟩
    · obtain ⟨w, hw, e⟩ := mem_asTypeL vs ty h; exact ⟨w, by simp [hw], e⟩

theorem lookup_single (fr : Frame) (x : String) : Env.lookup [fr] x = frameLookup x fr := by
  simp only [Env.lookup]
  cases frameLookup x fr <;> rfl

theorem step_E (f : Nat) (hE : PE f) (hL : PL f) (hS : PS f) (hA : PA f) (hO : PO f) (hF : PF f) (hLp : PLp f) (hW : PW f) (hWS : PWS f) (hFo : PFo f) (hCol : PCol f) (hFd : PFd f) :
    PE (f + 1) := by
  intro lp ret S g env e T σ henv hg hr hst ht
  cases e with
  | litBool b => simp only [tyS] at ht; cases ht; simp only [eval]; exact outP_pure _ _ _ _ _ _ hst ⟨by simp [asType, sub, eqv], Good.bool _⟩
  | litInt i => simp only [tyS] at ht; cases ht; simp only [eval]; exact outP_pure _ _ _ _ _ _ hst ⟨by simp [asType, sub, eqv], Good.int _⟩
  | litFloat x => simp only [tyS] at ht; cases ht; simp only [eval]; exact outP_pure _ _ _ _ _ _ hst ⟨by simp [asType, sub, eqv], Good.float _⟩
  | litStr x => simp only [tyS] at ht; cases ht; simp only [eval]; exact outP_pure _ _ _ _ _ _ hst ⟨by simp [asType, sub, eqv], Good.str _⟩
  | litUnit => simp only [tyS] at ht; cases ht; simp only [eval]; exact outP_pure _ _ _ _ _ _ hst ⟨by simp [asType, sub, eqv], Good.unit⟩
  | var x =>
    simp only [tyS] at ht
    split at ht
    · rename_i t hl
      obtain ⟨rfl, _⟩ := okW_ok ht
      obtain ⟨w, hw, h1⟩ := henv x _ hl
      simp only [eval, hw]
      exact outP_pure _ _ _ _ _ _ hst h1
    · cases ht
  | bin op a b =>
    simp only [tyS] at ht
    obtain ⟨ta, hta, h2⟩ := bind_ok ht
    obtain ⟨tb, htb, h3⟩ := bind_ok h2
    by_cases hop : C07.isScalarOp op = true
    · have ha := hE lp ret S g env a ta σ henv hg hr hst hta
      rw [C07.bin_left_then_right f env op a b σ hop]
      cases hea : eval f env a σ with
      | mk ra σ1 =>
        rw [hea] at ha
        cases ra with
        | error e => simpa [OutP] using ha
        | ok x =>
          simp only []
          obtain ⟨S1, hle1, hst1, hx⟩ := ha
          have hb := hE lp ret S1 g env b tb σ1 (envOk_mono hle1 henv) hg hr hst1 htb
          cases heb : eval f env b σ1 with
          | mk rb σ2 =>
            rw [heb] at hb
            cases rb with
            | error e => exact okSig_weaken hle1 (by simpa [OutP] using hb)
            | ok y =>
              simp only []
              obtain ⟨S2, hle2, hst2, hy⟩ := hb
              have := out_bin ret op ta tb T x y (vt_mono hle2 hx) hy (tyS_wf lp ret g a ta hta) (tyS_wf lp ret g b tb htb) h3
              unfold OutP
              simp only []
              cases hbs : binScalar op x y with
              | ok v => rw [hbs] at this; exact ⟨S2, ext_trans hle1 hle2, hst2, this⟩
              | error s => rw [hbs] at this; obtain ⟨e, rfl⟩ := this; simp [okSig]
    · cases op <;> simp [C07.isScalarOp] at hop <;> (simp only [binTy] at h3; cases h3)
  | pre op a =>
    cases op with
    | deref =>
      simp only [tyS] at ht
      obtain ⟨ta, hta, h2⟩ := bind_ok ht
      have wta := tyS_wf lp ret g a ta hta
      simp only [eval]
      apply outP_bind lp ret S (fun S' v => VT S' ta v) _ _ _ σ (hE lp ret S g env a ta σ henv hg hr hst hta)
      intro x σ1 S hle hst _ hx
      replace henv := envOk_mono hle henv
      cases ta with
      | cell c =>
        simp only [] at h2
        have wc : wf c = true := by simpa [wf] using wta
        rw [(okW_ok h2).1]
        obtain ⟨loc, ty, rfl, hev, hl, wty⟩ := cell_shape hx
        obtain ⟨v, hrd, hv⟩ := storeOk_read hst hl
        simp only []
        rw [hrd]
        exact ⟨S, ext_refl S, hst, vt_trans hv wty wc (sub_of_eqv ty c wty wc hev)⟩
      | multi ms =>
        simp only [] at h2
        split at h2
        · cases h2
        · split at h2
          · rename_i T0 hq
            rw [(okW_ok h2).1]
            obtain ⟨m, hm, hxm⟩ := vt_member hx
            have wl := wfL_of_multi wta
            have wm := wfL_memU wl hm
            obtain ⟨wT, hmem⟩ := mutElementType_upper ms T0 wl hq
            obtain ⟨tm, hbm, hsub⟩ := hmem m hm
            cases m with
            | cell c =>
              simp only [baseCell, Option.some.injEq] at hbm
              subst hbm
              have wc : wf c = true := by simpa [wf] using wm
              obtain ⟨loc, ty, rfl, hev, hl, wty⟩ := cell_shape hxm
              obtain ⟨v, hrd, hv⟩ := storeOk_read hst hl
              simp only []
              rw [hrd]
              exact ⟨S, ext_refl S, hst, vt_trans (vt_trans hv wty wc (sub_of_eqv ty c wty wc hev)) wc wT hsub⟩
            | _ => simp [baseCell] at hbm
          · cases h2
      | _ => simp only [] at h2; cases h2
    | not =>
      simp only [tyS] at ht
      obtain ⟨ta, hta, h2⟩ := bind_ok ht
      split at h2
      · rename_i hs
        have wta := tyS_wf lp ret g a ta hta
        rw [(okW_ok h2).1]
        simp only [eval]
        apply outP_bind lp ret S (fun S' v => VT S' ta v) _ _ _ σ (hE lp ret S g env a ta σ henv hg hr hst hta)
        intro x σ1 S hle hst _ hx
        replace henv := envOk_mono hle henv
        have hm := matches_sound x ta accNot (good_okv hx.2) wta (by simp [accNot, wf, wfL, membersOk, nodupL, memL, eqv]) hs (vt_contents hx wta)
        simp only [accNot, hasTy_multi, hasTyAny, Bool.or_eq_true, Bool.or_false] at hm
        apply outP_liftE _ _ _ _ _ _ hst
        rcases hm with hm | hm
        · obtain ⟨k, rfl⟩ := int_of_hasTy hm
          simp only [preScalar]
          exact ⟨by rw [sameKind_asType (b := .int k) rfl]; exact hx.1, Good.int _⟩
        · obtain ⟨k, rfl⟩ := bool_of_hasTy hm
          simp only [preScalar]
          exact ⟨by rw [sameKind_asType (b := .bool k) rfl]; exact hx.1, Good.bool _⟩
      · cases h2
    | neg =>
      simp only [tyS] at ht
      obtain ⟨ta, hta, h2⟩ := bind_ok ht
      split at h2
      · rename_i hs
        have wta := tyS_wf lp ret g a ta hta
        rw [(okW_ok h2).1]
        simp only [eval]
        apply outP_bind lp ret S (fun S' v => VT S' ta v) _ _ _ σ (hE lp ret S g env a ta σ henv hg hr hst hta)
        intro x σ1 S hle hst _ hx
        replace henv := envOk_mono hle henv
        have hm := matches_sound x ta accNeg (good_okv hx.2) wta (by simp [accNeg, wf, wfL, membersOk, nodupL, memL, eqv]) hs (vt_contents hx wta)
        simp only [accNeg, hasTy_multi, hasTyAny, Bool.or_eq_true, Bool.or_false] at hm
        apply outP_liftE _ _ _ _ _ _ hst
        rcases hm with hm | hm
        · obtain ⟨k, rfl⟩ := int_of_hasTy hm
          simp only [preScalar]
          exact ⟨by rw [sameKind_asType (b := .int k) rfl]; exact hx.1, Good.int _⟩
        · obtain ⟨k, rfl⟩ := float_of_hasTy hm
          simp only [preScalar]
          exact ⟨by rw [sameKind_asType (b := .float k) rfl]; exact hx.1, Good.float _⟩
      · cases h2
  | and a b =>
    simp only [tyS] at ht
    obtain ⟨ta, hta, h2⟩ := bind_ok ht
    obtain ⟨tb, htb, h3⟩ := bind_ok h2
    split at h3
    · rename_i hb
      cases h3
      simp only [Bool.and_eq_true] at hb
      have e1 := eq_of_eqv_bool hb.1
      have e2 := eq_of_eqv_bool hb.2
      subst e1 e2
      simp only [eval]
      apply outP_bind lp ret S (fun S' v => VT S' .bool v) _ _ _ σ (hE lp ret S g env a .bool σ henv hg hr hst hta)
      intro x σ1 S hle hst _ hx
      replace henv := envOk_mono hle henv
      obtain ⟨k, rfl⟩ := vt_bool hx
      apply outP_bind lp ret S (fun _ k2 => k2 = k) _ _ _ σ1 (outP_liftE _ _ _ _ _ _ hst (by simp [asBool]))
      intro k2 σ2 S hle hst _ hk
      replace henv := envOk_mono hle henv
      subst hk
      cases k2
      · simp only [Bool.not_false, Bool.not_true, if_true, if_false, Bool.false_eq_true]
        exact outP_pure _ _ _ _ _ _ hst ⟨by simp [asType, sub, eqv], Good.bool _⟩
      · simp only [Bool.not_false, Bool.not_true, if_true, if_false, Bool.false_eq_true]
        exact hE lp ret S g env b .bool σ2 henv hg hr hst htb
    · cases h3
  | or a b =>
    simp only [tyS] at ht
    obtain ⟨ta, hta, h2⟩ := bind_ok ht
    obtain ⟨tb, htb, h3⟩ := bind_ok h2
    split at h3
    · rename_i hb
      cases h3
      simp only [Bool.and_eq_true] at hb
      have e1 := eq_of_eqv_bool hb.1
      have e2 := eq_of_eqv_bool hb.2
      subst e1 e2
      simp only [eval]
      apply outP_bind lp ret S (fun S' v => VT S' .bool v) _ _ _ σ (hE lp ret S g env a .bool σ henv hg hr hst hta)
      intro x σ1 S hle hst _ hx
      replace henv := envOk_mono hle henv
      obtain ⟨k, rfl⟩ := vt_bool hx
      apply outP_bind lp ret S (fun _ k2 => k2 = k) _ _ _ σ1 (outP_liftE _ _ _ _ _ _ hst (by simp [asBool]))
      intro k2 σ2 S hle hst _ hk
      replace henv := envOk_mono hle henv
      subst hk
      cases k2
      · simp only [Bool.not_false, Bool.not_true, if_true, if_false, Bool.false_eq_true]
        exact hE lp ret S g env b .bool σ2 henv hg hr hst htb
      · simp only [Bool.not_false, Bool.not_true, if_true, if_false, Bool.false_eq_true]
        exact outP_pure _ _ _ _ _ _ hst ⟨by simp [asType, sub, eqv], Good.bool _⟩
    · cases h3
  | array es =>
    simp only [tyS] at ht
    obtain ⟨ts, hts, h2⟩ := bind_ok ht
    rw [(okW_ok h2).1]
    simp only [eval]
    apply outP_bind lp ret S (fun S' v => ListOk S' ts v) _ _ _ σ (hL lp ret S g env es ts σ henv hg hr hst hts)
    intro vs σ1 S hle hst _ hvs
    replace henv := envOk_mono hle henv
    apply outP_pure _ _ _ _ _ _ hst
    refine ⟨?_, good_mkArray vs hvs.2⟩
    simp only [Val.mkArray, asType, C01.sub_arr]
    exact concatL_mono (asTypeL vs) ts (wfL_asTypeLG vs hvs.2) (tySList_wf lp ret g es ts hts) hvs.1
  | tuple es =>
    simp only [tyS] at ht
    split at ht
    · cases ht
    · obtain ⟨ts, hts, h2⟩ := bind_ok ht
      rw [(okW_ok h2).1]
      simp only [eval]
      apply outP_bind lp ret S (fun S' v => ListOk S' ts v) _ _ _ σ (hL lp ret S g env es ts σ henv hg hr hst hts)
      intro vs σ1 S hle hst _ hvs
      replace henv := envOk_mono hle henv
      apply outP_pure _ _ _ _ _ _ hst
      exact ⟨by simp only [asType, C01.sub_tup]; exact hvs.1, Good.tup vs hvs.2⟩
  | «at» a i =>
    simp only [tyS] at ht
    obtain ⟨ta, hta, h2⟩ := bind_ok ht
    obtain ⟨ti, hti, h3⟩ := bind_ok h2
    have wta := tyS_wf lp ret g a ta hta
    simp only [eval]
    apply outP_bind lp ret S (fun S' v => VT S' ta v) _ _ _ σ (hE lp ret S g env a ta σ henv hg hr hst hta)
    intro x σ1 S hle hst _ hx
    replace henv := envOk_mono hle henv
    apply outP_bind lp ret S (fun S' v => VT S' ti v) _ _ _ σ1 (hE lp ret S g env i ti σ1 henv hg hr hst hti)
    intro y σ2 S hle hst _ hy
    replace henv := envOk_mono hle henv
    replace hx := vt_mono hle hx
    split at h3
    · cases h3
    · rename_i hint
      have e1 := eq_of_eqv_int (by simpa using hint)
      subst e1
      obtain ⟨k, rfl⟩ := vt_int hy
      split at h3
      · rename_i e
        rw [(okW_ok h3).1]
        exact at_value lp ret x k _ e σ2 hst hx wta (Or.inl rfl)
      · cases h3
        exact at_value lp ret x k _ .str σ2 hst hx wta (Or.inr ⟨rfl, rfl⟩)
      · rename_i ms
        split at h3
        · cases h3
        · split at h3
          · rename_i T0 hq
            rw [(okW_ok h3).1]
            obtain ⟨m, hm, hxm⟩ := vt_member hx
            have wl := wfL_of_multi wta
            have wm := wfL_memU wl hm
            obtain ⟨wT, hmem⟩ := indexResult_upper ms T0 wl hq
            obtain ⟨tm, hbm, hsub⟩ := hmem m hm
            cases m with
            | arr e =>
              simp only [baseIndex, Option.some.injEq] at hbm
              subst hbm
              have we : wf e = true := by simpa [wf] using wm
              exact outP_mono _ _ _ _ _ _ (at_value lp ret x k (.arr e) e σ2 hst hxm wm (Or.inl rfl))
                (fun _ v _ hv => vt_trans hv we wT hsub)
            | str =>
              simp only [baseIndex, Option.some.injEq] at hbm
              subst hbm
              exact outP_mono _ _ _ _ _ _ (at_value lp ret x k .str .str σ2 hst hxm rfl (Or.inr ⟨rfl, rfl⟩))
                (fun _ v _ hv => vt_trans hv rfl wT hsub)
            | _ => simp [baseIndex] at hbm
          · cases h3
      all_goals cases h3
  | tacc a n =>
    simp only [tyS] at ht
    obtain ⟨ta, hta, h2⟩ := bind_ok ht
    have wta := tyS_wf lp ret g a ta hta
    simp only [eval]
    apply outP_bind lp ret S (fun S' v => VT S' ta v) _ _ _ σ (hE lp ret S g env a ta σ henv hg hr hst hta)
    intro x σ1 S hle hst _ hx
    replace henv := envOk_mono hle henv
    split at h2
    · rename_i ts
      split at h2
      · rename_i tx' htx
        rw [(okW_ok h2).1]
        obtain ⟨vs, w, rfl, hw, hvw⟩ := tacc_value hx htx
        simp only [hw]
        exact outP_pure _ _ _ _ _ _ hst hvw
      · cases h2
    · rename_i ms
      split at h2
      · cases h2
      · split at h2
        · split at h2
          · split at h2
            · rename_i T0 hq
              rw [(okW_ok h2).1]
              obtain ⟨m, hm, hxm⟩ := vt_member hx
              have wl := wfL_of_multi wta
              have wm := wfL_memU wl hm
              obtain ⟨wT, hmem⟩ := tupleElementAt_upper n ms T0 wl hq
              obtain ⟨tm, hbm, hsub⟩ := hmem m hm
              cases m with
              | tup es =>
                simp only [baseTupAt] at hbm
                have wes : wfL es = true := by simpa [wf] using wm
                obtain ⟨vs, w, rfl, hw, hvw⟩ := tacc_value hxm hbm
                simp only [hw]
                exact outP_pure _ _ _ _ _ _ hst (vt_trans hvw (wfL_memU wes (List.mem_of_getElem? hbm)) wT hsub)
              | _ => simp [baseTupAt] at hbm
            · cases h2
          · cases h2
        · cases h2
    all_goals cases h2
  | ifElse c t e =>
    simp only [tyS] at ht
    obtain ⟨tc, htc, h2⟩ := bind_ok ht
    split at h2
    · cases h2
    · rename_i hb
      obtain ⟨tt, htt, h3⟩ := bind_ok h2
      have wtt := tyS_wf lp ret g t tt htt
      simp only [eval]
      apply outP_bind lp ret S (fun S' v => VT S' tc v) _ _ _ σ (hE lp ret S g env c tc σ henv hg hr hst htc)
      intro x σ1 S hle hst _ hx
      replace henv := envOk_mono hle henv
      have hcond : tc = .bool := by
        simp only [Bool.not_eq_true', Bool.not_eq_false', Bool.or_eq_true] at hb
        have hb' : eqv tc .bool = true ∨ eqv tc .never = true := by
          cases h1 : eqv tc .bool <;> cases h2' : eqv tc .never <;> simp_all
        rcases hb' with h | h
        · exact eq_of_eqv_bool h
        · exfalso
          have := eq_never_of_eqv h
          subst this
          exact vt_never x hx
      subst hcond
      obtain ⟨k, rfl⟩ := vt_bool hx
      apply outP_bind lp ret S (fun _ k2 => k2 = k) _ _ _ σ1 (outP_liftE _ _ _ _ _ _ hst (by simp [asBool]))
      intro k2 σ2 S hle hst _ hk
      replace henv := envOk_mono hle henv
      subst hk
      cases e with
      | some e =>
        simp only [] at h3
        obtain ⟨te, hte, h4⟩ := bind_ok h3
        have wte := tyS_wf lp ret g e te hte
        have wC := (okW_ok h4).2
        rw [(okW_ok h4).1]
        obtain ⟨u1, u2⟩ := concat_upper tt te wtt wte
        cases k2
        · simp only [Bool.false_eq_true, if_false]
          exact outP_mono _ _ _ _ _ _ (hE lp ret S g env e te σ2 henv hg hr hst hte) (fun _ v _ hv => vt_trans hv wte wC u2)
        · simp only [if_true]
          exact outP_mono _ _ _ _ _ _ (hE lp ret S g env t tt σ2 henv hg hr hst htt) (fun _ v _ hv => vt_trans hv wtt wC u1)
      | none =>
        simp only [] at h3
        have wC := (okW_ok h3).2
        rw [(okW_ok h3).1]
        obtain ⟨u1, u2⟩ := concat_upper tt .void wtt rfl
        cases k2
        · simp only [Bool.false_eq_true, if_false]
          exact outP_pure _ _ _ _ _ _ hst ⟨by simpa [asType] using u2, Good.unit⟩
        · simp only [if_true]
          exact outP_mono _ _ _ _ _ _ (hE lp ret S g env t tt σ2 henv hg hr hst htt) (fun _ v _ hv => vt_trans hv wtt wC u1)
  | block body =>
    simp only [tyS] at ht
    obtain ⟨p, hp, h2⟩ := bind_ok ht
    obtain ⟨ts, g'⟩ := p
    simp only [] at h2
    rw [(okW_ok h2).1]
    simp only [eval]
    apply outP_bind lp ret S _ _ _ _ σ (hS lp ret S g g' ([] :: env) body ts σ (envOkG_push env g henv) hg hr hst hp)
    intro r σ1 S hle hst _ hr1
    replace henv := envOk_mono hle henv
    obtain ⟨w, env'⟩ := r
    exact outP_pure _ _ _ _ _ _ hst hr1.1
  | ifSet x ty e body els =>
    simp only [tyS] at ht
    split at ht
    · cases ht
    · rename_i hwty
      have wty : wf ty = true := by simpa using hwty
      obtain ⟨te, hte, h2⟩ := bind_ok ht
      obtain ⟨tb, htb, h3⟩ := bind_ok h2
      have wtb := tyS_wf _ _ _ body tb htb
      simp only [eval]
      apply outP_bind lp ret S (fun S' v => VT S' te v) _ _ _ σ (hE lp ret S g env e te σ henv hg hr hst hte)
      intro x0 σ1 S hle hst _ hx0
      replace henv := envOk_mono hle henv
      by_cases hm : Ty.sub x0.asType ty = true
      · simp only [hm, if_true]
        have hb := hE lp ret S ((x, ty) :: g) ([(x, x0)] :: env) body tb σ1 (envOkG_bind env g x x0 ty henv ⟨hm, hx0.2⟩) (gwf_cons g x ty hg wty) hr hst htb
        cases els with
        | some el =>
          simp only [] at h3
          obtain ⟨tl, htl, h4⟩ := bind_ok h3
          have wC := (okW_ok h4).2
          rw [(okW_ok h4).1]
          exact outP_mono _ _ _ _ _ _ hb (fun _ v _ hv => vt_trans hv wtb wC (concat_upper tb tl wtb (tyS_wf lp ret g el tl htl)).1)
        | none =>
          simp only [] at h3
          have wC := (okW_ok h3).2
          rw [(okW_ok h3).1]
          exact outP_mono _ _ _ _ _ _ hb (fun _ v _ hv => vt_trans hv wtb wC (concat_upper tb .void wtb rfl).1)
      · simp only [hm, Bool.false_eq_true, if_false]
        cases els with
        | some el =>
          simp only [] at h3 ⊢
          obtain ⟨tl, htl, h4⟩ := bind_ok h3
          have wC := (okW_ok h4).2
          have wtl := tyS_wf lp ret g el tl htl
          rw [(okW_ok h4).1]
          exact outP_mono _ _ _ _ _ _ (hE lp ret S g env el tl σ1 henv hg hr hst htl) (fun _ v _ hv => vt_trans hv wtl wC (concat_upper tb tl wtb wtl).2)
        | none =>
          simp only [] at h3 ⊢
          rw [(okW_ok h3).1]
          exact outP_pure _ _ _ _ _ _ hst ⟨by simpa [asType] using (concat_upper tb .void wtb rfl).2, Good.unit⟩
  | arrayRepeat a n =>
    simp only [tyS] at ht
    obtain ⟨tv, htv, h2⟩ := bind_ok ht
    obtain ⟨tn, htn, h3⟩ := bind_ok h2
    split at h3
    · cases h3
    · split at h3
      · cases h3
      · rename_i _ hint
        have e1 := eq_of_eqv_int (by simpa using hint)
        subst e1
        rw [(okW_ok h3).1]
        simp only [eval]
        apply outP_bind lp ret S (fun S' v => VT S' tv v) _ _ _ σ (hE lp ret S g env a tv σ henv hg hr hst htv)
        intro x σ1 S hle hst _ hx
        replace henv := envOk_mono hle henv
        apply outP_bind lp ret S (fun S' v => VT S' .int v) _ _ _ σ1 (hE lp ret S g env n .int σ1 henv hg hr hst htn)
        intro y σ2 S hle hst _ hy
        replace henv := envOk_mono hle henv
        replace hx := vt_mono hle hx
        obtain ⟨k, rfl⟩ := vt_int hy
        simp only []
        split
        · simp [OutP, throwS, okSig]
        · apply outP_pure _ _ _ _ _ _ hst
          refine ⟨by simp only [asType, C01.sub_arr]; exact hx.1, ?_⟩
          have wx := good_wf_tag hx.2
          exact Good.arr _ _ wx (fun z hz => by rw [List.eq_of_mem_replicate hz]; exact sub_refl _ wx)
            (fun z hz => by rw [List.eq_of_mem_replicate hz]; exact hx.2)
  | slice a st en sp =>
    simp only [tyS] at ht
    obtain ⟨ta, hta, h2⟩ := bind_ok ht
    obtain ⟨ts, hts, h3⟩ := bind_ok h2
    obtain ⟨te, hte, h4⟩ := bind_ok h3
    obtain ⟨tp, htp, h5⟩ := bind_ok h4
    have wta := tyS_wf lp ret g a ta hta
    simp only [eval]
    apply outP_bind lp ret S (fun S' v => VT S' ta v) _ _ _ σ (hE lp ret S g env a ta σ henv hg hr hst hta)
    intro x σ1 S hle hst _ hx
    replace henv := envOk_mono hle henv
    apply outP_bind lp ret S _ _ _ _ σ1 (hO lp ret S g env st ts σ1 henv hg hr hst hts)
    intro vs σ2 S hle hst _ r1
    replace henv := envOk_mono hle henv
    replace hx := vt_mono hle hx
    apply outP_bind lp ret S _ _ _ _ σ2 (hO lp ret S g env en te σ2 henv hg hr hst hte)
    intro ve σ3 S hle hst _ r2
    replace henv := envOk_mono hle henv
    replace hx := vt_mono hle hx
    replace r1 := optRel_mono hle r1
    apply outP_bind lp ret S _ _ _ _ σ3 (hO lp ret S g env sp tp σ3 henv hg hr hst htp)
    intro vp σ4 S hle hst _ r3
    replace henv := envOk_mono hle henv
    replace hx := vt_mono hle hx
    replace r1 := optRel_mono hle r1
    replace r2 := optRel_mono hle r2
    split at h5
    · cases h5
    · split at h5
      · cases h5
      · rename_i hci hb
        have hb' : boundOk ts = true ∧ boundOk te = true ∧ boundOk tp = true := by
          cases h1 : boundOk ts <;> cases h2 : boundOk te <;> cases h3 : boundOk tp <;> simp_all
        obtain ⟨i1, e1⟩ := optIdx_okG vs ts r1 hb'.1
        obtain ⟨i2, e2⟩ := optIdx_okG ve te r2 hb'.2.1
        obtain ⟨i3, e3⟩ := optIdx_okG vp tp r3 hb'.2.2
        cases ta with
        | arr e =>
          simp only [] at h5
          rw [(okW_ok h5).1]
          exact slice_value lp ret x _ vs ve vp i1 i2 i3 σ4 hst e1 e2 e3 hx wta (Or.inl ⟨e, rfl⟩)
        | str =>
          simp only [] at h5
          cases h5
          exact slice_value lp ret x _ vs ve vp i1 i2 i3 σ4 hst e1 e2 e3 hx wta (Or.inr rfl)
        | multi ms =>
          simp only [] at h5
          rw [(okW_ok h5).1]
          obtain ⟨m, hm, hxm⟩ := vt_member hx
          have wm := wfL_memU (wfL_of_multi wta) hm
          have hshape := canBeIndexed_member ms m hm wta (by simpa using hci)
          have hsm := member_sub_multi ms m hm wta
          exact outP_mono _ _ _ _ _ _ (slice_value lp ret x m vs ve vp i1 i2 i3 σ4 hst e1 e2 e3 hxm wm hshape)
            (fun _ v _ hv => vt_trans hv wm wta hsm)
        | _ => simp only [] at h5; cases h5
  | matchE e arms =>
    simp only [tyS] at ht
    obtain ⟨te, hte, h2⟩ := bind_ok ht
    obtain ⟨tys, htys, h3⟩ := bind_ok h2
    split at h3
    · cases h3
    · rename_i hcov
      have wC := (okW_ok h3).2
      rw [(okW_ok h3).1]
      simp only [eval]
      apply outP_bind lp ret S (fun S' v => VT S' te v) _ _ _ σ (hE lp ret S g env e te σ henv hg hr hst hte)
      intro v0 σ1 S hle hst _ hv0
      replace henv := envOk_mono hle henv
      obtain ⟨s1, s2⟩ := good_tag_shape hv0.2
      have hex := C12.coverage_sound (armKinds arms) v0.asType te (good_wf_tag hv0.2) (tyS_wf lp ret g e te hte)
        (armKindsS_wf lp ret g arms tys htys) s1 s2 hv0.1 (by simpa using hcov)
      have wts := tySArms_wf lp ret g arms tys htys
      exact outP_mono _ _ _ _ _ _ (hA lp ret S g env v0 arms tys σ1 henv hg hr hst hv0.2 htys hex)
        (fun _ r _ ⟨t, htm, hvt⟩ => vt_trans hvt (wfL_mem wts htm) wC (members_sub_concatL tys wts t htm))
  | fn ps rt body =>
    simp only [tyS] at ht
    split at ht
    · cases ht
    · rename_i hwf
      have hwf' : wfParams ps = true ∧ wf rt = true := by simpa using hwf
      obtain ⟨p, hp, h2⟩ := bind_ok ht
      obtain ⟨ts, g'⟩ := p
      simp only [] at h2
      split at h2
      · cases h2
      · rename_i hmr
        have wT := (okW_ok h2).2
        rw [(okW_ok h2).1]
        simp only [eval]
        apply outP_bind lp ret S (fun _ _ => True) _ _ _ σ (show OutP lp ret S (fun _ _ => True) (freshId σ) from ⟨S, ext_refl S, storeOk_fresh hst, trivial⟩)
        intro id σ1 S hle hst _ _
        replace henv := envOk_mono hle henv
        apply outP_pure _ _ _ _ _ _ hst
        have hsnap : ∀ x, frameLookup x env.snapshot = env.lookup x := fun x => by
          rw [← lookup_single]; exact C06.snapshot_lookup env x
        refine ⟨by simp only [asType]; exact sub_refl _ wT, Good.fn id ps rt body env.snapshot none g hwf'.1 hwf'.2 hg ?_ ?_ ?_⟩
        · intro x t hx
          obtain ⟨v, hv, hvt⟩ := henv x t hx
          exact ⟨v, by rw [hsnap]; exact hv, hvt.1⟩
        · intro x t v hx hv
          obtain ⟨w, hw, hwt⟩ := henv x t hx
          rw [hsnap, hw] at hv
          cases hv
          exact hwt.2
        · refine ⟨ts, g', by simpa [bodyEnv] using hp, ?_⟩
          cases h1 : sub Ty.void rt <;> cases h2' : ts.any (fun t => eqv t .never) <;> simp_all
  | call fe args =>
    simp only [tyS] at ht
    obtain ⟨tf, htf, h2⟩ := bind_ok ht
    obtain ⟨tas, htas, h3⟩ := bind_ok h2
    have wtf := tyS_wf lp ret g fe tf htf
    simp only [eval]
    apply outP_bind lp ret S (fun S' v => VT S' tf v) _ _ _ σ (hE lp ret S g env fe tf σ henv hg hr hst htf)
    intro fv σ1 S hle hst _ hfv
    replace henv := envOk_mono hle henv
    apply outP_bind lp ret S (fun S' v => ListOk S' tas v) _ _ _ σ1 (hL lp ret S g env args tas σ1 henv hg hr hst htas)
    intro vs σ2 S hle hst _ hvs
    replace henv := envOk_mono hle henv
    replace hfv := vt_mono hle hfv
    cases tf with
    | fn pts rt =>
      simp only [] at h3
      split at h3
      · rename_i hargs
        rw [(okW_ok h3).1]
        simp only [wf, Bool.and_eq_true] at wtf
        exact hF lp ret S fv vs pts rt σ2 hst hfv.2 hfv.1 wtf.1 wtf.2
          ⟨matchesL_trans _ tas pts (wfL_asTypeLG vs hvs.2) (tySList_wf lp ret g args tas htas) wtf.1 hvs.1 hargs, hvs.2⟩
      · cases h3
    | multi ms =>
      simp only [] at h3
      split at h3
      · cases h3
      · split at h3
        · cases h3
        · rename_i pts hp
          split at h3
          · rename_i rt hrt
            split at h3
            · rename_i hargs
              rw [(okW_ok h3).1]
              obtain ⟨m, hm, hfm⟩ := vt_member hfv
              have wl := wfL_of_multi wtf
              have wm := wfL_memU wl hm
              obtain ⟨wpts, hpm⟩ := params_lower ms pts wl hp
              obtain ⟨mps, mrt, rfl, hlow⟩ := hpm m hm
              obtain ⟨wT, hrm⟩ := returnType_upper ms rt wl hrt
              obtain ⟨tm, hbm, hsub⟩ := hrm _ hm
              simp only [baseRet, Option.some.injEq] at hbm
              subst hbm
              simp only [wf, Bool.and_eq_true] at wm
              have wtas := tySList_wf lp ret g args tas htas
              have h1 := matchesL_trans _ tas pts (wfL_asTypeLG vs hvs.2) wtas wpts hvs.1 hargs
              have h2 := matchesL_trans _ pts mps (wfL_asTypeLG vs hvs.2) wpts wm.1 h1 hlow
              exact outP_mono _ _ _ _ _ _ (hF lp ret S fv vs mps mrt σ2 hst hfm.2 hfm.1 wm.1 wm.2 ⟨h2, hvs.2⟩)
                (fun _ v _ hv => vt_trans hv wm.2 wT hsub)
            · cases h3
          · cases h3
    | _ => simp only [] at h3; cases h3
  | ret e =>
    cases ret with
    | none => simp only [tyS] at ht; cases ht
    | some rt =>
      have wrt := hr rt rfl
      cases e with
      | some e =>
        simp only [tyS] at ht
        obtain ⟨te, hte, h2⟩ := bind_ok ht
        split at h2
        · rename_i hs
          simp only [eval]
          apply outP_bind lp (some rt) S (fun S' v => VT S' te v) _ _ _ σ (hE lp (some rt) S g env e te σ henv hg hr hst hte)
          intro v σ1 S hle hst _ hv
          replace henv := envOk_mono hle henv
          simp only [OutP, throwS, okSig]
          exact ⟨rt, S, rfl, ext_refl S, hst, vt_trans hv (tyS_wf _ _ g e te hte) wrt hs⟩
        · cases h2
      | none =>
        simp only [tyS] at ht
        split at ht
        · rename_i hs
          simp only [eval]
          apply outP_bind lp (some rt) S (fun _ v => v = Val.unit) _ _ _ σ (outP_pure _ _ _ _ _ _ hst rfl)
          intro v σ1 S hle hst _ hv
          replace henv := envOk_mono hle henv
          subst hv
          simp only [OutP, throwS, okSig]
          exact ⟨rt, S, rfl, ext_refl S, hst, by simpa [asType] using hs, Good.unit⟩
        · cases ht
  | mutE oty e =>
    cases oty with
    | none => simp only [tyS] at ht; cases ht
    | some ty =>
      simp only [tyS] at ht
      split at ht
      · cases ht
      · rename_i hwty
        have wty : wf ty = true := by simpa using hwty
        obtain ⟨te, hte, h2⟩ := bind_ok ht
        have wte := tyS_wf lp ret g e te hte
        split at h2
        · rename_i hs
          rw [(okW_ok h2).1]
          simp only [eval, Option.getD]
          apply outP_bind lp ret S (fun S' v => VT S' te v) _ _ _ σ (hE lp ret S g env e te σ henv hg hr hst hte)
          intro v σ1 S hle hst _ hv
          obtain ⟨σ2, hn, hst2, hc⟩ := storeOk_new hst ty wty (vt_trans hv wte wty hs)
          rw [hn]
          exact ⟨S ++ [ty], ⟨[ty], rfl⟩, hst2, hc⟩
        · cases h2
  | assign op target value =>
    simp only [tyS] at ht
    obtain ⟨tt, htt, h2⟩ := bind_ok ht
    obtain ⟨tv, htv, h3⟩ := bind_ok h2
    have wtt := tyS_wf lp ret g target tt htt
    have wtv := tyS_wf lp ret g value tv htv
    simp only [eval]
    apply outP_bind lp ret S (fun S' v => VT S' tt v) _ _ _ σ (hE lp ret S g env target tt σ henv hg hr hst htt)
    intro c σ1 S hle hst _ hc
    replace henv := envOk_mono hle henv
    apply outP_bind lp ret S (fun S' v => VT S' tv v) _ _ _ σ1 (hE lp ret S g env value tv σ1 henv hg hr hst htv)
    intro v σ2 S hle hst _ hv
    replace henv := envOk_mono hle henv
    replace hc := vt_mono hle hc
    cases tt with
    | cell cty =>
      simp only [] at h3
      have wc : wf cty = true := by simpa [wf] using wtt
      obtain ⟨loc, ty, rfl, hev, hl, wty⟩ := cell_shape hc
      have hsub1 : sub ty cty = true := sub_of_eqv ty cty wty wc hev
      have hsub2 : sub cty ty = true := sub_of_eqv cty ty wc wty (eqv_symm ty cty wty wc hev)
      simp only []
      exact assign_step lp ret S op loc ty cty tv T v σ2 hst hl wty wc wtv hsub1 hsub2 hv h3
    | multi ms =>
      simp only [] at h3
      cases hop : assignBase op with
      | some bop => rw [hop] at h3; cases h3
      | none =>
        rw [hop] at h3
        simp only [] at h3
        split at h3
        · rename_i e0 A he ha
          split at h3
          · rename_i hs
            rw [(okW_ok h3).1]
            obtain ⟨m, hm, hcm⟩ := vt_member hc
            have wl := wfL_of_multi wtt
            have wm := wfL_memU wl hm
            obtain ⟨wA, hmem⟩ := mutAssignType_lower ms A wl ha
            obtain ⟨cm, rfl, hAc⟩ := hmem m hm
            have wc : wf cm = true := by simpa [wf] using wm
            obtain ⟨loc, ty, rfl, hev, hl, wty⟩ := cell_shape hcm
            have hsub1 : sub ty cm = true := sub_of_eqv ty cm wty wc hev
            have hsub2 : sub cm ty = true := sub_of_eqv cm ty wc wty (eqv_symm ty cm wty wc hev)
            have hvc : sub tv cm = true := sub_trans tv A cm wtv wA wc hs hAc
            simp only []
            have hstep := assign_step lp ret S op loc ty cm tv tv v σ2 hst hl wty wc wtv hsub1 hsub2 hv
              (by rw [hop]; simp only [hvc, if_true]; simp [okW, wtv])
            rw [hop] at hstep
            exact hstep
          · cases h3
        · cases h3
    | _ => simp only [] at h3; cases h3
  | loop body =>
    simp only [tyS] at ht
    obtain ⟨t, htb, h2⟩ := bind_ok ht
    cases h2
    simp only [eval]
    exact hLp lp ret S g env body t σ henv hg hr hst htb
  | «while» c body =>
    simp only [tyS] at ht
    obtain ⟨tc, htc, h2⟩ := bind_ok ht
    split at h2
    · cases h2
    · rename_i hb
      obtain ⟨t, htb, h3⟩ := bind_ok h2
      cases h3
      have e1 := eq_of_eqv_bool (by simpa using hb)
      subst e1
      simp only [eval]
      exact hW lp ret S g env c body t σ henv hg hr hst htc htb
  | whileSet x ty e body =>
    simp only [tyS] at ht
    split at ht
    · cases ht
    · rename_i hwty
      have wty : wf ty = true := by simpa using hwty
      obtain ⟨t1, ht1, h2⟩ := bind_ok ht
      obtain ⟨t, htb, h3⟩ := bind_ok h2
      cases h3
      simp only [eval]
      exact hWS lp ret S g env x ty e body t1 t σ henv hg hr hst wty ht1 htb
  | forE x it body =>
    simp only [tyS] at ht
    obtain ⟨ti, hti, h2⟩ := bind_ok ht
    have wti := tyS_wf lp ret g it ti hti
    simp only [eval]
    apply outP_bind lp ret S (fun S' v => VT S' ti v) _ _ _ σ (hE lp ret S g env it ti σ henv hg hr hst hti)
    intro itv σ1 S hle hst _ hitv
    replace henv := envOk_mono hle henv
    split at h2
    · rename_i b t
      split at h2
      · cases h2
      · rename_i hb
        obtain ⟨T0, htb, h3⟩ := bind_ok h2
        cases h3
        have wt : wf t = true := by
          simp only [wf, wfL, Bool.and_eq_true] at wti
          exact wti.2.2.1
        have henv2 : EnvOkG S ([("$iter", itv)] :: env) (("$iter", Ty.fn [] (.tup [b, t])) :: g) := by
          have := envOkG_insert ([] :: env) g "$iter" itv _ (envOkG_push env g henv) hitv
          simpa [Env.insert] using this
        exact hFo lp ret S _ _ x itv body b t T0 σ1 henv2 (gwf_cons g "$iter" _ hg wti) hr hst hitv (by simpa using hb) wt htb
    all_goals cases h2
  | struct fs =>
    simp only [tyS] at ht
    obtain ⟨fts, hfts, h2⟩ := bind_ok ht
    rw [(okW_ok h2).1]
    simp only [eval]
    apply outP_bind lp ret S (fun S' vs => Rel S' fts vs) _ _ _ σ (hFd lp ret S g env fs fts σ henv hg hr hst hfts)
    intro vs σ1 S hle hst _ hvs
    exact outP_pure _ _ _ _ _ _ hst (struct_literal fts vs hvs)
  | facc e k =>
    simp only [tyS] at ht
    obtain ⟨te, hte, h2⟩ := bind_ok ht
    simp only [eval]
    apply outP_bind lp ret S (fun S' v => VT S' te v) _ _ _ σ (hE lp ret S g env e te σ henv hg hr hst hte)
    intro x σ1 S hle hst _ hx
    split at h2
    · rename_i fts
      split at h2
      · rename_i t hk
        rw [(okW_ok h2).1]
        obtain ⟨fs, v, rfl, hv, hvt⟩ := field_value hx hk
        simp only [hv]
        exact outP_pure _ _ _ _ _ _ hst hvt
      · cases h2
    · rename_i ms
      have wte := tyS_wf lp ret g e _ hte
      split at h2
      · cases h2
      · split at h2
        · cases h2
        · split at h2
          · rename_i T0 hq
            rw [(okW_ok h2).1]
            obtain ⟨m, hm, hxm⟩ := vt_member hx
            have wl := wfL_of_multi wte
            have wm := wfL_memU wl hm
            obtain ⟨wT, hmem⟩ := fieldType_upper k ms T0 wl hq
            obtain ⟨tm, hbm, hsub⟩ := hmem m hm
            cases m with
            | struct fts =>
              simp only [baseField] at hbm
              obtain ⟨fs, v, rfl, hv, hvt⟩ := field_value hxm hbm
              simp only [hv]
              exact outP_pure _ _ _ _ _ _ hst (vt_trans hvt (baseField_wf k _ tm wm (by simpa [baseField] using hbm)) wT hsub)
            | _ => simp [baseField] at hbm
          · cases h2
    all_goals cases h2
  | post op e =>
    cases op <;> simp only [tyS] at ht
    case collect =>
      obtain ⟨ti, hti, h2⟩ := bind_ok ht
      have wti := tyS_wf lp ret g e ti hti
      simp only [eval]
      apply outP_bind lp ret S (fun S' v => VT S' ti v) _ _ _ σ (hE lp ret S g env e ti σ henv hg hr hst hti)
      intro itv σ1 S hle hst _ hitv
      replace henv := envOk_mono hle henv
      split at h2
      · rename_i b t
        split at h2
        · cases h2
        · rename_i hb
          have e1 := eq_of_eqv_bool (by simpa using hb)
          subst e1
          rw [(okW_ok h2).1]
          have wt : wf t = true := by
            simp only [wf, wfL, Bool.and_eq_true] at wti
            exact wti.2.2.1
          apply outP_bind lp ret S (fun S' vs => ∀ v ∈ vs, VT S' t v) _ _ _ σ1 (hCol lp ret S itv [] t σ1 hst hitv wt (by simp))
          intro vs σ2 S hle hst _ hvs
          apply outP_pure _ _ _ _ _ _ hst
          have hgood : ∀ v ∈ vs, Good S v := fun v hv => (hvs v hv).2
          refine ⟨?_, good_mkArray vs hgood⟩
          simp only [Val.mkArray, asType, C01.sub_arr]
          refine concatL_least (asTypeL vs) t (wfL_asTypeLG vs hgood) ?_
          intro ty hty
          obtain ⟨v, hv, rfl⟩ := mem_asTypeL vs ty hty
          exact (hvs v hv).1
      all_goals cases h2
    all_goals cases ht
  | brk =>
    simp only [tyS] at ht
    split at ht
    · rename_i hlp
      cases ht
      simp only [eval, OutP, throwS, okSig]
      exact ⟨hlp, S, ext_refl S, hst⟩
    · cases ht
  | cont =>
    simp only [tyS] at ht
    split at ht
    · rename_i hlp
      cases ht
      simp only [eval, OutP, throwS, okSig]
      exact ⟨hlp, S, ext_refl S, hst⟩
    · cases ht
  | _ => simp only [tyS] at ht; cases ht


end Ssl.CS
