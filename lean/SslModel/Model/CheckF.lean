import SslModel.Model.Check
/-!
  The checker model of `Model/Check.lean` extended with FUNCTIONS: anonymous functions, function declarations (with
  recursion through the function's own name), calls on operands of a (non-union) function type, and `return`.
  `tyF ret g e`: `ret` is the declared result type of the enclosing function (`none` at top level, where `return` is
  an error).  A function body must contain, among its top-level statements, one of type `!` unless `()` matches the
  declared result type (`MissingReturn`).

  Sources: instruction/function/{anonymous,declaration,call}.rs, instruction/return.rs, plus everything listed in
  Model/Check.lean.  Cells, loops, structs and iterators stay outside (`unsup`).
-/
namespace Ssl.CheckF
open Ssl Ssl.Ty Ssl.Check

/-- parameters are bound left to right; a later parameter shadows an earlier one of the same name -/
def bindParams (ps : List (String × Ty)) (g : TEnv) : TEnv := ps.reverse ++ g

def wfParams (ps : List (String × Ty)) : Bool := ps.all fun p => wf p.2

/-- `check_args_with_params`: same number, each argument type matches its parameter type -/
def argsOk : List Ty → List Ty → Bool
  | [], [] => true
  | a :: as, p :: ps => sub a p && argsOk as ps
  | _, _ => false

/-- the type of a statement list is the type of its last statement, `()` if it is empty -/
def lastTy : List Ty → Ty
  | [] => .void
  | [t] => t
  | _ :: ts => lastTy ts

mutual
def tyF : Option Ty → TEnv → Expr → Res Ty
  | _, _, .litBool _ => .ok .bool
  | _, _, .litInt _ => .ok .int
  | _, _, .litFloat _ => .ok .float
  | _, _, .litStr _ => .ok .str
  | _, _, .litUnit => .ok .void
  | _, g, .var x => match g.lookup x with
    | some t => okW t
    | none => .ill
  | r, g, .array es => (tyFList r g es).bind fun ts => okW (.arr (concatL ts))
  | r, g, .tuple es => if es.length < 2 then .unsup else (tyFList r g es).bind fun ts => okW (.tup ts)
  | r, g, .pre .not e => (tyF r g e).bind fun t => if sub t accNot then okW t else .ill
  | r, g, .pre .neg e => (tyF r g e).bind fun t => if sub t accNeg then okW t else .ill
  | r, g, .and a b => (tyF r g a).bind fun ta => (tyF r g b).bind fun tb =>
      if eqv ta .bool && eqv tb .bool then .ok .bool else .ill
  | r, g, .or a b => (tyF r g a).bind fun ta => (tyF r g b).bind fun tb =>
      if eqv ta .bool && eqv tb .bool then .ok .bool else .ill
  | r, g, .bin op a b => (tyF r g a).bind fun ta => (tyF r g b).bind fun tb => binTy op ta tb
  | r, g, .at a i => (tyF r g a).bind fun ta => (tyF r g i).bind fun ti =>
      if !eqv ti .int then .ill else
      match ta with
      | .arr e => okW e
      | .str => .ok .str
      | .multi _ => .unsup
      | .never => .unsup
      | _ => .ill
  | r, g, .tacc e n => (tyF r g e).bind fun t =>
      match t with
      | .tup ts => match ts[n]? with
        | some x => okW x
        | none => .ill
      | .multi _ => .unsup
      | .never => .unsup
      | _ => .ill
  | r, g, .ifElse c t e => (tyF r g c).bind fun tc =>
      if !(eqv tc .bool || eqv tc .never) then .ill else
      (tyF r g t).bind fun tt =>
      match e with
      | some e => (tyF r g e).bind fun te => okW (concat tt te)
      | none => okW (concat tt .void)
  | r, g, .block body => (tyFSeq r g body).bind fun (ts, _) => okW (lastTy ts)
  | r, g, .ifSet x ty e body els =>
      if !wf ty then .unsup else
      (tyF r g e).bind fun _ => (tyF r ((x, ty) :: g) body).bind fun tb =>
      match els with
      | some el => (tyF r g el).bind fun tl => okW (concat tb tl)
      | none => okW (concat tb .void)
  | r, g, .arrayRepeat v n => (tyF r g v).bind fun tv => (tyF r g n).bind fun tn =>
      if !sub tn .int then .ill else
      if !eqv tn .int then .unsup else okW (.arr tv)
  | r, g, .slice a st en sp => (tyF r g a).bind fun ta =>
      (tyFOpt r g st).bind fun ts => (tyFOpt r g en).bind fun te => (tyFOpt r g sp).bind fun tp =>
      if !canBeIndexed ta then .ill else
      if !(boundOk ts && boundOk te && boundOk tp) then .ill else
      match ta with
      | .arr _ => okW ta
      | .str => .ok .str
      | _ => .unsup
  | r, g, .matchE e arms =>
      (tyF r g e).bind fun te => (tyFArms r g arms).bind fun tys =>
      if !(covering (armKinds arms) te) then .ill else okW (concatL tys)
  -- functions
  | _, g, .fn ps rt body =>
      if !(wfParams ps && wf rt) then .unsup else
      (tyFSeq (some rt) (bindParams ps g) body).bind fun (ts, _) =>
      if !sub .void rt && !ts.any (fun t => eqv t .never) then .ill     -- MissingReturn
      else okW (.fn (ps.map (·.2)) rt)
  | r, g, .call f args => (tyF r g f).bind fun tf => (tyFList r g args).bind fun tas =>
      match tf with
      | .fn pts rt => if argsOk tas pts then okW rt else .ill
      | .multi _ => .unsup
      | .never => .unsup
      | .any => .ill
      | _ => .ill
  | r, g, .ret e =>
      match r with
      | none => .ill                                                  -- ReturnOutsideFunction
      | some rt =>
        match e with
        | some e => (tyF r g e).bind fun te => if sub te rt then .ok .never else .ill
        | none => if sub .void rt then .ok .never else .ill
  | _, _, _ => .unsup
def tyFOpt : Option Ty → TEnv → Option Expr → Res (Option Ty)
  | _, _, none => .ok none
  | r, g, some e => (tyF r g e).bind fun t => .ok (some t)
def tyFList : Option Ty → TEnv → List Expr → Res (List Ty)
  | _, _, [] => .ok []
  | r, g, e :: es => (tyF r g e).bind fun t => (tyFList r g es).bind fun ts => .ok (t :: ts)
def tyFArms : Option Ty → TEnv → List Arm → Res (List Ty)
  | _, _, [] => .ok []
  | r, g, .ty x t body :: rest =>
      if !wf t then .unsup else
      (tyF r ((x, t) :: g) body).bind fun tb => (tyFArms r g rest).bind fun ts => .ok (tb :: ts)
  | r, g, .val cands body :: rest =>
      (tyFList r g cands).bind fun _ => (tyF r g body).bind fun tb => (tyFArms r g rest).bind fun ts => .ok (tb :: ts)
  | r, g, .other body :: rest =>
      (tyF r g body).bind fun tb => (tyFArms r g rest).bind fun ts => .ok (tb :: ts)
/-- a statement list: the types of ALL its statements, in order, and the extended environment -/
def tyFSeq : Option Ty → TEnv → List Expr → Res (List Ty × TEnv)
  | _, g, [] => .ok ([], g)
  | r, g, s :: rest => (tyFStmt r g s).bind fun (t, g') => (tyFSeq r g' rest).bind fun (ts, g'') => .ok (t :: ts, g'')
def tyFStmt : Option Ty → TEnv → Expr → Res (Ty × TEnv)
  | r, g, .set x e => (tyF r g e).bind fun t => .ok (t, (x, t) :: g)
  | _, _, .destruct .. => .unsup
  | _, g, .fndecl x ps rt body =>
      if !(wfParams ps && wf rt) then .unsup else
      let ft : Ty := .fn (ps.map (·.2)) rt
      (tyFSeq (some rt) (bindParams ps ((x, ft) :: g)) body).bind fun (ts, _) =>
      if !sub .void rt && !ts.any (fun t => eqv t .never) then .ill
      else .ok (ft, (x, ft) :: g)
  | r, g, e => (tyF r g e).bind fun t => .ok (t, g)
end

def tyFProgram (g : TEnv) (prog : List Expr) : Res Ty := (tyFSeq none g prog).bind fun (ts, _) => .ok (lastTy ts)

end Ssl.CheckF
