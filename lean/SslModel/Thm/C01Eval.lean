import SslModel.Model.Check
import SslModel.Lemmas.TypingFull
import SslModel.Lemmas.TyOrder
import SslModel.Thm.C01
import SslModel.Thm.C06
import SslModel.Thm.C07
/-!
# C01 (stage 2) — type soundness at the level of the evaluator, for the first-order fragment

`Check.tyOf` models the static types the checker assigns (tied to the implementation by the `fragment-types`
stream of tools/props/c01.py); `Spec.eval` is the reference evaluator (tied by the `prog` stream).
Proved here: **if the checker model types an expression / statement list of the fragment, every value the evaluator
produces for it - any fuel, any store, any environment that respects the static types - has a run-time TAG below that
type (`Type::matches`, what `match` and `if x: T = e` test) and inhabits it BY CONTENTS** (`eval_sound`,
`program_sound`).  The invariant carried through the induction is `plain`: first-order values whose stored array tags
are well-formed and lie above the tags of their elements - the invariant the implementation's `Array` keeps.
The fragment: literals, variables, array and tuple literals, prefix `!` / `-`, `&&` / `||`, all scalar binary
operators, indexing, slicing and tuple access on non-union operands, `[v; n]`, `if` / `else`, `if x: T = e` with its else branch,
`match` with type, value and default arms, blocks, `:=` declarations with shadowing.  Outside it (functions, calls,
cells, loops, structs, iterators) the property is decided for the running code by the in-crate monitor.
-/
set_option linter.unusedSimpArgs false
set_option linter.unusedVariables false
namespace Ssl.C01
open Ssl Ssl.Ty Ssl.Val Ssl.Spec Ssl.Check

theorem okW_ok {t T : Ty} (h : okW t = .ok T) : T = t ∧ wf t = true := by
  unfold okW at h
  split at h
  · rename_i hw; cases h; exact ⟨rfl, hw⟩
  · cases h

/-- membership of a scalar in a type does not depend on which scalar of its kind it is -/
def sameKind : Val → Val → Bool
  | .bool _, .bool _ => true
  | .int _, .int _ => true
  | .float _, .float _ => true
  | .str _, .str _ => true
  | .unit, .unit => true
  | _, _ => false

theorem hasTy_sameKind_aux : ∀ n : Nat, ∀ (t : Ty) (a b : Val), Ty.size t ≤ n → sameKind a b = true →
    hasTy a t = hasTy b t := by
  intro n
  induction n with
  | zero => intro t a b h; have := Ty.size_pos t; omega
  | succ n ih =>
    intro t a b hs hk
    cases t with
    | multi ms =>
      simp only [Ty.size] at hs
      rw [hasTy_multi, hasTy_multi]
      have : ∀ (l : List Ty), (∀ m ∈ l, Ty.size m ≤ n) → hasTyAny a l = hasTyAny b l := by
        intro l
        induction l with
        | nil => intro _; simp [hasTyAny]
        | cons m l ihl =>
          intro hl
          simp only [hasTyAny]
          rw [ih m a b (hl m (by simp)) hk, ihl (fun x hx => hl x (by simp [hx]))]
      exact this ms (fun m hm => by have := Ty.size_lt_sizeL hm; omega)
    | _ => cases a <;> cases b <;> simp [sameKind] at hk <;> simp [hasTy]

theorem hasTy_sameKind (t : Ty) (a b : Val) (hk : sameKind a b = true) : hasTy a t = hasTy b t :=
  hasTy_sameKind_aux _ t a b (Nat.le_refl _) hk


theorem hasTy_pair (x y : Val) (l r : Ty) (hx : hasTy x l = true) (hy : hasTy y r = true) :
    hasTy (.tup [x, y]) (pairTy l r) = true := by
  simp [pairTy, hasTy, hasTyL, hx, hy]

theorem fo_pair (x y : Val) (hx : fo x = true) (hy : fo y = true) : fo (.tup [x, y]) = true := by
  simp [fo, foL, hx, hy]

/-- a pair accepted against a union of pairs of scalar types: which member it is in -/
theorem pair_in (x y : Val) (l r acc : Ty) (hx : hasTy x l = true) (hy : hasTy y r = true)
    (fx : fo x = true) (fy : fo y = true) (h : sub (pairTy l r) acc = true) :
    hasTy (.tup [x, y]) acc = true :=
  matches_sound_partial (.tup [x, y]) (pairTy l r) acc (fo_pair x y fx fy) h (hasTy_pair x y l r hx hy)

theorem in_accNum (x y : Val) (h : hasTy (.tup [x, y]) accNum = true) :
    (∃ a b, x = .int a ∧ y = .int b) ∨ (∃ a b, x = .float a ∧ y = .float b) := by
  simp only [accNum, pairTy, hasTy_multi, hasTyAny, hasTy_tup, hasTyL, Bool.or_eq_true, Bool.and_eq_true, Bool.or_false,
    Bool.and_true] at h
  rcases h with ⟨h1, h2⟩ | ⟨h1, h2⟩
  · left; cases x <;> simp [hasTy] at h1; cases y <;> simp [hasTy] at h2; exact ⟨_, _, rfl, rfl⟩
  · right; cases x <;> simp [hasTy] at h1; cases y <;> simp [hasTy] at h2; exact ⟨_, _, rfl, rfl⟩

theorem in_accInt (x y : Val) (h : hasTy (.tup [x, y]) accInt = true) : ∃ a b, x = .int a ∧ y = .int b := by
  simp only [accInt, pairTy, hasTy_tup, hasTyL, Bool.and_eq_true, Bool.and_true] at h
  obtain ⟨h1, h2⟩ := h
  cases x <;> simp [hasTy] at h1; cases y <;> simp [hasTy] at h2; exact ⟨_, _, rfl, rfl⟩

theorem in_accBit (x y : Val) (h : hasTy (.tup [x, y]) accBit = true) :
    (∃ a b, x = .int a ∧ y = .int b) ∨ (∃ a b, x = .bool a ∧ y = .bool b) := by
  simp only [accBit, pairTy, hasTy_multi, hasTyAny, hasTy_tup, hasTyL, Bool.or_eq_true, Bool.and_eq_true, Bool.or_false,
    Bool.and_true] at h
  rcases h with ⟨h1, h2⟩ | ⟨h1, h2⟩
  · left; cases x <;> simp [hasTy] at h1; cases y <;> simp [hasTy] at h2; exact ⟨_, _, rfl, rfl⟩
  · right; cases x <;> simp [hasTy] at h1; cases y <;> simp [hasTy] at h2; exact ⟨_, _, rfl, rfl⟩

theorem in_accAddScalar (x y : Val) (h : hasTy (.tup [x, y]) accAddScalar = true) :
    (∃ a b, x = .int a ∧ y = .int b) ∨ (∃ a b, x = .float a ∧ y = .float b) ∨ (∃ a b, x = .str a ∧ y = .str b) := by
  simp only [accAddScalar, pairTy, hasTy_multi, hasTyAny, hasTy_tup, hasTyL, Bool.or_eq_true, Bool.and_eq_true, Bool.or_false,
    Bool.and_true] at h
  rcases h with ⟨h1, h2⟩ | ⟨h1, h2⟩ | ⟨h1, h2⟩
  · left; cases x <;> simp [hasTy] at h1; cases y <;> simp [hasTy] at h2; exact ⟨_, _, rfl, rfl⟩
  · right; left; cases x <;> simp [hasTy] at h1; cases y <;> simp [hasTy] at h2; exact ⟨_, _, rfl, rfl⟩
  · right; right; cases x <;> simp [hasTy] at h1; cases y <;> simp [hasTy] at h2; exact ⟨_, _, rfl, rfl⟩


theorem foL_append (a b : List Val) : foL (a ++ b) = (foL a && foL b) := by
  induction a with
  | nil => simp [foL]
  | cons v a ih => simp [foL, ih, Bool.and_assoc]

theorem foL_of_mem (vs : List Val) (h : ∀ x ∈ vs, fo x = true) : foL vs = true := by
  induction vs with
  | nil => simp [foL]
  | cons v vs ih => simp [foL, h v (by simp), ih (fun x hx => h x (by simp [hx]))]

/-- every element's run-time tag lies below the array's stored element type -/
def allTagSub (es : List Val) (t : Ty) : Bool := es.all fun e => sub e.asType t

theorem allTagSub_iff (es : List Val) (t : Ty) : allTagSub es t = true ↔ ∀ e ∈ es, sub e.asType t = true := by
  simp [allTagSub, List.all_eq_true]

theorem allTagSub_append (a b : List Val) (t : Ty) : allTagSub (a ++ b) t = (allTagSub a t && allTagSub b t) := by
  simp [allTagSub, List.all_append]

mutual
/-- first-order values whose stored array tags are well-formed and lie above the tags of the elements (what literals,
    operators and the fragment's constructs build; the implementation's `Array` keeps the same invariant) -/
def plain : Val → Bool
  | .bool _ => true
  | .int _ => true
  | .float _ => true
  | .str _ => true
  | .unit => true
  | .arr t es => wf t && allTagSub es t && plainL es
  | .tup es => plainL es
  | _ => false
termination_by v => Val.size v
decreasing_by all_goals (simp only [Val.size]; omega)
def plainL : List Val → Bool
  | [] => true
  | v :: vs => plain v && plainL vs
termination_by vs => Val.sizeL vs
decreasing_by all_goals (simp only [Val.sizeL]; omega)
end

theorem valSizeL_mem {vs : List Val} {x : Val} (hx : x ∈ vs) : Val.size x < Val.sizeL vs := by
  induction vs with
  | nil => cases hx
  | cons v vs ih =>
    rcases List.mem_cons.mp hx with rfl | h'
    · simp [Val.sizeL]; omega
    · have := ih h'; simp [Val.sizeL]; omega

theorem plainL_mem {vs : List Val} (h : plainL vs = true) {x : Val} (hx : x ∈ vs) : plain x = true := by
  induction vs with
  | nil => cases hx
  | cons v vs ih =>
    simp only [plainL, Bool.and_eq_true] at h
    rcases List.mem_cons.mp hx with rfl | hx
    · exact h.1
    · exact ih h.2 hx

theorem plain_facts : ∀ n : Nat, ∀ v : Val, Val.size v ≤ n → plain v = true →
    fo v = true ∧ wf v.asType = true ∧ hasTy v v.asType = true := by
  intro n
  induction n with
  | zero => intro v h; cases v <;> simp [Val.size] at h <;> omega
  | succ n ih =>
    intro v hs hp
    cases v with
    | bool b => simp [fo, asType, wf, hasTy]
    | int i => simp [fo, asType, wf, hasTy]
    | float x => simp [fo, asType, wf, hasTy]
    | str s => simp [fo, asType, wf, hasTy]
    | unit => simp [fo, asType, wf, hasTy]
    | arr t es =>
      simp only [plain, Bool.and_eq_true] at hp
      simp only [Val.size] at hs
      have hall : ∀ x ∈ es, fo x = true ∧ wf x.asType = true ∧ hasTy x x.asType = true :=
        fun x hx => ih x (by have := valSizeL_mem hx; omega) (plainL_mem hp.2 hx)
      refine ⟨?_, by simpa [asType, wf] using hp.1.1, ?_⟩
      · simp only [fo]
        exact foL_of_mem es (fun x hx => (hall x hx).1)
      · rw [asType, hasTy_arr, allHasTy_iff]
        intro x hx
        exact matches_sound_partial x x.asType t (hall x hx).1 ((allTagSub_iff es t).mp hp.1.2 x hx) (hall x hx).2.2
    | tup es =>
      simp only [plain] at hp
      simp only [Val.size] at hs
      have hall : ∀ x ∈ es, fo x = true ∧ wf x.asType = true ∧ hasTy x x.asType = true :=
        fun x hx => ih x (by have := valSizeL_mem hx; omega) (plainL_mem hp hx)
      refine ⟨by simp only [fo]; exact foL_of_mem es (fun x hx => (hall x hx).1), ?_, ?_⟩
      · simp only [asType, wf]
        clear hs hp
        induction es with
        | nil => simp [asTypeL, wfL]
        | cons v vs ihv =>
          simp only [asTypeL, wfL, Bool.and_eq_true]
          exact ⟨(hall v (by simp)).2.1, ihv (fun x hx => hall x (by simp [hx]))⟩
      · rw [asType, hasTy_tup]
        clear hs hp
        induction es with
        | nil => simp [asTypeL, hasTyL]
        | cons v vs ihv =>
          simp only [asTypeL, hasTyL, Bool.and_eq_true]
          exact ⟨(hall v (by simp)).2.2, ihv (fun x hx => hall x (by simp [hx]))⟩
    | struct _ => simp [plain] at hp
    | cell _ _ => simp [plain] at hp
    | fn _ _ _ _ _ _ => simp [plain] at hp


theorem plain_fo {v : Val} (h : plain v = true) : fo v = true := (plain_facts _ v (Nat.le_refl _) h).1
theorem plain_wf_tag {v : Val} (h : plain v = true) : wf v.asType = true := (plain_facts _ v (Nat.le_refl _) h).2.1
/-- **tag soundness**: a plain value inhabits its own run-time tag -/
theorem plain_hasTy_tag {v : Val} (h : plain v = true) : hasTy v v.asType = true := (plain_facts _ v (Nat.le_refl _) h).2.2

theorem plainL_fo {vs : List Val} (h : plainL vs = true) : foL vs = true :=
  foL_of_mem vs (fun x hx => plain_fo (plainL_mem h hx))

theorem plainL_append (a b : List Val) : plainL (a ++ b) = (plainL a && plainL b) := by
  induction a with
  | nil => simp [plainL]
  | cons v a ih => simp [plainL, ih, Bool.and_assoc]

/-- a plain value whose tag lies below `T` inhabits `T` (tag soundness + soundness of `matches`) -/
theorem hasTy_of_tag {v : Val} {T : Ty} (pv : plain v = true) (h : sub v.asType T = true) : hasTy v T = true :=
  matches_sound_partial v v.asType T (plain_fo pv) h (plain_hasTy_tag pv)

theorem sameKind_asType {a b : Val} (h : sameKind a b = true) : a.asType = b.asType := by
  cases a <;> cases b <;> simp [sameKind] at h <;> simp [asType]

theorem sub_arr (a b : Ty) : sub (.arr a) (.arr b) = sub a b := by rw [sub]
theorem sub_tup (as bs : List Ty) : sub (.tup as) (.tup bs) = matchesL as bs := by rw [sub]

theorem matchesL_get : ∀ (as bs : List Ty) (n : Nat) (a b : Ty), matchesL as bs = true →
    as[n]? = some a → bs[n]? = some b → sub a b = true
  | x :: as, y :: bs, 0, a, b, h, ha, hb => by
    rw [matchesL] at h
    simp only [Bool.and_eq_true] at h
    simp at ha hb; subst ha hb; exact h.1
  | x :: as, y :: bs, n + 1, a, b, h, ha, hb => by
    rw [matchesL] at h
    simp only [Bool.and_eq_true] at h
    simp at ha hb
    exact matchesL_get as bs n a b h.2 ha hb
  | [], _, _, _, _, _, ha, _ => by simp at ha
  | _ :: _, [], _, _, _, _, _, hb => by simp at hb

theorem asTypeL_get : ∀ (vs : List Val) (n : Nat) (v : Val), vs[n]? = some v → (asTypeL vs)[n]? = some v.asType
  | w :: vs, 0, v, h => by simp at h; subst h; simp [asTypeL]
  | w :: vs, n + 1, v, h => by simp at h; simp [asTypeL, asTypeL_get vs n v h]
  | [], _, _, h => by simp at h

/-! ## the invariants -/

/-- every variable the checker knows is bound to a first-order value of its static type -/
def EnvOk (env : Env) (g : TEnv) : Prop :=
  ∀ x t, g.lookup x = some t → ∃ v, env.lookup x = some v ∧ sub v.asType t = true ∧ plain v = true

theorem envOk_insert (env : Env) (g : TEnv) (x : String) (v : Val) (t : Ty) (h : EnvOk env g)
    (hv : sub v.asType t = true) (fv : plain v = true) : EnvOk (env.insert x v) ((x, t) :: g) := by
  intro y ty hy
  simp only [TEnv.lookup] at hy
  by_cases hxy : (y == x) = true
  · simp only [hxy, if_true, Option.some.injEq] at hy
    subst hy
    have : y = x := by simpa using hxy
    subst this
    exact ⟨v, C06.lookup_insert_same env y v, hv, fv⟩
  · have hxy' : (y == x) = false := by simpa using hxy
    simp only [hxy', Bool.false_eq_true, if_false] at hy
    obtain ⟨w, hw, h1, h2⟩ := h y ty hy
    have hne : (x == y) = false := by
      cases hq : (x == y) with
      | false => rfl
      | true => have : x = y := by simpa using hq
                subst this; simp at hxy'
    exact ⟨w, by rw [C06.lookup_insert_other env x y v hne]; exact hw, h1, h2⟩

theorem envOk_bind (env : Env) (g : TEnv) (x : String) (v : Val) (t : Ty) (h : EnvOk env g)
    (hv : sub v.asType t = true) (fv : plain v = true) : EnvOk ([(x, v)] :: env) ((x, t) :: g) := by
  intro y ty hy
  simp only [TEnv.lookup] at hy
  by_cases hxy : (y == x) = true
  · simp only [hxy, if_true, Option.some.injEq] at hy
    subst hy
    have : y = x := by simpa using hxy
    subst this
    exact ⟨v, C06.lookup_inner_frame env y v, hv, fv⟩
  · have hxy' : (y == x) = false := by simpa using hxy
    simp only [hxy', Bool.false_eq_true, if_false] at hy
    obtain ⟨w, hw, h1, h2⟩ := h y ty hy
    have hne : (x == y) = false := by
      cases hq : (x == y) with
      | false => rfl
      | true => have : x = y := by simpa using hq
                subst this; simp at hxy'
    exact ⟨w, by rw [C06.lookup_inner_frame_other env x y v hne]; exact hw, h1, h2⟩

theorem envOk_push (env : Env) (g : TEnv) (h : EnvOk env g) : EnvOk ([] :: env) g := by
  intro y ty hy
  obtain ⟨w, hw, h1, h2⟩ := h y ty hy
  exact ⟨w, by simpa [Env.lookup, frameLookup] using hw, h1, h2⟩


theorem bind_ok {α β} {r : Res α} {k : α → Res β} {b : β} (h : r.bind k = .ok b) : ∃ a, r = .ok a ∧ k a = .ok b := by
  cases r with
  | ok a => exact ⟨a, rfl, h⟩
  | ill => cases h
  | unsup => cases h

theorem binTy_wf (op : BinOp) (l r T : Ty) (h : binTy op l r = .ok T) : wf T = true := by
  unfold binTy at h
  cases op <;> simp only [] at h
  all_goals first
    | (split at h <;> first | exact (okW_ok h).1 ▸ (okW_ok h).2 | (cases h; rfl) | cases h | skip)
    | (cases h; rfl)
    | cases h
  all_goals (split at h <;> first | exact (okW_ok h).1 ▸ (okW_ok h).2 | (split at h <;> cases h) | cases h)

/-- the type the checker model answers is well-formed (each computed type is guarded) -/
theorem tyOf_wf (g : TEnv) (e : Expr) (T : Ty) (h : tyOf g e = .ok T) : wf T = true := by
  have okw : ∀ {t : Ty}, okW t = .ok T → wf T = true := fun hh => (okW_ok hh).1 ▸ (okW_ok hh).2
  cases e with
  | litBool _ => simp only [tyOf] at h; cases h; rfl
  | litInt _ => simp only [tyOf] at h; cases h; rfl
  | litFloat _ => simp only [tyOf] at h; cases h; rfl
  | litStr _ => simp only [tyOf] at h; cases h; rfl
  | litUnit => simp only [tyOf] at h; cases h; rfl
  | var x =>
    simp only [tyOf] at h
    split at h
    · exact okw h
    · cases h
  | array es =>
    simp only [tyOf] at h
    obtain ⟨ts, _, h2⟩ := bind_ok h
    exact okw h2
  | tuple es =>
    simp only [tyOf] at h
    split at h
    · cases h
    · obtain ⟨ts, _, h2⟩ := bind_ok h
      exact okw h2
  | pre op e =>
    cases op <;> simp only [tyOf] at h
    · obtain ⟨t, _, h2⟩ := bind_ok h
      split at h2
      · exact okw h2
      · cases h2
    · obtain ⟨t, _, h2⟩ := bind_ok h
      split at h2
      · exact okw h2
      · cases h2
    · cases h
  | and a b =>
    simp only [tyOf] at h
    obtain ⟨ta, _, h2⟩ := bind_ok h
    obtain ⟨tb, _, h3⟩ := bind_ok h2
    split at h3
    · cases h3; rfl
    · cases h3
  | or a b =>
    simp only [tyOf] at h
    obtain ⟨ta, _, h2⟩ := bind_ok h
    obtain ⟨tb, _, h3⟩ := bind_ok h2
    split at h3
    · cases h3; rfl
    · cases h3
  | bin op a b =>
    simp only [tyOf] at h
    obtain ⟨ta, _, h2⟩ := bind_ok h
    obtain ⟨tb, _, h3⟩ := bind_ok h2
    exact binTy_wf op ta tb T h3
  | «at» a i =>
    simp only [tyOf] at h
    obtain ⟨ta, _, h2⟩ := bind_ok h
    obtain ⟨ti, _, h3⟩ := bind_ok h2
    split at h3
    · cases h3
    · split at h3
      · exact okw h3
      · cases h3; rfl
      all_goals cases h3
  | tacc e n =>
    simp only [tyOf] at h
    obtain ⟨t, _, h2⟩ := bind_ok h
    split at h2
    · split at h2
      · exact okw h2
      · cases h2
    all_goals cases h2
  | ifElse c t e =>
    simp only [tyOf] at h
    obtain ⟨tc, _, h2⟩ := bind_ok h
    split at h2
    · cases h2
    · obtain ⟨tt, _, h3⟩ := bind_ok h2
      split at h3
      · obtain ⟨te, _, h4⟩ := bind_ok h3
        exact okw h4
      · exact okw h3
  | block body =>
    simp only [tyOf] at h
    obtain ⟨p, _, h2⟩ := bind_ok h
    exact okw h2
  | ifSet x ty e body els =>
    simp only [tyOf] at h
    split at h
    · cases h
    · obtain ⟨te, _, h2⟩ := bind_ok h
      obtain ⟨tb, _, h3⟩ := bind_ok h2
      split at h3
      · obtain ⟨tl, _, h4⟩ := bind_ok h3
        exact okw h4
      · exact okw h3
  | matchE e arms =>
    simp only [tyOf] at h
    obtain ⟨te, _, h2⟩ := bind_ok h
    obtain ⟨tys, _, h3⟩ := bind_ok h2
    split at h3
    · cases h3
    · exact okw h3
  | arrayRepeat v n =>
    simp only [tyOf] at h
    obtain ⟨tv, _, h2⟩ := bind_ok h
    obtain ⟨tn, _, h3⟩ := bind_ok h2
    split at h3
    · cases h3
    · split at h3
      · cases h3
      · exact okw h3
  | slice a st en sp =>
    simp only [tyOf] at h
    obtain ⟨ta, _, h2⟩ := bind_ok h
    obtain ⟨ts, _, h3⟩ := bind_ok h2
    obtain ⟨te, _, h4⟩ := bind_ok h3
    obtain ⟨tp, _, h5⟩ := bind_ok h4
    split at h5
    · cases h5
    · split at h5
      · cases h5
      · split at h5
        · exact okw h5
        · cases h5; rfl
        · cases h5
  | _ => simp only [tyOf] at h; cases h


theorem eq_of_eqv_bool {a : Ty} (h : eqv a .bool = true) : a = .bool := by
  cases a <;> simp [eqv] at h <;> rfl
theorem eq_of_eqv_int {a : Ty} (h : eqv a .int = true) : a = .int := by
  cases a <;> simp [eqv] at h <;> rfl

theorem tyOfList_wf (g : TEnv) : ∀ (es : List Expr) (ts : List Ty), tyOfList g es = .ok ts → wfL ts = true
  | [], ts, h => by simp only [tyOfList] at h; cases h; rfl
  | e :: es, ts, h => by
    simp only [tyOfList] at h
    obtain ⟨t, ht, h2⟩ := bind_ok h
    obtain ⟨ts', hts, h3⟩ := bind_ok h2
    cases h3
    simp only [wfL, Bool.and_eq_true]
    exact ⟨tyOf_wf g e t ht, tyOfList_wf g es ts' hts⟩

theorem allHasTy_of_hasTyL : ∀ (vs : List Val) (ts : List Ty) (U : Ty), hasTyL vs ts = true → foL vs = true →
    (∀ t ∈ ts, sub t U = true) → allHasTy vs U = true
  | [], [], _, _, _, _ => by simp [allHasTy]
  | v :: vs, t :: ts, U, h, hf, hs => by
    simp only [hasTyL, Bool.and_eq_true] at h
    simp only [foL, Bool.and_eq_true] at hf
    simp only [allHasTy, Bool.and_eq_true]
    exact ⟨matches_sound_partial v t U hf.1 (hs t (by simp)) h.1,
      allHasTy_of_hasTyL vs ts U h.2 hf.2 (fun x hx => hs x (by simp [hx]))⟩
  | [], _ :: _, _, h, _, _ => by simp [hasTyL] at h
  | _ :: _, [], _, h, _, _ => by simp [hasTyL] at h

theorem members_sub_concatL (ts : List Ty) (hw : wfL ts = true) : ∀ t ∈ ts, sub t (concatL ts) = true := by
  cases ts with
  | nil => intro t ht; cases ht
  | cons t0 rest =>
    simp only [wfL, Bool.and_eq_true] at hw
    obtain ⟨_, h0, hr⟩ := foldConcat_props rest t0 hw.1 hw.2
    intro t ht
    simp only [concatL]
    rcases List.mem_cons.mp ht with rfl | ht
    · exact h0
    · exact hr t ht

theorem atVal_mem (t : Ty) (es : List Val) (i : I64) (x : Val) (h : atVal (.arr t es) (.int i) = .ok x) : x ∈ es := by
  simp only [atVal] at h
  split at h
  · split at h
    · rename_i v hv; cases h; exact List.mem_of_getElem? hv
    · simp at h
  · simp at h

theorem hasTyL_get : ∀ (vs : List Val) (ts : List Ty) (n : Nat) (x : Val) (tx : Ty), hasTyL vs ts = true →
    vs[n]? = some x → ts[n]? = some tx → hasTy x tx = true
  | v :: vs, t :: ts, 0, x, tx, h, hv, ht => by
    simp only [hasTyL, Bool.and_eq_true] at h
    simp at hv ht; subst hv ht; exact h.1
  | v :: vs, t :: ts, n + 1, x, tx, h, hv, ht => by
    simp only [hasTyL, Bool.and_eq_true] at h
    simp at hv ht
    exact hasTyL_get vs ts n x tx h.2 hv ht
  | [], _, _, _, _, _, hv, _ => by simp at hv
  | _ :: _, [], _, _, _, _, _, ht => by simp at ht

theorem wfL_asTypeL : ∀ (vs : List Val), plainL vs = true → wfL (asTypeL vs) = true
  | [], _ => by simp [asTypeL, wfL]
  | v :: vs, h => by
    simp only [plainL, Bool.and_eq_true] at h
    simp only [asTypeL, wfL, Bool.and_eq_true]
    exact ⟨plain_wf_tag h.1, wfL_asTypeL vs h.2⟩

theorem asType_mem : ∀ (vs : List Val) (v : Val), v ∈ vs → v.asType ∈ asTypeL vs
  | w :: vs, v, h => by
    simp only [asTypeL]
    rcases List.mem_cons.mp h with rfl | h
    · simp
    · exact List.mem_cons_of_mem _ (asType_mem vs v h)

theorem wf_concatL (ts : List Ty) (hw : wfL ts = true) : wf (concatL ts) = true := by
  cases ts with
  | nil => simp [concatL, wf]
  | cons t0 rest =>
    simp only [wfL, Bool.and_eq_true] at hw
    exact (foldConcat_props rest t0 hw.1 hw.2).1

/-- an array built from plain elements by `Array::from` is plain: its computed tag is well-formed and covers them -/
theorem plain_mkArray (vs : List Val) (h : plainL vs = true) : plain (Val.mkArray vs) = true := by
  have hw := wfL_asTypeL vs h
  simp only [Val.mkArray, plain, Bool.and_eq_true]
  refine ⟨⟨wf_concatL _ hw, ?_⟩, h⟩
  rw [allTagSub_iff]
  intro v hv
  exact members_sub_concatL (asTypeL vs) hw v.asType (asType_mem vs v hv)

theorem tag_int (k : I64) : sub (Val.int k).asType .int = true := by simp [asType, sub, eqv]
theorem tag_bool (k : Bool) : sub (Val.bool k).asType .bool = true := by simp [asType, sub, eqv]
theorem tag_float (k : F64) : sub (Val.float k).asType .float = true := by simp [asType, sub, eqv]
theorem tag_str (k : String) : sub (Val.str k).asType .str = true := by simp [asType, sub, eqv]
theorem tag_unit : sub Val.unit.asType .void = true := by simp [asType, sub, eqv]

/-- widening along `matches` of the tags of an array's elements -/
theorem allTagSub_widen (xs : List Val) (a b : Ty) (px : plainL xs = true) (wa : wf a = true) (wb : wf b = true)
    (hs : sub a b = true) (h : allTagSub xs a = true) : allTagSub xs b = true := by
  rw [allTagSub_iff] at h ⊢
  intro v hv
  exact sub_trans v.asType a b (plain_wf_tag (plainL_mem px hv)) wa wb (h v hv) hs

theorem matchesL_mem : ∀ (as bs : List Ty) (a : Ty), matchesL as bs = true → a ∈ as → ∃ b ∈ bs, sub a b = true
  | x :: as, y :: bs, a, h, ha => by
    rw [matchesL] at h
    simp only [Bool.and_eq_true] at h
    rcases List.mem_cons.mp ha with rfl | ha
    · exact ⟨y, by simp, h.1⟩
    · obtain ⟨b, hb, hs⟩ := matchesL_mem as bs a h.2 ha
      exact ⟨b, by simp [hb], hs⟩
  | [], _, _, _, ha => by cases ha
  | _ :: _, [], _, h, _ => by simp [matchesL] at h

/-- the join of the element tags lies below the join of the static element types -/
theorem concatL_mono (as bs : List Ty) (wa : wfL as = true) (wb : wfL bs = true) (h : matchesL as bs = true) :
    sub (concatL as) (concatL bs) = true := by
  have wB := wf_concatL bs wb
  have key : ∀ a ∈ as, sub a (concatL bs) = true := by
    intro a ha
    obtain ⟨b, hb, hs⟩ := matchesL_mem as bs a h ha
    exact sub_trans a b _ (wfL_mem wa ha) (wfL_mem wb hb) wB hs (members_sub_concatL bs wb b hb)
  cases as with
  | nil => simp [concatL, sub]
  | cons a0 rest =>
    simp only [wfL, Bool.and_eq_true] at wa
    simp only [concatL]
    exact foldConcat_least rest a0 _ wa.1 wa.2 (key a0 (by simp)) (fun x hx => key x (by simp [hx]))

theorem tyOfArms_wf (g : TEnv) : ∀ (arms : List Arm) (tys : List Ty), tyOfArms g arms = .ok tys → wfL tys = true
  | [], tys, h => by simp only [tyOfArms] at h; cases h; rfl
  | .ty x t body :: rest, tys, h => by
    simp only [tyOfArms] at h
    split at h
    · cases h
    · obtain ⟨tb, htb, h2⟩ := bind_ok h
      obtain ⟨ts, hts, h3⟩ := bind_ok h2
      cases h3
      simp only [wfL, Bool.and_eq_true]
      exact ⟨tyOf_wf _ body tb htb, tyOfArms_wf g rest ts hts⟩
  | .val cands body :: rest, tys, h => by
    simp only [tyOfArms] at h
    obtain ⟨_, _, h1⟩ := bind_ok h
    obtain ⟨tb, htb, h2⟩ := bind_ok h1
    obtain ⟨ts, hts, h3⟩ := bind_ok h2
    cases h3
    simp only [wfL, Bool.and_eq_true]
    exact ⟨tyOf_wf _ body tb htb, tyOfArms_wf g rest ts hts⟩
  | .other body :: rest, tys, h => by
    simp only [tyOfArms] at h
    obtain ⟨tb, htb, h2⟩ := bind_ok h
    obtain ⟨ts, hts, h3⟩ := bind_ok h2
    cases h3
    simp only [wfL, Bool.and_eq_true]
    exact ⟨tyOf_wf _ body tb htb, tyOfArms_wf g rest ts hts⟩

theorem concatL_least (ts : List Ty) (c : Ty) (hw : wfL ts = true) (h : ∀ t ∈ ts, sub t c = true) :
    sub (concatL ts) c = true := by
  cases ts with
  | nil => simp [concatL, sub]
  | cons t0 rest =>
    simp only [wfL, Bool.and_eq_true] at hw
    simp only [concatL]
    exact foldConcat_least rest t0 c hw.1 hw.2 (h t0 (by simp)) (fun x hx => h x (by simp [hx]))

theorem slice_mem {α} (xs : List α) (a b c : Option Int) : ∀ x ∈ Seq.slice xs a b c, x ∈ xs := by
  intro x hx
  simp only [Seq.slice, List.mem_filterMap] at hx
  obtain ⟨i, _, hi⟩ := hx
  exact List.mem_of_getElem? hi

theorem plainL_of_mem (vs : List Val) (h : ∀ x ∈ vs, plain x = true) : plainL vs = true := by
  induction vs with
  | nil => simp [plainL]
  | cons v vs ih => simp [plainL, h v (by simp), ih (fun x hx => h x (by simp [hx]))]

theorem mem_asTypeL : ∀ (vs : List Val) (t : Ty), t ∈ asTypeL vs → ∃ v ∈ vs, v.asType = t
  | [], t, h => by simp [asTypeL] at h
  | w :: vs, t, h => by
    simp only [asTypeL, List.mem_cons] at h
    rcases h with rfl | h
    · exact ⟨w, by simp, rfl⟩
    · obtain ⟨v, hv, e⟩ := mem_asTypeL vs t h
      exact ⟨v, by simp [hv], e⟩

/-- a sub-selection of a plain array, re-tagged by `Array::from`, stays below the array's tag -/
theorem sub_mkArray_sel (t1 : Ty) (xs sel : List Val) (w1 : wf t1 = true) (hall : allTagSub xs t1 = true)
    (pxs : plainL xs = true) (hsel : ∀ x ∈ sel, x ∈ xs) :
    plain (Val.mkArray sel) = true ∧ sub (concatL (asTypeL sel)) t1 = true := by
  have psel : plainL sel = true := plainL_of_mem sel (fun x hx => plainL_mem pxs (hsel x hx))
  refine ⟨plain_mkArray sel psel, concatL_least _ t1 (wfL_asTypeL sel psel) ?_⟩
  intro t ht
  obtain ⟨v, hv, rfl⟩ := mem_asTypeL sel t ht
  exact (allTagSub_iff xs t1).mp hall v (hsel v hv)

/-! ## soundness of the checker model for the evaluator (first-order fragment) -/

theorem int_of_hasTy {r : Val} (h : hasTy r .int = true) : ∃ k, r = .int k := by
  cases r <;> simp [hasTy] at h; exact ⟨_, rfl⟩
theorem bool_of_hasTy {r : Val} (h : hasTy r .bool = true) : ∃ k, r = .bool k := by
  cases r <;> simp [hasTy] at h; exact ⟨_, rfl⟩
theorem float_of_hasTy {r : Val} (h : hasTy r .float = true) : ∃ k, r = .float k := by
  cases r <;> simp [hasTy] at h; exact ⟨_, rfl⟩

def SoundE (f : Nat) : Prop := ∀ (g : TEnv) (env : Env) (e : Expr) (T : Ty) (σ σ' : St) (v : Val),
  EnvOk env g → tyOf g e = .ok T → eval f env e σ = (.ok v, σ') → sub v.asType T = true ∧ plain v = true
def SoundL (f : Nat) : Prop := ∀ (g : TEnv) (env : Env) (es : List Expr) (Ts : List Ty) (σ σ' : St) (vs : List Val),
  EnvOk env g → tyOfList g es = .ok Ts → evalList f env es σ = (.ok vs, σ') → matchesL (asTypeL vs) Ts = true ∧ plainL vs = true
def SoundS (f : Nat) : Prop := ∀ (g g' : TEnv) (env env' : Env) (body : List Expr) (T : Ty) (σ σ' : St) (v : Val),
  EnvOk env g → tyOfSeq g body = .ok (T, g') → evalSeq f env body σ = (.ok (v, env'), σ') →
  sub v.asType T = true ∧ plain v = true ∧ EnvOk env' g'
def SoundSt (f : Nat) : Prop := ∀ (g g' : TEnv) (env env' : Env) (s : Expr) (T : Ty) (σ σ' : St) (v : Val),
  EnvOk env g → tyOfStmt g s = .ok (T, g') → evalStmt f env s σ = (.ok (v, env'), σ') →
  sub v.asType T = true ∧ plain v = true ∧ EnvOk env' g'

/-- what `evalOpt` yields for an optional bound typed by `tyOfOpt` -/
def OptRel : Option Val → Option Ty → Prop
  | some v, some t => sub v.asType t = true ∧ plain v = true
  | none, none => True
  | _, _ => False

theorem optIdx_ok (ov : Option Val) (ot : Option Ty) (hr : OptRel ov ot) (hb : boundOk ot = true) :
    ∃ oi, optIdx ov = .ok oi := by
  cases ov with
  | none => exact ⟨none, rfl⟩
  | some v =>
    cases ot with
    | none => cases hr
    | some t =>
      simp only [boundOk] at hb
      have e := eq_of_eqv_int hb
      subst e
      obtain ⟨k, rfl⟩ := int_of_hasTy (hasTy_of_tag hr.2 hr.1)
      exact ⟨some k.toInt, rfl⟩

def SoundO (f : Nat) : Prop := ∀ (g : TEnv) (env : Env) (o : Option Expr) (ot : Option Ty) (σ σ' : St) (ov : Option Val),
  EnvOk env g → tyOfOpt g o = .ok ot → evalOpt f env o σ = (.ok ov, σ') → OptRel ov ot
def SoundA (f : Nat) : Prop := ∀ (g : TEnv) (env : Env) (v : Val) (arms : List Arm) (tys : List Ty) (σ σ' : St) (r : Val),
  EnvOk env g → plain v = true → tyOfArms g arms = .ok tys → evalArms f env v arms σ = (.ok r, σ') →
  ∃ t ∈ tys, sub r.asType t = true ∧ plain r = true

theorem bindM_ok {α β} {m : M α} {k : α → M β} {σ σ' : St} {b : β} (h : (m >>= k) σ = (.ok b, σ')) :
    ∃ a σ1, m σ = (.ok a, σ1) ∧ k a σ1 = (.ok b, σ') := by
  rw [C07.bind_def] at h
  cases hm : m σ with
  | mk r σ1 =>
    rw [hm] at h
    cases r with
    | ok a => exact ⟨a, σ1, rfl, h⟩
    | error e => simp at h

theorem interp_cmp_bool (op : IntOp) (h : isArith op.body = false) (a b : I64) (r : Val)
    (hr : ofScalar (op.interp a b) = .ok r) : ∃ k, r = .bool k := by
  unfold IntOp.interp at hr
  split at hr
  · simp [ofScalar] at hr
  · cases hb : op.body <;> simp [hb, isArith] at h <;> (simp [hb, IntExpr.eval, ofScalar] at hr; exact ⟨_, hr.symm⟩)

/-- widening the element type of an array's contents along `matches` -/
theorem allHasTy_widen (xs : List Val) (a b : Ty) (hf : foL xs = true) (hs : sub a b = true)
    (h : allHasTy xs a = true) : allHasTy xs b = true := by
  rw [allHasTy_iff] at h ⊢
  intro v hv
  exact matches_sound_partial v a b (foL_mem hf hv) hs (h v hv)

theorem allHasTy_append (xs ys : List Val) (t : Ty) : allHasTy (xs ++ ys) t = (allHasTy xs t && allHasTy ys t) := by
  induction xs with
  | nil => simp [allHasTy]
  | cons v xs ih => simp [allHasTy, ih, Bool.and_assoc]

/-- a scalar binary operator on operands of the types the checker admits yields a value of the type it assigns -/
theorem sound_bin (op : BinOp) (l r T : Ty) (x y v : Val) (tx : sub x.asType l = true) (ty : sub y.asType r = true)
    (px : plain x = true) (py : plain y = true) (wl : wf l = true) (wr : wf r = true)
    (ht : binTy op l r = .ok T) (hv : binScalar op x y = .ok v) :
    sub v.asType T = true ∧ plain v = true := by
  have fx := plain_fo px
  have fy := plain_fo py
  have hx := hasTy_of_tag px tx
  have hy := hasTy_of_tag py ty
  have same : ∀ (w : Val), sameKind w x = true → sub w.asType l = true := fun w hk => by rw [sameKind_asType hk]; exact tx
  cases op with
  | sub =>
    simp only [binTy] at ht
    split at ht
    · rename_i hs
      rw [(okW_ok ht).1]
      rcases in_accNum x y (pair_in x y l r accNum hx hy fx fy hs) with ⟨a, b, rfl, rfl⟩ | ⟨a, b, rfl, rfl⟩
      · obtain ⟨k, rfl⟩ := int_of_hasTy (int_arith_yields_int .sub a b v (by simp) hv)
        exact ⟨same _ rfl, by simp [plain]⟩
      · obtain ⟨k, rfl⟩ := float_of_hasTy (float_arith_yields_float .sub a b v (by simp) hv)
        exact ⟨same _ rfl, by simp [plain]⟩
    · cases ht
  | mul =>
    simp only [binTy] at ht
    split at ht
    · rename_i hs
      rw [(okW_ok ht).1]
      rcases in_accNum x y (pair_in x y l r accNum hx hy fx fy hs) with ⟨a, b, rfl, rfl⟩ | ⟨a, b, rfl, rfl⟩
      · obtain ⟨k, rfl⟩ := int_of_hasTy (int_arith_yields_int .mul a b v (by simp) hv)
        exact ⟨same _ rfl, by simp [plain]⟩
      · obtain ⟨k, rfl⟩ := float_of_hasTy (float_arith_yields_float .mul a b v (by simp) hv)
        exact ⟨same _ rfl, by simp [plain]⟩
    · cases ht
  | div =>
    simp only [binTy] at ht
    split at ht
    · rename_i hs
      rw [(okW_ok ht).1]
      rcases in_accNum x y (pair_in x y l r accNum hx hy fx fy hs) with ⟨a, b, rfl, rfl⟩ | ⟨a, b, rfl, rfl⟩
      · obtain ⟨k, rfl⟩ := int_of_hasTy (int_arith_yields_int .div a b v (by simp) hv)
        exact ⟨same _ rfl, by simp [plain]⟩
      · obtain ⟨k, rfl⟩ := float_of_hasTy (float_arith_yields_float .div a b v (by simp) hv)
        exact ⟨same _ rfl, by simp [plain]⟩
    · cases ht
  | pow =>
    simp only [binTy] at ht
    split at ht
    · rename_i hs
      rw [(okW_ok ht).1]
      rcases in_accNum x y (pair_in x y l r accNum hx hy fx fy hs) with ⟨a, b, rfl, rfl⟩ | ⟨a, b, rfl, rfl⟩
      · obtain ⟨k, rfl⟩ := int_of_hasTy (int_arith_yields_int .pow a b v (by simp) hv)
        exact ⟨same _ rfl, by simp [plain]⟩
      · obtain ⟨k, rfl⟩ := float_of_hasTy (float_arith_yields_float .pow a b v (by simp) hv)
        exact ⟨same _ rfl, by simp [plain]⟩
    · cases ht
  | mod =>
    simp only [binTy] at ht
    split at ht
    · rename_i hs
      cases ht
      obtain ⟨a, b, rfl, rfl⟩ := in_accInt x y (pair_in x y l r accInt hx hy fx fy hs)
      obtain ⟨k, rfl⟩ := int_of_hasTy (int_arith_yields_int .mod a b v (by simp) hv)
      exact ⟨by simp [asType, sub, eqv], by simp [plain]⟩
    · cases ht
  | shl =>
    simp only [binTy] at ht
    split at ht
    · rename_i hs
      cases ht
      obtain ⟨a, b, rfl, rfl⟩ := in_accInt x y (pair_in x y l r accInt hx hy fx fy hs)
      obtain ⟨k, rfl⟩ := int_of_hasTy (int_arith_yields_int .shl a b v (by simp) hv)
      exact ⟨by simp [asType, sub, eqv], by simp [plain]⟩
    · cases ht
  | shr =>
    simp only [binTy] at ht
    split at ht
    · rename_i hs
      cases ht
      obtain ⟨a, b, rfl, rfl⟩ := in_accInt x y (pair_in x y l r accInt hx hy fx fy hs)
      obtain ⟨k, rfl⟩ := int_of_hasTy (int_arith_yields_int .shr a b v (by simp) hv)
      exact ⟨by simp [asType, sub, eqv], by simp [plain]⟩
    · cases ht
  | lt =>
    simp only [binTy] at ht
    split at ht
    · rename_i hs
      cases ht
      rcases in_accNum x y (pair_in x y l r accNum hx hy fx fy hs) with ⟨a, b, rfl, rfl⟩ | ⟨a, b, rfl, rfl⟩
      · simp only [binScalar] at hv
        obtain ⟨k, rfl⟩ := interp_cmp_bool Gen.lower (by decide) a b v hv
        exact ⟨by simp [asType, sub, eqv], by simp [plain]⟩
      · simp only [binScalar] at hv
        cases hv
        exact ⟨by simp [asType, sub, eqv], by simp [plain]⟩
    · cases ht
  | le =>
    simp only [binTy] at ht
    split at ht
    · rename_i hs
      cases ht
      rcases in_accNum x y (pair_in x y l r accNum hx hy fx fy hs) with ⟨a, b, rfl, rfl⟩ | ⟨a, b, rfl, rfl⟩
      · simp only [binScalar] at hv
        obtain ⟨k, rfl⟩ := interp_cmp_bool Gen.lower_equal (by decide) a b v hv
        exact ⟨by simp [asType, sub, eqv], by simp [plain]⟩
      · simp only [binScalar] at hv
        cases hv
        exact ⟨by simp [asType, sub, eqv], by simp [plain]⟩
    · cases ht
  | gt =>
    simp only [binTy] at ht
    split at ht
    · rename_i hs
      cases ht
      rcases in_accNum x y (pair_in x y l r accNum hx hy fx fy hs) with ⟨a, b, rfl, rfl⟩ | ⟨a, b, rfl, rfl⟩
      · simp only [binScalar] at hv
        obtain ⟨k, rfl⟩ := interp_cmp_bool Gen.greater (by decide) a b v hv
        exact ⟨by simp [asType, sub, eqv], by simp [plain]⟩
      · simp only [binScalar] at hv
        cases hv
        exact ⟨by simp [asType, sub, eqv], by simp [plain]⟩
    · cases ht
  | ge =>
    simp only [binTy] at ht
    split at ht
    · rename_i hs
      cases ht
      rcases in_accNum x y (pair_in x y l r accNum hx hy fx fy hs) with ⟨a, b, rfl, rfl⟩ | ⟨a, b, rfl, rfl⟩
      · simp only [binScalar] at hv
        obtain ⟨k, rfl⟩ := interp_cmp_bool Gen.greater_equal (by decide) a b v hv
        exact ⟨by simp [asType, sub, eqv], by simp [plain]⟩
      · simp only [binScalar] at hv
        cases hv
        exact ⟨by simp [asType, sub, eqv], by simp [plain]⟩
    · cases ht
  | band =>
    simp only [binTy] at ht
    split at ht
    · rename_i hs
      rw [(okW_ok ht).1]
      rcases in_accBit x y (pair_in x y l r accBit hx hy fx fy hs) with ⟨a, b, rfl, rfl⟩ | ⟨a, b, rfl, rfl⟩
      · obtain ⟨k, rfl⟩ := int_of_hasTy (int_arith_yields_int .band a b v (by simp) hv)
        exact ⟨same _ rfl, by simp [plain]⟩
      · simp only [binScalar] at hv
        cases hv
        exact ⟨same _ rfl, by simp [plain]⟩
    · cases ht
  | bor =>
    simp only [binTy] at ht
    split at ht
    · rename_i hs
      rw [(okW_ok ht).1]
      rcases in_accBit x y (pair_in x y l r accBit hx hy fx fy hs) with ⟨a, b, rfl, rfl⟩ | ⟨a, b, rfl, rfl⟩
      · obtain ⟨k, rfl⟩ := int_of_hasTy (int_arith_yields_int .bor a b v (by simp) hv)
        exact ⟨same _ rfl, by simp [plain]⟩
      · simp only [binScalar] at hv
        cases hv
        exact ⟨same _ rfl, by simp [plain]⟩
    · cases ht
  | bxor =>
    simp only [binTy] at ht
    split at ht
    · rename_i hs
      rw [(okW_ok ht).1]
      rcases in_accBit x y (pair_in x y l r accBit hx hy fx fy hs) with ⟨a, b, rfl, rfl⟩ | ⟨a, b, rfl, rfl⟩
      · obtain ⟨k, rfl⟩ := int_of_hasTy (int_arith_yields_int .bxor a b v (by simp) hv)
        exact ⟨same _ rfl, by simp [plain]⟩
      · simp only [binScalar] at hv
        cases hv
        exact ⟨same _ rfl, by simp [plain]⟩
    · cases ht
  | eq =>
    simp only [binTy] at ht
    cases ht
    obtain ⟨k, rfl⟩ := bool_of_hasTy (comparison_yields_bool .eq x y v (by simp) hv)
    exact ⟨by simp [asType, sub, eqv], by simp [plain]⟩
  | ne =>
    simp only [binTy] at ht
    cases ht
    obtain ⟨k, rfl⟩ := bool_of_hasTy (comparison_yields_bool .ne x y v (by simp) hv)
    exact ⟨by simp [asType, sub, eqv], by simp [plain]⟩
  | filter => simp only [binTy] at ht; cases ht
  | map => simp only [binTy] at ht; cases ht
  | partition => simp only [binTy] at ht; cases ht
  | add =>
    simp only [binTy] at ht
    split at ht
    · rename_i le re
      rw [(okW_ok ht).1]
      simp only [wf] at wl wr
      obtain ⟨t1, xs, rfl⟩ := arr_of_hasTy hx
      obtain ⟨t2, ys, rfl⟩ := arr_of_hasTy hy
      simp only [asType, sub_arr] at tx ty
      simp only [plain, Bool.and_eq_true] at px py
      have wc := concat_wf t1 t2 px.1.1 py.1.1
      have wC := concat_wf le re wl wr
      obtain ⟨u1, u2⟩ := concat_upper le re wl wr
      obtain ⟨v1, v2⟩ := concat_upper t1 t2 px.1.1 py.1.1
      have s1 : sub t1 (concat le re) = true := sub_trans t1 le _ px.1.1 wl wC tx u1
      have s2 : sub t2 (concat le re) = true := sub_trans t2 re _ py.1.1 wr wC ty u2
      have txs := allTagSub_widen xs t1 (concat t1 t2) px.2 px.1.1 wc v1 px.1.2
      have tys := allTagSub_widen ys t2 (concat t1 t2) py.2 py.1.1 wc v2 py.1.2
      simp only [binScalar, concatArrays] at hv
      split at hv
      · cases hv; exact ⟨by simp only [asType, sub_arr]; exact s2, by simp [plain, py.1.1, py.1.2, py.2]⟩
      · split at hv
        · cases hv; exact ⟨by simp only [asType, sub_arr]; exact s1, by simp [plain, px.1.1, px.1.2, px.2]⟩
        · cases hv
          exact ⟨by simp only [asType, sub_arr]; exact concat_least t1 t2 _ px.1.1 py.1.1 s1 s2,
            by simp [plain, wc, allTagSub_append, txs, tys, plainL_append, px.2, py.2]⟩
    · split at ht
      · rename_i hs
        rw [(okW_ok ht).1]
        rcases in_accAddScalar x y (pair_in x y l r accAddScalar hx hy fx fy hs) with
          ⟨a, b, rfl, rfl⟩ | ⟨a, b, rfl, rfl⟩ | ⟨a, b, rfl, rfl⟩
        · obtain ⟨k, rfl⟩ := int_of_hasTy (int_arith_yields_int .add a b v (by simp) hv)
          exact ⟨same _ rfl, by simp [plain]⟩
        · obtain ⟨k, rfl⟩ := float_of_hasTy (float_arith_yields_float .add a b v (by simp) hv)
          exact ⟨same _ rfl, by simp [plain]⟩
        · simp only [binScalar] at hv
          cases hv
          exact ⟨same _ rfl, by simp [plain]⟩
      · split at ht <;> cases ht

theorem soundE_step (f : Nat) (hE : SoundE f) (hL : SoundL f) (hS : SoundS f) (hA : SoundA f) (hO : SoundO f) : SoundE (f + 1) := by
  intro g env e T σ σ' v henv ht hev
  cases e with
  | litBool b => simp only [tyOf] at ht; cases ht; simp only [eval] at hev; cases hev; exact ⟨tag_bool _, by simp [plain]⟩
  | litInt i => simp only [tyOf] at ht; cases ht; simp only [eval] at hev; cases hev; exact ⟨tag_int _, by simp [plain]⟩
  | litFloat x => simp only [tyOf] at ht; cases ht; simp only [eval] at hev; cases hev; exact ⟨tag_float _, by simp [plain]⟩
  | litStr x => simp only [tyOf] at ht; cases ht; simp only [eval] at hev; cases hev; exact ⟨tag_str _, by simp [plain]⟩
  | litUnit => simp only [tyOf] at ht; cases ht; simp only [eval] at hev; cases hev; exact ⟨tag_unit, by simp [plain]⟩
  | var x =>
    simp only [tyOf] at ht
    split at ht
    · rename_i t hl
      obtain ⟨rfl, _⟩ := okW_ok ht
      obtain ⟨w, hw, h1, h2⟩ := henv x _ hl
      simp only [eval, hw] at hev
      cases hev
      exact ⟨h1, h2⟩
    · cases ht
  | bin op a b =>
    simp only [tyOf] at ht
    obtain ⟨ta, hta, h2⟩ := bind_ok ht
    obtain ⟨tb, htb, h3⟩ := bind_ok h2
    by_cases hop : C07.isScalarOp op = true
    · rw [C07.bin_left_then_right f env op a b σ hop] at hev
      cases ha : eval f env a σ with
      | mk ra σ1 =>
        rw [ha] at hev
        cases ra with
        | error e => simp at hev
        | ok x =>
          simp only [] at hev
          cases hb : eval f env b σ1 with
          | mk rb σ2 =>
            rw [hb] at hev
            cases rb with
            | error e => simp at hev
            | ok y =>
              simp only [] at hev
              obtain ⟨hx, fx⟩ := hE g env a ta σ σ1 x henv hta ha
              obtain ⟨hy, fy⟩ := hE g env b tb σ1 σ2 y henv htb hb
              cases hr : binScalar op x y with
              | error e => rw [hr] at hev; simp at hev
              | ok r =>
                rw [hr] at hev
                cases hev
                exact sound_bin op ta tb T x y v hx hy fx fy (tyOf_wf g a ta hta) (tyOf_wf g b tb htb) h3 hr
    · cases op <;> simp [C07.isScalarOp] at hop <;> (simp only [binTy] at h3; cases h3)
  | pre op a =>
    cases op with
    | deref => simp only [tyOf] at ht; cases ht
    | not =>
      simp only [tyOf] at ht
      obtain ⟨ta, hta, h2⟩ := bind_ok ht
      split at h2
      · rename_i hs
        rw [(okW_ok h2).1]
        simp only [eval] at hev
        obtain ⟨x, σ1, ha, hk⟩ := bindM_ok hev
        obtain ⟨tx, fx⟩ := hE g env a ta σ σ1 x henv hta ha
        have hm := matches_sound_partial x ta accNot (plain_fo fx) hs (hasTy_of_tag fx tx)
        simp only [accNot, hasTy_multi, hasTyAny, Bool.or_eq_true, Bool.or_false] at hm
        rcases hm with hm | hm
        · obtain ⟨k, rfl⟩ := int_of_hasTy hm
          simp only [liftE, preScalar] at hk
          cases hk
          exact ⟨by rw [sameKind_asType (b := .int k) rfl]; exact tx, by simp [plain]⟩
        · obtain ⟨k, rfl⟩ := bool_of_hasTy hm
          simp only [liftE, preScalar] at hk
          cases hk
          exact ⟨by rw [sameKind_asType (b := .bool k) rfl]; exact tx, by simp [plain]⟩
      · cases h2
    | neg =>
      simp only [tyOf] at ht
      obtain ⟨ta, hta, h2⟩ := bind_ok ht
      split at h2
      · rename_i hs
        rw [(okW_ok h2).1]
        simp only [eval] at hev
        obtain ⟨x, σ1, ha, hk⟩ := bindM_ok hev
        obtain ⟨tx, fx⟩ := hE g env a ta σ σ1 x henv hta ha
        have hm := matches_sound_partial x ta accNeg (plain_fo fx) hs (hasTy_of_tag fx tx)
        simp only [accNeg, hasTy_multi, hasTyAny, Bool.or_eq_true, Bool.or_false] at hm
        rcases hm with hm | hm
        · obtain ⟨k, rfl⟩ := int_of_hasTy hm
          simp only [liftE, preScalar] at hk
          cases hk
          exact ⟨by rw [sameKind_asType (b := .int k) rfl]; exact tx, by simp [plain]⟩
        · obtain ⟨k, rfl⟩ := float_of_hasTy hm
          simp only [liftE, preScalar] at hk
          cases hk
          exact ⟨by rw [sameKind_asType (b := .float k) rfl]; exact tx, by simp [plain]⟩
      · cases h2
  | and a b =>
    simp only [tyOf] at ht
    obtain ⟨ta, hta, h2⟩ := bind_ok ht
    obtain ⟨tb, htb, h3⟩ := bind_ok h2
    split at h3
    · rename_i hb
      cases h3
      simp only [Bool.and_eq_true] at hb
      have e1 := eq_of_eqv_bool hb.1
      have e2 := eq_of_eqv_bool hb.2
      subst e1 e2
      simp only [eval] at hev
      obtain ⟨x, σ1, ha, hk⟩ := bindM_ok hev
      obtain ⟨tx, fx⟩ := hE g env a .bool σ σ1 x henv hta ha
      obtain ⟨k, rfl⟩ := bool_of_hasTy (hasTy_of_tag fx tx)
      obtain ⟨k2, σ2, hk1, hk2⟩ := bindM_ok hk
      simp only [liftE, asBool] at hk1
      cases hk1
      cases k
      · simp at hk2
        cases hk2
        exact ⟨tag_bool _, by simp [plain]⟩
      · simp at hk2
        exact hE g env b .bool σ1 σ' v henv htb hk2
    · cases h3
  | or a b =>
    simp only [tyOf] at ht
    obtain ⟨ta, hta, h2⟩ := bind_ok ht
    obtain ⟨tb, htb, h3⟩ := bind_ok h2
    split at h3
    · rename_i hb
      cases h3
      simp only [Bool.and_eq_true] at hb
      have e1 := eq_of_eqv_bool hb.1
      have e2 := eq_of_eqv_bool hb.2
      subst e1 e2
      simp only [eval] at hev
      obtain ⟨x, σ1, ha, hk⟩ := bindM_ok hev
      obtain ⟨tx, fx⟩ := hE g env a .bool σ σ1 x henv hta ha
      obtain ⟨k, rfl⟩ := bool_of_hasTy (hasTy_of_tag fx tx)
      obtain ⟨k2, σ2, hk1, hk2⟩ := bindM_ok hk
      simp only [liftE, asBool] at hk1
      cases hk1
      cases k
      · simp at hk2
        exact hE g env b .bool σ1 σ' v henv htb hk2
      · simp at hk2
        cases hk2
        exact ⟨tag_bool _, by simp [plain]⟩
    · cases h3
  | array es =>
    simp only [tyOf] at ht
    obtain ⟨ts, hts, h2⟩ := bind_ok ht
    rw [(okW_ok h2).1]
    simp only [eval] at hev
    obtain ⟨vs, σ1, hl, hk⟩ := bindM_ok hev
    cases hk
    obtain ⟨hvs, fvs⟩ := hL g env es ts σ σ' vs henv hts hl
    refine ⟨?_, plain_mkArray vs fvs⟩
    simp only [Val.mkArray, asType, sub_arr]
    exact concatL_mono (asTypeL vs) ts (wfL_asTypeL vs fvs) (tyOfList_wf g es ts hts) hvs
  | tuple es =>
    simp only [tyOf] at ht
    split at ht
    · cases ht
    · obtain ⟨ts, hts, h2⟩ := bind_ok ht
      rw [(okW_ok h2).1]
      simp only [eval] at hev
      obtain ⟨vs, σ1, hl, hk⟩ := bindM_ok hev
      cases hk
      obtain ⟨hvs, fvs⟩ := hL g env es ts σ σ' vs henv hts hl
      exact ⟨by simp only [asType, sub_tup]; exact hvs, by simpa [plain] using fvs⟩
  | «at» a i =>
    simp only [tyOf] at ht
    obtain ⟨ta, hta, h2⟩ := bind_ok ht
    obtain ⟨ti, hti, h3⟩ := bind_ok h2
    simp only [eval] at hev
    obtain ⟨x, σ1, ha, hk⟩ := bindM_ok hev
    obtain ⟨y, σ2, hi, hk2⟩ := bindM_ok hk
    obtain ⟨tx, fx⟩ := hE g env a ta σ σ1 x henv hta ha
    obtain ⟨ty, fy⟩ := hE g env i ti σ1 σ2 y henv hti hi
    have hx := hasTy_of_tag fx tx
    have hy := hasTy_of_tag fy ty
    split at h3
    · cases h3
    · rename_i hint
      have e1 := eq_of_eqv_int (by simpa using hint)
      subst e1
      obtain ⟨k, rfl⟩ := int_of_hasTy hy
      simp only [liftE] at hk2
      have hat : atVal x (.int k) = .ok v := by
        cases hq : atVal x (.int k) with
        | ok w => rw [hq] at hk2; cases hk2; rfl
        | error e => rw [hq] at hk2; cases hk2
      split at h3
      · rename_i e
        have we := (okW_ok h3).2
        rw [(okW_ok h3).1]
        obtain ⟨t1, xs, rfl⟩ := arr_of_hasTy hx
        simp only [asType, sub_arr] at tx
        simp only [plain, Bool.and_eq_true] at fx
        have hmem := atVal_mem t1 xs k v hat
        have pv := plainL_mem fx.2 hmem
        exact ⟨sub_trans v.asType t1 e (plain_wf_tag pv) fx.1.1 we ((allTagSub_iff xs t1).mp fx.1.2 v hmem) tx, pv⟩
      · cases h3
        cases x <;> simp [hasTy] at hx
        rename_i str
        have := index_string_yields_string str k v hat
        obtain ⟨w, rfl⟩ : ∃ w, v = .str w := by cases v <;> simp [hasTy] at this; exact ⟨_, rfl⟩
        exact ⟨tag_str _, by simp [plain]⟩
      all_goals cases h3
  | tacc a n =>
    simp only [tyOf] at ht
    obtain ⟨ta, hta, h2⟩ := bind_ok ht
    simp only [eval] at hev
    obtain ⟨x, σ1, ha, hk⟩ := bindM_ok hev
    obtain ⟨tx, fx⟩ := hE g env a ta σ σ1 x henv hta ha
    have hx := hasTy_of_tag fx tx
    split at h2
    · rename_i ts
      split at h2
      · rename_i tx' htx
        rw [(okW_ok h2).1]
        obtain ⟨vs, rfl⟩ := tup_of_hasTy hx
        simp only [asType, sub_tup] at tx
        cases hw : vs[n]? with
        | some w =>
          simp only [hw] at hk
          cases hk
          exact ⟨matchesL_get (asTypeL vs) ts n v.asType tx' tx (asTypeL_get vs n v hw) htx,
            plainL_mem (by simpa [plain] using fx) (List.mem_of_getElem? hw)⟩
        | none =>
          simp only [hw] at hk
          simp [wrong, throwS] at hk
      · cases h2
    all_goals cases h2
  | ifElse c t e =>
    simp only [tyOf] at ht
    obtain ⟨tc, htc, h2⟩ := bind_ok ht
    split at h2
    · cases h2
    · rename_i hb
      have hcond : tc = .bool := by
        simp only [Bool.not_eq_true', Bool.not_eq_false', Bool.or_eq_true] at hb
        have hb' : eqv tc .bool = true ∨ eqv tc .never = true := by
          cases h1 : eqv tc .bool <;> cases h2' : eqv tc .never <;> simp_all
        rcases hb' with h | h
        · exact eq_of_eqv_bool h
        · exfalso
          have : tc = .never := by cases tc <;> simp [eqv] at h <;> rfl
          subst this
          simp only [eval] at hev
          obtain ⟨x, σ1, hc, _⟩ := bindM_ok hev
          obtain ⟨tx, px⟩ := hE g env c .never σ σ1 x henv htc hc
          have := hasTy_of_tag px tx
          rw [hasTy_never] at this
          cases this
      subst hcond
      obtain ⟨tt, htt, h3⟩ := bind_ok h2
      have wtt := tyOf_wf g t tt htt
      simp only [eval] at hev
      obtain ⟨x, σ1, hc, hk⟩ := bindM_ok hev
      obtain ⟨tx, fx⟩ := hE g env c .bool σ σ1 x henv htc hc
      obtain ⟨k, rfl⟩ := bool_of_hasTy (hasTy_of_tag fx tx)
      obtain ⟨k2, σ2, hk1, hk2⟩ := bindM_ok hk
      simp only [liftE, asBool] at hk1
      cases hk1
      cases e with
      | some e =>
        simp only [] at h3
        obtain ⟨te, hte, h4⟩ := bind_ok h3
        have wte := tyOf_wf g e te hte
        have wC := (okW_ok h4).2
        rw [(okW_ok h4).1]
        obtain ⟨u1, u2⟩ := concat_upper tt te wtt wte
        cases k
        · simp at hk2
          obtain ⟨hv, fv⟩ := hE g env e te σ1 σ' v henv hte hk2
          exact ⟨sub_trans _ te _ (plain_wf_tag fv) wte wC hv u2, fv⟩
        · simp at hk2
          obtain ⟨hv, fv⟩ := hE g env t tt σ1 σ' v henv htt hk2
          exact ⟨sub_trans _ tt _ (plain_wf_tag fv) wtt wC hv u1, fv⟩
      | none =>
        simp only [] at h3
        have wC := (okW_ok h3).2
        rw [(okW_ok h3).1]
        obtain ⟨u1, u2⟩ := concat_upper tt .void wtt rfl
        cases k
        · simp at hk2
          cases hk2
          exact ⟨by simpa [asType] using u2, by simp [plain]⟩
        · simp at hk2
          obtain ⟨hv, fv⟩ := hE g env t tt σ1 σ' v henv htt hk2
          exact ⟨sub_trans _ tt _ (plain_wf_tag fv) wtt wC hv u1, fv⟩
  | block body =>
    simp only [tyOf] at ht
    obtain ⟨p, hp, h2⟩ := bind_ok ht
    obtain ⟨tb, g'⟩ := p
    simp only [] at h2
    rw [(okW_ok h2).1]
    simp only [eval] at hev
    obtain ⟨r, σ1, hs, hk⟩ := bindM_ok hev
    obtain ⟨w, env'⟩ := r
    cases hk
    obtain ⟨hv, fv, _⟩ := hS g g' ([] :: env) env' body tb σ σ' w (envOk_push env g henv) hp hs
    exact ⟨hv, fv⟩
  | ifSet x ty e body els =>
    simp only [tyOf] at ht
    split at ht
    · cases ht
    · rename_i hwty
      have wty : wf ty = true := by simpa using hwty
      obtain ⟨te, hte, h2⟩ := bind_ok ht
      obtain ⟨tb, htb, h3⟩ := bind_ok h2
      have wtb := tyOf_wf _ body tb htb
      simp only [eval] at hev
      obtain ⟨x0, σ1, he, hk⟩ := bindM_ok hev
      obtain ⟨hx0, px0⟩ := hE g env e te σ σ1 x0 henv hte he
      by_cases hm : Ty.sub x0.asType ty = true
      · -- the run-time tag matches the declared type: that is all the body's environment needs
        simp only [hm, if_true] at hk
        obtain ⟨hv, pv⟩ := hE ((x, ty) :: g) ([(x, x0)] :: env) body tb σ1 σ' v (envOk_bind env g x x0 ty henv hm px0) htb hk
        cases els with
        | some el =>
          simp only [] at h3
          obtain ⟨tl, htl, h4⟩ := bind_ok h3
          have wC := (okW_ok h4).2
          rw [(okW_ok h4).1]
          exact ⟨sub_trans _ tb _ (plain_wf_tag pv) wtb wC hv (concat_upper tb tl wtb (tyOf_wf g el tl htl)).1, pv⟩
        | none =>
          simp only [] at h3
          have wC := (okW_ok h3).2
          rw [(okW_ok h3).1]
          exact ⟨sub_trans _ tb _ (plain_wf_tag pv) wtb wC hv (concat_upper tb .void wtb rfl).1, pv⟩
      · simp only [hm, Bool.false_eq_true, if_false] at hk
        cases els with
        | some el =>
          simp only [] at h3 hk
          obtain ⟨tl, htl, h4⟩ := bind_ok h3
          have wC := (okW_ok h4).2
          have wtl := tyOf_wf g el tl htl
          rw [(okW_ok h4).1]
          obtain ⟨hv, pv⟩ := hE g env el tl σ1 σ' v henv htl hk
          exact ⟨sub_trans _ tl _ (plain_wf_tag pv) wtl wC hv (concat_upper tb tl wtb wtl).2, pv⟩
        | none =>
          simp only [] at h3 hk
          rw [(okW_ok h3).1]
          cases hk
          exact ⟨by simpa [asType] using (concat_upper tb .void wtb rfl).2, by simp [plain]⟩
  | matchE e arms =>
    simp only [tyOf] at ht
    obtain ⟨te, hte, h2⟩ := bind_ok ht
    obtain ⟨tys, htys, h3⟩ := bind_ok h2
    split at h3
    · cases h3
    · have wC := (okW_ok h3).2
      rw [(okW_ok h3).1]
      simp only [eval] at hev
      obtain ⟨v0, σ1, he, hk⟩ := bindM_ok hev
      obtain ⟨_, pv0⟩ := hE g env e te σ σ1 v0 henv hte he
      obtain ⟨t, htmem, hsub, pr⟩ := hA g env v0 arms tys σ1 σ' v henv pv0 htys hk
      have wts := tyOfArms_wf g arms tys htys
      exact ⟨sub_trans _ t _ (plain_wf_tag pr) (wfL_mem wts htmem) wC hsub (members_sub_concatL tys wts t htmem), pr⟩
  | arrayRepeat a n =>
    simp only [tyOf] at ht
    obtain ⟨tv, htv, h2⟩ := bind_ok ht
    obtain ⟨tn, htn, h3⟩ := bind_ok h2
    split at h3
    · cases h3
    · split at h3
      · cases h3
      · rename_i _ hint
        have e1 := eq_of_eqv_int (by simpa using hint)
        subst e1
        rw [(okW_ok h3).1]
        simp only [eval] at hev
        obtain ⟨x, σ1, ha, hk⟩ := bindM_ok hev
        obtain ⟨y, σ2, hn, hk2⟩ := bindM_ok hk
        obtain ⟨tx, px⟩ := hE g env a tv σ σ1 x henv htv ha
        obtain ⟨ty, py⟩ := hE g env n .int σ1 σ2 y henv htn hn
        obtain ⟨k, rfl⟩ := int_of_hasTy (hasTy_of_tag py ty)
        simp only [] at hk2
        split at hk2
        · simp [throwS] at hk2
        · cases hk2
          refine ⟨by simp only [asType, sub_arr]; exact tx, ?_⟩
          have wx := plain_wf_tag px
          simp only [plain, Bool.and_eq_true]
          refine ⟨⟨wx, ?_⟩, plainL_of_mem _ (fun z hz => by rw [List.eq_of_mem_replicate hz]; exact px)⟩
          rw [allTagSub_iff]
          intro z hz
          rw [List.eq_of_mem_replicate hz]
          exact sub_refl _ wx
  | slice a st en sp =>
    simp only [tyOf] at ht
    obtain ⟨ta, hta, h2⟩ := bind_ok ht
    obtain ⟨ts, hts, h3⟩ := bind_ok h2
    obtain ⟨te, hte, h4⟩ := bind_ok h3
    obtain ⟨tp, htp, h5⟩ := bind_ok h4
    simp only [eval] at hev
    obtain ⟨x, σ1, ha, hk⟩ := bindM_ok hev
    obtain ⟨vs, σ2, hs1, hk2⟩ := bindM_ok hk
    obtain ⟨ve, σ3, hs2, hk3⟩ := bindM_ok hk2
    obtain ⟨vp, σ4, hs3, hk4⟩ := bindM_ok hk3
    obtain ⟨tx, px⟩ := hE g env a ta σ σ1 x henv hta ha
    have r1 := hO g env st ts σ1 σ2 vs henv hts hs1
    have r2 := hO g env en te σ2 σ3 ve henv hte hs2
    have r3 := hO g env sp tp σ3 σ4 vp henv htp hs3
    split at h5
    · cases h5
    · split at h5
      · cases h5
      · rename_i _ hb
        simp only [Bool.not_eq_true', Bool.not_eq_false', Bool.and_eq_true] at hb
        have hb' : boundOk ts = true ∧ boundOk te = true ∧ boundOk tp = true := by simpa using hb
        obtain ⟨i1, e1⟩ := optIdx_ok vs ts r1 hb'.1
        obtain ⟨i2, e2⟩ := optIdx_ok ve te r2 hb'.2.1
        obtain ⟨i3, e3⟩ := optIdx_ok vp tp r3 hb'.2.2
        simp only [liftE] at hk4
        have hx := hasTy_of_tag px tx
        cases ta with
        | arr e =>
          simp only [] at h5
          rw [(okW_ok h5).1]
          obtain ⟨t1, xs, rfl⟩ := arr_of_hasTy hx
          have hsv : sliceVal (.arr t1 xs) vs ve vp = .ok (Val.mkArray (Seq.slice xs i1 i2 i3)) := by
            simp [sliceVal, e1, e2, e3, bind, Except.bind]
          rw [hsv] at hk4
          cases hk4
          simp only [asType, sub_arr] at tx
          simp only [plain, Bool.and_eq_true] at px
          obtain ⟨pm, hsub⟩ := sub_mkArray_sel t1 xs (Seq.slice xs i1 i2 i3) px.1.1 px.1.2 px.2 (slice_mem xs i1 i2 i3)
          have we : wf e = true := by have := (okW_ok h5).2; simpa [wf] using this
          exact ⟨by simp only [Val.mkArray, asType, sub_arr]
                    exact sub_trans _ t1 e (wf_concatL _ (wfL_asTypeL _ (plainL_of_mem _ (fun z hz => plainL_mem px.2 (slice_mem xs i1 i2 i3 z hz))))) px.1.1 we hsub tx, pm⟩
        | str =>
          simp only [] at h5
          cases h5
          cases x <;> simp [hasTy] at hx
          rename_i str
          have hsv : sliceVal (.str str) vs ve vp = .ok (.str (String.ofList (Seq.slice str.toList i1 i2 i3))) := by
            simp [sliceVal, e1, e2, e3, bind, Except.bind]
          rw [hsv] at hk4
          cases hk4
          exact ⟨tag_str _, by simp [plain]⟩
        | _ => simp only [] at h5; cases h5
  | _ => simp only [tyOf] at ht; cases ht

theorem soundO_step (f : Nat) (hE : SoundE f) : SoundO (f + 1) := by
  intro g env o ot σ σ' ov henv ht hev
  cases o with
  | none =>
    simp only [tyOfOpt] at ht; cases ht
    simp only [evalOpt] at hev; cases hev
    trivial
  | some e =>
    simp only [tyOfOpt] at ht
    obtain ⟨t, hte, h2⟩ := bind_ok ht
    cases h2
    simp only [evalOpt] at hev
    obtain ⟨v, σ1, he, hk⟩ := bindM_ok hev
    cases hk
    exact hE g env e t σ σ' v henv hte he

theorem soundA_step (f : Nat) (hE : SoundE f) (hA : SoundA f) : SoundA (f + 1) := by
  intro g env v arms tys σ σ' r henv pv ht hev
  cases arms with
  | nil => simp [evalArms, wrong, throwS] at hev
  | cons arm rest =>
    cases arm with
    | other body =>
      simp only [tyOfArms] at ht
      obtain ⟨tb, htb, h2⟩ := bind_ok ht
      obtain ⟨ts, hts, h3⟩ := bind_ok h2
      cases h3
      simp only [evalArms] at hev
      obtain ⟨h1, p1⟩ := hE g env body tb σ σ' r henv htb hev
      exact ⟨tb, by simp, h1, p1⟩
    | ty x t body =>
      simp only [tyOfArms] at ht
      split at ht
      · cases ht
      · obtain ⟨tb, htb, h2⟩ := bind_ok ht
        obtain ⟨ts, hts, h3⟩ := bind_ok h2
        cases h3
        simp only [evalArms] at hev
        by_cases hm : Ty.sub v.asType t = true
        · simp only [hm, if_true] at hev
          obtain ⟨h1, p1⟩ := hE ((x, t) :: g) ([(x, v)] :: env) body tb σ σ' r (envOk_bind env g x v t henv hm pv) htb hev
          exact ⟨tb, by simp, h1, p1⟩
        · simp only [hm, Bool.false_eq_true, if_false] at hev
          obtain ⟨t', hmem, h1, p1⟩ := hA g env v rest ts σ σ' r henv pv hts hev
          exact ⟨t', by simp [hmem], h1, p1⟩
    | val cands body =>
      simp only [tyOfArms] at ht
      obtain ⟨_, _, h1⟩ := bind_ok ht
      obtain ⟨tb, htb, h2⟩ := bind_ok h1
      obtain ⟨ts, hts, h3⟩ := bind_ok h2
      cases h3
      simp only [evalArms] at hev
      obtain ⟨hit, σ1, _, hk⟩ := bindM_ok hev
      cases hit
      · simp only [Bool.false_eq_true, if_false] at hk
        obtain ⟨t', hmem, h1', p1⟩ := hA g env v rest ts σ1 σ' r henv pv hts hk
        exact ⟨t', by simp [hmem], h1', p1⟩
      · simp only [if_true] at hk
        obtain ⟨h1', p1⟩ := hE g env body tb σ1 σ' r henv htb hk
        exact ⟨tb, by simp, h1', p1⟩

def SoundV (f : Nat) : Prop := ∀ (g : TEnv) (env : Env) (e : Expr) (T : Ty) (σ σ' : St) (v : Val),
  EnvOk env g → tyOf g e = .ok T → evalStmtValue f env e σ = (.ok v, σ') → sub v.asType T = true ∧ plain v = true

theorem soundV_step (f : Nat) (hE : SoundE f) : SoundV (f + 1) := by
  intro g env e T σ σ' v henv ht hev
  simp only [evalStmtValue] at hev
  exact hE g env e T σ σ' v henv ht hev

theorem soundL_step (f : Nat) (hE : SoundE f) (hL : SoundL f) : SoundL (f + 1) := by
  intro g env es Ts σ σ' vs henv ht hev
  cases es with
  | nil =>
    simp only [tyOfList] at ht; cases ht
    simp only [evalList] at hev; cases hev
    simp [asTypeL, matchesL, plainL]
  | cons e es =>
    simp only [tyOfList] at ht
    obtain ⟨t, hte, h2⟩ := bind_ok ht
    obtain ⟨ts, hts, h3⟩ := bind_ok h2
    cases h3
    rw [C07.list_left_to_right] at hev
    obtain ⟨w, σ1, he, hk⟩ := bindM_ok hev
    obtain ⟨ws, σ2, hes, hk2⟩ := bindM_ok hk
    cases hk2
    obtain ⟨h1, f1⟩ := hE g env e t σ σ1 w henv hte he
    obtain ⟨h2', f2⟩ := hL g env es ts σ1 σ' ws henv hts hes
    simp [asTypeL, matchesL, plainL, h1, f1, h2', f2]

theorem soundSt_step (f : Nat) (hE : SoundE f) (hV : SoundV f) : SoundSt (f + 1) := by
  intro g g' env env' s T σ σ' v henv ht hev
  cases s with
  | set x e =>
    simp only [tyOfStmt] at ht
    obtain ⟨t, hte, h2⟩ := bind_ok ht
    cases h2
    simp only [evalStmt] at hev
    obtain ⟨w, σ1, he, hk⟩ := bindM_ok hev
    cases hk
    obtain ⟨hv, fv⟩ := hV g env e T σ σ' v henv hte he
    exact ⟨hv, fv, envOk_insert env g x v T henv hv fv⟩
  | destruct xs e => simp only [tyOfStmt] at ht; cases ht
  | fndecl x ps r body => simp only [tyOfStmt] at ht; cases ht
  | _ =>
    simp only [tyOfStmt] at ht
    obtain ⟨t, hte, h2⟩ := bind_ok ht
    cases h2
    simp only [evalStmt] at hev
    obtain ⟨w, σ1, he, hk⟩ := bindM_ok hev
    cases hk
    obtain ⟨hv, fv⟩ := hE _ _ _ _ _ _ _ henv hte he
    exact ⟨hv, fv, henv⟩

theorem soundS_step (f : Nat) (hSt : SoundSt f) (hS : SoundS f) : SoundS (f + 1) := by
  intro g g' env env' body T σ σ' v henv ht hev
  match body with
  | [] =>
    simp only [tyOfSeq] at ht; cases ht
    simp only [evalSeq] at hev; cases hev
    exact ⟨tag_unit, by simp [plain], henv⟩
  | [s] =>
    simp only [tyOfSeq] at ht
    simp only [evalSeq] at hev
    exact hSt g g' env env' s T σ σ' v henv ht hev
  | s :: s2 :: rest =>
    simp only [tyOfSeq] at ht
    obtain ⟨p, hp, h2⟩ := bind_ok ht
    obtain ⟨t1, g1⟩ := p
    simp only [] at h2
    simp only [evalSeq] at hev
    obtain ⟨r, σ1, hs, hk⟩ := bindM_ok hev
    obtain ⟨w, env1⟩ := r
    simp only [] at hk
    obtain ⟨_, _, henv1⟩ := hSt g g1 env env1 s t1 σ σ1 w henv hp hs
    exact hS g1 g' env1 env' (s2 :: rest) T σ1 σ' v henv1 h2 hk

/-- all five statements, for every amount of fuel -/
theorem sound_all : ∀ f : Nat, SoundE f ∧ SoundL f ∧ SoundS f ∧ SoundSt f ∧ SoundV f ∧ SoundA f ∧ SoundO f := by
  intro f
  induction f with
  | zero =>
    refine ⟨?_, ?_, ?_, ?_, ?_, ?_, ?_⟩
    · intro g env e T σ σ' v _ _ hev; simp [eval, throwS] at hev
    · intro g env es Ts σ σ' vs _ _ hev; simp [evalList, throwS] at hev
    · intro g g' env env' body T σ σ' v _ _ hev; simp [evalSeq, throwS] at hev
    · intro g g' env env' s T σ σ' v _ _ hev; simp [evalStmt, throwS] at hev
    · intro g env e T σ σ' v _ _ hev; simp [evalStmtValue, throwS] at hev
    · intro g env v arms tys σ σ' r _ _ _ hev; simp [evalArms, throwS] at hev
    · intro g env o ot σ σ' ov _ _ hev; simp [evalOpt, throwS] at hev
  | succ f ih =>
    obtain ⟨hE, hL, hS, hSt, hV, hA, hO⟩ := ih
    exact ⟨soundE_step f hE hL hS hA hO, soundL_step f hE hL, soundS_step f hSt hS, soundSt_step f hE hV, soundV_step f hE,
      soundA_step f hE hA, soundO_step f hE⟩

/-- **type soundness, evaluator level, first-order fragment**: if the checker model assigns `T` to an expression in an
    environment whose variables hold first-order values of their static types, every value the reference evaluator
    produces for it (with any fuel, from any store) inhabits `T` - by contents - and is first-order -/
theorem eval_sound (f : Nat) (g : TEnv) (env : Env) (e : Expr) (T : Ty) (σ σ' : St) (v : Val)
    (henv : EnvOk env g) (ht : tyOf g e = .ok T) (hev : eval f env e σ = (.ok v, σ')) :
    hasTy v T = true ∧ sub v.asType T = true ∧ plain v = true :=
  have h := (sound_all f).1 g env e T σ σ' v henv ht hev
  ⟨hasTy_of_tag h.2 h.1, h.1, h.2⟩

/-- the same for whole programs (statement lists with `:=` declarations), from the empty environment -/
theorem program_sound (f : Nat) (prog : List Expr) (T : Ty) (σ σ' : St) (v : Val) (env' : Env)
    (ht : tyOfProgram prog = .ok T) (hev : evalSeq f [[]] prog σ = (.ok (v, env'), σ')) :
    hasTy v T = true := by
  unfold tyOfProgram at ht
  obtain ⟨p, hp, h2⟩ := bind_ok ht
  obtain ⟨t, g'⟩ := p
  cases h2
  have h0 : EnvOk [[]] [] := by intro x t hx; simp [TEnv.lookup] at hx
  have h := (sound_all f).2.2.1 [] g' [[]] env' prog T σ σ' v h0 hp hev
  exact hasTy_of_tag h.2.1 h.1

/-- non-vacuity: a program with a declaration, an index, a comparison and branches of different types is typed
    `int|string` by the model and evaluates (fuel 10) to a value -/
def sampleProg : List Expr :=
  [.set "x" (.array [.litInt 1, .litInt 2]),
   .ifElse (.bin .lt (.at (.var "x") (.litInt 0)) (.litInt 2)) (.block [.at (.var "x") (.litInt 1)]) (some (.block [.litStr "s"]))]

example : tyOfProgram sampleProg = .ok (.multi [.int, .str]) := by
  simp [tyOfProgram, sampleProg, tyOfSeq, tyOfStmt, tyOf, tyOfList, Res.bind, okW, binTy, TEnv.lookup, concatL, pairTy,
    accNum, concat, wf, wfL, membersOk, nodupL, memL, eqv, sub, anyMatch, matchesL, insertM, extendM]

end Ssl.C01
