"""Programs of the first-order expression fragment modelled by SslModel.Model.Check (literals, variables, arrays,
tuples, prefix ! / -, && / ||, scalar binary operators, indexing, tuple access, if / else, `if x: T = e`, match, blocks,
`:=`), over free
variables of given static types that the folder cannot see through (`p := *(mut T v)`).

Every compound expression contains a variable, so that constant folding (which narrows static types: `if true`,
`[1, 2.5][0]`, and reports failing constant operations at parse time) never applies: the static type the
implementation reports for the program is then the checker's own."""
from gen.programs import INT, BOOL, STR, FLOAT, VOID, tup, arr, multi
from gen import ast as A

I = lambda n: ("i", n)
V = lambda x: ("id", x)

# name, static type, initial value (a member of the type)
FREE = [
    ("pi", INT, I(3)), ("pj", INT, I(-2)), ("pf", FLOAT, ("f", 1.5)), ("pb", BOOL, ("true",)), ("ps", STR, ("s", "héllo")),
    ("pai", arr(INT), ("array", [I(1), I(2), I(3)])), ("paf", arr(FLOAT), ("array", [("f", 0.5)])),
    ("pu", multi(INT, FLOAT), I(7)), ("pus", multi(INT, STR), ("s", "u")), ("pau", arr(multi(INT, FLOAT)), ("array", [I(1), ("f", 2.5)])),
    ("pt", tup(INT, STR), ("tuple", [I(1), ("s", "t")])), ("paa", arr(arr(INT)), ("array", [("array", [I(1)]), ("array", [])])),
    ("pua", multi(arr(INT), STR), ("array", [I(5)])), ("pv", VOID, ("unit",)), ("pbu", multi(BOOL, INT), ("false",)),
    ("ptt", tup(tup(INT, FLOAT), BOOL), ("tuple", [("tuple", [I(1), ("f", 2.0)]), ("true",)])),
]

SET_TYPES = [INT, FLOAT, STR, BOOL, arr(INT), multi(INT, FLOAT), multi(INT, STR), arr(multi(INT, FLOAT)), tup(INT, STR), ("any",), VOID, arr(("any",))]

BINOPS = ["add", "sub", "mul", "div", "mod", "pow", "eq", "ne", "gt", "ge", "lt", "le", "band", "bor", "bxor", "shl", "shr"]


def has_var(e):
    if isinstance(e, tuple):
        if e and e[0] == "id":
            return True
        return any(has_var(x) for x in e[1:])
    if isinstance(e, list):
        return any(has_var(x) for x in e)
    return False


def opaque_set(x, rhs):
    """a declaration whose right side is a constant expression would make the name a constant the folder propagates
    (`y := true; if y {..} else {..}` is typed by its first branch only): put the constant behind an opaque condition"""
    if has_var(rhs) and not (x is None and rhs[0] == "tuple"):
        return rhs
    # (`x is None`: the source of a destructuring; a tuple LITERAL there hands its constant elements to the names one by one)
    return ("if", V("pb"), ("block", [rhs]), ("block", [rhs]))


def normal(stmts):
    """control-flow constructs into statement positions, declared names opaque"""
    return A.hoist(stmts, on_set=opaque_set)


class Gen:
    def __init__(self, rnd):
        self.rnd = rnd

    def leaf(self, names, want_var=False):
        r = self.rnd
        if want_var or r.random() < 0.7:
            return V(r.choice(names))
        return r.choice([I(r.choice([0, 1, 2, -1, 63, 64])), ("f", r.choice([0.0, 1.5, -2.0])), ("true",), ("false",), ("s", r.choice(["", "a", "żó"])), ("unit",)])

    def expr(self, names, d):
        r = self.rnd
        if d <= 0:
            return self.leaf(names)
        k = r.choice(["leaf", "bin", "bin", "bin", "pre", "and", "array", "tuple", "at", "at", "tacc", "if", "if", "block", "ifset", "match", "slice", "repeat"])
        sub = lambda: self.expr(names, d - 1)
        if k == "leaf":
            return self.leaf(names)
        if k == "bin":
            e = ("bin", r.choice(BINOPS), sub(), sub())
        elif k == "pre":
            e = ("pre", r.choice(["not", "neg"]), sub())
        elif k == "and":
            e = (r.choice(["and", "or"]), sub(), sub())
        elif k == "array":
            e = ("array", [sub() for _ in range(r.randint(0, 3))])
        elif k == "tuple":
            e = ("tuple", [sub() for _ in range(r.randint(2, 3))])
        elif k == "at":
            e = ("at", sub(), sub())
        elif k == "tacc":
            e = ("tacc", sub(), r.randint(0, 2))
        elif k == "if":
            e = ("if", sub(), ("block", self.stmts(list(names), d - 1, r.randint(1, 2))), ("block", self.stmts(list(names), d - 1, r.randint(1, 2))) if r.random() < 0.7 else None)
        elif k == "slice":
            e = ("slice", sub(), sub() if r.random() < 0.6 else None, sub() if r.random() < 0.5 else None, sub() if r.random() < 0.4 else None)
        elif k == "repeat":
            e = ("repeat", sub(), sub())
        elif k == "ifset":
            x = r.choice(["x", "y", "pi"])
            e = ("ifset", x, r.choice(SET_TYPES), sub(), ("block", self.stmts(list(names) + [x], d - 1, r.randint(1, 2))),
                 ("block", self.stmts(list(names), d - 1, r.randint(1, 2))) if r.random() < 0.7 else None)
        elif k == "match":
            arms = []
            for _ in range(r.randint(0, 3)):
                kk = r.choice(["ty", "ty", "val", "other"])
                if kk == "ty":
                    x = r.choice(["x", "y", "pi"])
                    arms.append(("ty", x, r.choice(SET_TYPES), ("block", self.stmts(list(names) + [x], d - 1, 1))))
                elif kk == "val":
                    arms.append(("val", [self.leaf(names) for _ in range(r.randint(1, 2))], ("block", self.stmts(list(names), d - 1, 1))))
                else:
                    arms.append(("other", ("block", self.stmts(list(names), d - 1, 1))))
            e = ("match", sub(), arms)
        else:
            e = ("block", self.stmts(list(names), d - 1, r.randint(0, 3)))
        return self.fix(e, names)

    def rec(self, e, t):
        """remember the type an operand was generated at (so that `fix` can replace it by a variable of that type)"""
        if not hasattr(self, "_ty"):
            self._ty = {}
        self._ty[id(e)] = (e, t)
        return e

    def vleaf(self, names, env, old):
        if env is None:
            return self.leaf(names, True)
        got = getattr(self, "_ty", {}).get(id(old))
        if got is None or got[0] is not old:
            return old
        cands = [n for n, t in env if t == got[1]]
        return V(self.rnd.choice(cands)) if cands else old

    def fix(self, e, names):
        """every operator application must contain a variable (nothing for the folder to evaluate); `names` is a list of
        names (untyped generation) or an environment of (name, type) (the replacement then keeps the operand's type)"""
        env = None
        if names and isinstance(names[0], tuple):
            env = names
            names = [n for n, _ in env]
        k = e[0]
        if k in ("and", "or"):
            if not has_var(e[1]):       # a constant left operand is folded away (`true || x` is `true`)
                e = (k, self.vleaf(names, env, e[1]), e[2])
        elif k == "bin":
            if not (has_var(e[-2]) or has_var(e[-1])):
                e = e[:-1] + (self.vleaf(names, env, e[-1]),)
            # both operands constant-free is not required; but an operand that is itself a constant-only compound was fixed below
        elif k == "pre":
            if not has_var(e[2]):
                e = (k, e[1], self.vleaf(names, env, e[2]))
        elif k == "at":
            if not has_var(e[1]):
                e = (k, self.vleaf(names, env, e[1]), e[2])
        elif k == "tacc":
            if not has_var(e[1]):
                e = (k, self.vleaf(names, env, e[1]), e[2])
        elif k == "if":
            if not has_var(e[1]):
                e = (k, ("bin", "eq", self.leaf(names, True), e[1]), e[2], e[3])
        elif k == "slice":
            if not has_var(e[1]):
                e = (k, self.vleaf(names, env, e[1])) + e[2:]
        elif k == "repeat":
            if not has_var(e[2]):
                e = (k, e[1], self.vleaf(names, env, e[2]))
        elif k == "ifset":
            if not has_var(e[3]):
                e = e[:3] + (self.leaf(names, True),) + e[4:]
        elif k == "match":
            if not has_var(e[1]):
                e = (k, self.leaf(names, True), e[2])
        return e

    # ---- type-directed generation (mostly well-typed; `noise` = chance of an operand of a random other type)
    TYPES = [INT, INT, FLOAT, BOOL, STR, arr(INT), arr(FLOAT), tup(INT, STR), multi(INT, FLOAT), arr(multi(INT, FLOAT)), VOID]

    def typed(self, ty, env, d, noise=0.08):
        """env: list of (name, type)"""
        r = self.rnd
        if r.random() < noise:
            ty = r.choice(self.TYPES)
        unions = [(n, t) for n, t in env if t[0] == "multi"]
        if d > 0 and unions and r.random() < 0.18:
            return self.narrow(ty, env, d, noise, unions)
        vars_ = [n for n, t in env if t == ty]
        def var_or(lit):
            if vars_ and r.random() < 0.8:
                return V(r.choice(vars_))
            return lit
        sub = lambda t: self.rec(self.typed(t, env, d - 1, noise), t)
        anyv = lambda: V(r.choice([n for n, _ in env]))
        if ty == INT:
            lit = I(r.choice([0, 1, 2, -1, 63, 64, 7]))
            if d <= 0:
                return var_or(lit)
            k = r.choice(["v", "arith", "arith", "at", "tacc", "if", "neg", "bit", "block"])
            if k == "v":
                return var_or(lit)
            if k == "arith":
                return self.fix(("bin", r.choice(["add", "sub", "mul", "div", "mod", "pow", "shl", "shr"]), sub(INT), sub(INT)), env)
            if k == "bit":
                return self.fix(("bin", r.choice(["band", "bor", "bxor"]), sub(INT), sub(INT)), env)
            if k == "at":
                return self.fix(("at", sub(arr(INT)), sub(INT)), env)
            if k == "tacc":
                return self.fix(("tacc", sub(tup(INT, STR)), 0), env)
            if k == "neg":
                return self.fix(("pre", r.choice(["neg", "not"]), sub(INT)), env)
            if k == "block":
                return self.tblock(INT, env, d - 1, noise)
            return self.fix(("if", sub(BOOL), self.tblock(INT, env, d - 1, noise), self.tblock(INT, env, d - 1, noise)), env)
        if ty == FLOAT:
            lit = ("f", r.choice([0.0, 1.5, -2.0]))
            if d <= 0:
                return var_or(lit)
            k = r.choice(["v", "arith", "neg", "at", "if"])
            if k == "arith":
                return self.fix(("bin", r.choice(["add", "sub", "mul", "div", "pow"]), sub(FLOAT), sub(FLOAT)), env)
            if k == "neg":
                return self.fix(("pre", "neg", sub(FLOAT)), env)
            if k == "at":
                return self.fix(("at", sub(arr(FLOAT)), sub(INT)), env)
            if k == "if":
                return self.fix(("if", sub(BOOL), self.tblock(FLOAT, env, d - 1, noise), self.tblock(FLOAT, env, d - 1, noise)), env)
            return var_or(lit)
        if ty == BOOL:
            lit = (r.choice(["true", "false"]),)
            if d <= 0:
                return var_or(lit)
            k = r.choice(["v", "cmp", "cmp", "eq", "and", "not", "bit"])
            if k == "cmp":
                t = r.choice([INT, FLOAT])
                return self.fix(("bin", r.choice(["lt", "le", "gt", "ge"]), sub(t), sub(t)), env)
            if k == "eq":
                return self.fix(("bin", r.choice(["eq", "ne"]), sub(r.choice(self.TYPES)), sub(r.choice(self.TYPES))), env)
            if k == "and":
                return self.fix((r.choice(["and", "or"]), sub(BOOL), sub(BOOL)), env)
            if k == "not":
                return self.fix(("pre", "not", sub(BOOL)), env)
            if k == "bit":
                return self.fix(("bin", r.choice(["band", "bor", "bxor"]), sub(BOOL), sub(BOOL)), env)
            return var_or(lit)
        if ty == STR:
            lit = ("s", r.choice(["", "a", "żó"]))
            if d <= 0:
                return var_or(lit)
            k = r.choice(["v", "add", "at", "tacc", "if", "slice"])
            if k == "slice":
                return self.fix(("slice", sub(STR), sub(INT) if r.random() < 0.6 else None, sub(INT) if r.random() < 0.5 else None,
                                 sub(INT) if r.random() < 0.4 else None), env)
            if k == "add":
                return self.fix(("bin", "add", sub(STR), sub(STR)), env)
            if k == "at":
                return self.fix(("at", sub(STR), sub(INT)), env)
            if k == "tacc":
                return self.fix(("tacc", sub(tup(INT, STR)), 1), env)
            if k == "if":
                return self.fix(("if", sub(BOOL), self.tblock(STR, env, d - 1, noise), self.tblock(STR, env, d - 1, noise)), env)
            return var_or(lit)
        if ty == VOID:
            if d > 0 and r.random() < 0.4:
                return self.fix(("if", sub(BOOL), self.tblock(VOID, env, d - 1, noise), None), env)
            return var_or(("unit",))
        if ty[0] == "arr":
            if d <= 0:
                return var_or(("array", []))
            k = r.choice(["v", "lit", "lit", "add", "if", "slice", "repeat"])
            if k == "slice":
                return self.fix(("slice", sub(ty), sub(INT) if r.random() < 0.6 else None, sub(INT) if r.random() < 0.5 else None,
                                 sub(INT) if r.random() < 0.4 else None), env)
            if k == "repeat":
                return self.fix(("repeat", sub(ty[1]), sub(INT)), env)
            if k == "lit":
                return ("array", [sub(ty[1]) for _ in range(r.randint(0, 3))])
            if k == "add":
                return self.fix(("bin", "add", sub(ty), sub(ty)), env)
            if k == "if":
                return self.fix(("if", sub(BOOL), self.tblock(ty, env, d - 1, noise), self.tblock(ty, env, d - 1, noise)), env)
            return var_or(("array", [sub(ty[1])]))
        if ty[0] == "tup":
            if d <= 0 or r.random() < 0.3:
                return var_or(("tuple", [self.typed(t, env, 0, noise) for t in ty[1]]))
            return ("tuple", [sub(t) for t in ty[1]])
        if ty[0] == "multi":
            ms = list(ty[1])
            if d <= 0 or r.random() < 0.3:
                return var_or(self.typed(r.choice(ms), env, 0, noise))
            a, b = r.sample(ms, 2) if len(ms) >= 2 else (ms[0], ms[0])
            return self.fix(("if", sub(BOOL), self.tblock(a, env, d - 1, noise), self.tblock(b, env, d - 1, noise)), env)
        return anyv()

    def narrow(self, ty, env, d, noise, unions):
        """an expression of type `ty` that takes a union-typed variable apart with `if x: T = u` or `match u`"""
        r = self.rnd
        u, ut = r.choice(unions)
        ms = list(ut[1])
        binder = r.choice(["x", "y", "pi"])
        def body(m):
            e2 = [(binder, m)] + [(n, t) for n, t in env if n != binder]
            return self.tblock(ty, e2, d - 1, noise)
        if r.random() < 0.5:
            m = r.choice(ms + [multi(*ms)] if r.random() < 0.9 else SET_TYPES)
            return ("ifset", binder, m, V(u), body(m), self.tblock(ty, env, d - 1, noise))
        arms = []
        if r.random() < 0.3:
            arms.append(("val", [self.typed(r.choice(ms), env, 0, noise)], self.tblock(ty, env, d - 1, noise)))
        order = ms[:]
        r.shuffle(order)
        drop = r.random()
        for j, m in enumerate(order):
            if j == len(order) - 1 and drop < 0.35:
                arms.append(("other", self.tblock(ty, env, d - 1, noise)))      # default arm instead of the last member
            elif j == len(order) - 1 and drop < 0.35 + noise:
                pass                                                           # not covered: must be rejected
            else:
                arms.append(("ty", binder, m, body(m)))
        return ("match", V(u), arms)

    def tblock(self, ty, env, d, noise):
        env = list(env)
        out = []
        for _ in range(self.rnd.randint(0, 2)):
            t = self.rnd.choice(self.TYPES)
            x = self.rnd.choice(["x", "y", "z", "pi", "pai"])
            out.append(("set", x, self.typed(t, env, d, noise)))
            env.insert(0, (x, t))
            env[:] = [(n, tt) for i, (n, tt) in enumerate(env) if n != x or i == 0]
        out.append(self.typed(ty, env, d, noise))
        return ("block", out)

    def typed_program(self, depth=3, noise=0.08):
        env = [(n, t) for n, t, _ in FREE]
        blk = self.tblock(self.rnd.choice(self.TYPES), env, depth, noise)
        return blk[1]

    def stmts(self, names, d, n):
        out = []
        for j in range(n):
            if self.rnd.random() < 0.4:
                x = self.rnd.choice(["x", "y", "z", "pi", "pai"])       # may shadow a free variable
                out.append(("set", x, self.expr(names, d)))
                if x not in names:
                    names.append(x)
            else:
                out.append(self.expr(names, d))
        return out

    def program(self, depth=3):
        names = [n for n, _, _ in FREE]
        body = self.stmts(names, depth, self.rnd.randint(1, 4))
        return body


class GenF(Gen):
    """the fragment plus functions: declarations (recursive ones included), anonymous functions, calls, `return`"""
    FTYPES = [INT, FLOAT, BOOL, STR, arr(INT), multi(INT, FLOAT), multi(INT, STR), VOID]

    def fn_body(self, params, rt, env, d, noise, self_name=None):
        """statements of a function body that (mostly) returns a value of `rt` on every path"""
        r = self.rnd
        benv = [(n, t) for n, t in params][::-1] + [(n, t) for n, t in env if n not in [p[0] for p in params]]
        out = []
        for _ in range(r.randint(0, 2)):
            t = r.choice(self.TYPES)
            x = r.choice(["x", "y", "z"])
            out.append(("set", x, self.ftyped(t, benv, d, noise)))
            benv = [(x, t)] + [(n, tt) for n, tt in benv if n != x]
        if d > 0 and r.random() < 0.4:
            # an early return in a branch
            out.append(("if", self.ftyped(BOOL, benv, d - 1, noise), ("block", [("return", self.ftyped(rt, benv, d - 1, noise) if rt != VOID or r.random() < 0.5 else None)]), None))
        k = r.random()
        if k < 0.8 or (k < 0.95 and d <= 0):
            out.append(("return", self.ftyped(rt, benv, d, noise) if (rt != VOID or r.random() < 0.5) else None))
        elif k < 0.95:
            out.append(("if", self.ftyped(BOOL, benv, d - 1, noise), ("block", [("return", self.ftyped(rt, benv, d - 1, noise))]),
                        ("block", [("return", self.ftyped(rt, benv, d - 1, noise))])))
        else:
            out.append(self.ftyped(rt, benv, d, noise))          # no return at all: MissingReturn unless rt admits ()
        return out

    def ftyped(self, ty, env, d, noise=0.08):
        r = self.rnd
        fns = [(n, t) for n, t in env if t[0] == "fn" and (t[2] == ty)]
        if d > 0 and fns and r.random() < 0.3:
            n, t = r.choice(fns)
            args = [self.ftyped(p, env, d - 1, noise) for p in t[1]]
            if r.random() < noise:
                args = args[:-1] if args and r.random() < 0.5 else args + [self.ftyped(INT, env, 0, noise)]
            return ("call", V(n), args)
        if d > 0 and r.random() < 0.06 and ty in self.FTYPES:
            # an anonymous function called on the spot
            ps = [(r.choice(["a", "b", "pi"]), r.choice(self.FTYPES[:5])) for _ in range(r.randint(0, 2))]
            ps = list({n: (n, t) for n, t in ps}.values())
            f = ("fn", ps, ty, self.fn_body(ps, ty, env, d - 1, noise))
            return ("call", f, [self.ftyped(t, env, d - 1, noise) for _, t in ps])
        return self.typed(ty, env, d, noise)

    def typed(self, ty, env, d, noise=0.08):
        # route the sub-expressions of the base generator through `ftyped` so that calls appear everywhere
        if getattr(self, "_in", 0) == 0 and d > 0 and self.rnd.random() < 0.25:
            self._in = 1
            try:
                return self.ftyped(ty, env, d, noise)
            finally:
                self._in = 0
        return Gen.typed(self, ty, env, d, noise)

    def fprogram(self, depth=3, noise=0.08):
        r = self.rnd
        env = [(n, t) for n, t, _ in FREE]
        out = []
        for _ in range(r.randint(1, 3)):
            fname = r.choice(["f", "g", "h"])
            ps = [(r.choice(["a", "b", "c", "pi"]), r.choice(self.FTYPES[:6])) for _ in range(r.randint(0, 3))]
            ps = list({n: (n, t) for n, t in ps}.values())
            rt = r.choice(self.FTYPES)
            ft = ("fn", tuple(t for _, t in ps), rt)
            body_env = [(fname, ft)] + [(n, t) for n, t in env if n != fname]
            out.append(("fndecl", fname, ps, rt, self.fn_body(ps, rt, body_env, depth - 1, noise, fname)))
            env = body_env
        blk = self.tblock(r.choice(self.TYPES), env, depth, noise)
        return out + blk[1]


from gen.programs import cell as _cell

FREE_S = FREE + [
    ("ci", _cell(INT), ("mut", INT, I(4))), ("cf", _cell(FLOAT), ("mut", FLOAT, ("f", 0.5))), ("cs", _cell(STR), ("mut", STR, ("s", "c"))),
    ("cb", _cell(BOOL), ("mut", BOOL, ("false",))), ("ca", _cell(arr(INT)), ("mut", arr(INT), ("array", [I(1)]))),
    ("cu", _cell(multi(INT, STR)), ("mut", multi(INT, STR), I(2))),
    # structs: a struct, and a union of struct types that share the field `a`
    ("pst", ("struct", (("a", INT), ("b", STR))), ("struct", [("a", I(1)), ("b", ("s", "x"))])),
    ("psu", multi(("struct", (("a", INT),)), ("struct", (("a", FLOAT), ("c", BOOL)))), ("struct", [("a", I(2))])),
    # union-typed OPERANDS: a union of tuple types, of cell types, of function types (and `pua`, a union of indexable types)
    ("put", multi(tup(INT, STR), tup(FLOAT, STR, BOOL)), ("tuple", [I(1), ("s", "t")])),
    ("puq", multi(tup(INT, STR), tup(FLOAT, BOOL)), ("tuple", [I(1), ("s", "q")])),
    ("puc", multi(_cell(INT), _cell(multi(INT, FLOAT))), ("mut", INT, I(1))),
    ("puf", multi(("fn", (INT,), INT), ("fn", (multi(INT, FLOAT),), STR)), ("fn", [("q", INT)], INT, [("return", V("q"))])),
    ("pum", multi(("fn", (_cell(INT),), INT), ("fn", (_cell(multi(INT, FLOAT)),), INT)), ("fn", [("q", _cell(INT))], INT, [("return", ("pre", "deref", V("q")))])),
    ("pug", multi(("fn", (INT, STR), arr(INT)), ("fn", (multi(INT, FLOAT), STR), arr(INT))), ("fn", [("q", INT), ("w", STR)], arr(INT), [("return", ("array", [V("q")]))])),
]


class GenS(GenF):
    """the fragment plus functions plus mutable cells and loops"""
    CELLS = {"ci": INT, "cf": FLOAT, "cs": STR, "cb": BOOL, "ca": arr(INT), "cu": multi(INT, STR)}
    COMPOUND = {"int": ["add", "sub", "mul", "div", "mod", "pow", "shl", "shr", "band", "bor", "bxor"], "float": ["add", "sub", "mul", "div", "pow"],
                "str": ["add"], "bool": ["band", "bor", "bxor"]}

    def cell_stmt(self, env, d, noise):
        """a statement that reads / writes a cell (mostly well-typed)"""
        r = self.rnd
        cells = [(n, t[1]) for n, t in env if t[0] == "cell"]
        if not cells:
            return self.ftyped(r.choice(self.TYPES), env, d, noise)
        n, ct = r.choice(cells)
        k = r.random()
        vt = ct if r.random() > noise else r.choice(self.TYPES)
        if k < 0.35:
            return ("assign", "set", V(n), self.ftyped(vt, env, d, noise))
        if k < 0.75:
            key = ct[0] if ct[0] in self.COMPOUND else None
            ops = self.COMPOUND.get(key, ["add"]) if r.random() > noise else ["add", "sub", "shl", "band", "pow"]
            if ct[0] == "multi" and r.random() > noise + 0.03:
                ops = ["set"]                   # a compound assignment to a union-typed cell is (almost always) rejected
            return ("assign", r.choice(ops), V(n), self.ftyped(vt, env, d, noise))
        if k < 0.85:
            x = r.choice(["x", "y", "cz"])
            return ("set", x, ("mut", ct, self.ftyped(vt, env, d, noise)))
        return ("pre", "deref", V(n))

    def loop_stmt(self, env, d, noise):
        r = self.rnd
        body = []
        for _ in range(r.randint(0, 2)):
            body.append(self.cell_stmt(env, d - 1, noise) if r.random() < 0.6 else self.ftyped(r.choice(self.TYPES), env, d - 1, noise))
        if r.random() < 0.5:
            body.append(("if", self.ftyped(BOOL, env, d - 1, noise), ("block", [(r.choice(["break", "continue"]),)]), None))
        body.append(("break",))
        k = r.random()
        iters = [(n, t) for n, t in env if t[0] == "fn" and t[1] == () and t[2][0] == "tup" and len(t[2][1]) == 2 and t[2][1][0] == BOOL]
        if iters and r.random() < 0.45:
            # `for x in it { .. }`: the body may use x (and need not end with `break`)
            n, t = r.choice(iters)
            x = r.choice(["x", "y", "pi"])
            benv = [(x, t[2][1][1])] + [(nn, tt) for nn, tt in env if nn != x]
            fbody = [self.ftyped(r.choice(self.TYPES), benv, d - 1, noise) for _ in range(r.randint(0, 2))]
            if r.random() < 0.5:
                fbody.append(("if", self.ftyped(BOOL, benv, d - 1, noise), ("block", [(r.choice(["break", "continue"]),)]), None))
            it = V(n) if r.random() > noise else self.ftyped(r.choice(self.TYPES), env, 0, noise)
            return ("for", x, it, ("block", fbody))
        if k < 0.4:
            return ("loop", ("block", body))
        if k < 0.8:
            return ("while", self.ftyped(BOOL, env, d - 1, noise), ("block", body))
        unions = [(n, t) for n, t in env if t[0] == "multi"]
        if unions:
            u, ut = r.choice(unions)
            return ("whileset", r.choice(["x", "y"]), r.choice(list(ut[1])), V(u), ("block", body))
        return ("loop", ("block", body))

    def typed(self, ty, env, d, noise=0.08):
        r = self.rnd
        names = [n for n, _ in env]
        if d > 0 and r.random() < 0.12:
            # an operator applied to an operand of a UNION type (index / tuple access / `*` / call / `=` through a union)
            wrong = r.random() < noise
            opts = []
            if ty == multi(INT, FLOAT) and "put" in names:
                opts.append(("tacc", V("put"), 2 if wrong else 0))
            if ty == multi(INT, FLOAT) and "puc" in names:
                opts.append(("pre", "deref", V("puc")))
            if ty == STR and "put" in names:
                opts.append(("tacc", V("put"), 1))
            if ty == multi(INT, STR) and "pua" in names:
                opts.append(("at", V("pua"), self.ftyped(FLOAT if wrong else INT, env, d - 1, noise)))
            if ty == multi(INT, STR) and "pua" in names:
                bb = lambda: self.ftyped(FLOAT if wrong else INT, env, d - 1, noise) if r.random() < 0.6 else None
                opts.append(("at", ("slice", V("pua"), bb(), bb(), bb()), self.ftyped(INT, env, d - 1, noise)))
            if ty == multi(INT, STR) and "puf" in names:
                opts.append(("call", V("puf"), [self.ftyped(FLOAT if wrong else INT, env, d - 1, noise)]))
            if ty == INT and "pst" in names:
                opts.append(("facc", V("pst"), "zz" if wrong else "a"))
                # a struct literal (sometimes repeating a field name: the last initialiser wins), read back
                fl = [("a", self.ftyped(STR if r.random() < 0.3 else INT, env, d - 1, noise)), ("k", self.ftyped(r.choice(self.TYPES), env, d - 1, noise))]
                if fl[0][1] is not None and r.random() < 0.7:
                    fl.append(("a", self.ftyped(INT, env, d - 1, noise)))
                elif r.random() < 0.5:
                    fl[0] = ("a", self.ftyped(INT, env, d - 1, noise))
                opts.append(("facc", ("struct", fl), "a"))
            if ty == STR and "pst" in names:
                opts.append(("facc", V("pst"), "b"))
            if ty == multi(INT, FLOAT) and "psu" in names:
                opts.append(("facc", V("psu"), "c" if wrong else "a"))
            if ty == INT and "pum" in names and "ci" in names and r.random() < 0.2:
                # the parameter types `mut int` and `mut (int|float)` have no common lower bound but `!`: never callable
                opts.append(("call", V("pum"), [V("ci")]))
            its = [n for n, t in env if t[0] == "fn" and t[1] == () and t[2][0] == "tup" and len(t[2][1]) == 2 and t[2][1][0] == BOOL and arr(t[2][1][1]) == ty]
            if its:
                # `it $]`: collecting a hand-written iterator
                opts.append(("post", "collect", V(r.choice(its))))
            if ty == multi(arr(INT), STR) and "pua" in names:
                b = lambda: self.ftyped(FLOAT if wrong else INT, env, d - 1, noise) if r.random() < 0.6 else None
                opts.append(("slice", V("pua"), b(), b(), b()))
            if ty == arr(INT) and "pug" in names:
                opts.append(("call", V("pug"), [self.ftyped(FLOAT if wrong else INT, env, d - 1, noise), self.ftyped(STR, env, d - 1, noise)]))
            if ty == INT and "puc" in names and getattr(self, "_ins", 0) == 0:
                self._ins = 1
                try:
                    opts.append(("assign", "set", V("puc"), self.ftyped(FLOAT if wrong else INT, env, d - 1, noise)))
                finally:
                    self._ins = 0
            if opts:
                return r.choice(opts)
        if ty[0] == "cell":
            cs = [n for n, t in env if t == ty]
            return V(r.choice(cs)) if cs else ("mut", ty[1], self.ftyped(ty[1], env, max(d - 1, 0), noise))
        if d > 0 and getattr(self, "_ins", 0) == 0:
            cells = [n for n, t in env if t[0] == "cell" and t[1] == ty]
            if cells and r.random() < 0.2:
                return ("pre", "deref", V(r.choice(cells)))
            if cells and r.random() < 0.08:
                self._ins = 1
                try:
                    return ("assign", "set", V(r.choice(cells)), self.ftyped(ty, env, d - 1, noise))
                finally:
                    self._ins = 0
            if ty == VOID and r.random() < 0.25:
                return self.loop_stmt(env, d, noise)
        return GenF.typed(self, ty, env, d, noise)

    def sprogram(self, depth=3, noise=0.08):
        r = self.rnd
        env = [(n, t) for n, t, _ in FREE_S]
        out = []
        for _ in range(r.randint(0, 2)):
            fname = r.choice(["f", "g", "h"])
            ps = [(r.choice(["a", "b", "c", "pi"]), r.choice(self.FTYPES[:6] + [_cell(INT)])) for _ in range(r.randint(0, 3))]
            ps = list({n: (n, t) for n, t in ps}.values())
            rt = r.choice(self.FTYPES)
            ft = ("fn", tuple(t for _, t in ps), rt)
            body_env = [(fname, ft)] + [(n, t) for n, t in env if n != fname]
            out.append(("fndecl", fname, ps, rt, self.fn_body(ps, rt, body_env, depth - 1, noise, fname)))
            env = body_env
        if r.random() < 0.5:
            # a hand-written iterator `() -> (bool, T)`
            et = r.choice([INT, STR, multi(INT, FLOAT)])
            ft = ("fn", (), tup(BOOL, et))
            body_env = [("it", ft)] + [(n, t) for n, t in env if n != "it"]
            out.append(("fndecl", "it", [], tup(BOOL, et), self.fn_body([], tup(BOOL, et), body_env, depth - 1, noise, "it")))
            env = body_env
        for _ in range(r.randint(1, 4)):
            k = r.random()
            if k < 0.12:
                # `(a, b) := e` on a tuple-typed expression (sometimes of the wrong length / not a tuple)
                tt = r.choice([tup(INT, STR), tup(BOOL, INT), tup(INT, STR, FLOAT)])
                names = [r.choice(["x", "y", "z", "pi"]) for _ in tt[1]]
                if r.random() < noise:
                    names = names[:-1]
                src = self.ftyped(tt if r.random() > noise else r.choice(self.TYPES), env, depth - 1, noise)
                tys = list(tt[1])
                if r.random() < 0.3:
                    # destructuring a UNION of tuple types: one common length, position-wise joins (`puq`); `put` has two lengths
                    if r.random() < 0.75:
                        src, tys = V("puq"), [multi(INT, FLOAT), multi(STR, BOOL)]
                    else:
                        src, tys = V("put"), [multi(INT, FLOAT), STR]
                    names = [r.choice(["x", "y", "z", "pi"]) for _ in tys]
                out.append(("destruct", names, src))
                for nm, ty in zip(names, tys):
                    env = [(nm, ty)] + [(n, t) for n, t in env if n != nm]
            elif k < 0.45:
                out.append(self.cell_stmt(env, depth - 1, noise))
            elif k < 0.7:
                out.append(self.loop_stmt(env, depth - 1, noise))
            else:
                t = r.choice(self.TYPES)
                x = r.choice(["x", "y", "z"])
                out.append(("set", x, self.ftyped(t, env, depth - 1, noise)))
                env = [(x, t)] + [(n, tt) for n, tt in env if n != x]
        out.append(self.ftyped(r.choice(self.TYPES), env, depth, noise))
        return out


def prelude_s():
    return [("set", n, ("pre", "deref", ("mut", t, v))) for n, t, v in FREE_S]


def prelude():
    return [("set", n, ("pre", "deref", ("mut", t, v))) for n, t, v in FREE]
