"""Program AST shared by the generators, with two renderings that are pure functions of the tree:
`src` (SimpleSL text for the implementation; every compound operand parenthesised, `;` after every
non-final statement) and `sexp` (the wire format of the Lean driver, DESIGN Appendix B).

Nodes are tuples (kind, ...):
  ("true",) ("false",) ("unit",) ("i", n) ("f", float) ("s", str) ("id", x)
  ("array", [E]) ("repeat", E, E) ("tuple", [E]) ("struct", [(k, E)])
  ("mut", T|None, E) ("fn", [(x, T)], T, [S]) ("mod", [S])
  ("pre", op, E) ("bin", op, E, E) ("and", E, E) ("or", E, E) ("assign", op, E, E)
  ("at", E, E) ("slice", E, E|None, E|None, E|None) ("call", E, [E]) ("tacc", E, n) ("facc", E, k)
  ("tfilter", E, T) ("post", op, E) ("reduce", E, E, F)   # F: ("id", f) or a fn literal
  ("set", x, S) ("destruct", [x], S) ("fndecl", x, [(x, T)], T, [S]) ("block", [S])
  ("if", E, S, S|None) ("ifset", x, T, E, S, S|None) ("match", E, [ARM])
  ("return", S|None) ("loop", S) ("while", E, S) ("whileset", x, T, E, S) ("for", x, E, S)
  ("break",) ("continue",)
  ARM: ("ty", x, T, S) ("val", [E], S) ("other", S)
Types are gen.types tuples.
"""
import struct

from gen import types as T

MIN = -2**63

BIN_SYM = {"add": "+", "sub": "-", "mul": "*", "div": "/", "mod": "%", "pow": "**", "eq": "==", "ne": "!=",
           "gt": ">", "ge": ">=", "lt": "<", "le": "<=", "band": "&", "bor": "|", "bxor": "^", "shl": "<<",
           "shr": ">>", "filter": "?", "map": "@", "partition": "\\"}
ASSIGN_SYM = {"set": "=", "add": "+=", "sub": "-=", "mul": "*=", "div": "/=", "mod": "%=", "pow": "**=",
              "shl": "<<=", "shr": ">>=", "band": "&=", "bor": "|=", "bxor": "^="}
PRE_SYM = {"not": "!", "neg": "-", "deref": "*"}
POST_SYM = {"sum": "$+", "product": "$*", "all": "$&&", "any": "$||", "bitand": "$&", "bitor": "$|",
            "collect": "$]", "iter": "~"}


def fbits(x):
    if x != x:
        return "7ff8000000000000"
    return "%016x" % struct.unpack("<Q", struct.pack("<d", x))[0]


def int_src(n):
    if n == MIN:
        return "(-9223372036854775807 - 1)"
    return str(n) if n >= 0 else "(-%d)" % -n


def float_src(x):
    if x != x:
        return "(0.0 / 0.0)"
    if x == float("inf"):
        return "(1.0 / 0.0)"
    if x == float("-inf"):
        return "(-1.0 / 0.0)"
    neg = fbits(x)[0] in "89abcdef"
    r = repr(abs(x))
    if "." not in r and "e" not in r and "E" not in r:
        r += ".0"
    return "(-%s)" % r if neg else r


def str_src(s):
    out = '"'
    for ch in s:
        if ch in '"\\':
            out += "\\" + ch
        elif ch == "\n":
            out += "\\n"
        elif ch == "\t":
            out += "\\t"
        else:
            out += ch
    return out + '"'


def str_sexp(s):
    out = '"'
    for ch in s:
        if ch in '"\\':
            out += "\\" + ch
        elif " " <= ch <= "~":
            out += ch
        else:
            out += "\\u{%x}" % ord(ch)
    return out + '"'


def ret_src(t):
    """declared return type of a function literal: `-> type` (a union is NOT parenthesised there)"""
    return T.src(t)


ATOMIC = {"true", "false", "unit", "i", "f", "s", "id", "array", "repeat", "tuple", "struct", "call", "at",
          "slice", "tacc", "facc"}


def operand(e):
    """render e so that it can stand where the grammar wants an `atom`"""
    s = src(e)
    k = e[0]
    if k in ("true", "false", "unit", "id", "array", "repeat", "tuple", "struct", "s"):
        return s
    if k == "i" and e[1] >= 0:
        return s
    if k == "f" and s[0] != "(":
        return s
    if s.startswith("(") and _balanced_outer(s):
        return s
    return "(%s)" % s


def cond_operand(e):
    """a condition / scrutinee followed by `{`: `()` there would read as the parameter list of a function"""
    return "(())" if e[0] == "unit" else operand(e)


def _balanced_outer(s):
    d = 0
    for i, c in enumerate(s):
        if c == "(":
            d += 1
        elif c == ")":
            d -= 1
            if d == 0 and i != len(s) - 1:
                return False
    return d == 0


def params_src(ps):
    return ", ".join("%s: %s" % (x, T.src(t)) for x, t in ps)


def body_src(stmts):
    return "{ " + "; ".join(src(s) for s in stmts) + " }" if stmts else "{ }"


def fn_src(ps, r, body):
    if r == ("void",):
        return "(%s) %s" % (params_src(ps), body_src(body))
    return "(%s) -> %s %s" % (params_src(ps), ret_src(r), body_src(body))


def stm_block(s):
    """a statement rendered where the grammar wants `body`/`stm`: always a block"""
    if s[0] == "block":
        return src(s)
    if s[0] == "bare":
        # a body written WITHOUT braces (the grammar's `body` / `stm` may be a bare expression or statement); what
        # follows a condition must not start with `(` (it would read as a call of the condition)
        t = src(s[1])
        return "{ %s }" % t if t.startswith("(") else t
    return "{ %s }" % src(s)


def src(e):
    k = e[0]
    if k == "true":
        return "true"
    if k == "false":
        return "false"
    if k == "unit":
        return "()"
    if k == "i":
        return int_src(e[1])
    if k == "f":
        return float_src(e[1])
    if k == "s":
        return str_src(e[1])
    if k == "id":
        return e[1]
    if k == "array":
        return "[" + ", ".join(src(x) for x in e[1]) + "]"
    if k == "repeat":
        return "[%s; %s]" % (src(e[1]), src(e[2]))
    if k == "tuple":
        return "(" + ", ".join(src(x) for x in e[1]) + ")"
    if k == "struct":
        return "struct{" + ", ".join("%s := %s" % (f, src(x)) for f, x in e[1]) + "}"
    if k == "mut":
        if e[1] is None:
            return "mut %s" % operand(e[2])
        return "mut %s %s" % (T.src(e[1]), operand(e[2]))   # `mut type expr`: a union is not parenthesised here
    if k == "fn":
        return fn_src(e[1], e[2], e[3])
    if k == "mod":
        return "mod " + body_src(e[1])
    if k == "pre":
        return "%s%s" % (PRE_SYM[e[1]], operand(e[2]))
    if k == "bin":
        return "%s %s %s" % (operand(e[2]), BIN_SYM[e[1]], operand(e[3]))
    if k == "and":
        return "%s && %s" % (operand(e[1]), operand(e[2]))
    if k == "or":
        return "%s || %s" % (operand(e[1]), operand(e[2]))
    if k == "assign":
        return "%s %s %s" % (operand(e[2]), ASSIGN_SYM[e[1]], operand(e[3]))
    if k == "at":
        return "%s[%s]" % (operand(e[1]), src(e[2]))
    if k == "slice":
        a, b, c = [("" if x is None else operand(x)) for x in e[2:5]]
        return "%s[%s:%s:%s]" % (operand(e[1]), a, b, c)
    if k == "call":
        return "%s(%s)" % (operand(e[1]), ", ".join(src(x) for x in e[2]))
    if k == "tacc":
        return "%s.%d" % (operand(e[1]), e[2])
    if k == "facc":
        return "%s.%s" % (operand(e[1]), e[2])
    if k == "tfilter":
        return "%s ? %s" % (operand(e[1]), T.src(e[2]))
    if k == "post":
        return "%s %s" % (operand(e[2]), POST_SYM[e[1]])
    if k == "reduce":
        f = e[3]
        fs = f[1] if f[0] == "id" else src(f)
        return "%s $ %s %s" % (operand(e[1]), operand(e[2]), fs)
    if k == "set":
        return "%s := %s" % (e[1], src(e[2]))
    if k == "destruct":
        return "(%s) := %s" % (", ".join(e[1]), src(e[2]))
    if k == "fndecl":
        return "%s := %s" % (e[1], fn_src(e[2], e[3], e[4]))
    if k == "block":
        return body_src(e[1])
    if k == "if":
        s = "if %s %s" % (cond_operand(e[1]), stm_block(e[2]))
        if e[3] is not None:
            s += " else %s" % stm_block(e[3])
        return s
    if k == "ifx":
        # `if c a else b` with BARE expressions as branches (no braces): the grammar's `body` may be an expression
        def bare(x):
            t = operand(x)
            # after a condition, a branch that starts with `(` would read as a call of the condition: brace it
            return "{ %s }" % src(x) if t.startswith("(") else t
        return "if %s %s else %s" % (cond_operand(e[1]), bare(e[2]), bare(e[3]))
    if k == "ifset":
        s = "if %s: %s = %s %s" % (e[1], T.src(e[2]), cond_operand(e[3]), stm_block(e[4]))
        if e[5] is not None:
            s += " else %s" % stm_block(e[5])
        return s
    if k == "match":
        arms = []
        for a in e[2]:
            if a[0] == "ty":
                arms.append("%s: %s => %s," % (a[1], T.src(a[2]), stm_block(a[3])))
            elif a[0] == "val":
                arms.append("%s => %s," % (", ".join(operand(c) for c in a[1]), stm_block(a[2])))
            else:
                arms.append("=> %s," % stm_block(a[1]))
        return "match %s { %s }" % (cond_operand(e[1]), " ".join(arms))
    if k == "return":
        return "return" if e[1] is None else "return %s" % src(e[1])
    if k == "loop":
        return "loop %s" % stm_block(e[1])
    if k == "while":
        return "while %s %s" % (cond_operand(e[1]), stm_block(e[2]))
    if k == "whileset":
        return "while %s: %s = %s %s" % (e[1], T.src(e[2]), cond_operand(e[3]), stm_block(e[4]))
    if k == "for":
        return "for %s in %s %s" % (e[1], cond_operand(e[2]), stm_block(e[3]))
    if k == "break":
        return "break"
    if k == "continue":
        return "continue"
    raise ValueError("src: %r" % (e,))


def program_src(stmts):
    return "; ".join(src(s) for s in stmts)


def sx(e):
    k = e[0]
    if k in ("true", "false", "unit", "break", "continue"):
        return k
    if k == "i":
        return "(i %d)" % e[1]
    if k == "f":
        return "(f %s)" % fbits(e[1])
    if k == "s":
        return "(s %s)" % str_sexp(e[1])
    if k == "id":
        return "(id %s)" % e[1]
    if k == "array":
        return "(array%s)" % "".join(" " + sx(x) for x in e[1])
    if k == "repeat":
        return "(repeat %s %s)" % (sx(e[1]), sx(e[2]))
    if k == "tuple":
        return "(tuple%s)" % "".join(" " + sx(x) for x in e[1])
    if k == "struct":
        return "(struct%s)" % "".join(" (%s %s)" % (f, sx(x)) for f, x in e[1])
    if k == "mut":
        return "(mut_ %s)" % sx(e[2]) if e[1] is None else "(mut %s %s)" % (T.canon(e[1]), sx(e[2]))
    if k == "fn":
        return "(fn (%s) %s%s)" % (" ".join("(%s %s)" % (x, T.canon(t)) for x, t in e[1]), T.canon(e[2]),
                                    "".join(" " + sx(s) for s in e[3]))
    if k == "mod":
        return "(mod%s)" % "".join(" " + sx(s) for s in e[1])
    if k == "pre":
        return "(pre %s %s)" % (e[1], sx(e[2]))
    if k == "bin":
        return "(bin %s %s %s)" % (e[1], sx(e[2]), sx(e[3]))
    if k in ("and", "or"):
        return "(%s %s %s)" % (k, sx(e[1]), sx(e[2]))
    if k == "assign":
        return "(assign %s %s %s)" % (e[1], sx(e[2]), sx(e[3]))
    if k == "at":
        return "(at %s %s)" % (sx(e[1]), sx(e[2]))
    if k == "slice":
        return "(slice %s %s)" % (sx(e[1]), " ".join("_" if x is None else sx(x) for x in e[2:5]))
    if k == "call":
        return "(call %s%s)" % (sx(e[1]), "".join(" " + sx(x) for x in e[2]))
    if k == "tacc":
        return "(tacc %s %d)" % (sx(e[1]), e[2])
    if k == "facc":
        return "(facc %s %s)" % (sx(e[1]), e[2])
    if k == "tfilter":
        return "(tfilter %s %s)" % (sx(e[1]), T.canon(e[2]))
    if k == "post":
        return "(post %s %s)" % (e[1], sx(e[2]))
    if k == "reduce":
        return "(reduce %s %s %s)" % (sx(e[1]), sx(e[2]), sx(e[3]))
    if k == "set":
        if e[2][0] == "fn":
            # `x := (params) -> T { .. }` is a function_declaration in the grammar (ordered choice
            # in `line`): the function can call itself by that name
            return sx(("fndecl", e[1], e[2][1], e[2][2], e[2][3]))
        return "(set %s %s)" % (e[1], sx(e[2]))
    if k == "destruct":
        return "(destruct (%s) %s)" % (" ".join(e[1]), sx(e[2]))
    if k == "fndecl":
        return "(fndecl %s (%s) %s%s)" % (e[1], " ".join("(%s %s)" % (x, T.canon(t)) for x, t in e[2]),
                                          T.canon(e[3]), "".join(" " + sx(s) for s in e[4]))
    if k == "block":
        return "(block%s)" % "".join(" " + sx(s) for s in e[1])
    if k == "if":
        return "(if %s %s%s)" % (sx(e[1]), sx(as_block(e[2])), "" if e[3] is None else " " + sx(as_block(e[3])))
    if k == "ifx":
        # the source rendering braces a bare branch whose text would start with `(` (see `src`): say the same here
        def bare(x):
            return ("block", [x]) if operand(x).startswith("(") else x
        return "(if %s %s %s)" % (sx(e[1]), sx(bare(e[2])), sx(bare(e[3])))
    if k == "ifset":
        return "(ifset %s %s %s %s%s)" % (e[1], T.canon(e[2]), sx(e[3]), sx(as_block(e[4])),
                                          "" if e[5] is None else " " + sx(as_block(e[5])))
    if k == "match":
        arms = []
        for a in e[2]:
            if a[0] == "ty":
                arms.append("(ty %s %s %s)" % (a[1], T.canon(a[2]), sx(as_block(a[3]))))
            elif a[0] == "val":
                arms.append("(val (%s) %s)" % (" ".join(sx(c) for c in a[1]), sx(as_block(a[2]))))
            else:
                arms.append("(other %s)" % sx(as_block(a[1])))
        return "(match %s %s)" % (sx(e[1]), " ".join(arms))
    if k == "return":
        return "(return)" if e[1] is None else "(return %s)" % sx(e[1])
    if k == "loop":
        return "(loop %s)" % sx(as_block(e[1]))
    if k == "while":
        return "(while %s %s)" % (sx(e[1]), sx(as_block(e[2])))
    if k == "whileset":
        return "(whileset %s %s %s %s)" % (e[1], T.canon(e[2]), sx(e[3]), sx(as_block(e[4])))
    if k == "for":
        return "(for %s %s %s)" % (e[1], sx(e[2]), sx(as_block(e[3])))
    raise ValueError("sx: %r" % (e,))


def as_block(s):
    """the source rendering wraps every branch / loop body in braces; the tree sent to the model
    must say the same"""
    if s[0] == "bare":
        return ("block", [s[1]])
    return s if s[0] == "block" else ("block", [s])


def program_sexp(stmts):
    return "(" + " ".join(sx(s) for s in stmts) + ")"


# ---- hoisting: the grammar has control-flow constructs (`if`, `if x: T =`, `match`, blocks, loops) only in statement
# positions (a line of a block, the right side of `:=`, the operand of `return`, a branch / arm body); an operand of an
# operator must be an `atom`.  `hoist` moves every control-flow construct found in an operand position into a fresh
# `qN := ...` declaration in front of the enclosing statement (same environment: all binders introduce blocks).
CF_KINDS = ("if", "ifset", "match", "block", "loop", "while", "whileset", "for", "return", "break", "continue", "set", "destruct", "fndecl")


class _Fresh:
    def __init__(self, on_set=None):
        self.n = 0
        self.on_set = on_set or (lambda x, rhs: rhs)

    def name(self):
        self.n += 1
        return "q%d" % self.n


def hoist(stmts, fresh=None, on_set=None):
    """`on_set(x, rhs)` may rewrite the right side of every declaration (used to keep declared names opaque to the folder)"""
    fresh = fresh or _Fresh(on_set)
    out = []
    for s in stmts:
        pre = []
        s2 = _stm(s, pre, fresh)
        out.extend(pre)
        out.append(s2)
    return out


def _blk(e, fresh):
    """a branch / arm / loop body: printed as a block"""
    if e is None:
        return None
    if e[0] == "block":
        return ("block", hoist(e[1], fresh))
    return ("block", hoist([e], fresh))


def _stm(e, pre, fresh):
    k = e[0]
    if k == "set":
        return ("set", e[1], fresh.on_set(e[1], _stm(e[2], pre, fresh)))
    if k == "destruct":
        return ("destruct", e[1], fresh.on_set(None, _stm(e[2], pre, fresh)))
    if k == "fndecl":
        return ("fndecl", e[1], e[2], e[3], hoist(e[4], fresh))
    if k == "block":
        return ("block", hoist(e[1], fresh))
    if k == "if":
        return ("if", _opd(e[1], pre, fresh), _blk(e[2], fresh), _blk(e[3], fresh))
    if k == "ifset":
        return ("ifset", e[1], e[2], _opd(e[3], pre, fresh), _blk(e[4], fresh), _blk(e[5], fresh))
    if k == "match":
        arms = []
        for a in e[2]:
            if a[0] == "ty":
                arms.append(("ty", a[1], a[2], _blk(a[3], fresh)))
            elif a[0] == "val":
                arms.append(("val", [_opd(c, pre, fresh) for c in a[1]], _blk(a[2], fresh)))
            else:
                arms.append(("other", _blk(a[1], fresh)))
        return ("match", _opd(e[1], pre, fresh), arms)
    if k == "return":
        return ("return", None if e[1] is None else _stm(e[1], pre, fresh))
    if k == "loop":
        return ("loop", _blk(e[1], fresh))
    if k == "while":
        return ("while", _opd(e[1], pre, fresh), _blk(e[2], fresh))
    if k == "whileset":
        return ("whileset", e[1], e[2], _opd(e[3], pre, fresh), _blk(e[4], fresh))
    if k == "for":
        return ("for", e[1], _opd(e[2], pre, fresh), _blk(e[3], fresh))
    if k in ("break", "continue"):
        return e
    return _opd(e, pre, fresh)


def _opd(e, pre, fresh):
    if e is None:
        return None
    k = e[0]
    if k in CF_KINDS:
        e2 = _stm(e, pre, fresh)
        x = fresh.name()
        pre.append(("set", x, fresh.on_set(x, e2)))
        return ("id", x)
    o = lambda x: _opd(x, pre, fresh)
    if k in ("true", "false", "unit", "i", "f", "s", "id"):
        return e
    if k in ("array", "tuple"):
        return (k, [o(x) for x in e[1]])
    if k == "repeat":
        return (k, o(e[1]), o(e[2]))
    if k == "struct":
        return (k, [(f, o(x)) for f, x in e[1]])
    if k == "mut":
        return (k, e[1], o(e[2]))
    if k == "fn":
        return (k, e[1], e[2], hoist(e[3], fresh))
    if k == "mod":
        return (k, hoist(e[1], fresh))
    if k in ("pre", "post"):
        return (k, e[1], o(e[2]))
    if k in ("bin", "assign"):
        return (k, e[1], o(e[2]), o(e[3]))
    if k in ("and", "or", "at"):
        return (k, o(e[1]), o(e[2]))
    if k == "slice":
        return (k, o(e[1]), o(e[2]), o(e[3]), o(e[4]))
    if k == "call":
        return (k, o(e[1]), [o(x) for x in e[2]])
    if k in ("tacc", "facc", "tfilter"):
        return (k, o(e[1]), e[2])
    if k == "reduce":
        return (k, o(e[1]), o(e[2]), o(e[3]))
    raise ValueError("hoist: %r" % (e,))
