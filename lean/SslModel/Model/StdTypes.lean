import SslModel.Model.Ty
/-!
  Rust-side types that occur in the signatures of exported standard-library functions
  (`#[export]`, macros/src/export.rs) and the record the translator fills per export.
-/
namespace Ssl

inductive RustTy where
  | unit | bool | i64 | i32 | u32 | usize | f64
  | strRef | string | arcStr
  | slice | arcSlice | array | arrayRef | arcArray
  | varRef | variable | ioError
  | option (t : RustTy)
  | ioResult (t : RustTy)
  deriving Repr, DecidableEq, Inhabited

structure StdExport where
  module : String
  isConst : Bool
  name : String
  /-- name, Rust type, `#[var_type(..)]` override -/
  params : List (String × RustTy × Option Ty)
  ret : RustTy
  /-- `#[return_type(..)]` override -/
  retOverride : Option Ty
  deriving Repr, Inhabited

end Ssl
