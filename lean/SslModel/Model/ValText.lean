import SslModel.Model.Spec
/-!
  Text of literal values: the debug rendering the REPL prints (`Variable::debug`, `{:?}`) and the
  value-literal reader (`Variable::from_str`: rule `only_var`, `TryFrom<Pair>`, `unescaper` 0.1.5).
  Floats are not modelled as text (their `{:?}` text is an opaque token, assumed to re-parse).
  The modelled character class for strings is ASCII; other characters are passed through raw by the
  executable printer (Rust additionally escapes grapheme extenders and unprintable characters).
-/
namespace Ssl.ValText
open Ssl

/-! ### integers -/

def digitVal (c : Char) : Option Nat :=
  if '0' ≤ c ∧ c ≤ '9' then some (c.toNat - '0'.toNat)
  else if 'a' ≤ c ∧ c ≤ 'f' then some (c.toNat - 'a'.toNat + 10)
  else if 'A' ≤ c ∧ c ≤ 'F' then some (c.toNat - 'A'.toNat + 10)
  else none

/-- positional value of a digit string in `radix` (none if a digit is not a digit of the radix) -/
def radixValue (radix : Nat) (ds : List Char) : Option Nat :=
  ds.foldl (fun acc c => match acc, digitVal c with
    | some a, some d => if d < radix then some (a * radix + d) else none
    | _, _ => none) (some 0)

def maxInt : Nat := 2 ^ 63 - 1

/-- `parse_int_with_radix`: underscores (and spaces) are removed, then `i64::from_str_radix` on the
    sign and the digits; `none` = IntegerOverflow (or no digits) -/
def parseIntDigits (radix : Nat) (negative : Bool) (ds : List Char) : Option Int :=
  let ds := ds.filter (fun c => c != '_' && c != ' ')
  if ds.isEmpty then none else
  match radixValue radix ds with
  | none => none
  | some v =>
    if negative then (if v ≤ maxInt + 1 then some (-(v : Int)) else none)
    else (if v ≤ maxInt then some (v : Int) else none)

/-! ### strings: `{:?}` (with NUL as `\u{0}`) and unescaper -/

def hexDigit (n : Nat) : Char := if n < 10 then Char.ofNat (48 + n) else Char.ofNat (87 + n)

def hexOf (n : Nat) : List Char :=
  if n < 16 then [hexDigit n] else [hexDigit (n / 16 % 16), hexDigit (n % 16)]

/-- escape of one character of the modelled (ASCII) class, as `str::escape_debug` writes it -/
def escapeChar (c : Char) : List Char :=
  if c == '"' then ['\\', '"']
  else if c == '\\' then ['\\', '\\']
  else if c == '\n' then ['\\', 'n']
  else if c == '\r' then ['\\', 'r']
  else if c == '\t' then ['\\', 't']
  else if c.toNat < 32 || c.toNat == 127 then ['\\', 'u', '{'] ++ hexOf c.toNat ++ ['}']
  else [c]

def escape (s : List Char) : List Char := s.flatMap escapeChar

def debugString (s : String) : String := String.ofList (['"'] ++ escape s.toList ++ ['"'])

def parseHex (ds : List Char) : Option Nat :=
  if ds.isEmpty then none else radixValue 16 ds

def isOctal (c : Char) : Bool := '0' ≤ c ∧ c ≤ '7'

/-- `unescaper::unescape` -/
def unescape : Nat → List Char → Option (List Char)
  | 0, _ => none
  | _ + 1, [] => some []
  | f + 1, c :: rest =>
    if c != '\\' then (unescape f rest).map (c :: ·) else
    match rest with
    | [] => none
    | e :: rest =>
      let simple (x : Char) := (unescape f rest).map (x :: ·)
      if e == 'b' then simple (Char.ofNat 8)
      else if e == 'f' then simple (Char.ofNat 12)
      else if e == 'n' then simple '\n'
      else if e == 'r' then simple '\r'
      else if e == 't' then simple '\t'
      else if e == '\'' || e == '"' || e == '\\' || e == '/' then simple e
      else if e == 'u' then
        match rest with
        | '{' :: rest' =>
          let hex := rest'.takeWhile (· != '}')
          let after := (rest'.dropWhile (· != '}')).drop 1
          (match parseHex hex with
           | some n =>
             if n < 0x110000 ∧ ¬ (0xD800 ≤ n ∧ n ≤ 0xDFFF) then (unescape f after).map (Char.ofNat n :: ·) else none
           | none => none)
        | a :: b :: c2 :: d :: rest' =>
          (match parseHex [a, b, c2, d] with
           | some n => if ¬ (0xD800 ≤ n ∧ n ≤ 0xDFFF) then (unescape f rest').map (Char.ofNat n :: ·) else none
           | none => none)
        | _ => none
      else if e == 'x' then
        match rest with
        | a :: b :: rest' =>
          (match parseHex [a, b] with
           | some n => (unescape f rest').map (Char.ofNat n :: ·)
           | none => none)
        | _ => none
      else if isOctal e then
        let maxMore := if e ≤ '3' then 2 else 1
        let more := (rest.takeWhile isOctal).take maxMore
        let after := rest.drop more.length
        (match radixValue 8 (e :: more) with
         | some n => (unescape f after).map (Char.ofNat (n % 256) :: ·)
         | none => none)
      else none

/-! ### printing values (float-free) -/

mutual
/-- `Variable::debug` for bool, int, string, (), arrays, tuples -/
def debugVal : Val → Option (List Char)
  | .bool true => some "true".toList
  | .bool false => some "false".toList
  | .int i => some (toString i.toInt).toList
  | .str s => some (['"'] ++ escape s.toList ++ ['"'])
  | .unit => some "()".toList
  | .arr _ es => (debugList es).map fun inner => ['['] ++ inner ++ [']']
  | .tup es => (debugList es).map fun inner => ['('] ++ inner ++ [')']
  | _ => none
def debugList : List Val → Option (List Char)
  | [] => some []
  | [v] => debugVal v
  | v :: vs => do
    let a ← debugVal v
    let b ← debugList vs
    some (a ++ [',', ' '] ++ b)
end

/-! ### reading value literals (`only_var`) -/

def skipWs : List Char → List Char
  | c :: cs => if c == ' ' || c == '\t' || c == '\n' || c == '\r' then skipWs cs else c :: cs
  | [] => []

def isDigitOf (radix : Nat) (c : Char) : Bool :=
  match digitVal c with
  | some d => d < radix
  | none => false

/-- the `int` rule (compound-atomic): `0b` / `0o` / `0x` prefixed or decimal, digits and `_` -/
def readInt (negative : Bool) (cs : List Char) : Option (Option Int × List Char) :=
  let go (radix : Nat) (body : List Char) : Option (Option Int × List Char) :=
    let lead := body.takeWhile (· == '_')
    let rest := body.dropWhile (· == '_')
    match rest with
    | d :: _ =>
      if isDigitOf radix d then
        let tok := rest.takeWhile (fun c => isDigitOf radix c || c == '_')
        some (parseIntDigits radix negative (lead ++ tok), rest.dropWhile (fun c => isDigitOf radix c || c == '_'))
      else none
    | [] => none
  match cs with
  | '0' :: 'b' :: body => (go 2 body).orElse fun _ => (go 10 cs)
  | '0' :: 'o' :: body => (go 8 body).orElse fun _ => (go 10 cs)
  | '0' :: 'x' :: body => (go 16 body).orElse fun _ => (go 10 cs)
  | d :: _ => if isDigitOf 10 d then
      let tok := cs.takeWhile (fun c => isDigitOf 10 c || c == '_')
      some (parseIntDigits 10 negative tok, cs.dropWhile (fun c => isDigitOf 10 c || c == '_'))
    else none
  | [] => none

/-- the body of a string literal up to the closing quote: `char = !("\"" | "\\") ANY | "\\" ANY` -/
def readStrBody : Nat → List Char → List Char → Option (List Char × List Char)
  | 0, _, _ => none
  | _ + 1, [], _ => none
  | _ + 1, '"' :: rest, acc => some (acc.reverse, rest)
  | f + 1, '\\' :: c :: rest, acc => readStrBody f rest (c :: '\\' :: acc)
  | _ + 1, ['\\'], _ => none
  | f + 1, c :: rest, acc => readStrBody f rest (c :: acc)

inductive PVal where
  | ok (v : Val) | overflow | badEscape
  deriving Inhabited

mutual
/-- `var_from_str` (floats are not read by the model: a float literal makes it answer `none`) -/
def readVal : Nat → List Char → Option (Val × List Char)
  | 0, _ => none
  | f + 1, cs =>
    match skipWs cs with
    | 't' :: 'r' :: 'u' :: 'e' :: rest => some (.bool true, rest)
    | 'f' :: 'a' :: 'l' :: 's' :: 'e' :: rest => some (.bool false, rest)
    | '(' :: ')' :: rest => some (.unit, rest)
    | '"' :: rest =>
      (match readStrBody (rest.length + 1) rest [] with
       | some (body, rest') =>
         (match unescape (body.length + 1) body with
          | some s => some (.str (String.ofList s), rest')
          | none => none)
       | none => none)
    | '-' :: rest =>
      (match readInt true (skipWs rest) with
       | some (some i, rest') => some (.int (BitVec.ofInt 64 i), rest')
       | _ => none)
    | '[' :: rest =>
      (match skipWs rest with
       | ']' :: rest' => some (Val.mkArray [], rest')
       | _ =>
         match readVal f rest with
         | some (v, rest1) =>
           (match skipWs rest1 with
            | ';' :: rest2 =>
              (match readInt false (skipWs rest2) with
               | some (some n, rest3) =>
                 (match skipWs rest3 with
                  | ']' :: rest4 => some (.arr v.asType (List.replicate n.toNat v), rest4)
                  | _ => none)
               | _ => none)
            | _ =>
              match readMore f rest1 [v] with
              | some (vs, rest2) =>
                (match skipWs rest2 with
                 | ']' :: rest3 => some (Val.mkArray vs, rest3)
                 | _ => none)
              | none => none)
         | none => none)
    | '(' :: rest =>
      (match readVal f rest with
       | some (v, rest1) =>
         (match readMore f rest1 [v] with
          | some (vs, rest2) =>
            (match skipWs rest2 with
             | ')' :: rest3 => if vs.length ≥ 2 then some (.tup vs, rest3) else none
             | _ => none)
          | none => none)
       | none => none)
    | cs' =>
      match readInt false cs' with
      | some (some i, rest) => some (.int (BitVec.ofInt 64 i), rest)
      | _ => none
/-- `("," var_from_str)*` -/
def readMore : Nat → List Char → List Val → Option (List Val × List Char)
  | 0, _, _ => none
  | f + 1, cs, acc =>
    match skipWs cs with
    | ',' :: rest =>
      (match readVal f rest with
       | some (v, rest') => readMore f rest' (acc ++ [v])
       | none => none)
    | _ => some (acc, cs)
end

/-- `Variable::from_str`: trim, then the whole text must be one value -/
def parseVal (s : String) : Option Val :=
  let cs := s.toList
  match readVal (cs.length + 2) cs with
  | some (v, rest) => if (skipWs rest).isEmpty then some v else none
  | none => none

end Ssl.ValText
