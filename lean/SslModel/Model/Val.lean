import SslModel.Model.Ty
import SslModel.Model.Int64
import SslModel.Model.F64
/-!
  Run-time values (`src/variable.rs`) with their stored tags, and the surface syntax tree
  (`Expr`) — a function value carries its body, so the two types are defined together.
-/
namespace Ssl

inductive PreOp where | not | neg | deref
  deriving DecidableEq, Repr, Inhabited

inductive BinOp where
  | add | sub | mul | div | mod | pow | eq | ne | gt | ge | lt | le
  | band | bor | bxor | shl | shr | filter | map | partition
  deriving DecidableEq, Repr, Inhabited

inductive AssignOp where
  | set | add | sub | mul | div | mod | pow | shl | shr | band | bor | bxor
  deriving DecidableEq, Repr, Inhabited

inductive PostOp where
  | sum | product | all | any | bitand | bitor | collect | iter
  deriving DecidableEq, Repr, Inhabited

/- Surface syntax (statements are expressions; `set`/`destruct`/`fndecl` are only meaningful
   directly inside a statement list). -/
mutual
inductive Expr where
  | litBool (b : Bool) | litInt (i : Int) | litFloat (bits : UInt64) | litStr (s : String) | litUnit
  | var (x : String)
  | array (es : List Expr)
  | arrayRepeat (v n : Expr)
  | tuple (es : List Expr)
  | struct (fs : List (String × Expr))
  | mutE (ty : Option Ty) (e : Expr)
  | fn (params : List (String × Ty)) (ret : Ty) (body : List Expr)
  | modE (body : List Expr)
  | pre (op : PreOp) (e : Expr)
  | bin (op : BinOp) (a b : Expr)
  | and (a b : Expr) | or (a b : Expr)
  | assign (op : AssignOp) (target value : Expr)
  | at (a i : Expr)
  | slice (a : Expr) (start stop step : Option Expr)
  | call (f : Expr) (args : List Expr)
  | tacc (e : Expr) (n : Nat)
  | facc (e : Expr) (k : String)
  | tfilter (e : Expr) (t : Ty)
  | post (op : PostOp) (e : Expr)
  | reduce (it init f : Expr)
  -- statements
  | set (x : String) (e : Expr)
  | destruct (xs : List String) (e : Expr)
  | fndecl (x : String) (params : List (String × Ty)) (ret : Ty) (body : List Expr)
  | block (body : List Expr)
  | ifElse (c t : Expr) (e : Option Expr)
  | ifSet (x : String) (ty : Ty) (e body : Expr) (els : Option Expr)
  | matchE (e : Expr) (arms : List (Arm))
  | ret (e : Option Expr)
  | loop (body : Expr)
  | while (c body : Expr)
  | whileSet (x : String) (ty : Ty) (e body : Expr)
  | forE (x : String) (it body : Expr)
  | brk | cont
  -- a native (standard library) function body
  | native (name : String)
inductive Arm where
  | ty (x : String) (t : Ty) (body : Expr)
  | val (cands : List Expr) (body : Expr)
  | other (body : Expr)
end

instance : Inhabited Expr := ⟨.litUnit⟩

/-- Values.  `arr` carries the stored element type, `cell` its declared content type and the
    location in the store, `fn` the declared signature, the body, the captured environment
    (a snapshot: capture by value), the name it can call itself by, and an identity. -/
inductive Val where
  | bool (b : Bool)
  | int (i : I64)
  | float (bits : F64)
  | str (s : String)
  | unit
  | arr (elemTy : Ty) (es : List Val)
  | tup (es : List Val)
  | struct (fs : List (String × Val))
  | cell (loc : Nat) (ty : Ty)
  | fn (id : Nat) (params : List (String × Ty)) (ret : Ty) (body : List Expr)
       (env : List (String × Val)) (self : Option String)
  deriving Inhabited

namespace Val

mutual
def size : Val → Nat
  | .arr _ es => 1 + sizeL es
  | .tup es => 1 + sizeL es
  | .struct fs => 1 + sizeF fs
  | _ => 1
def sizeL : List Val → Nat
  | [] => 0
  | v :: vs => 1 + size v + sizeL vs
def sizeF : List (String × Val) → Nat
  | [] => 0
  | (_, v) :: fs => 1 + size v + sizeF fs
end

mutual
/-- `Typed::as_type` — the run-time tag -/
def asType : Val → Ty
  | .bool _ => .bool | .int _ => .int | .float _ => .float | .str _ => .str | .unit => .void
  | .arr t _ => .arr t
  | .tup es => .tup (asTypeL es)
  | .struct fs => .struct (asTypeF fs)
  | .cell _ t => .cell t
  | .fn _ ps r _ _ _ => .fn (ps.map (·.2)) r
termination_by v => size v
decreasing_by all_goals (simp only [size]; omega)
def asTypeL : List Val → List Ty
  | [] => []
  | v :: vs => asType v :: asTypeL vs
termination_by vs => sizeL vs
decreasing_by all_goals (simp only [sizeL]; omega)
def asTypeF : List (String × Val) → List (String × Ty)
  | [] => []
  | (k, v) :: fs => (k, asType v) :: asTypeF fs
termination_by fs => sizeF fs
decreasing_by all_goals (simp only [sizeF]; omega)
end

/-- `Array::from(elements)`: the stored element type is the join of the elements' tags -/
def mkArray (es : List Val) : Val := .arr (Ty.concatL (asTypeL es)) es

end Val
end Ssl
