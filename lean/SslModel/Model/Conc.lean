import SslModel.Model.Int64
import SslModel.Gen.ScalarOps
/-!
  Threads sharing `mut` cells (`src/variable/mut.rs`, `src/instruction/bin_op/assign.rs`).

  The only interior mutability of the value model is `Mut.variable : RwLock<Variable>`.  Every
  assignment — plain `=` and each compound `op=` — evaluates its right-hand side first, then takes
  the cell's write guard once, computes `function(current, rhs)` and stores the result under that
  same guard (`assign::exec`, `assign::try_exec`); when the operator fails (`/= 0`, …) the guard is
  dropped with the cell unchanged and the thread's run ends with the error.  A thread of the model
  is therefore a list of cell operations, each of which is ONE atomic step on the store
  (`step`); the finer model with explicit acquire / release steps (`Micro`) is what the
  no-deadlock theorem is about.  That the source still has this shape is checked on every run by
  the translator (`Gen.LockShape`) and by running real threads.
-/
namespace Ssl
namespace Conc

/-- assignment operators (`assignTable` of the generated scalar table maps them to scalar ops) -/
inductive AOp where
  | set | add | sub | mul | div | mod | shl | shr | band | bor | xor | pow
  deriving DecidableEq, Repr, Inhabited

def AOp.scalar : AOp → Option IntOp
  | .set => none
  | .add => some Gen.add | .sub => some Gen.subtract | .mul => some Gen.multiply
  | .div => some Gen.divide | .mod => some Gen.modulo | .shl => some Gen.lshift
  | .shr => some Gen.rshift | .band => some Gen.bitwise_and | .bor => some Gen.bitwise_or
  | .xor => some Gen.xor | .pow => some Gen.pow

/-- `function(current, rhs)` -/
def AOp.apply (o : AOp) (cur rhs : I64) : Except ExecErr I64 :=
  match o.scalar with
  | none => .ok rhs
  | some s =>
    match s.interp cur rhs with
    | .ok (.int v) => .ok v
    | .ok (.bool _) => .ok cur      -- not reachable: the assignment operators are arithmetic
    | .error e => .error e

/-- one cell operation: `cell op= rhs` (or a read, `*cell`) -/
inductive Op where
  | assign (cell : Nat) (o : AOp) (rhs : I64)
  | read (cell : Nat)
  deriving DecidableEq, Repr, Inhabited

def Op.cell : Op → Nat
  | .assign c _ _ => c
  | .read c => c

abbrev Store := Nat → I64

def Store.set (s : Store) (c : Nat) (v : I64) : Store := fun k => if k = c then v else s k

/-- the value an operation hands back to its thread: the new content, the content read, or the error -/
abbrev Out := Except ExecErr I64

/-- ONE atomic step: the whole read-modify-write happens under one write guard -/
def step (s : Store) : Op → Store × Out
  | .read c => (s, .ok (s c))
  | .assign c o rhs =>
    match o.apply (s c) rhs with
    | .ok v => (s.set c v, .ok v)
    | .error e => (s, .error e)

/-- what is left of a thread, and what it has seen so far (latest first) -/
structure Thread where
  todo : List Op
  seen : List Out
  deriving Repr, Inhabited

structure Cfg where
  store : Store
  threads : List Thread

/-- a thread whose last operation failed has ended (`?` in `try_exec`) -/
def Thread.runnable (t : Thread) : Bool :=
  match t.todo, t.seen with
  | [], _ => false
  | _, (.error _) :: _ => false
  | _, _ => true

def Thread.advance (t : Thread) (s : Store) : Thread × Store :=
  match t.todo with
  | [] => (t, s)
  | op :: rest =>
    if t.runnable then
      let (s', out) := step s op
      ({ todo := rest, seen := out :: t.seen }, s')
    else (t, s)

/-- the scheduler picks thread `i` (picking a finished or missing thread does nothing) -/
def Cfg.pick (c : Cfg) (i : Nat) : Cfg :=
  match c.threads[i]? with
  | none => c
  | some t =>
    let (t', s') := t.advance c.store
    { store := s', threads := c.threads.set i t' }

/-- a schedule is the list of scheduler choices -/
def Cfg.run (c : Cfg) (sched : List Nat) : Cfg := sched.foldl Cfg.pick c

def Cfg.finished (c : Cfg) : Bool := c.threads.all (fun t => !t.runnable)

def Cfg.init (s : Store) (progs : List (List Op)) : Cfg :=
  { store := s, threads := progs.map fun p => { todo := p, seen := [] } }

/-- a thread run on its own -/
def solo (s : Store) (t : Thread) : Nat → Thread × Store
  | 0 => (t, s)
  | n + 1 => let (t', s') := t.advance s; solo s' t' n

/-! ### all interleavings (used by the driver to enumerate the outcomes the model allows) -/

/-- final (store restricted to `cells`, per-thread outputs) of every complete interleaving;
    `fuel` bounds the total number of steps -/
def allRuns (cells : List Nat) : Nat → Cfg → List (List I64 × List (List Out))
  | 0, c => [(cells.map c.store, c.threads.map (·.seen.reverse))]
  | fuel + 1, c =>
    let idx := (List.range c.threads.length).filter fun i =>
      match c.threads[i]? with | some t => t.runnable | none => false
    if idx.isEmpty then [(cells.map c.store, c.threads.map (·.seen.reverse))]
    else idx.flatMap fun i => allRuns cells fuel (c.pick i)

/-! ### the finer model: acquire, compute-and-store, release -/

inductive Phase where
  | idle            -- between operations, holding nothing
  | holding         -- write (or read) guard of the current operation's cell taken
  deriving DecidableEq, Repr

structure MThread where
  todo : List Op
  phase : Phase
  deriving Repr

structure MCfg where
  store : Store
  /-- which thread holds the guard of a cell -/
  owner : Nat → Option Nat
  threads : List MThread

/-- can thread `i` take a step? idle: the cell of its next operation is free; holding: always -/
def MCfg.enabled (c : MCfg) (i : Nat) : Bool :=
  match c.threads[i]? with
  | none => false
  | some t =>
    match t.todo, t.phase with
    | [], _ => false
    | op :: _, .idle => (c.owner op.cell).isNone
    | _ :: _, .holding => true

def MCfg.mstep (c : MCfg) (i : Nat) : MCfg :=
  if !c.enabled i then c else
  match c.threads[i]? with
  | none => c
  | some t =>
    match t.todo, t.phase with
    | op :: _, .idle =>
      { c with owner := fun k => if k = op.cell then some i else c.owner k,
               threads := c.threads.set i { t with phase := .holding } }
    | op :: rest, .holding =>
      { store := (step c.store op).1,
        owner := fun k => if k = op.cell then none else c.owner k,
        threads := c.threads.set i { todo := rest, phase := .idle } }
    | [], _ => c

def MCfg.done (c : MCfg) : Bool := c.threads.all (fun t => t.todo.isEmpty)

end Conc
end Ssl
