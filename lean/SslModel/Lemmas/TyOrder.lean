import SslModel.Lemmas.TyJoin
/-!
  Static queries that fold the union members' answers with `concat` do not depend on the order in which
  the members are visited (C05): two member orders give answers that match each other.
-/
set_option linter.unusedSimpArgs false
set_option linter.unusedVariables false
namespace Ssl.Ty

/-! ### folds of `concat` over union members do not depend on the order of the members -/

theorem foldConcat_props : ∀ (L : List Ty) (a0 : Ty), wf a0 = true → wfL L = true →
    wf (L.foldl concat a0) = true ∧ sub a0 (L.foldl concat a0) = true ∧ ∀ x ∈ L, sub x (L.foldl concat a0) = true := by
  intro L
  induction L with
  | nil => intro a0 w0 _; exact ⟨w0, sub_refl a0 w0, by intro x hx; cases hx⟩
  | cons y ys ih =>
    intro a0 w0 wl
    simp only [wfL, Bool.and_eq_true] at wl
    simp only [List.foldl_cons]
    have wc := concat_wf a0 y w0 wl.1
    obtain ⟨u1, u2⟩ := concat_upper a0 y w0 wl.1
    obtain ⟨r1, r2, r3⟩ := ih (concat a0 y) wc wl.2
    refine ⟨r1, sub_trans a0 _ _ w0 wc r1 u1 r2, ?_⟩
    intro x hx
    rcases List.mem_cons.mp hx with rfl | hx
    · exact sub_trans x _ _ wl.1 wc r1 u2 r2
    · exact r3 x hx

theorem foldConcat_least : ∀ (L : List Ty) (a0 c : Ty), wf a0 = true → wfL L = true →
    sub a0 c = true → (∀ x ∈ L, sub x c = true) → sub (L.foldl concat a0) c = true := by
  intro L
  induction L with
  | nil => intro a0 c _ _ h _; exact h
  | cons y ys ih =>
    intro a0 c w0 wl h0 hall
    simp only [wfL, Bool.and_eq_true] at wl
    simp only [List.foldl_cons]
    exact ih (concat a0 y) c (concat_wf a0 y w0 wl.1) wl.2
      (concat_least a0 y c w0 wl.1 h0 (hall y (by simp))) (fun x hx => hall x (by simp [hx]))

/-- the join of a non-empty list, seeded with its first element (what the query folds compute) -/
def joinList : List Ty → Ty
  | [] => .never
  | t :: ts => ts.foldl concat t

/-- two lists with the same elements (in any order, with any multiplicity) have joins that match each other -/
theorem joinList_same_elems (L L' : List Ty) (wL : wfL L = true) (wL' : wfL L' = true)
    (h : ∀ x, x ∈ L ↔ x ∈ L') : sub (joinList L) (joinList L') = true ∧ sub (joinList L') (joinList L) = true := by
  have key : ∀ (A B : List Ty), wfL A = true → wfL B = true → (∀ x ∈ A, x ∈ B) → sub (joinList A) (joinList B) = true := by
    intro A B wA wB hAB
    cases A with
    | nil => exact sub_never _
    | cons a as =>
      cases B with
      | nil => exact absurd (hAB a (by simp)) (by simp)
      | cons b bs =>
        simp only [wfL, Bool.and_eq_true] at wA wB
        simp only [joinList]
        obtain ⟨r1, r2, r3⟩ := foldConcat_props bs b wB.1 wB.2
        have up : ∀ x ∈ b :: bs, sub x (bs.foldl concat b) = true := by
          intro x hx
          rcases List.mem_cons.mp hx with rfl | hx
          · exact r2
          · exact r3 x hx
        exact foldConcat_least as a _ wA.1 wA.2 (up a (hAB a (by simp))) (fun x hx => up x (hAB x (by simp [hx])))
  exact ⟨key L L' wL wL' (fun x hx => (h x).mp hx), key L' L wL' wL (fun x hx => (h x).mpr hx)⟩

/-- what `foldQ base joinO` computes: the join of the members' answers when every member has one … -/
theorem foldlM_joinO_some (base : Ty → Option Ty) (g : Ty → Ty) : ∀ (ms : List Ty) (acc : Ty),
    (∀ m ∈ ms, base m = some (g m)) →
    ms.foldlM (fun acc t => do let c ← base t; joinO acc c) acc = some ((ms.map g).foldl concat acc) := by
  intro ms
  induction ms with
  | nil => intro acc _; simp
  | cons x xs ih =>
    intro acc h
    have hx := h x (by simp)
    simp only [List.foldlM_cons, List.map_cons, List.foldl_cons, hx, Option.bind_eq_bind, Option.bind_some, joinO]
    exact ih (concat acc (g x)) (fun m hm => h m (by simp [hm]))

theorem foldQ_joinO_some (base : Ty → Option Ty) (g : Ty → Ty) (ms : List Ty) (hne : ms ≠ [])
    (h : ∀ m ∈ ms, base m = some (g m)) : foldQ base joinO ms = some (joinList (ms.map g)) := by
  cases ms with
  | nil => exact absurd rfl hne
  | cons m ms =>
    simp only [foldQ, h m (by simp), Option.bind_eq_bind, Option.bind_some, List.map_cons, joinList]
    exact foldlM_joinO_some base g ms (g m) (fun x hx => h x (by simp [hx]))

/-- … and `none` as soon as one member has none -/
theorem foldlM_joinO_none (base : Ty → Option Ty) : ∀ (ms : List Ty) (acc : Ty), (∃ m ∈ ms, base m = none) →
    ms.foldlM (fun acc t => do let c ← base t; joinO acc c) acc = none := by
  intro ms
  induction ms with
  | nil => intro acc ⟨m, hm, _⟩; cases hm
  | cons x xs ih =>
    intro acc ⟨m, hm, hb⟩
    simp only [List.foldlM_cons, Option.bind_eq_bind]
    cases hx : base x with
    | none => simp
    | some c =>
      simp only [Option.bind_some, joinO]
      rcases List.mem_cons.mp hm with rfl | hm
      · rw [hb] at hx; cases hx
      · exact ih (concat acc c) ⟨m, hm, hb⟩

theorem foldQ_joinO_none (base : Ty → Option Ty) (ms : List Ty) (h : ∃ m ∈ ms, base m = none) :
    foldQ base joinO ms = none := by
  cases ms with
  | nil => rfl
  | cons m ms =>
    obtain ⟨x, hx, hb⟩ := h
    simp only [foldQ, Option.bind_eq_bind]
    cases hm : base m with
    | none => simp
    | some t =>
      simp only [Option.bind_some]
      rcases List.mem_cons.mp hx with rfl | hx
      · rw [hb] at hm; cases hm
      · exact foldlM_joinO_none base ms t ⟨x, hx, hb⟩

/-- **a query that folds the members' answers with `concat` does not depend on the order of the members**:
    for two unions with the same members, either both have no answer, or both answers match each other -/
theorem query_order_independent (base : Ty → Option Ty) (ms ms' : List Ty) (hne : ms ≠ [])
    (hperm : ∀ x, x ∈ ms ↔ x ∈ ms') (hwf : ∀ m ∈ ms, ∀ t, base m = some t → wf t = true) :
    (query base joinO (.multi ms) = none ∧ query base joinO (.multi ms') = none) ∨
    ∃ r r', query base joinO (.multi ms) = some r ∧ query base joinO (.multi ms') = some r' ∧
      sub r r' = true ∧ sub r' r = true := by
  have hne' : ms' ≠ [] := by
    intro h; subst h
    cases ms with
    | nil => exact hne rfl
    | cons m _ => exact absurd ((hperm m).mp (by simp)) (by simp)
  simp only [query]
  by_cases hall : ∀ m ∈ ms, (base m).isSome = true
  · right
    let g : Ty → Ty := fun m => (base m).getD .never
    have hg : ∀ m ∈ ms, base m = some (g m) := by
      intro m hm
      obtain ⟨t, ht⟩ := Option.isSome_iff_exists.mp (hall m hm)
      simp [g, ht]
    have hg' : ∀ m ∈ ms', base m = some (g m) := fun m hm => hg m ((hperm m).mpr hm)
    refine ⟨_, _, foldQ_joinO_some base g ms hne hg, foldQ_joinO_some base g ms' hne' hg', ?_⟩
    have wmap : ∀ (L : List Ty), (∀ m ∈ L, m ∈ ms) → wfL (L.map g) = true := by
      intro L
      induction L with
      | nil => intro _; rfl
      | cons x xs ih =>
        intro h
        simp only [List.map_cons, wfL, Bool.and_eq_true]
        exact ⟨hwf x (h x (by simp)) (g x) (hg x (h x (by simp))), ih (fun m hm => h m (by simp [hm]))⟩
    apply joinList_same_elems _ _ (wmap ms (fun m hm => hm)) (wmap ms' (fun m hm => (hperm m).mpr hm))
    intro x
    simp only [List.mem_map]
    constructor
    · rintro ⟨m, hm, rfl⟩; exact ⟨m, (hperm m).mp hm, rfl⟩
    · rintro ⟨m, hm, rfl⟩; exact ⟨m, (hperm m).mpr hm, rfl⟩
  · left
    have : ∃ m ∈ ms, base m = none := by
      apply Classical.byContradiction
      intro hno
      apply hall
      intro m hm
      cases hb : base m with
      | none => exact absurd ⟨m, hm, hb⟩ hno
      | some t => rfl
    obtain ⟨m, hm, hb⟩ := this
    exact ⟨foldQ_joinO_none base ms ⟨m, hm, hb⟩, foldQ_joinO_none base ms' ⟨m, (hperm m).mp hm, hb⟩⟩

end Ssl.Ty
