import SslModel.Model.TyText
set_option linter.unusedSimpArgs false
set_option linter.unusedVariables false
namespace Ssl.TyLex
open Ssl Ssl.Ty Ssl.TyText

/-! ## the printed text lexes back to the printed tokens (used by Thm/C15) -/

/-- `render` on character lists -/
def chars : List Tok → List Char
  | [] => []
  | .word "mut" :: rest => "mut ".toList ++ chars rest
  | t :: rest => t.text.toList ++ chars rest

theorem render_toList (ts : List Tok) : (render ts).toList = chars ts := by
  induction ts with
  | nil => simp [render, chars]
  | cons t ts ih =>
    cases t with
    | word s =>
      by_cases h : s = "mut"
      · subst h; simp [render, chars, String.toList_append, ih]
      · have e1 : render (.word s :: ts) = (Tok.word s).text ++ render ts := by
          simp [render, h]
        have e2 : chars (.word s :: ts) = (Tok.word s).text.toList ++ chars ts := by
          simp [chars, h]
        rw [e1, e2, String.toList_append, ih]
    | _ => simp [render, chars, String.toList_append, ih]

def isWordTok : Tok → Bool | .word _ => true | _ => false

/-- no two word tokens meet, except that `mut` (printed with a space) may be followed by one -/
def adjOk : List Tok → Bool
  | [] => true
  | [_] => true
  | .word w :: .word v :: rest => (w == "mut") && adjOk (.word v :: rest)
  | _ :: rest => adjOk rest

/-- words are non-empty and consist of word characters -/
def wordOk (s : String) : Bool := !s.toList.isEmpty && s.toList.all isWordChar
def wordsOk (ts : List Tok) : Bool := ts.all fun | .word s => wordOk s | _ => true


/-- a list does not begin with a word character -/
def noWordStart : List Char → Bool
  | [] => true
  | c :: _ => !isWordChar c

theorem takeWhile_word (w rest : List Char) (hw : w.all isWordChar = true) (hr : noWordStart rest = true) :
    (w ++ rest).takeWhile isWordChar = w ∧ (w ++ rest).dropWhile isWordChar = rest := by
  induction w with
  | nil =>
    cases rest with
    | nil => simp
    | cons c cs => simp [noWordStart] at hr; simp [List.takeWhile, List.dropWhile, hr]
  | cons c cs ih =>
    simp only [List.all_cons, Bool.and_eq_true] at hw
    obtain ⟨i1, i2⟩ := ih hw.2
    simp [List.takeWhile, List.dropWhile, hw.1, i1, i2]

/-- the lexer on a word followed by something that does not continue it -/
theorem lex_word (s : String) (hs : wordOk s = true) (rest : List Char) (hr : noWordStart rest = true)
    (f : Nat) (acc : List Tok) :
    lexGo (f + 1) (s.toList ++ rest) acc = lexGo f rest (.word s :: acc) := by
  simp only [wordOk, Bool.and_eq_true, Bool.not_eq_true'] at hs
  cases hl : s.toList with
  | nil => simp [hl] at hs
  | cons c cs =>
    have hall : (c :: cs).all isWordChar = true := by rw [← hl]; exact hs.2
    have hc : isWordChar c = true := by simp only [List.all_cons, Bool.and_eq_true] at hall; exact hall.1
    obtain ⟨t1, t2⟩ := takeWhile_word (c :: cs) rest hall hr
    have ne : ∀ p : Char, isWordChar p = false → (c == p) = false := by
      intro p hp
      cases h : (c == p) with
      | false => rfl
      | true => have : c = p := by simpa using h
                rw [this, hp] at hc; cases hc
    have hsp := ne ' ' (by decide); have htb := ne '\t' (by decide); have hnl := ne '\n' (by decide)
    have hcr := ne '\r' (by decide); have h1 := ne '(' (by decide); have h2 := ne ')' (by decide)
    have h3 := ne '[' (by decide); have h4 := ne ']' (by decide); have h5 := ne '{' (by decide)
    have h6 := ne '}' (by decide); have h7 := ne ',' (by decide); have h8 := ne '|' (by decide)
    have h9 := ne ':' (by decide); have h10 := ne '!' (by decide); have h11 := ne '-' (by decide)
    have hsof : String.ofList (c :: cs) = s := by rw [← hl]; exact String.ofList_toList
    simp only [List.cons_append] at t1 t2 ⊢
    simp only [lexGo, hsp, htb, hnl, hcr, h1, h2, h3, h4, h5, h6, h7, h8, h9, h10, h11, hc, Bool.false_eq_true,
      if_false, Bool.or_false, if_true, t1, t2, hsof]


/-- lexer steps a non-word token takes (its character, plus the space after `,` and `:`) -/
def steps : Tok → Nat
  | .comma | .colon => 2
  | _ => 1

theorem lex_punct (t : Tok) (ht : isWordTok t = false) (rest : List Char) (f : Nat) (acc : List Tok) :
    lexGo (f + steps t) (t.text.toList ++ rest) acc = lexGo f rest (t :: acc) := by
  cases t <;> simp [isWordTok] at ht <;> simp [steps, Tok.text, lexGo]

theorem noWordStart_punct (t : Tok) (ht : isWordTok t = false) (rest : List Char) :
    noWordStart (t.text.toList ++ rest) = true := by
  cases t <;> simp [isWordTok] at ht <;> simp [Tok.text, noWordStart] <;> decide

theorem noWordStart_chars (ts : List Tok) (h : ∀ t ts', ts = t :: ts' → isWordTok t = false) :
    noWordStart (chars ts) = true := by
  cases ts with
  | nil => rfl
  | cons t ts' =>
    have ht := h t ts' rfl
    cases t <;> simp [isWordTok] at ht <;> simp [chars, Tok.text, noWordStart] <;> decide

theorem chars_word (s : String) (h : s ≠ "mut") (ts : List Tok) : chars (.word s :: ts) = s.toList ++ chars ts := by
  simp [chars, h, Tok.text]

theorem chars_punct (t : Tok) (ht : isWordTok t = false) (ts : List Tok) : chars (t :: ts) = t.text.toList ++ chars ts := by
  cases t <;> simp [isWordTok] at ht <;> simp [chars]

theorem adjOk_tail (t : Tok) (ts : List Tok) (h : adjOk (t :: ts) = true) : adjOk ts = true := by
  cases ts with
  | nil => rfl
  | cons t2 ts2 =>
    cases t <;> cases t2 <;> simp_all [adjOk]

theorem chars_length_pos_word (s : String) (hs : wordOk s = true) : 1 ≤ s.toList.length := by
  simp only [wordOk, Bool.and_eq_true, Bool.not_eq_true'] at hs
  cases h : s.toList with
  | nil => simp [h] at hs
  | cons c cs => simp

/-- **lexing the rendered characters gives the tokens back** (fuel: one unit per character suffices) -/
theorem lex_chars : ∀ (ts : List Tok), adjOk ts = true → wordsOk ts = true → ∀ (f : Nat) (acc : List Tok),
    (chars ts).length + 1 ≤ f → lexGo f (chars ts) acc = some (acc.reverse ++ ts) := by
  intro ts
  induction ts with
  | nil =>
    intro _ _ f acc hf
    obtain ⟨g, rfl⟩ : ∃ g, f = g + 1 := ⟨f - 1, by omega⟩
    simp [chars, lexGo]
  | cons t ts ih =>
    intro ha hw f acc hf
    have ha' := adjOk_tail t ts ha
    have hw' : wordsOk ts = true := by simp only [wordsOk, List.all_cons, Bool.and_eq_true] at hw ⊢; exact hw.2
    by_cases hword : isWordTok t = true
    · cases t <;> simp [isWordTok] at hword
      rename_i s
      have hs : wordOk s = true := by simp only [wordsOk, List.all_cons, Bool.and_eq_true] at hw; exact hw.1
      by_cases hm : s = "mut"
      · subst hm
        have e : chars (.word "mut" :: ts) = "mut".toList ++ (' ' :: chars ts) := by simp [chars]
        rw [e] at hf ⊢
        simp only [List.length_append, List.length_cons] at hf
        have : ("mut".toList).length = 3 := by decide
        obtain ⟨g, rfl⟩ : ∃ g, f = g + 2 := ⟨f - 2, by omega⟩
        rw [lex_word "mut" hs (' ' :: chars ts) (by simp [noWordStart]; decide) (g + 1) acc]
        have h2 : lexGo (g + 1) (' ' :: chars ts) (.word "mut" :: acc) = lexGo g (chars ts) (.word "mut" :: acc) := by
          simp [lexGo]
        rw [h2, ih ha' hw' g (.word "mut" :: acc) (by omega)]
        simp
      · rw [chars_word s hm ts] at hf ⊢
        simp only [List.length_append] at hf
        have := chars_length_pos_word s hs
        obtain ⟨g, rfl⟩ : ∃ g, f = g + 1 := ⟨f - 1, by omega⟩
        have hns : noWordStart (chars ts) = true := by
          apply noWordStart_chars
          intro t2 ts2 hts
          subst hts
          cases t2 <;> simp_all [adjOk, isWordTok]
        rw [lex_word s hs (chars ts) hns g acc, ih ha' hw' g (.word s :: acc) (by omega)]
        simp
    · have hword' : isWordTok t = false := by simpa using hword
      rw [chars_punct t hword' ts] at hf ⊢
      simp only [List.length_append] at hf
      have hst : steps t ≤ t.text.toList.length := by
        cases t <;> simp [isWordTok] at hword' <;> simp [steps, Tok.text]
      obtain ⟨g, rfl⟩ : ∃ g, f = g + steps t := ⟨f - steps t, by omega⟩
      rw [lex_punct t hword' (chars ts) g acc, ih ha' hw' g (t :: acc) (by omega)]
      simp

/-- the lexer on a rendered token list -/
theorem lex_render (ts : List Tok) (ha : adjOk ts = true) (hw : wordsOk ts = true) : lex (render ts) = some ts := by
  unfold lex
  rw [render_toList]
  have hl : (render ts).length = (chars ts).length := by
    rw [← String.length_toList, render_toList]
  rw [hl]
  simpa using lex_chars ts ha hw ((chars ts).length + 1) [] (Nat.le_refl _)

end Ssl.TyLex
