use crate::canon;
use crate::LAST_PANIC;
use simplesl::variable::{ReturnType, Type, Typed, Variable};
use simplesl::{Code, Interpreter};
use std::panic::{self, AssertUnwindSafe};

pub fn dispatch(f: &[String]) -> String {
    match f[0].as_str() {
        "prog" => prog(&f[1], &f[2]),
        "dump" => dump(&f[1], &f[2]),
        "pratt" => pratt(&f[1]),
        "type" => types(f),
        "call" => call(&f[1], &f[2], &f[3]),
        "progk" => progk(&f[1], &f[2], &f[3]),
        "errk" => errk(&f[1], &f[2], &f[3]),
        "value" => value_mode(f),
        "repl" => repl(&f[1], &f[2], &f[3..]),
        "reexec" => reexec(&f[1], &f[2], &f[3]),
        "stdsig" => stdsig(),
        "parse3" => parse3(&f[1], &f[2]),
        "progt" => progt(&f[1], &f[2], &f[3], &f[4]),
        "threads" => threads(&f[1], &f[2], &f[3], &f[4], &f[5], &f[6]),
        "stdin" => with_stdin(&f[1], &f[2..]),
        other => format!("(bad-mode {other})"),
    }
}

fn take_panic() -> String {
    LAST_PANIC.lock().unwrap().take().unwrap_or_else(|| "?".into())
}

/// content-based membership of a value in a type (independent of `matches`)
pub fn inhabits(v: &Variable, t: &Type) -> bool {
    match (v, t) {
        (_, Type::Any) => true,
        (_, Type::Never) => false,
        (_, Type::Multi(m)) => m.iter().any(|t| inhabits(v, t)),
        (Variable::Bool(_), Type::Bool) => true,
        (Variable::Int(_), Type::Int) => true,
        (Variable::Float(_), Type::Float) => true,
        (Variable::String(_), Type::String) => true,
        (Variable::Void, Type::Void) => true,
        (Variable::Array(a), Type::Array(e)) => a.iter().all(|x| inhabits(x, e)),
        (Variable::Tuple(vs), Type::Tuple(ts)) => {
            vs.len() == ts.len() && vs.iter().zip(ts.iter()).all(|(v, t)| inhabits(v, t))
        }
        (Variable::Struct(m), Type::Struct(st)) => st
            .0
            .iter()
            .all(|(k, t)| m.get(k).is_some_and(|v| inhabits(v, t))),
        (Variable::Function(f), Type::Function(_)) => f.as_type().matches(t),
        (Variable::Mut(m), Type::Mut(inner)) => {
            canon::ty(&m.var_type) == canon::ty(inner)
                && m.variable.try_read().map(|g| inhabits(&g, inner)).unwrap_or(true)
        }
        _ => false,
    }
}

/// are all stored tags of a value sound (array element tags cover the elements, cell contents
/// inhabit the declared type)?
pub fn tags_sound(v: &Variable) -> bool {
    match v {
        Variable::Array(a) => {
            a.iter().all(|x| inhabits(x, a.element_type()) && tags_sound(x))
        }
        Variable::Tuple(vs) => vs.iter().all(tags_sound),
        Variable::Struct(m) => m.values().all(tags_sound),
        Variable::Mut(m) => m
            .variable
            .try_read()
            .map(|g| inhabits(&g, &m.var_type) && tags_sound(&g))
            .unwrap_or(true),
        _ => true,
    }
}

pub const FUEL: u64 = 30_000;

fn monitor_report() -> String {
    let (viol, observed) = simplesl::verif::finish();
    let mut out = format!("observed={observed}");
    for v in viol.iter().take(4) {
        out.push_str(&format!(
            " (unsound {} static={} value={} tag={} content={})",
            v.kind,
            canon::ty(&v.static_type),
            canon::value(&v.value),
            v.tag_ok as u8,
            v.content_ok as u8
        ));
    }
    out
}

/// run with the in-crate monitor (hook `verif`) and fuel; `f` is the execution proper
pub fn run_monitored<F: FnOnce() -> Result<Variable, simplesl::ExecError>>(
    t: &Type,
    f: F,
) -> String {
    simplesl::verif::start(FUEL);
    let r = panic::catch_unwind(AssertUnwindSafe(f));
    let mon = monitor_report();
    match r {
        Err(payload) => {
            if payload.downcast_ref::<simplesl::verif::FuelExhausted>().is_some() {
                let _ = take_panic();
                format!("(fuel) {mon}")
            } else {
                format!("(panic {}) {mon}", take_panic())
            }
        }
        Ok(Err(e)) => format!("(error {}) {mon}", canon::exec_error(&e)),
        Ok(Ok(v)) => {
            let tag = v.as_type().matches(t);
            let content = inhabits(&v, t);
            let sound = tags_sound(&v);
            format!(
                "(value {} tag={} content={} tags={}) {mon}",
                canon::value(&v),
                tag as u8,
                content as u8,
                sound as u8
            )
        }
    }
}

pub fn run_code(code: &Code) -> String {
    let t = code.return_type();
    run_monitored(&t, || code.exec())
}

fn interpreter_for(flags: &str) -> Interpreter<'static> {
    if flags.split(',').any(|f| f == "std") {
        Interpreter::with_stdlib()
    } else {
        Interpreter::without_stdlib()
    }
}

fn prog(flags: &str, src: &str) -> String {
    let interp = interpreter_for(flags);
    let parsed = panic::catch_unwind(AssertUnwindSafe(|| Code::parse(&interp, src)));
    let code = match parsed {
        Err(_) => return format!("(parse-panic {})", take_panic()),
        Ok(Err(e)) => return format!("(rejected {})", canon::error(&e)),
        Ok(Ok(c)) => c,
    };
    let t = code.return_type();
    if flags.split(',').any(|f| f == "noexec") {
        // static verdict and type only (the checker-model correspondence needs nothing else)
        return format!("(accepted {} (not-run))", canon::ty(&t));
    }
    format!("(accepted {} {})", canon::ty(&t), run_code(&code))
}

/// the folded instruction trees of a program (hook `Code::verif_dump`), not executed
fn dump(flags: &str, src: &str) -> String {
    let interp = interpreter_for(flags);
    let parsed = panic::catch_unwind(AssertUnwindSafe(|| Code::parse(&interp, src)));
    match parsed {
        Err(_) => format!("(parse-panic {})", take_panic()),
        Ok(Err(e)) => format!("(rejected {})", canon::error(&e)),
        Ok(Ok(c)) => format!("(dump {})", c.verif_dump()),
    }
}

/// run PRATT_PARSER itself (no type checking) on an expression and print the grouping
fn pratt(src: &str) -> String {
    use pest::Parser;
    use simplesl_parser::{PRATT_PARSER, Rule, SimpleSLParser};
    use std::cell::Cell;
    let r = panic::catch_unwind(AssertUnwindSafe(|| {
        let mut pairs = match SimpleSLParser::parse(Rule::expr, src) {
            Ok(p) => p,
            Err(_) => return "(no-parse)".to_string(),
        };
        let pair = pairs.next().unwrap();
        if pair.as_str().len() != src.trim_end().len() {
            return format!("(partial-parse {})", pair.as_str().len());
        }
        let toks: Vec<String> =
            pair.clone().into_inner().map(|p| format!("{:?}", p.as_rule())).collect();
        let n = Cell::new(0usize);
        let tree = PRATT_PARSER
            .map_primary(|p| {
                n.set(n.get() + 1);
                format!("{:?}{}", p.as_rule(), n.get())
            })
            .map_prefix(|op, rhs| format!("({:?} {})", op.as_rule(), rhs))
            .map_infix(|lhs, op, rhs| format!("({} {:?} {})", lhs, op.as_rule(), rhs))
            .map_postfix(|lhs, op| format!("({} {:?})", lhs, op.as_rule()))
            .parse(pair.into_inner());
        format!("[{}] {}", toks.join(" "), tree)
    }));
    match r {
        Ok(s) => s,
        Err(_) => format!("(panic {})", take_panic()),
    }
}


fn parse_ty(src: &str) -> Result<Type, String> {
    use std::str::FromStr;
    match panic::catch_unwind(AssertUnwindSafe(|| Type::from_str(src))) {
        Err(_) => Err(format!("(parse-panic {})", take_panic())),
        Ok(Err(_)) => Err("(no-parse)".into()),
        Ok(Ok(t)) => Ok(t),
    }
}

fn opt_ty(t: Option<Type>) -> String {
    t.map_or("none".into(), |t| format!("(some {})", canon::ty(&t)))
}
fn opt_tys(t: Option<std::sync::Arc<[Type]>>) -> String {
    t.map_or("none".into(), |ts| {
        format!("(some {})", ts.iter().map(canon::ty).collect::<Vec<_>>().join(" "))
    })
}
fn opt_n(t: Option<usize>) -> String {
    t.map_or("none".into(), |n| format!("(some {n})"))
}

/// `type rel A B`, `type q A`, `type rt A K`, `type det A K`
fn types(f: &[String]) -> String {
    use std::collections::HashSet;
    use std::str::FromStr;
    let r = panic::catch_unwind(AssertUnwindSafe(|| match f[1].as_str() {
        "rel" => {
            let (a, b) = match (parse_ty(&f[2]), parse_ty(&f[3])) {
                (Ok(a), Ok(b)) => (a, b),
                (Err(e), _) | (_, Err(e)) => return e,
            };
            format!(
                "(rel {} {} eq={} ab={} ba={} {} {})",
                canon::ty_ordered(&a),
                canon::ty_ordered(&b),
                (a == b) as u8,
                a.matches(&b) as u8,
                b.matches(&a) as u8,
                canon::ty(&a.clone().concat(b.clone())),
                canon::ty(&a.conjoin(&b))
            )
        }
        "q" => {
            let a = match parse_ty(&f[2]) {
                Ok(a) => a,
                Err(e) => return e,
            };
            format!(
                "(q {} (index_result {}) (element_type {}) (return_type {}) (params {}) (mut_element_type {}) (mut_assign_type {}) (is_function {}) (is_tuple {}) (is_mut {}) (tuple_len {}) (min_tuple_len {}) (flatten_tuple {}) (iter_element {}) (tuple_element_at0 {}) (tuple_element_at1 {}) (field_type_a {}) (field_type_b {}) (has_field_a {}) (can_be_indexed {}) (is_iterator {}) (is_struct {}))",
                canon::ty_ordered(&a),
                opt_ty(a.index_result()),
                opt_ty(a.element_type()),
                opt_ty(a.return_type()),
                opt_tys(a.params()),
                opt_ty(a.mut_element_type()),
                opt_ty(a.mut_assign_type()),
                a.is_function(),
                a.is_tuple(),
                a.is_mut(),
                opt_n(a.tuple_len()),
                opt_n(a.min_tuple_len()),
                opt_tys(a.clone().flatten_tuple()),
                opt_ty(a.iter_element()),
                opt_ty(a.tuple_element_at(0)),
                opt_ty(a.tuple_element_at(1)),
                opt_ty(a.field_type("a")),
                opt_ty(a.field_type("b")),
                a.has_field("a"),
                a.can_be_indexed(),
                a.is_iterator(),
                a.is_struct()
            )
        }
        // the member order of THIS instance and its Display text
        "show" => {
            let a = match parse_ty(&f[2]) {
                Ok(a) => a,
                Err(e) => return e,
            };
            format!("(show {} {})", canon::ty_ordered(&a), canon::string(&a.to_string()))
        }
        // print K times, re-parse each print, compare with the original
        "rt" => {
            let a = match parse_ty(&f[2]) {
                Ok(a) => a,
                Err(e) => return e,
            };
            let k: usize = f[3].parse().unwrap_or(3);
            let mut bad = Vec::new();
            let mut prints = HashSet::new();
            for _ in 0..k {
                // a fresh parse gives fresh hash seeds, hence possibly another print order
                let fresh = Type::from_str(&f[2]).unwrap();
                let text = fresh.to_string();
                prints.insert(text.clone());
                match Type::from_str(&text) {
                    Ok(t) if t == a && a == t => {}
                    Ok(t) => bad.push(format!("(reparsed-differs {} {})", canon::string(&text), canon::ty(&t))),
                    Err(_) => bad.push(format!("(unparsable {})", canon::string(&text))),
                }
            }
            let mut ps: Vec<_> = prints.into_iter().collect();
            ps.sort();
            format!(
                "(rt {} (prints {}) (bad {}))",
                canon::ty(&a),
                ps.iter().map(|p| canon::string(p)).collect::<Vec<_>>().join(" "),
                bad.join(" ")
            )
        }
        // determinism of comparisons: K fresh parses, all pairwise equal, match themselves, one set entry
        "det" => {
            let k: usize = f[3].parse().unwrap_or(3);
            let ts: Vec<Type> = match (0..k).map(|_| parse_ty(&f[2])).collect::<Result<_, _>>() {
                Ok(v) => v,
                Err(e) => return e,
            };
            let mut eq_fail = 0;
            let mut match_fail = 0;
            for x in &ts {
                for y in &ts {
                    if x != y {
                        eq_fail += 1;
                    }
                    if !x.matches(y) {
                        match_fail += 1;
                    }
                }
            }
            let set: HashSet<Type> = ts.iter().cloned().collect();
            let cell_fail = {
                let m: Vec<Type> = ts.iter().map(|t| Type::Mut(t.clone().into())).collect();
                m.iter().filter(|x| !x.matches(&m[0])).count()
            };
            // every static query is a function of the type's structure: the K parses (each with its own
            // hash order) must give structurally equal answers (canon::ty sorts union members / fields)
            let queries = |a: &Type| -> Vec<String> {
                let o = |t: Option<Type>| t.map(|t| canon::ty(&t)).unwrap_or_else(|| "none".into());
                let os = |t: Option<std::sync::Arc<[Type]>>| {
                    t.map(|ts| ts.iter().map(canon::ty).collect::<Vec<_>>().join(","))
                        .unwrap_or_else(|| "none".into())
                };
                vec![
                    o(a.index_result()),
                    o(a.element_type()),
                    o(a.return_type()),
                    os(a.params()),
                    o(a.mut_element_type()),
                    o(a.mut_assign_type()),
                    os(a.clone().flatten_tuple()),
                    o(a.iter_element()),
                    o(a.tuple_element_at(0)),
                    o(a.tuple_element_at(1)),
                    o(a.field_type("a")),
                    o(a.field_type("b")),
                    format!("{:?}{:?}", a.tuple_len(), a.min_tuple_len()),
                ]
            };
            let answers: Vec<Vec<String>> = ts.iter().map(queries).collect();
            let names = [
                "index_result", "element_type", "return_type", "params", "mut_element_type", "mut_assign_type",
                "flatten_tuple", "iter_element", "tuple_element_at0", "tuple_element_at1", "field_type_a",
                "field_type_b", "tuple_len",
            ];
            let varying: Vec<&str> = (0..names.len())
                .filter(|i| answers.iter().any(|a| a[*i] != answers[0][*i]))
                .map(|i| names[i])
                .collect();
            format!(
                "(det eq_fail={} match_fail={} set_size={} cell_fail={}{})",
                eq_fail,
                match_fail,
                set.len(),
                cell_fail,
                if varying.is_empty() { String::new() } else { format!(" varying={}", varying.join(",")) }
            )
        }
        other => format!("(bad-type-op {other})"),
    }));
    match r {
        Ok(s) => s,
        Err(_) => format!("(panic {})", take_panic()),
    }
}


/// `call <flags> <program yielding a function> <program yielding an array of arguments>`:
/// the host route `Function::create_call(args)` + `Code::exec`, under the monitor
fn call(flags: &str, fsrc: &str, asrc: &str) -> String {
    let interp = interpreter_for(flags);
    let get = |src: &str| -> Result<Variable, String> {
        let parsed = panic::catch_unwind(AssertUnwindSafe(|| Code::parse(&interp, src)));
        let code = match parsed {
            Err(_) => return Err(format!("(parse-panic {})", take_panic())),
            Ok(Err(e)) => return Err(format!("(rejected {})", canon::error(&e))),
            Ok(Ok(c)) => c,
        };
        match panic::catch_unwind(AssertUnwindSafe(|| code.exec())) {
            Err(_) => Err(format!("(setup-panic {})", take_panic())),
            Ok(Err(e)) => Err(format!("(setup-error {})", canon::exec_error(&e))),
            Ok(Ok(v)) => Ok(v),
        }
    };
    let fv = match get(fsrc) {
        Ok(Variable::Function(f)) => f,
        Ok(other) => return format!("(not-a-function {})", canon::value(&other)),
        Err(e) => return format!("(function-setup {e})"),
    };
    let args: Vec<Variable> = match get(asrc) {
        Ok(Variable::Array(a)) => a.iter().cloned().collect(),
        Ok(other) => return format!("(args-not-an-array {})", canon::value(&other)),
        Err(e) => return format!("(args-setup {e})"),
    };
    let ftype = canon::ty(&fv.as_type());
    let created = panic::catch_unwind(AssertUnwindSafe(|| fv.clone().create_call(args)));
    let code = match created {
        Err(_) => return format!("(create-call-panic {} {})", ftype, take_panic()),
        Ok(Err(e)) => return format!("(call-rejected {} {})", ftype, canon::error(&e)),
        Ok(Ok(c)) => c,
    };
    // the declared result type of the function is what the host is promised
    let declared = fv.return_type();
    let t = code.return_type();
    let run = run_monitored(&declared, || code.exec());
    format!("(call-accepted {} {} {})", ftype, canon::ty(&t), run)
}


fn show_result(r: Result<Result<Variable, simplesl::ExecError>, Box<dyn std::any::Any + Send>>) -> String {
    match r {
        Err(_) => format!("(panic {})", take_panic()),
        Ok(Err(e)) => format!("(error {})", canon::exec_error(&e)),
        Ok(Ok(v)) => format!("(value {})", canon::value(&v)),
    }
}

/// `repl <flags> <names> <input>*`: every input is parsed against, and run unscoped in, ONE
/// interpreter (what src/main.rs does); after each input the result and the values of `names`
fn repl(flags: &str, names: &str, inputs: &[String]) -> String {
    let mut interp = interpreter_for(flags);
    let names: Vec<&str> = names.split(',').filter(|n| !n.is_empty()).collect();
    let mut out = String::from("(repl");
    for src in inputs {
        let parsed = panic::catch_unwind(AssertUnwindSafe(|| Code::parse(&interp, src)));
        let step = match parsed {
            Err(_) => format!("(parse-panic {})", take_panic()),
            Ok(Err(e)) => format!("(rejected {})", canon::error(&e)),
            Ok(Ok(code)) => {
                let r = panic::catch_unwind(AssertUnwindSafe(|| code.exec_unscoped(&mut interp)));
                show_result(r)
            }
        };
        let vars: Vec<String> = names
            .iter()
            .map(|n| match interp.get_variable(n) {
                Some(v) => format!("({} {})", n, canon::value(v)),
                None => format!("({} unbound)", n),
            })
            .collect();
        out.push_str(&format!(" (step {} (vars {}))", step, vars.join(" ")));
    }
    out.push(')');
    out
}

/// `reexec <flags> <setup program run unscoped> <program>`: parse `program` against the interpreter,
/// `exec` it three times; the interpreter's variables must not change and the results must agree
fn reexec(flags: &str, setup: &str, src: &str) -> String {
    let mut interp = interpreter_for(flags);
    if !setup.is_empty() {
        match Code::parse(&interp, setup) {
            Ok(c) => {
                if c.exec_unscoped(&mut interp).is_err() {
                    return "(setup-failed)".into();
                }
            }
            Err(e) => return format!("(setup-rejected {})", canon::error(&e)),
        }
    }
    let snapshot = |i: &Interpreter| -> String {
        let mut names: Vec<String> = Vec::new();
        // the setup's names are a..z single letters and c0..c9 by convention of the generator
        for n in ["a", "b", "c", "d", "e", "x", "y", "z", "c0", "c1", "c2", "log"] {
            if let Some(v) = i.get_variable(n) {
                names.push(format!("({} {})", n, canon::value(v)));
            }
        }
        names.join(" ")
    };
    let before = snapshot(&interp);
    let code = match panic::catch_unwind(AssertUnwindSafe(|| Code::parse(&interp, src))) {
        Err(_) => return format!("(parse-panic {})", take_panic()),
        Ok(Err(e)) => return format!("(rejected {})", canon::error(&e)),
        Ok(Ok(c)) => c,
    };
    let mut runs = Vec::new();
    for _ in 0..3 {
        let r = panic::catch_unwind(AssertUnwindSafe(|| code.exec()));
        runs.push(show_result(r));
    }
    let after = snapshot(&interp);
    format!("(reexec (before {}) (after {}) (runs {}))", before, after, runs.join(" "))
}


/// `progk <flags> <K> <src>`: parse + run the same text K times in this process (every parse builds
/// fresh hash containers); prints the distinct canonical outcomes
fn progk(flags: &str, k: &str, src: &str) -> String {
    let k: usize = k.parse().unwrap_or(3);
    let mut outs: Vec<String> = Vec::new();
    for _ in 0..k {
        let o = prog(flags, src);
        // drop the monitor counters: they are not part of the outcome
        let o = match o.find(" observed=") {
            Some(i) => format!("{})", &o[..i]),
            None => o,
        };
        if !outs.contains(&o) {
            outs.push(o);
        }
    }
    outs.sort();
    format!("(progk {} {})", outs.len(), outs.join(" "))
}


/// `errk <flags> <K> <src>`: parse the same text K times; when it is rejected, the K error VALUES must be equal to each other
/// (`PartialEq for Error`) - an error that embeds a type must not compare by anything that depends on hash order
fn errk(flags: &str, k: &str, src: &str) -> String {
    let k: usize = k.parse().unwrap_or(3);
    let r = panic::catch_unwind(AssertUnwindSafe(|| {
        let mut errs = Vec::new();
        let mut accepted = 0usize;
        for _ in 0..k {
            let interp = interpreter_for(flags);
            match Code::parse(&interp, src) {
                Ok(_) => accepted += 1,
                Err(e) => errs.push(e),
            }
        }
        let mut unequal = 0usize;
        for e in &errs {
            if !(e == &errs[0]) || !(&errs[0] == e) {
                unequal += 1;
            }
        }
        let name = errs.first().map(|e| canon::error(e)).unwrap_or_else(|| "none".into());
        format!("(errk accepted={} rejected={} unequal={} {})", accepted, errs.len(), unequal, name)
    }));
    match r {
        Ok(s) => s,
        Err(_) => format!("(parse-panic {})", take_panic()),
    }
}

/// `value rt <program>`: evaluate the program to a value v, print it with `{:?}` (what the REPL prints),
/// read the text back with Variable::from_str and as a program; `value parse <text>`: Variable::from_str
fn value_mode(f: &[String]) -> String {
    use std::str::FromStr;
    let r = panic::catch_unwind(AssertUnwindSafe(|| match f[1].as_str() {
        "rt" => {
            let interp = Interpreter::with_stdlib();
            let v = match Code::parse(&interp, &f[2]).map(|c| c.exec()) {
                Ok(Ok(v)) => v,
                Ok(Err(e)) => return format!("(setup-error {})", canon::exec_error(&e)),
                Err(e) => return format!("(setup-rejected {})", canon::error(&e)),
            };
            let text = format!("{v:?}");
            let back = match panic::catch_unwind(AssertUnwindSafe(|| Variable::from_str(&text))) {
                Err(_) => format!("(panic {})", take_panic()),
                Ok(Err(e)) => format!("(unparsable {})", canon::error(&e)),
                Ok(Ok(w)) => format!(
                    "(parsed {} eq={} sametype={})",
                    canon::value(&w),
                    (w == v && v == w) as u8,
                    (canon::ty(&w.as_type()) == canon::ty(&v.as_type())) as u8
                ),
            };
            let prog = match panic::catch_unwind(AssertUnwindSafe(|| {
                Code::parse(&Interpreter::without_stdlib(), &text).map(|c| c.exec())
            })) {
                Err(_) => format!("(panic {})", take_panic()),
                Ok(Err(e)) => format!("(rejected {})", canon::error(&e)),
                Ok(Ok(Err(e))) => format!("(error {})", canon::exec_error(&e)),
                Ok(Ok(Ok(w))) => format!(
                    "(ran {} eq={} sametype={})",
                    canon::value(&w),
                    (w == v && v == w) as u8,
                    (canon::ty(&w.as_type()) == canon::ty(&v.as_type())) as u8
                ),
            };
            format!("(rt {} {} {} {})", canon::value(&v), canon::string(&text), back, prog)
        }
        "parse" => match Variable::from_str(&f[2]) {
            Ok(v) => format!("(parsed {})", canon::value(&v)),
            Err(e) => format!("(unparsable {})", canon::error(&e)),
        },
        other => format!("(bad-value-op {other})"),
    }));
    match r {
        Ok(s) => s,
        Err(_) => format!("(panic {})", take_panic()),
    }
}


/// declared type of every member of `std`, one entry per member: `(module name type)`
fn stdsig() -> String {
    let interp = Interpreter::with_stdlib();
    let Some(Variable::Struct(std)) = interp.get_variable("std").cloned() else {
        return "(no-std)".into();
    };
    let mut out = Vec::new();
    let mut top: Vec<_> = std.iter().collect();
    top.sort_by(|a, b| a.0.cmp(b.0));
    for (name, v) in top {
        match v {
            Variable::Struct(m) => {
                let mut ms: Vec<_> = m.iter().collect();
                ms.sort_by(|a, b| a.0.cmp(b.0));
                for (k, x) in ms {
                    out.push(format!("({} {} {} {})", name, k, canon::ty(&x.as_type()), kind(x)));
                }
            }
            x => out.push(format!("(std {} {} {})", name, canon::ty(&x.as_type()), kind(x))),
        }
    }
    format!("(stdsig {})", out.join(" "))
}

fn kind(v: &Variable) -> String {
    match v {
        Variable::Function(_) => "fn".into(),
        other => format!("(const {})", canon::value(other)),
    }
}

/// `stdin <scenario> <request…>`: run the inner request with fd 0 set up as the scenario says.
/// `hex:<bytes>` a file with exactly these bytes, `dir` a directory, `closed` no fd 0 at all.
fn with_stdin(scenario: &str, inner: &[String]) -> String {
    use std::io::Read;
    let file = if let Some(hex) = scenario.strip_prefix("hex:") {
        let bytes: Vec<u8> = (0..hex.len() / 2)
            .filter_map(|i| u8::from_str_radix(&hex[2 * i..2 * i + 2], 16).ok())
            .collect();
        let p = crate::scratch_dir().join(format!("stdin.{}", std::process::id()));
        if std::fs::write(&p, bytes).is_err() {
            return "(stdin-setup-failed)".into();
        }
        let f = std::fs::File::open(&p).ok();
        let _ = std::fs::remove_file(&p);
        f
    } else if scenario == "dir" {
        std::fs::File::open(crate::scratch_dir()).ok()
    } else if scenario == "closed" {
        None
    } else {
        return "(bad-stdin-scenario)".into();
    };
    crate::set_stdin(file);
    let r = panic::catch_unwind(AssertUnwindSafe(|| dispatch(inner)));
    // drop whatever the process-wide stdin buffer still holds, then detach
    let mut sink = Vec::new();
    let _ = std::io::stdin().lock().read_to_end(&mut sink);
    crate::set_stdin(std::fs::File::open("/dev/null").ok());
    match r {
        Ok(t) => t,
        Err(_) => format!("(panic {})", take_panic()),
    }
}


/// `threads <flags> <workers> <iters> <cells> <share> <setup>`: run `setup` unscoped in one
/// interpreter, then start one OS thread per name in `workers` (zero-argument SimpleSL functions
/// defined by the setup; a name may repeat). All threads wait on a barrier and then execute their
/// function `iters` times. `share = code`: threads with the same worker name execute ONE shared
/// `Code` value; `share = fn`: every thread builds its own call from the shared `Function`.
/// Output: per-thread results (all of them for iters <= 8, else count / errors / whether the ints
/// returned over all threads are pairwise distinct) and the final contents of `cells`.
fn threads(flags: &str, workers: &str, iters: &str, cells: &str, share: &str, setup: &str) -> String {
    use std::collections::{HashMap, HashSet};
    use std::sync::{Arc, Barrier, mpsc};
    let mut interp = interpreter_for(flags);
    let parsed = panic::catch_unwind(AssertUnwindSafe(|| Code::parse(&interp, setup)));
    let code = match parsed {
        Err(_) => return format!("(parse-panic {})", take_panic()),
        Ok(Err(e)) => return format!("(rejected {})", canon::error(&e)),
        Ok(Ok(c)) => c,
    };
    match panic::catch_unwind(AssertUnwindSafe(|| code.exec_unscoped(&mut interp))) {
        Err(_) => return format!("(setup-panic {})", take_panic()),
        Ok(Err(e)) => return format!("(setup-error {})", canon::exec_error(&e)),
        Ok(Ok(_)) => (),
    }
    let iters: usize = iters.parse().unwrap_or(1);
    let names: Vec<&str> = workers.split(',').filter(|n| !n.is_empty()).collect();
    let mut shared: HashMap<String, Arc<Code>> = HashMap::new();
    let mut jobs: Vec<Arc<Code>> = Vec::new();
    for n in &names {
        let Some(Variable::Function(f)) = interp.get_variable(n).cloned() else {
            return format!("(no-worker {n})");
        };
        let mk = || f.clone().create_call(vec![]).map(Arc::new);
        let c = if share == "code" {
            if let Some(c) = shared.get(*n) {
                c.clone()
            } else {
                match mk() {
                    Ok(c) => {
                        shared.insert(n.to_string(), c.clone());
                        c
                    }
                    Err(e) => return format!("(call-rejected {})", canon::error(&e)),
                }
            }
        } else {
            match mk() {
                Ok(c) => c,
                Err(e) => return format!("(call-rejected {})", canon::error(&e)),
            }
        };
        jobs.push(c);
    }
    let barrier = Arc::new(Barrier::new(jobs.len()));
    let (tx, rx) = mpsc::channel::<(usize, Result<Vec<String>, String>)>();
    for (i, job) in jobs.into_iter().enumerate() {
        let barrier = barrier.clone();
        let tx = tx.clone();
        let _ = std::thread::Builder::new().stack_size(64 << 20).spawn(move || {
            barrier.wait();
            let r = panic::catch_unwind(AssertUnwindSafe(|| {
                let mut out = Vec::with_capacity(iters);
                for _ in 0..iters {
                    out.push(match job.exec() {
                        Ok(v) => canon::value(&v),
                        Err(e) => format!("(error {})", canon::exec_error(&e)),
                    });
                }
                out
            }));
            let _ = tx.send((i, r.map_err(|_| take_panic())));
        });
    }
    drop(tx);
    let n = names.len();
    let mut results: Vec<Option<Result<Vec<String>, String>>> = (0..n).map(|_| None).collect();
    let deadline = std::time::Instant::now() + std::time::Duration::from_secs(60);
    for _ in 0..n {
        let left = deadline.saturating_duration_since(std::time::Instant::now());
        match rx.recv_timeout(left) {
            Ok((i, r)) => results[i] = Some(r),
            Err(_) => {
                // threads that never come back: report and let the caller restart this process
                return "(deadlock)".into();
            }
        }
    }
    let mut out = String::from("(threads");
    let mut all_ints: Vec<i64> = Vec::new();
    let mut ints_only = true;
    for (i, r) in results.into_iter().enumerate() {
        match r.unwrap() {
            Err(loc) => out.push_str(&format!(" (t{i} panic {loc})")),
            Ok(vals) => {
                for v in &vals {
                    match v.strip_prefix("(i ").and_then(|x| x.strip_suffix(')')).and_then(|x| x.parse::<i64>().ok()) {
                        Some(k) => all_ints.push(k),
                        None => ints_only = false,
                    }
                }
                if iters <= 8 {
                    out.push_str(&format!(" (t{i} {})", vals.join(" ")));
                } else {
                    let errs = vals.iter().filter(|v| v.starts_with("(error")).count();
                    let first = vals.first().cloned().unwrap_or_default();
                    let same = vals.iter().all(|v| *v == first);
                    out.push_str(&format!(" (t{i} n={} errors={} allsame={} first={})", vals.len(), errs, same as u8, first));
                }
            }
        }
    }
    let distinct = {
        let set: HashSet<i64> = all_ints.iter().copied().collect();
        ints_only && set.len() == all_ints.len()
    };
    out.push_str(&format!(" (distinct {})", distinct as u8));
    for c in cells.split(',').filter(|c| !c.is_empty()) {
        match interp.get_variable(c) {
            Some(v) => out.push_str(&format!(" ({c} {})", canon::value(v))),
            None => out.push_str(&format!(" ({c} unbound)")),
        }
    }
    out.push(')');
    out
}


/// `progt <flags> <threads> <iters> <src>`: parse once, run once on this thread (monitored, with
/// fuel), then let `threads` OS threads execute the SAME parsed `Code` `iters` times each, all
/// released by a barrier; report how many of the concurrent results differ from the sequential one.
fn progt(flags: &str, threads: &str, iters: &str, src: &str) -> String {
    use std::sync::{Arc, Barrier, mpsc};
    let interp = interpreter_for(flags);
    let parsed = panic::catch_unwind(AssertUnwindSafe(|| Code::parse(&interp, src)));
    let code = match parsed {
        Err(_) => return format!("(parse-panic {})", take_panic()),
        Ok(Err(e)) => return format!("(rejected {})", canon::error(&e)),
        Ok(Ok(c)) => Arc::new(c),
    };
    let seq = run_code(&code);
    if !(seq.starts_with("(value") || seq.starts_with("(error")) {
        return format!("(progt-skipped {seq})");
    }
    let show = |r: Result<Variable, simplesl::ExecError>| match r {
        Ok(v) => format!("(value {})", canon::value(&v)),
        Err(e) => format!("(error {})", canon::exec_error(&e)),
    };
    let seq_plain = show(code.exec());
    let n: usize = threads.parse().unwrap_or(2);
    let iters: usize = iters.parse().unwrap_or(1);
    let barrier = Arc::new(Barrier::new(n));
    let (tx, rx) = mpsc::channel::<Result<Vec<String>, String>>();
    for _ in 0..n {
        let (code, barrier, tx) = (code.clone(), barrier.clone(), tx.clone());
        let _ = std::thread::Builder::new().stack_size(256 << 20).spawn(move || {
            barrier.wait();
            let r = panic::catch_unwind(AssertUnwindSafe(|| {
                (0..iters)
                    .map(|_| match code.exec() {
                        Ok(v) => format!("(value {})", canon::value(&v)),
                        Err(e) => format!("(error {})", canon::exec_error(&e)),
                    })
                    .collect::<Vec<_>>()
            }));
            let _ = tx.send(r.map_err(|_| take_panic()));
        });
    }
    drop(tx);
    let deadline = std::time::Instant::now() + std::time::Duration::from_secs(60);
    let mut differing = Vec::new();
    let mut total = 0usize;
    for _ in 0..n {
        match rx.recv_timeout(deadline.saturating_duration_since(std::time::Instant::now())) {
            Err(_) => return "(deadlock)".into(),
            Ok(Err(loc)) => differing.push(format!("(panic {loc})")),
            Ok(Ok(vals)) => {
                for v in vals {
                    total += 1;
                    if v != seq_plain && differing.len() < 3 {
                        differing.push(v);
                    }
                }
            }
        }
    }
    format!("(progt seq={} runs={} differing=({}))", seq_plain, total, differing.join(" "))
}


/// `parse3 <which> <text>`: the three text entry points under catch_unwind, nothing is executed.
/// `which` = `c` (Code::parse with the standard library only), `a` (also Variable::from_str and
/// Type::from_str).
fn parse3(which: &str, text: &str) -> String {
    use std::str::FromStr;
    let interp = Interpreter::with_stdlib();
    let code = match panic::catch_unwind(AssertUnwindSafe(|| Code::parse(&interp, text))) {
        Err(_) => format!("(panic {})", take_panic()),
        Ok(Err(e)) => format!("(err {})", canon::variant_name(&format!("{e:?}"))),
        Ok(Ok(c)) => {
            // the static type is part of the result of checking
            match panic::catch_unwind(AssertUnwindSafe(|| c.return_type())) {
                Ok(_) => "ok".into(),
                Err(_) => format!("(panic {})", take_panic()),
            }
        }
    };
    if which != "a" {
        return format!("(parse3 code={code})");
    }
    let value = match panic::catch_unwind(AssertUnwindSafe(|| Variable::from_str(text))) {
        Err(_) => format!("(panic {})", take_panic()),
        Ok(Err(_)) => "err".into(),
        Ok(Ok(_)) => "ok".into(),
    };
    let ty = match panic::catch_unwind(AssertUnwindSafe(|| Type::from_str(text))) {
        Err(_) => format!("(panic {})", take_panic()),
        Ok(Err(_)) => "err".into(),
        Ok(Ok(_)) => "ok".into(),
    };
    format!("(parse3 code={code} value={value} type={ty})")
}
