/-!
  pest 2.7.14's Pratt parser (`pest::pratt_parser`), generic in the operator table.
  `expr / nud / led / lbp` are transcribed as one fuel-driven function group; the three
  `panic!` sites of the Rust code are explicit outcomes.
-/
namespace Ssl.Pratt

inductive Affix where
  | prefixOp | postfixOp | infixL | infixR
  deriving DecidableEq, Repr

/-- a token is a pest `Pair`: its rule and (for telling operands apart) an identifier -/
structure Tok where
  rule : String
  id : Nat := 0
  deriving DecidableEq, Repr

inductive Tree where
  | prim (t : Tok)
  | pre (op : Tok) (rhs : Tree)
  | post (lhs : Tree) (op : Tok)
  | bin (lhs : Tree) (op : Tok) (rhs : Tree)
  deriving DecidableEq, Repr

inductive Res (α : Type) where
  | ok (a : α)
  | panicEmpty              -- "Pratt parsing expects non-empty Pairs"
  | panicNud (t : Tok)      -- "Expected prefix or primary expression"
  | panicLed (t : Tok)      -- "Expected postfix or infix expression"
  | panicLbp (t : Tok)      -- "Expected operator"
  | fuel
  deriving DecidableEq, Repr

/-- `PrattParser::op`: the k-th call (k = 0 for the first) assigns precedence 10·(k+2) -/
def mkTable (levels : List (List (String × Affix))) : List (String × Affix × Nat) :=
  (levels.zipIdx).flatMap fun (lv, k) => lv.map fun (r, a) => (r, a, 10 * (k + 2))

abbrev Table := List (String × Affix × Nat)

def Table.get (T : Table) (r : String) : Option (Affix × Nat) := List.lookup r T

mutual
/-- `expr(pairs, rbp)` -/
def expr (T : Table) : Nat → List Tok → Nat → Res (Tree × List Tok)
  | 0, _, _ => .fuel
  | f + 1, toks, rbp =>
    match nud T f toks with
    | .ok (lhs, rest) => loop T f lhs rest rbp
    | .panicEmpty => .panicEmpty | .panicNud t => .panicNud t | .panicLed t => .panicLed t
    | .panicLbp t => .panicLbp t | .fuel => .fuel
/-- `while rbp < self.lbp(pairs) { lhs = self.led(pairs, lhs) }` -/
def loop (T : Table) : Nat → Tree → List Tok → Nat → Res (Tree × List Tok)
  | 0, _, _, _ => .fuel
  | f + 1, lhs, toks, rbp =>
    match toks with
    | [] => .ok (lhs, [])
    | t :: rest =>
      match T.get t.rule with
      | none => .panicLbp t
      | some (aff, prec) =>
        if rbp < prec then
          -- led
          match aff with
          | .infixL =>
            match expr T f rest prec with
            | .ok (rhs, rest') => loop T f (.bin lhs t rhs) rest' rbp
            | .panicEmpty => .panicEmpty | .panicNud t => .panicNud t | .panicLed t => .panicLed t
            | .panicLbp t => .panicLbp t | .fuel => .fuel
          | .infixR =>
            match expr T f rest (prec - 1) with
            | .ok (rhs, rest') => loop T f (.bin lhs t rhs) rest' rbp
            | .panicEmpty => .panicEmpty | .panicNud t => .panicNud t | .panicLed t => .panicLed t
            | .panicLbp t => .panicLbp t | .fuel => .fuel
          | .postfixOp => loop T f (.post lhs t) rest rbp
          | .prefixOp => .panicLed t
        else .ok (lhs, toks)
/-- `nud(pairs)` -/
def nud (T : Table) : Nat → List Tok → Res (Tree × List Tok)
  | 0, _ => .fuel
  | f + 1, toks =>
    match toks with
    | [] => .panicEmpty
    | t :: rest =>
      match T.get t.rule with
      | some (.prefixOp, prec) =>
        match expr T f rest (prec - 1) with
        | .ok (rhs, rest') => .ok (.pre t rhs, rest')
        | .panicEmpty => .panicEmpty | .panicNud t => .panicNud t | .panicLed t => .panicLed t
        | .panicLbp t => .panicLbp t | .fuel => .fuel
      | none => .ok (.prim t, rest)
      | some _ => .panicNud t
end

/-- `PrattParserMap::parse`: `expr(pairs, 0)`; fuel 3·n+3 always suffices (each call either
    consumes a token or is one of ≤ 2 administrative steps per token) -/
def parse (T : Table) (toks : List Tok) : Res Tree :=
  match expr T (3 * toks.length + 3) toks 0 with
  | .ok (t, _) => .ok t
  | .panicEmpty => .panicEmpty | .panicNud t => .panicNud t | .panicLed t => .panicLed t
  | .panicLbp t => .panicLbp t | .fuel => .fuel

def Tree.show : Tree → String
  | .prim t => s!"{t.rule}{t.id}"
  | .pre op r => s!"({op.rule} {r.show})"
  | .post l op => s!"({l.show} {op.rule})"
  | .bin l op r => s!"({l.show} {op.rule} {r.show})"

end Ssl.Pratt
