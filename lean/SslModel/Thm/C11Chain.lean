import SslModel.Thm.C11Iter
/-!
# C11 — pipelines of any length over `a~`

The statement of C11 quantifies over "all operator pipelines"; this file proves it for pipelines of ANY length built
from `@`, `?` and `? T` over an array iterator, with callbacks that compute given functions without touching the store
(callbacks with effects are covered one step at a time by `Thm/C11Pipe`).  The device is an invariant that every stage
preserves: `LL it f xs σ` - "called repeatedly from `σ`, `it` returns `(true, x)` for the elements of `xs` in order and
then an end marker".  `iter_LL`: `a~` is list-like with `a`; `map_LL`, `filter_LL`, `tfilter_LL`: a stage over a
list-like iterator is list-like with `map h` / `filter q` / `filter (type test)` of the list (for `?` and `? T` through the loop
relations of `Thm/C11Pipe`, any number of rejected elements); `pipeline_LL`: induction over the list of stages;
`pipeline_pulls` / `pipeline_collect`: the built iterator `Pulls` exactly `specₙ (… (spec₁ a))`, so every
consumer theorem of `Thm/C11.lean` applies (`$]`, the reducers, `$&&` / `$||`), and `… $]` is that array.
-/
namespace Ssl.C11
open Ssl Ssl.Spec

/-- `it`, called repeatedly from store `σ` at fuel `f`, behaves like the list `xs`: it returns `(true, x)` for each
    element in order and then an end marker -/
def LL (it : Val) (f : Nat) : List Val → St → Prop
  | [], σ => ∃ rest σ', callFn f it [] σ = (.ok (.tup (.bool false :: rest)), σ')
  | x :: xs, σ => ∃ σ1, callFn f it [] σ = (.ok (.tup [.bool true, x]), σ1) ∧ LL it f xs σ1

theorem LL.mono {it : Val} {f g : Nat} (hle : f ≤ g) : ∀ {xs : List Val} {σ : St}, LL it f xs σ → LL it g xs σ
  | [], _, ⟨rest, σ', h⟩ => ⟨rest, σ', callFn_lift g h hle⟩
  | _ :: _, _, ⟨σ1, h, t⟩ => ⟨σ1, callFn_lift g h hle, LL.mono hle t⟩

/-- a list-like iterator `Pulls` its list -/
theorem LL.pulls {it : Val} {f : Nat} : ∀ {xs : List Val} {σ : St}, LL it f xs σ →
    ∃ σ', Pulls it (f + 2 + xs.length) σ xs σ'
  | [], σ, ⟨rest, σ', h⟩ => ⟨σ', Pulls.done (pull_of_call_none h)⟩
  | x :: xs, σ, ⟨σ1, h, t⟩ => by
    obtain ⟨σ', hp⟩ := LL.pulls t
    refine ⟨σ', ?_⟩
    have e : f + 2 + (x :: xs).length = (f + 2 + xs.length) + 1 := by simp; omega
    rw [e]
    exact Pulls.more (pull_lift _ (pull_of_call h) (by omega)) hp

theorem LL.collect {it : Val} {f : Nat} {xs : List Val} {σ : St} (h : LL it f xs σ) :
    ∃ σ', collectGo (f + 2 + xs.length) it [] σ = (.ok xs, σ') := by
  obtain ⟨σ', hp⟩ := h.pulls
  exact ⟨σ', by simpa using collectGo_spec _ _ _ _ _ [] hp⟩

/-- the array iterator with its cursor at `j - 1` is list-like with the rest of the array -/
theorem iter_LL (id loc : Nat) (t ty : Ty) (es : List Val) (dflt : Val) (f0 : Nat) (hn : (es.length : Int) < 2 ^ 63) :
    ∀ (k j : Nat) (σ : St) (c : I64), j + k = es.length → σ.cells[loc]? = some (.int c) → c.toInt = (j : Int) - 1 →
      LL (arrIter id loc t ty es dflt) (f0 + 20) (es.drop j) σ := by
  intro k
  induction k with
  | zero =>
    intro j σ c hjk hc hj
    obtain ⟨x, _, hcall⟩ := iter_call_none f0 id loc t ty es dflt σ c j hc hj hn (by omega) (by omega)
    have hd : es.drop j = [] := List.drop_eq_nil_of_le (by omega)
    rw [hd]
    exact ⟨_, _, hcall⟩
  | succ k ih =>
    intro j σ c hjk hc hj
    have hjn : j < es.length := by omega
    obtain ⟨x, hxv, hcall⟩ := iter_call_some f0 id loc t ty es dflt es[j] σ c j hc hj hn (List.getElem?_eq_getElem hjn)
    have hget := setCell_get σ loc (.int x) _ hc
    have hd : es.drop j = es[j] :: es.drop (j + 1) := List.drop_eq_getElem_cons hjn
    rw [hd]
    exact ⟨_, hcall, ih (j + 1) (setCell σ loc (.int x)) x (by omega) hget (by rw [hxv]; omega)⟩

/-- a callback that computes the function `h` at every fuel from `f0` on and leaves the store alone -/
def PureFn (g : Val) (h : Val → Val) (f0 : Nat) : Prop := ∀ k x σ, f0 ≤ k → callFn k g [x] σ = (.ok (h x), σ)

/-- `@ g` maps a list-like iterator to a list-like iterator -/
theorem map_LL (id : Nat) (r : Ty) (it g dflt : Val) (h : Val → Val) (f : Nat) (hg : PureFn g h f) :
    ∀ {xs : List Val} {σ : St}, LL it f xs σ → LL (mapped id r it g dflt) (f + 19) (xs.map h) σ
  | [], σ, ⟨rest, σ', hs⟩ => ⟨_, σ', map_call_none f id r it g dflt rest σ σ' hs⟩
  | x :: xs, σ, ⟨σ1, hs, t⟩ =>
    ⟨σ1, map_call_some f id r it g dflt x (h x) σ σ1 σ1 hs (hg f x σ1 (Nat.le_refl f)), map_LL id r it g dflt h f hg t⟩

/-- a predicate callback that computes the test `q` and leaves the store alone -/
def PurePred (p : Val) (q : Val → Bool) (f0 : Nat) : Prop := ∀ k x σ, f0 ≤ k → callFn k p [x] σ = (.ok (.bool (q x)), σ)

/-- the filtered iterator described by its loops: each element of the list is reached after at most `N` rejected ones -/
def FLL (it p : Val) (f N : Nat) : List Val → St → Prop
  | [], σ => ∃ rest σ' n, n ≤ N ∧ FilterLoop it p f σ (.tup (.bool false :: rest)) σ' n
  | y :: ys, σ => ∃ σ1 n, n ≤ N ∧ FilterLoop it p f σ (.tup [.bool true, y]) σ1 n ∧ FLL it p f N ys σ1

theorem FLL.mono {it p : Val} {f N N' : Nat} (hNN : N ≤ N') : ∀ {ys : List Val} {σ : St}, FLL it p f N ys σ → FLL it p f N' ys σ
  | [], _, ⟨rest, σ', n, hn, h⟩ => ⟨rest, σ', n, by omega, h⟩
  | _ :: _, _, ⟨σ1, n, hn, h, t⟩ => ⟨σ1, n, by omega, h, FLL.mono hNN t⟩

theorem FLL.skip {it p : Val} {f N : Nat} {x : Val} {σ σ1 σ2 : St}
    (hs : callFn f it [] σ = (.ok (.tup [.bool true, x]), σ1)) (hp : callFn f p [x] σ1 = (.ok (.bool false), σ2)) :
    ∀ {ys : List Val}, FLL it p f N ys σ2 → FLL it p f (N + 1) ys σ
  | [], ⟨rest, σ', n, hn, h⟩ => ⟨rest, σ', n + 1, by omega, .skip hs hp h⟩
  | _ :: _, ⟨σ3, n, hn, h, t⟩ => ⟨σ3, n + 1, by omega, .skip hs hp h, FLL.mono (by omega) t⟩

theorem fll_of_ll (it p : Val) (q : Val → Bool) (f : Nat) (hq : PurePred p q f) :
    ∀ {xs : List Val} {σ : St}, LL it f xs σ → FLL it p f xs.length (xs.filter q) σ
  | [], σ, ⟨rest, σ', hs⟩ => ⟨rest, σ', 0, Nat.le_refl 0, .done hs⟩
  | x :: xs, σ, ⟨σ1, hs, t⟩ => by
    have ih := fll_of_ll it p q f hq t
    have hpx := hq f x σ1 (Nat.le_refl f)
    cases hqx : q x
    · rw [hqx] at hpx
      simp only [List.filter, hqx, List.length_cons]
      exact FLL.skip hs hpx ih
    · rw [hqx] at hpx
      simp only [List.filter, hqx, List.length_cons]
      exact ⟨σ1, 0, by omega, .keep hs hpx, FLL.mono (by omega) ih⟩

theorem ll_of_fll (id : Nat) (r : Ty) (it p : Val) (f N : Nat) :
    ∀ {ys : List Val} {σ : St}, FLL it p f N ys σ → LL (filtered id r it p) (f + 25 + N) ys σ
  | [], σ, ⟨rest, σ', n, hn, h⟩ => ⟨rest, σ', callFn_lift _ (filter_call id r it p f σ σ' _ n h) (by omega)⟩
  | y :: ys, σ, ⟨σ1, n, hn, h, t⟩ =>
    ⟨σ1, callFn_lift _ (filter_call id r it p f σ σ1 _ n h) (by omega), ll_of_fll id r it p f N t⟩

/-- `? p` maps a list-like iterator to a list-like iterator -/
theorem filter_LL (id : Nat) (r : Ty) (it p : Val) (q : Val → Bool) (f : Nat) (hq : PurePred p q f)
    {xs : List Val} {σ : St} (h : LL it f xs σ) : LL (filtered id r it p) (f + 25 + xs.length) (xs.filter q) σ :=
  ll_of_fll id r it p f xs.length (fll_of_ll it p q f hq h)

/-! ### `? T` -/

def TLL (it : Val) (t : Ty) (f N : Nat) : List Val → St → Prop
  | [], σ => ∃ σ' n, n ≤ N ∧ TFLoop it t f σ none σ' n
  | y :: ys, σ => ∃ σ1 n, n ≤ N ∧ TFLoop it t f σ (some y) σ1 n ∧ TLL it t f N ys σ1

theorem TLL.mono {it : Val} {t : Ty} {f N N' : Nat} (hNN : N ≤ N') :
    ∀ {ys : List Val} {σ : St}, TLL it t f N ys σ → TLL it t f N' ys σ
  | [], _, ⟨σ', n, hn, h⟩ => ⟨σ', n, by omega, h⟩
  | _ :: _, _, ⟨σ1, n, hn, h, tl⟩ => ⟨σ1, n, by omega, h, TLL.mono hNN tl⟩

theorem TLL.skip {it : Val} {t : Ty} {f N : Nat} {x : Val} {σ σ1 : St}
    (hs : callFn f it [] σ = (.ok (.tup [.bool true, x]), σ1)) (ht : x.asType.sub t = false) :
    ∀ {ys : List Val}, TLL it t f N ys σ1 → TLL it t f (N + 1) ys σ
  | [], ⟨σ', n, hn, h⟩ => ⟨σ', n + 1, by omega, .skip hs ht h⟩
  | _ :: _, ⟨σ3, n, hn, h, tl⟩ => ⟨σ3, n + 1, by omega, .skip hs ht h, TLL.mono (by omega) tl⟩

theorem tll_of_ll (it : Val) (t : Ty) (f : Nat) :
    ∀ {xs : List Val} {σ : St}, LL it f xs σ → TLL it t f xs.length (xs.filter (fun x => x.asType.sub t)) σ
  | [], σ, ⟨rest, σ', hs⟩ => ⟨σ', 0, Nat.le_refl 0, .done hs⟩
  | x :: xs, σ, ⟨σ1, hs, tl⟩ => by
    have ih := tll_of_ll it t f tl
    cases hqx : x.asType.sub t
    · simp only [List.filter, hqx, List.length_cons]
      exact TLL.skip hs hqx ih
    · simp only [List.filter, hqx, List.length_cons]
      exact ⟨σ1, 0, by omega, .keep hs hqx, TLL.mono (by omega) ih⟩

theorem ll_of_tll (id : Nat) (it dflt : Val) (t : Ty) (f N : Nat) :
    ∀ {ys : List Val} {σ : St}, TLL it t f N ys σ → LL (typeFiltered id t it dflt) (f + 25 + N) ys σ
  | [], σ, ⟨σ', n, hn, h⟩ => ⟨[dflt], σ', callFn_lift _ (tfilter_call id it dflt t f σ σ' none n h) (by omega)⟩
  | y :: ys, σ, ⟨σ1, n, hn, h, tl⟩ =>
    ⟨σ1, callFn_lift _ (tfilter_call id it dflt t f σ σ1 (some y) n h) (by omega), ll_of_tll id it dflt t f N tl⟩

theorem tfilter_LL (id : Nat) (it dflt : Val) (t : Ty) (f : Nat) {xs : List Val} {σ : St} (h : LL it f xs σ) :
    LL (typeFiltered id t it dflt) (f + 25 + xs.length) (xs.filter (fun x => x.asType.sub t)) σ :=
  ll_of_tll id it dflt t f xs.length (tll_of_ll it t f h)

/-! ### pipelines -/

/-- one stage of a pipeline, with the list function it is claimed to compute -/
inductive Stage where
  | map (id : Nat) (r : Ty) (g dflt : Val) (h : Val → Val)
  | filter (id : Nat) (r : Ty) (p : Val) (q : Val → Bool)
  | tfilter (id : Nat) (t : Ty) (dflt : Val)

/-- the iterator value the implementation builds for `it <stage>` -/
def Stage.apply : Stage → Val → Val
  | .map id r g dflt _, it => mapped id r it g dflt
  | .filter id r p _, it => filtered id r it p
  | .tfilter id t dflt, it => typeFiltered id t it dflt

/-- the documented list semantics of the stage -/
def Stage.spec : Stage → List Val → List Val
  | .map _ _ _ _ h, xs => xs.map h
  | .filter _ _ _ q, xs => xs.filter q
  | .tfilter _ t _, xs => xs.filter (fun x => x.asType.sub t)

/-- the callbacks of the stage compute what the stage claims (from fuel `f0` on, without touching the store) -/
def Stage.ok (f0 : Nat) : Stage → Prop
  | .map _ _ g _ h => PureFn g h f0
  | .filter _ _ p q => PurePred p q f0
  | .tfilter _ _ _ => True

theorem stage_LL (s : Stage) (f0 f : Nat) (hf : f0 ≤ f) (hok : s.ok f0) (it : Val) (xs : List Val) (σ : St)
    (h : LL it f xs σ) : ∃ F, f ≤ F ∧ LL (s.apply it) F (s.spec xs) σ := by
  cases s with
  | map id r g dflt hh =>
    exact ⟨f + 19, by omega, map_LL id r it g dflt hh f (fun k x σ hk => hok k x σ (by omega)) h⟩
  | filter id r p q =>
    exact ⟨f + 25 + xs.length, by omega, filter_LL id r it p q f (fun k x σ hk => hok k x σ (by omega)) h⟩
  | tfilter id t dflt =>
    exact ⟨f + 25 + xs.length, by omega, tfilter_LL id it dflt t f h⟩

/-- a pipeline of any length over a list-like source is list-like with the composed list function -/
theorem pipeline_LL (f0 : Nat) : ∀ (stages : List Stage) (it : Val) (f : Nat) (xs : List Val) (σ : St),
    f0 ≤ f → (∀ s ∈ stages, s.ok f0) → LL it f xs σ →
    ∃ F, LL (stages.foldl (fun i s => s.apply i) it) F (stages.foldl (fun l s => s.spec l) xs) σ
  | [], it, f, xs, σ, _, _, h => ⟨f, h⟩
  | s :: rest, it, f, xs, σ, hf, hok, h => by
    obtain ⟨F, hF, h1⟩ := stage_LL s f0 f hf (hok s (List.mem_cons_self ..)) it xs σ h
    exact pipeline_LL f0 rest (s.apply it) F (s.spec xs) σ (by omega) (fun s' hs' => hok s' (List.mem_cons_of_mem _ hs')) h1

/-- **pipelines of any length over `a~`**: `a~ <stage₁> … <stageₙ> $]` is the array of
    `specₙ (… (spec₁ a))`, for every array shorter than 2^63, every number and order of `@`, `?`, `? T` stages, and
    callbacks that compute the functions the stages name -/
theorem pipeline_collect (id loc : Nat) (t ty : Ty) (es : List Val) (dflt : Val) (f0 : Nat) (stages : List Stage)
    (hn : (es.length : Int) < 2 ^ 63) (hok : ∀ s ∈ stages, s.ok f0)
    (σ : St) (hc : σ.cells[loc]? = some (.int (BitVec.ofInt 64 (-1)))) :
    ∃ F σ', collectGo F (stages.foldl (fun i s => s.apply i) (arrIter id loc t ty es dflt)) [] σ =
      (.ok (stages.foldl (fun l s => s.spec l) es), σ') := by
  have h0 : LL (arrIter id loc t ty es dflt) (f0 + 20) (es.drop 0) σ :=
    iter_LL id loc t ty es dflt f0 hn es.length 0 σ _ (by omega) hc (by decide)
  rw [List.drop_zero] at h0
  obtain ⟨F, hl⟩ := pipeline_LL f0 stages _ (f0 + 20) es σ (by omega) hok h0
  obtain ⟨σ', hcol⟩ := hl.collect
  exact ⟨_, σ', hcol⟩

/-- the same for any consumer: the pipeline `Pulls` exactly the composed list -/
theorem pipeline_pulls (id loc : Nat) (t ty : Ty) (es : List Val) (dflt : Val) (f0 : Nat) (stages : List Stage)
    (hn : (es.length : Int) < 2 ^ 63) (hok : ∀ s ∈ stages, s.ok f0)
    (σ : St) (hc : σ.cells[loc]? = some (.int (BitVec.ofInt 64 (-1)))) :
    ∃ F σ', Pulls (stages.foldl (fun i s => s.apply i) (arrIter id loc t ty es dflt)) F σ
      (stages.foldl (fun l s => s.spec l) es) σ' := by
  have h0 : LL (arrIter id loc t ty es dflt) (f0 + 20) (es.drop 0) σ :=
    iter_LL id loc t ty es dflt f0 hn es.length 0 σ _ (by omega) hc (by decide)
  rw [List.drop_zero] at h0
  obtain ⟨F, hl⟩ := pipeline_LL f0 stages _ (f0 + 20) es σ (by omega) hok h0
  obtain ⟨σ', hp⟩ := hl.pulls
  exact ⟨_, σ', hp⟩

/-- a built-in reducer (`$+ $* $& $|`) over a pipeline is the fold of its operator over the composed list -/
theorem pipeline_reduce (id loc : Nat) (t ty : Ty) (es : List Val) (dflt : Val) (f0 : Nat) (stages : List Stage)
    (hn : (es.length : Int) < 2 ^ 63) (hok : ∀ s ∈ stages, s.ok f0)
    (σ : St) (hc : σ.cells[loc]? = some (.int (BitVec.ofInt 64 (-1))))
    (op : BinOp) (acc r : Val) (hf : foldOp op acc (stages.foldl (fun l s => s.spec l) es) = .ok r) :
    ∃ F σ', reduceGo F (stages.foldl (fun i s => s.apply i) (arrIter id loc t ty es dflt)) acc (.inl op) σ = (.ok r, σ') := by
  obtain ⟨F, σ', hp⟩ := pipeline_pulls id loc t ty es dflt f0 stages hn hok σ hc
  exact ⟨F, σ', reduceGo_builtin _ op F σ σ' _ acc r hp hf⟩

/-- `$ init g` over a pipeline, for a callback computing `h2`: the left fold of `h2` over the composed list -/
theorem pipeline_fold (id loc : Nat) (t ty : Ty) (es : List Val) (dflt : Val) (f0 : Nat) (stages : List Stage)
    (hn : (es.length : Int) < 2 ^ 63) (hok : ∀ s ∈ stages, s.ok f0)
    (σ : St) (hc : σ.cells[loc]? = some (.int (BitVec.ofInt 64 (-1))))
    (g : Val) (h2 : Val → Val → Val) (hg : ∀ k acc x σ, f0 ≤ k → callFn k g [acc, x] σ = (.ok (h2 acc x), σ)) (init : Val) :
    ∃ F σ', reduceGo F (stages.foldl (fun i s => s.apply i) (arrIter id loc t ty es dflt)) init (.inr g) σ =
      (.ok ((stages.foldl (fun l s => s.spec l) es).foldl h2 init), σ') := by
  obtain ⟨F, σ', hp⟩ := pipeline_pulls id loc t ty es dflt f0 stages hn hok σ hc
  -- more fuel for the consumer than the callbacks need
  have hp' : Pulls _ (F + f0 + (stages.foldl (fun l s => s.spec l) es).length + 1) σ _ σ' := Pulls.lift hp (by omega)
  exact ⟨_, σ', reduce_fn_spec _ g h2 f0 hg _ σ σ' _ init hp' (by omega)⟩

/-! ### the expression `e~ @ g $]` -/

theorem eval_map (f : Nat) (env : Env) (a b : Expr) : eval (f + 1) env (.bin .map a b) =
    (do let it ← eval f env a
        let g ← eval f env b
        match g.asType.returnType with
        | some r => do
          let id ← freshId
          pure (.fn id [] (.tup [.bool, r]) mapBody
            [("func", it), ("mapper", g), ("default", (ofType r).getD .unit)] none)
        | none => wrong "map with a non-function") := by
  first | (simp only [eval]; done) | (simp only [eval]; rfl)

/-- **`e~ @ g $]` evaluates to `map g e`** - the whole expression, through the creation code of `~` (fresh cursor cell)
    and of `@` (fresh closure), for every array `e` evaluates to (shorter than 2^63) and every name `gname` bound to a
    function value that computes `h` -/
theorem iter_map_collect_expr (f f0 : Nat) (env : Env) (e : Expr) (gname : String) (g : Val) (h : Val → Val) (r : Ty)
    (σ σ1 : St) (ty : Ty) (es : List Val)
    (he : eval f env e σ = (.ok (.arr ty es), σ1)) (hn : (es.length : Int) < 2 ^ 63)
    (hlook : env.lookup gname = some g) (hr : g.asType.returnType = some r) (hg : PureFn g h f0) :
    ∃ F σ', eval F env (.post .collect (.bin .map (.post .iter e) (.var gname))) σ = (.ok (Val.mkArray (es.map h)), σ') := by
  -- the state after creating the array iterator and the mapped closure
  let σ2 : St := { cells := σ1.cells.push (.int (BitVec.ofInt 64 (-1))), nextId := σ1.nextId + 1 }
  let σ3 : St := { σ2 with nextId := σ2.nextId + 1 }
  have hcell : σ3.cells[σ1.cells.size]? = some (.int (BitVec.ofInt 64 (-1))) := by simp [σ3, σ2]
  obtain ⟨σ', hcol⟩ := iter_map_collect σ1.nextId σ2.nextId σ1.cells.size ty ty r es ((ofType ty).getD .unit)
    ((ofType r).getD .unit) g h f0 hn hg σ3 hcell
  -- enough fuel for every part
  let K := f + f0 + 20 + 21 + (es.map h).length + 3
  have he' := eval_lift (K - 3) he (by omega)
  have hi : eval (K - 2) env (.post .iter e) σ = (.ok (arrIter σ1.nextId σ1.cells.size ty ty es ((ofType ty).getD .unit)), σ2) := by
    have e1 : K - 2 = (K - 3) + 1 := by omega
    rw [e1]; exact eval_iter (K - 3) env e σ σ1 ty es he'
  have hv : eval (K - 2) env (.var gname) σ2 = (.ok g, σ2) := by
    have e1 : K - 2 = (K - 3) + 1 := by omega
    rw [e1, eval_var, hlook]; rfl
  have hm : eval (K - 1) env (.bin .map (.post .iter e) (.var gname)) σ =
      (.ok (mapped σ2.nextId r (arrIter σ1.nextId σ1.cells.size ty ty es ((ofType ty).getD .unit)) g ((ofType r).getD .unit)), σ3) := by
    have e1 : K - 1 = (K - 2) + 1 := by omega
    rw [e1, eval_map]
    simp only [bind_def, hi, hv, hr, freshId, pure_def, mapped]
    rfl
  have hc' := lift_eq ((monoAt_le (f0 + 20 + 21 + (es.map h).length) (K - 1) (by omega)).collectGo _ []) hcol
    (by intro σ0 h0; cases h0)
  refine ⟨K, σ', ?_⟩
  have e1 : K = (K - 1) + 1 := by omega
  rw [e1, eval_collect]
  simp only [bind_def, hm, hc']
  rfl

theorem eval_filter (f : Nat) (env : Env) (a b : Expr) : eval (f + 1) env (.bin .filter a b) =
    (do let it ← eval f env a
        let g ← eval f env b
        match it.asType.returnType with
        | some r => do
          let id ← freshId
          pure (.fn id [] r filterBody [("func", it), ("predicate", g)] none)
        | none => wrong "filter on a non-function") := by
  first | (simp only [eval]; done) | (simp only [eval]; rfl)

/-- **`e~ ? p $]` evaluates to `filter p e`** - the whole expression -/
theorem iter_filter_collect_expr (f f0 : Nat) (env : Env) (e : Expr) (pname : String) (p : Val) (q : Val → Bool)
    (σ σ1 : St) (ty : Ty) (es : List Val)
    (he : eval f env e σ = (.ok (.arr ty es), σ1)) (hn : (es.length : Int) < 2 ^ 63)
    (hlook : env.lookup pname = some p) (hq : PurePred p q f0) :
    ∃ F σ', eval F env (.post .collect (.bin .filter (.post .iter e) (.var pname))) σ = (.ok (Val.mkArray (es.filter q)), σ') := by
  let σ2 : St := { cells := σ1.cells.push (.int (BitVec.ofInt 64 (-1))), nextId := σ1.nextId + 1 }
  let σ3 : St := { σ2 with nextId := σ2.nextId + 1 }
  have hcell : σ3.cells[σ1.cells.size]? = some (.int (BitVec.ofInt 64 (-1))) := by simp [σ3, σ2]
  obtain ⟨σ', hcol⟩ := iter_filter_collect σ1.nextId σ2.nextId σ1.cells.size ty ty (.tup [.bool, ty]) es ((ofType ty).getD .unit)
    p q f0 hn hq σ3 hcell
  let K := f + f0 + 20 + 27 + es.length + (es.filter q).length + 3
  have he' := eval_lift (K - 3) he (by omega)
  have hi : eval (K - 2) env (.post .iter e) σ = (.ok (arrIter σ1.nextId σ1.cells.size ty ty es ((ofType ty).getD .unit)), σ2) := by
    have e1 : K - 2 = (K - 3) + 1 := by omega
    rw [e1]; exact eval_iter (K - 3) env e σ σ1 ty es he'
  have hv : eval (K - 2) env (.var pname) σ2 = (.ok p, σ2) := by
    have e1 : K - 2 = (K - 3) + 1 := by omega
    rw [e1, eval_var, hlook]; rfl
  have hrt : (arrIter σ1.nextId σ1.cells.size ty ty es ((ofType ty).getD .unit)).asType.returnType = some (.tup [.bool, ty]) := by
    simp [arrIter, Val.asType, Ty.returnType, Ty.query]
  have hm : eval (K - 1) env (.bin .filter (.post .iter e) (.var pname)) σ =
      (.ok (filtered σ2.nextId (.tup [.bool, ty]) (arrIter σ1.nextId σ1.cells.size ty ty es ((ofType ty).getD .unit)) p), σ3) := by
    have e1 : K - 1 = (K - 2) + 1 := by omega
    rw [e1, eval_filter]
    simp only [bind_def, hi, hv, hrt, freshId, pure_def, filtered]
    rfl
  have hc' := lift_eq ((monoAt_le (f0 + 20 + 27 + es.length + (es.filter q).length) (K - 1) (by omega)).collectGo _ []) hcol
    (by intro σ0 h0; cases h0)
  refine ⟨K, σ', ?_⟩
  have e1 : K = (K - 1) + 1 := by omega
  rw [e1, eval_collect]
  simp only [bind_def, hm, hc']
  rfl

/-- `a~ <stages> \ p`: the ordered split of the composed list -/
theorem pipeline_partition (id loc : Nat) (t ty : Ty) (es : List Val) (dflt : Val) (f0 : Nat) (stages : List Stage)
    (hn : (es.length : Int) < 2 ^ 63) (hok : ∀ s ∈ stages, s.ok f0)
    (σ : St) (hc : σ.cells[loc]? = some (.int (BitVec.ofInt 64 (-1))))
    (p : Val) (q : Val → Bool) (hq : PurePred p q f0) :
    ∃ F σ', partitionGo F (stages.foldl (fun i s => s.apply i) (arrIter id loc t ty es dflt)) p [] [] σ =
      (.ok ((stages.foldl (fun l s => s.spec l) es).filter q,
            (stages.foldl (fun l s => s.spec l) es).filter (fun x => !q x)), σ') := by
  obtain ⟨F, σ', hp⟩ := pipeline_pulls id loc t ty es dflt f0 stages hn hok σ hc
  have hp' : Pulls _ (F + f0 + (stages.foldl (fun l s => s.spec l) es).length + 1) σ _ σ' := Pulls.lift hp (by omega)
  exact ⟨_, σ', by simpa using partition_spec _ p q f0 hq _ σ σ' _ [] [] hp' (by omega)⟩

/-- `$&&` over a list-like iterator of bools is `all`, `$||` is `any` (the iterator is pulled only up to the first
    deciding element; what is left of it is not touched) -/
theorem LL.all {it : Val} {f : Nat} : ∀ {bs : List Bool} {σ : St}, LL it f (bs.map Val.bool) σ →
    ∃ σ', boolGo (f + 2 + bs.length) it true σ = (.ok (.bool (bs.all id)), σ')
  | [], σ, ⟨rest, σ', h⟩ => ⟨σ', by
      have hp := pull_of_call_none h
      simp only [List.length_nil, Nat.add_zero, boolGo, bind_def, hp]; rfl⟩
  | b :: bs, σ, ⟨σ1, h, t⟩ => by
    have hp := pull_lift (f + 2 + bs.length) (pull_of_call h) (by omega)
    have e : f + 2 + (b :: bs).length = (f + 2 + bs.length) + 1 := by simp; omega
    cases b with
    | false => exact ⟨σ1, by rw [e]; simp only [boolGo, bind_def, hp]; rfl⟩
    | true =>
      obtain ⟨σ', ih⟩ := LL.all t
      exact ⟨σ', by rw [e]; simp only [boolGo, bind_def, hp]; simpa using ih⟩

theorem LL.any {it : Val} {f : Nat} : ∀ {bs : List Bool} {σ : St}, LL it f (bs.map Val.bool) σ →
    ∃ σ', boolGo (f + 2 + bs.length) it false σ = (.ok (.bool (bs.any id)), σ')
  | [], σ, ⟨rest, σ', h⟩ => ⟨σ', by
      have hp := pull_of_call_none h
      simp only [List.length_nil, Nat.add_zero, boolGo, bind_def, hp]; rfl⟩
  | b :: bs, σ, ⟨σ1, h, t⟩ => by
    have hp := pull_lift (f + 2 + bs.length) (pull_of_call h) (by omega)
    have e : f + 2 + (b :: bs).length = (f + 2 + bs.length) + 1 := by simp; omega
    cases b with
    | true => exact ⟨σ1, by rw [e]; simp only [boolGo, bind_def, hp]; rfl⟩
    | false =>
      obtain ⟨σ', ih⟩ := LL.any t
      exact ⟨σ', by rw [e]; simp only [boolGo, bind_def, hp]; simpa using ih⟩

theorem eval_tfilter (f : Nat) (env : Env) (e : Expr) (t : Ty) : eval (f + 1) env (.tfilter e t) =
    (do let it ← eval f env e
        let id ← freshId
        pure (.fn id [] (.tup [.bool, t]) (typeFilterBody t) [("iterator", it), ("default", (ofType t).getD .unit)] none)) := by
  first | (simp only [eval]; done) | (simp only [eval]; rfl)

/-- **`e~ ? T $]` evaluates to the elements of `e` whose run-time type is below `T`** - the whole expression -/
theorem iter_tfilter_collect_expr (f : Nat) (env : Env) (e : Expr) (t : Ty) (σ σ1 : St) (ty : Ty) (es : List Val)
    (he : eval f env e σ = (.ok (.arr ty es), σ1)) (hn : (es.length : Int) < 2 ^ 63) :
    ∃ F σ', eval F env (.post .collect (.tfilter (.post .iter e) t)) σ =
      (.ok (Val.mkArray (es.filter (fun x => x.asType.sub t))), σ') := by
  let σ2 : St := { cells := σ1.cells.push (.int (BitVec.ofInt 64 (-1))), nextId := σ1.nextId + 1 }
  let σ3 : St := { σ2 with nextId := σ2.nextId + 1 }
  have hcell : σ3.cells[σ1.cells.size]? = some (.int (BitVec.ofInt 64 (-1))) := by simp [σ3, σ2]
  obtain ⟨F0, σ', hcol⟩ := pipeline_collect σ1.nextId σ1.cells.size ty ty es ((ofType ty).getD .unit) 0
    [Stage.tfilter σ2.nextId t ((ofType t).getD .unit)] hn (by intro s hs; simp at hs; subst hs; trivial) σ3 hcell
  simp only [List.foldl_cons, List.foldl_nil, Stage.apply, Stage.spec] at hcol
  let K := f + F0 + 3
  have he' := eval_lift (K - 3) he (by omega)
  have hi : eval (K - 2) env (.post .iter e) σ = (.ok (arrIter σ1.nextId σ1.cells.size ty ty es ((ofType ty).getD .unit)), σ2) := by
    have e1 : K - 2 = (K - 3) + 1 := by omega
    rw [e1]; exact eval_iter (K - 3) env e σ σ1 ty es he'
  have hm : eval (K - 1) env (.tfilter (.post .iter e) t) σ =
      (.ok (typeFiltered σ2.nextId t (arrIter σ1.nextId σ1.cells.size ty ty es ((ofType ty).getD .unit)) ((ofType t).getD .unit)), σ3) := by
    have e1 : K - 1 = (K - 2) + 1 := by omega
    rw [e1, eval_tfilter]
    simp only [bind_def, hi, freshId, pure_def, typeFiltered]
    rfl
  have hc' := lift_eq ((monoAt_le F0 (K - 1) (by omega)).collectGo _ []) hcol (by intro σ0 h0; cases h0)
  refine ⟨K, σ', ?_⟩
  have e1 : K = (K - 1) + 1 := by omega
  rw [e1, eval_collect]
  simp only [bind_def, hm, hc']
  rfl

/-! non-vacuity: the identity closure is a `PureFn`, so `[.map …]` is an admissible pipeline -/
theorem idFn_pure : PureFn idFn (fun v => v) 5 := by
  intro k x σ hk
  obtain ⟨k', rfl⟩ : ∃ k', k = k' + 5 := ⟨k - 5, by omega⟩
  simp [callFn, idFn, calleeEnv, evalSeq, evalStmt, eval_ret, eval_var, Env.lookup, frameLookup, tryCatchS, bind_def, pure_def, throwS]

example : ∀ s ∈ [Stage.map 7 .int idFn (.int 0#64) (fun v => v), Stage.tfilter 8 .int (.int 0#64)], s.ok 5 := by
  intro s hs
  simp only [List.mem_cons, List.mem_nil_iff, or_false] at hs
  rcases hs with rfl | rfl
  · exact idFn_pure
  · trivial

end Ssl.C11
