"""C14 — precedence and associativity.  Proof: SslModel.Thm.C14 (decide over the regenerated Pratt
table, grammar alternatives, doc table).  Correspondence: `pratt` stream — the real PRATT_PARSER run
with tree-building closures vs. the Lean model of pest's loop vs. an independent precedence-climbing
parser built from docs/operators.md (the direct oracle); plus values of unparenthesised int
expressions vs. the doc-prescribed grouping."""
import itertools
import random

import translate
from props import c08
from vlib import driver_run, esc_field, harness_run, sexp_parse, sexp_str

THM_MODULES = ["SslModel.Thm.C14", "SslModel.Thm.C14Gen"]
TRANSLATE_PARTS = ["pratt", "doc", "binop", "grammar"]

POSTFIX_TEXT = {"type_filter": "? int", "at": "[0]", "slicing": "[0:1]", "function_call": "()",
                "tuple_access": ".0", "field_access": ".x", "sum": "$+", "product": "$*", "all": "$&&",
                "reduce_any": "$||", "bitand_reduce": "$&", "bitor_reduce": "$|", "collect": "$]", "iter": "~"}


def tables():
    _, rules = translate.parse_grammar()
    infix = translate.alternatives(rules, "bin_op")
    prefix = translate.alternatives(rules, "prefix_op")
    postfix = translate.alternatives(rules, "postfix_op")
    _, doc = translate.doc_levels()
    level = {}
    for lvl, ops, assoc in doc:
        for o in ops:
            level[o] = (lvl, assoc)
    return infix, prefix, postfix, level


def render(seq, infix_lit, prefix_lit):
    """token sequence (kind, rule) -> source text"""
    out = []
    n = 0
    for kind, r in seq:
        if kind == "prim":
            n += 1
            out.append("v%s" % "abcdefghijkl"[n - 1])
        elif kind == "infix":
            out.append("$ (0)" if r == "reduce" else infix_lit[r])
        elif kind == "prefix":
            out.append(prefix_lit[r])
        else:
            out.append(POSTFIX_TEXT[r])
    return " ".join(out)


def doc_parse(seq, level):
    """independent reference: precedence climbing driven by the documentation's table.
    Tighter level = smaller number; binding power bp = 100 - level."""
    pos = [0]
    cnt = [0]

    def bp(r):
        return 100 - level[r][0]

    def expr(minbp):
        kind, r = seq[pos[0]]
        pos[0] += 1
        if kind == "prefix":
            rhs = expr(bp(r))
            lhs = "(%s %s)" % (r, rhs)
        elif kind == "prim":
            cnt[0] += 1
            lhs = "%s%d" % (r, cnt[0])
        else:
            raise ValueError("operator where an operand is expected")
        while pos[0] < len(seq):
            kind, r = seq[pos[0]]
            if kind == "postfix":
                if bp(r) < minbp:
                    break
                pos[0] += 1
                lhs = "(%s %s)" % (lhs, r)
            elif kind == "infix":
                b = bp(r)
                if b < minbp:
                    break
                pos[0] += 1
                right = level[r][1] == "right"
                rhs = expr(b if right else b + 1)
                lhs = "(%s %s %s)" % (lhs, r, rhs)
            else:
                raise ValueError("operand where an operator is expected")
        return lhs
    t = expr(0)
    assert pos[0] == len(seq)
    return t


INT_OPS = ["add", "subtract", "multiply", "divide", "modulo", "pow", "lshift", "rshift",
           "bitwise_and", "bitwise_or", "xor"]


def run(res, tier, seed, broken_model):
    rnd = random.Random(seed)
    try:
        infix, prefix, postfix, level = tables()
    except translate.TranslateError as e:
        res.broken.append("tie:c14 tables: %s" % e)
        return
    infix_lit = dict(infix)
    prefix_lit = dict(prefix)
    I = [r for r, _ in infix]
    P = [r for r, _ in prefix]
    Q = [r for r, _ in postfix]
    missing = [r for r in I + P + Q if r not in level]
    if missing:
        res.broken.append("tie:operators missing from docs/operators.md table: %s" % missing)
        for r in missing:
            level[r] = (99, "left")
    prim = ("prim", "ident")
    seqs = []
    for o1 in I:
        for o2 in I:
            seqs.append([prim, ("infix", o1), prim, ("infix", o2), prim])
    for p in P:
        for o in I:
            seqs.append([("prefix", p), prim, ("infix", o), prim])
        for q in Q:
            seqs.append([("prefix", p), prim, ("postfix", q)])
    for o in I:
        for q in Q:
            seqs.append([prim, ("infix", o), prim, ("postfix", q)])
    npairs = len(seqs)
    if tier == "thorough":
        for o1, o2, o3 in itertools.product(I, I, I):
            seqs.append([prim, ("infix", o1), prim, ("infix", o2), prim, ("infix", o3), prim])
        nrand = 40000
    else:
        # one representative per documented level: all 14^3... levels with infix members
        reps = {}
        for r in I:
            reps.setdefault(level[r], r)
        for o1, o2, o3 in itertools.product(list(reps.values()), repeat=3):
            seqs.append([prim, ("infix", o1), prim, ("infix", o2), prim, ("infix", o3), prim])
        nrand = 3000
    for _ in range(nrand):
        n = rnd.randint(2, 5)
        s = []
        for k in range(n):
            if k > 0:
                s.append(("infix", rnd.choice(I)))
            prev_reduce = bool(s) and s[-1] == ("infix", "reduce")
            if rnd.random() < 0.4 and not prev_reduce:   # the grammar allows at most one prefix operator
                s.append(("prefix", rnd.choice(P)))
            s.append(prim)
            for _ in range(rnd.choice([0, 0, 1, 1, 2])):
                s.append(("postfix", rnd.choice(Q)))
        seqs.append(s)
    texts = [render(s, infix_lit, prefix_lit) for s in seqs]
    impl = harness_run(["pratt\t" + esc_field(t) for t in texts])
    # the model and the documentation oracle run on the token sequence the real grammar produced
    kind_of = {}
    for r in I:
        kind_of[r] = "infix"
    for r in P:
        kind_of[r] = "prefix"
    for r in Q:
        kind_of[r] = "postfix"
    actual = []
    for il in impl:
        if il.startswith("["):
            rules = il[1:il.index("]")].split()
            actual.append([(kind_of.get(r, "prim"), r) for r in rules])
        else:
            actual.append(None)
    model_req = ["pratt " + " ".join(r for _, r in (a if a is not None else s)) for s, a in zip(seqs, actual)]
    model = driver_run(model_req) if not broken_model else ["(no-model)"] * len(seqs)
    res.streams["pratt"] = dict(sequences=len(seqs), pairs_prefix_postfix_exhaustive=npairs)
    res.rule = ("all 35^2 ordered pairs of binary operators, each prefix x each binary / postfix / prefix operator, "
                "each binary x each postfix form (exhaustive), triples (quick: one representative per documented "
                "level, thorough: all 35^3) and seeded random operator strings with up to 5 operands; non-trivial = "
                "distinct token sequence the real parser accepted completely")
    for idx, (s, text, il, ml, act) in enumerate(zip(seqs, texts, impl, model, actual)):
        res.evaluations += 1
        if act is None:
            res.count("pratt:unparsed")
            if idx < npairs:
                res.violation("`%s` (operators %s) is not parsed as an expression: %s" %
                              (text, [r for k, r in s if k != "prim"], il),
                              dict(expr=text, impl=il), dict(oracle="tokenisation", ops=" ".join(r for k, r in s if k != "prim")))
            continue
        tree = il[il.index("]") + 2:]
        if [r for _, r in act] != [r for _, r in s]:
            # the text was tokenised differently from what the generator meant
            if idx < npairs:
                res.violation("`%s` is tokenised as %s, not as the operators %s (an operator was split or merged)" %
                              (text, [r for _, r in act], [r for _, r in s]),
                              dict(expr=text, impl=il), dict(oracle="tokenisation", ops=" ".join(r for k, r in s if k != "prim")))
                continue
            res.count("pratt:retokenised(`? !` reads as type filter by never)")
        try:
            want = doc_parse(act, level)
        except (ValueError, IndexError, AssertionError):
            res.count("pratt:not-an-operator-string")
            continue
        res.nontrivial.add(text)
        res.count("pratt:len%d" % len(act))
        if len(res.samples) < 5 and res.evaluations % 997 == 5:
            res.samples.append(dict(text=text, impl=il, model=ml, doc=want))
        if tree != want:
            res.violation("`%s` is grouped %s by the parser, docs/operators.md prescribes %s" % (text, tree, want),
                          dict(expr=text, impl=il, doc=want, model=ml),
                          dict(oracle="doc-grouping", ops=" ".join(r for k, r in act if k != "prim")[:60]))
        elif ml != tree and not broken_model:
            res.disagreements_checked += 1
            res.broken.append("correspondence:pratt `%s`: impl=%s model=%s" % (text, tree, ml))
        else:
            res.traces_validated += 1
    # values: a op1 b op2 c with int operators, operands chosen so that the two groupings differ
    vals = [2, 3, 5, 7, -3, 1, 4, 9, -2, 12]
    progs, wants, descr = [], [], []
    for o1 in INT_OPS:
        for o2 in INT_OPS:
            chosen = None
            cand = [(a, b, c) for a in vals for b in vals for c in vals]
            rnd.shuffle(cand)
            for a, b, c in cand:
                def ev(op, x, y):
                    r = c08.spec(op, x, y)
                    return int(r[3:-1]) if r.startswith("(i ") else None
                l1 = ev(o1, a, b)
                left = ev(o2, l1, c) if l1 is not None else None
                r1 = ev(o2, b, c)
                right = ev(o1, a, r1) if r1 is not None else None
                if left is not None and right is not None and left != right:
                    chosen = (a, b, c, left, right)
                    break
            if chosen is None:
                continue
            a, b, c, left, right = chosen
            l1, l2 = level.get(o1, (99, "left")), level.get(o2, (99, "left"))
            doc_left = l1[0] < l2[0] or (l1[0] == l2[0] and l1[1] == "left")
            want = left if doc_left else right
            src = "%s %s %s %s %s" % (c08.lit(a), infix_lit[o1], c08.lit(b), infix_lit[o2], c08.lit(c))
            for form, p in (("literal", src),
                            ("runtime", "f := (a: int, b: int, c: int) -> int { return a %s b %s c }; f(%s, %s, %s)" %
                             (infix_lit[o1], infix_lit[o2], c08.lit(a), c08.lit(b), c08.lit(c)))):
                progs.append(p)
                wants.append("(i %d)" % want)
                descr.append((o1, o2, form))
    hand = [
        ("x := mut 1; y := mut 2; x = y = 7; (*x, *y)", "(tup (i 7) (i 7))"),
        ("x := mut 1; y := mut 2; x += y *= 3; (*x, *y)", "(tup (i 7) (i 6))"),
        ("1 + 2 == 3 && 2 < 3 || false", "true"),
        ("false || true && false", "false"),
        ("true || true && false", "true"),
        ("1 | 2 ^ 3 & 4 == 3", "true"),
        ("5 & 6 == 4", "true"),
        ("-2 ** 2", "(i 4)"),
        ("x := mut 5; -(*x) + 1", "(i -4)"),
        ("!0 + 1", "(i 0)"),
        ("a := [1, 2, 3]; -a[1] * 2", "(i -4)"),
        ("f := () -> int { return 3 }; -f() + 1", "(i -2)"),
        ("t := (1, 2); -t.1 + t.0", "(i -1)"),
        ("s := struct{x := 4}; -s.x * 2", "(i -8)"),
        ("[1, 2, 3]~ $+ * 2", "(i 12)"),
        ("2 * [1, 2, 3]~ $+", "(i 12)"),
        ("[1, 2]~ $] + [3]", "(arr int (i 1) (i 2) (i 3))"),
        ("([1, 2, 3]~ @ (x: int) -> int { return x * 2 } $+) + 1", "(i 13)"),
        ("[1, 2, 3]~ ? (x: int) -> bool { return x > 1 } $* ** 2", "(i 36)"),
        ("1 << 2 + 1", "(i 8)"), ("7 & 3 << 1", "(i 6)"), ("1 + 2 * 3 ** 2", "(i 19)"),
        ("10 - 4 - 3", "(i 3)"), ("64 / 4 / 2", "(i 8)"), ("2 ** 3 ** 2", "(i 64)"),
        ("1 < 2 == true", "true"), ("5 % 3 * 2", "(i 4)"), ("1 <= 2 != false", "true"),
        ("x := mut 3; x <<= 1 + 1; *x", "(i 12)"), ("x := mut 8; x >>= 1; *x", "(i 4)"),
        ("x := mut 6; x **= 2; *x", "(i 36)"), ("x := mut 6; x &= 3 | 4; *x", "(i 6)"),
    ]
    for p, w in hand:
        progs.append(p)
        wants.append(w)
        descr.append(("hand", p, "hand"))
    out = harness_run(["prog\t\t" + esc_field(p) for p in progs])
    res.streams["values"] = dict(programs=len(progs))
    for p, w, d, o in zip(progs, wants, descr, out):
        res.evaluations += 1
        got = c08.outcome_of(o, "literal")
        if got.startswith("(") or got in ("true", "false"):
            res.nontrivial.add(p)
        res.count("values:" + d[2])
        if got != w:
            res.violation("`%s` evaluates to %s, the documented grouping gives %s" % (p, got, w),
                          dict(program=p, impl=o, expected=w),
                          dict(oracle="doc-value", ops="%s %s" % (d[0], d[1] if d[0] != "hand" else "")))
        else:
            res.traces_validated += 1
