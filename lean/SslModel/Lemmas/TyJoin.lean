import SslModel.Lemmas.TyTrans
/-!
  `==` implies `matches`; `concat` (the join) is the least upper bound of its operands and preserves
  well-formedness; `conjoin` (the meet used for parameters of a union of functions) is a lower bound
  of its operands and preserves well-formedness.  All for well-formed types (C10).
-/
set_option linter.unusedSimpArgs false
set_option linter.unusedVariables false
namespace Ssl.Ty

/-! ### equal types match each other -/

def SubOfEqvBelow (n : Nat) : Prop :=
  ∀ a b : Ty, size a + size b ≤ n → wf a = true → wf b = true → eqv a b = true → sub a b = true

theorem matchesParams_of_eqvL (n : Nat) (hp : SubOfEqvBelow n) (as : List Ty) : ∀ (bs : List Ty),
    sizeL as + sizeL bs ≤ n → wfL as = true → wfL bs = true → eqvL as bs = true → matchesParams as bs = true := by
  induction as with
  | nil =>
    intro bs _ _ _ h
    cases bs with
    | nil => exact matchesParams_nil
    | cons b bs => rw [eqvL_nil_cons] at h; simp at h
  | cons a as ih =>
    intro bs hs wa wb h
    cases bs with
    | nil => rw [eqvL_cons_nil] at h; simp at h
    | cons b bs =>
      rw [eqvL_cons, Bool.and_eq_true] at h
      rw [matchesParams_cons, Bool.and_eq_true]
      simp only [sizeL] at hs
      simp only [wfL, Bool.and_eq_true] at wa wb
      exact ⟨hp a b (by omega) wa.1 wb.1 h.1, ih bs (by omega) wa.2 wb.2 h.2⟩

theorem matchesL_of_eqvL (n : Nat) (hp : SubOfEqvBelow n) (as : List Ty) : ∀ (bs : List Ty),
    sizeL as + sizeL bs ≤ n → wfL as = true → wfL bs = true → eqvL as bs = true → matchesL as bs = true := by
  induction as with
  | nil =>
    intro bs _ _ _ h
    cases bs with
    | nil => exact matchesL_nil
    | cons b bs => rw [eqvL_nil_cons] at h; simp at h
  | cons a as ih =>
    intro bs hs wa wb h
    cases bs with
    | nil => rw [eqvL_cons_nil] at h; simp at h
    | cons b bs =>
      rw [eqvL_cons, Bool.and_eq_true] at h
      rw [matchesL_cons, Bool.and_eq_true]
      simp only [sizeL] at hs
      simp only [wfL, Bool.and_eq_true] at wa wb
      exact ⟨hp a b (by omega) wa.1 wb.1 h.1, ih bs (by omega) wa.2 wb.2 h.2⟩

/-- `a == b` implies `a.matches(b)` (well-formed types) -/
theorem sub_of_eqv_aux : ∀ n : Nat, SubOfEqvBelow n := by
  intro n
  induction n with
  | zero => intro a b h; have := size_pos a; omega
  | succ n ih =>
    intro a b hs wa wb hab
    have h1 := eqv_head hab
    cases a <;> cases b <;> simp only [head] at h1 <;> (try omega)
    case bool.bool => exact sub_base_eqv _ (by simp)
    case int.int => exact sub_base_eqv _ (by simp)
    case float.float => exact sub_base_eqv _ (by simp)
    case str.str => exact sub_base_eqv _ (by simp)
    case void.void => exact sub_base_eqv _ (by simp)
    case any.any => exact sub_any_right_base _ rfl
    case never.never => exact sub_never _
    case fn.fn ps r ps2 r2 =>
      rw [eqv_fn, Bool.and_eq_true] at hab
      rw [sub_fn, Bool.and_eq_true]
      simp only [size] at hs
      simp only [wf, Bool.and_eq_true] at wa wb
      have hsym := eqvL_symm_sized (sizeL ps + sizeL ps2) ps ps2 (Nat.le_refl _) wa.1 wb.1
        (fun x y _ wx wy h => eqv_symm x y wx wy h) hab.1
      exact ⟨matchesParams_of_eqvL n ih ps2 ps (by omega) wb.1 wa.1 hsym, ih r r2 (by omega) wa.2 wb.2 hab.2⟩
    case arr.arr x y =>
      rw [eqv_arr] at hab; rw [sub_arr]
      simp only [size] at hs; simp only [wf] at wa wb
      exact ih x y (by omega) wa wb hab
    case cell.cell x y =>
      rw [eqv_cell] at hab; rw [sub_cell]; exact hab
    case tup.tup xs ys =>
      rw [eqv_tup] at hab; rw [sub_tup]
      simp only [size] at hs; simp only [wf] at wa wb
      exact matchesL_of_eqvL n ih xs ys (by omega) wa wb hab
    case multi.multi xs ys =>
      rw [eqv_multi, Bool.and_eq_true] at hab
      simp only [size] at hs
      rw [sub_multi_left, allMatch_eq, List.all_eq_true]
      intro x hx
      have hx' := isMulti_false_of_member wa hx
      rw [sub_multi_right x ys hx'.1 hx'.2.1, anyMatch_eq, List.any_eq_true]
      have := (subL_iff xs ys).mp hab.2 x hx
      obtain ⟨y, hy, hxy⟩ := (memL_iff x ys).mp this
      have hy' := isMulti_false_of_member wb hy
      exact ⟨y, hy, ih x y (by have := size_lt_sizeL hx; have := size_lt_sizeL hy; omega) hx'.2.2.2 hy'.2.2.2 hxy⟩
    case struct.struct fa fb =>
      rw [eqv_struct, Bool.and_eq_true] at hab
      simp only [size] at hs
      simp only [wf, Bool.and_eq_true] at wa wb
      have hlen : fa.length = fb.length := by simpa using hab.1
      rw [sub_struct, structMatches_iff]
      have hsub := (subF_iff fa fb).mp hab.2
      have hsubk : ∀ p ∈ fa, p.1 ∈ fb.map (·.1) := by
        intro p hp
        obtain ⟨t', hl, _⟩ := (fieldEq_iff p.1 p.2 fb).mp (hsub p hp)
        exact List.mem_map.mpr ⟨(p.1, t'), lookupF_mem hl, rfl⟩
      intro q hq
      have := keys_pigeonhole fa fb wa.2 hlen hsubk q hq
      obtain ⟨p, hp, hpk⟩ := List.mem_map.mp this
      obtain ⟨t', hl, he⟩ := (fieldEq_iff p.1 p.2 fb).mp (hsub p hp)
      have hq' : (p.1, q.2) ∈ fb := by rw [hpk]; exact hq
      have ht' : t' = q.2 := by
        have := lookupF_of_mem wb.2 hq'
        rw [hl] at this; cases this; rfl
      subst ht'
      rw [fieldMatches_iff]
      refine ⟨p.2, ?_, ?_⟩
      · rw [← hpk]; exact lookupF_of_mem wa.2 hp
      · exact ih p.2 q.2 (by have := size_lt_sizeF (k := p.1) (x := p.2) (fs := fa) hp
                             have := size_lt_sizeF (k := q.1) (x := q.2) (fs := fb) hq; omega)
          (wfF_mem wa.1 hp) (wfF_mem wb.1 hq) he

/-- **equal types match each other** -/
theorem sub_of_eqv (a b : Ty) (wa : wf a = true) (wb : wf b = true) (h : eqv a b = true) : sub a b = true :=
  sub_of_eqv_aux _ a b (Nat.le_refl _) wa wb h

/-- `matches` respects `==` on both sides -/
theorem sub_congr_left (a a' b : Ty) (wa : wf a = true) (wa' : wf a' = true) (wb : wf b = true)
    (he : eqv a a' = true) (h : sub a b = true) : sub a' b = true :=
  sub_trans a' a b wa' wa wb (sub_of_eqv a' a wa' wa (eqv_symm a a' wa wa' he)) h

theorem sub_congr_right (a b b' : Ty) (wa : wf a = true) (wb : wf b = true) (wb' : wf b' = true)
    (he : eqv b b' = true) (h : sub a b = true) : sub a b' = true :=
  sub_trans a b b' wa wb wb' h (sub_of_eqv b b' wb wb' he)


/-! ### `concat` (the join the checker uses for branches, elements, results) is an upper bound -/

theorem mem_insertM_left {x t : Ty} {ms : List Ty} (h : x ∈ ms) : x ∈ insertM t ms := by
  unfold insertM; split <;> simp [h]

theorem insertM_covers (t : Ty) (ms : List Ty) (ht : eqv t t = true) : ∃ y ∈ insertM t ms, eqv t y = true := by
  unfold insertM
  by_cases h : memL t ms = true
  · obtain ⟨y, hy, hty⟩ := (memL_iff t ms).mp h
    simp only [h, if_true]; exact ⟨y, hy, hty⟩
  · simp only [h, Bool.false_eq_true, if_false]; exact ⟨t, by simp, ht⟩

theorem extendM_left : ∀ (ns ms : List Ty) {x : Ty}, x ∈ ms → x ∈ extendM ms ns := by
  intro ns
  induction ns with
  | nil => intro ms x h; simpa [extendM] using h
  | cons n ns ih =>
    intro ms x h
    simp only [extendM, List.foldl_cons]
    exact ih (insertM n ms) (mem_insertM_left h)

theorem extendM_covers : ∀ (ns ms : List Ty), (∀ t ∈ ns, eqv t t = true) →
    ∀ t ∈ ns, ∃ y ∈ extendM ms ns, eqv t y = true := by
  intro ns
  induction ns with
  | nil => intro ms _ t ht; cases ht
  | cons n ns ih =>
    intro ms hr t ht
    simp only [extendM, List.foldl_cons]
    rcases List.mem_cons.mp ht with rfl | ht
    · obtain ⟨y, hy, hty⟩ := insertM_covers t ms (hr t (by simp))
      exact ⟨y, extendM_left ns (insertM t ms) hy, hty⟩
    · exact ih (insertM n ms) (fun x hx => hr x (by simp [hx])) t ht

/-- a non-union member lies below a union that contains an equal member -/
theorem sub_multi_of_eqv_mem (x : Ty) (L : List Ty) (wx : wf x = true) (hx1 : isMulti x = false) (hx2 : isNever x = false)
    (y : Ty) (hy : y ∈ L) (wy : wf y = true) (he : eqv x y = true) : sub x (.multi L) = true := by
  rw [sub_multi_right x L hx1 hx2, anyMatch_eq, List.any_eq_true]
  exact ⟨y, hy, sub_of_eqv x y wx wy he⟩

theorem mem_insertM {z t : Ty} {ms : List Ty} (h : z ∈ insertM t ms) : z ∈ ms ∨ z = t := by
  unfold insertM at h
  split at h
  · exact Or.inl h
  · rcases List.mem_append.mp h with h | h
    · exact Or.inl h
    · simp at h; exact Or.inr h

theorem mem_extendM : ∀ (ns ms : List Ty) {z : Ty}, z ∈ extendM ms ns → z ∈ ms ∨ z ∈ ns := by
  intro ns
  induction ns with
  | nil => intro ms z h; left; simpa [extendM] using h
  | cons n ns ih =>
    intro ms z h
    simp only [extendM, List.foldl_cons] at h
    rcases ih (insertM n ms) h with h | h
    · rcases mem_insertM h with h | h
      · exact Or.inl h
      · right; simp [h]
    · right; simp [h]

def PlainT (t : Ty) : Prop := isMulti t = false ∧ isNever t = false ∧ t ≠ .any

theorem concat_mm (as bs : List Ty) (he : eqv (.multi as) (.multi bs) = false) :
    concat (.multi as) (.multi bs) = .multi (extendM as bs) := by simp [concat, he]

theorem concat_mp (as : List Ty) (t : Ty) (ht : PlainT t) : concat (.multi as) t = .multi (insertM t as) := by
  obtain ⟨t1, t2, t3⟩ := ht
  have hne : eqv (.multi as) t = false := by
    cases t <;> simp [isMulti] at t1 <;> (rw [eqv] <;> simp_all)
  cases t <;> simp [isMulti, isNever] at t1 t2 t3 <;> simp [concat, hne]

theorem concat_pm (t : Ty) (bs : List Ty) (ht : PlainT t) : concat t (.multi bs) = .multi (insertM t bs) := by
  obtain ⟨t1, t2, t3⟩ := ht
  have hne : eqv t (.multi bs) = false := by
    cases t <;> simp [isMulti] at t1 <;> (rw [eqv] <;> simp_all)
  cases t <;> simp [isMulti, isNever] at t1 t2 t3 <;> simp [concat, hne]

theorem concat_pp (a b : Ty) (ha : PlainT a) (hb : PlainT b) (hne : eqv a b = false) : concat a b = .multi [a, b] := by
  obtain ⟨a1, a2, a3⟩ := ha
  obtain ⟨b1, b2, b3⟩ := hb
  cases a <;> simp [isMulti, isNever] at a1 a2 a3 <;> cases b <;> simp [isMulti, isNever] at b1 b2 b3 <;>
    simp [concat, hne]

theorem plain_of (t : Ty) (h1 : t ≠ .never) (h2 : t ≠ .any) (h3 : isMulti t = false) : PlainT t := by
  refine ⟨h3, ?_, h2⟩
  cases t <;> simp_all [isNever]

theorem concat_upper (a b : Ty) (wa : wf a = true) (wb : wf b = true) :
    sub a (concat a b) = true ∧ sub b (concat a b) = true := by
  by_cases han : a = .never
  · subst han
    have : concat .never b = b := by cases b <;> simp [concat]
    rw [this]; exact ⟨sub_never _, sub_refl b wb⟩
  by_cases hbn : b = .never
  · subst hbn
    have : concat a .never = a := by cases a <;> simp_all [concat]
    rw [this]; exact ⟨sub_refl a wa, sub_never _⟩
  by_cases haa : a = .any
  · subst haa
    have : concat .any b = .any := by cases b <;> simp_all [concat]
    rw [this]; exact ⟨sub_refl _ wa, any_greatest_aux _ b (Nat.le_refl _)⟩
  by_cases hba : b = .any
  · subst hba
    have : concat a .any = .any := by cases a <;> simp_all [concat]
    rw [this]; exact ⟨any_greatest_aux _ a (Nat.le_refl _), sub_refl _ wb⟩
  by_cases he : eqv a b = true
  · have : concat a b = a := by cases a <;> cases b <;> simp_all [concat]
    rw [this]
    exact ⟨sub_refl a wa, sub_of_eqv b a wb wa (eqv_symm a b wa wb he)⟩
  have he' : eqv a b = false := by simpa using he
  have plainMem : ∀ (ms : List Ty), wf (.multi ms) = true → ∀ x ∈ ms, wf x = true ∧ isMulti x = false ∧ isNever x = false :=
    fun ms hw x hx => by have := isMulti_false_of_member hw hx; exact ⟨this.2.2.2, this.1, this.2.1⟩
  -- every member of one of the operands lies below the union `L` if it has an equal member there
  have below : ∀ (L : List Ty) (x : Ty), wf x = true → isMulti x = false → isNever x = false →
      (∃ y ∈ L, wf y = true ∧ eqv x y = true) → sub x (.multi L) = true := by
    intro L x wx x1 x2 ⟨y, hy, wy, hxy⟩
    exact sub_multi_of_eqv_mem x L wx x1 x2 y hy wy hxy
  by_cases hma : isMulti a = true
  · cases a <;> simp [isMulti] at hma
    rename_i as
    by_cases hmb : isMulti b = true
    · cases b <;> simp [isMulti] at hmb
      rename_i bs
      rw [concat_mm as bs he']
      have wz : ∀ z ∈ extendM as bs, wf z = true := by
        intro z hz
        rcases mem_extendM bs as hz with h | h
        · exact (plainMem as wa z h).1
        · exact (plainMem bs wb z h).1
      constructor
      · rw [sub_multi_left, allMatch_eq, List.all_eq_true]
        intro x hx
        obtain ⟨wx, x1, x2⟩ := plainMem as wa x hx
        exact below _ x wx x1 x2 ⟨x, extendM_left bs as hx, wx, eqv_refl x wx⟩
      · rw [sub_multi_left, allMatch_eq, List.all_eq_true]
        intro y hy
        obtain ⟨wy, y1, y2⟩ := plainMem bs wb y hy
        obtain ⟨z, hz, hyz⟩ := extendM_covers bs as (fun t ht => eqv_refl t (plainMem bs wb t ht).1) y hy
        exact below _ y wy y1 y2 ⟨z, hz, wz z hz, hyz⟩
    · have hmb' : isMulti b = false := by simpa using hmb
      have hpb := plain_of b hbn hba hmb'
      rw [concat_mp as b hpb]
      have wz : ∀ z ∈ insertM b as, wf z = true := by
        intro z hz
        rcases mem_insertM hz with h | h
        · exact (plainMem as wa z h).1
        · rw [h]; exact wb
      constructor
      · rw [sub_multi_left, allMatch_eq, List.all_eq_true]
        intro x hx
        obtain ⟨wx, x1, x2⟩ := plainMem as wa x hx
        exact below _ x wx x1 x2 ⟨x, mem_insertM_left hx, wx, eqv_refl x wx⟩
      · obtain ⟨z, hz, hbz⟩ := insertM_covers b as (eqv_refl b wb)
        exact below _ b wb hpb.1 hpb.2.1 ⟨z, hz, wz z hz, hbz⟩
  · have hma' : isMulti a = false := by simpa using hma
    have hpa := plain_of a han haa hma'
    by_cases hmb : isMulti b = true
    · cases b <;> simp [isMulti] at hmb
      rename_i bs
      rw [concat_pm a bs hpa]
      have wz : ∀ z ∈ insertM a bs, wf z = true := by
        intro z hz
        rcases mem_insertM hz with h | h
        · exact (plainMem bs wb z h).1
        · rw [h]; exact wa
      constructor
      · obtain ⟨z, hz, haz⟩ := insertM_covers a bs (eqv_refl a wa)
        exact below _ a wa hpa.1 hpa.2.1 ⟨z, hz, wz z hz, haz⟩
      · rw [sub_multi_left, allMatch_eq, List.all_eq_true]
        intro y hy
        obtain ⟨wy, y1, y2⟩ := plainMem bs wb y hy
        exact below _ y wy y1 y2 ⟨y, mem_insertM_left hy, wy, eqv_refl y wy⟩
    · have hmb' : isMulti b = false := by simpa using hmb
      have hpb := plain_of b hbn hba hmb'
      rw [concat_pp a b hpa hpb he']
      exact ⟨below _ a wa hpa.1 hpa.2.1 ⟨a, by simp, wa, eqv_refl a wa⟩,
             below _ b wb hpb.1 hpb.2.1 ⟨b, by simp, wb, eqv_refl b wb⟩⟩

/-- and the least one: whatever both operands lie below, their join lies below -/
theorem concat_least (a b c : Ty) (wa : wf a = true) (wb : wf b = true)
    (ha : sub a c = true) (hb : sub b c = true) : sub (concat a b) c = true := by
  by_cases han : a = .never
  · subst han
    have : concat .never b = b := by cases b <;> simp [concat]
    rw [this]; exact hb
  by_cases hbn : b = .never
  · subst hbn
    have : concat a .never = a := by cases a <;> simp_all [concat]
    rw [this]; exact ha
  by_cases haa : a = .any
  · subst haa
    have : concat .any b = .any := by cases b <;> simp_all [concat]
    rw [this]; exact ha
  by_cases hba : b = .any
  · subst hba
    have : concat a .any = .any := by cases a <;> simp_all [concat]
    rw [this]; exact hb
  by_cases he : eqv a b = true
  · have : concat a b = a := by cases a <;> cases b <;> simp_all [concat]
    rw [this]; exact ha
  have he' : eqv a b = false := by simpa using he
  by_cases hma : isMulti a = true
  · cases a <;> simp [isMulti] at hma
    rename_i as
    rw [sub_multi_left, allMatch_eq, List.all_eq_true] at ha
    by_cases hmb : isMulti b = true
    · cases b <;> simp [isMulti] at hmb
      rename_i bs
      rw [sub_multi_left, allMatch_eq, List.all_eq_true] at hb
      rw [concat_mm as bs he', sub_multi_left, allMatch_eq, List.all_eq_true]
      intro z hz
      rcases mem_extendM bs as hz with h | h
      · exact ha z h
      · exact hb z h
    · have hmb' : isMulti b = false := by simpa using hmb
      rw [concat_mp as b (plain_of b hbn hba hmb'), sub_multi_left, allMatch_eq, List.all_eq_true]
      intro z hz
      rcases mem_insertM hz with h | h
      · exact ha z h
      · rw [h]; exact hb
  · have hma' : isMulti a = false := by simpa using hma
    by_cases hmb : isMulti b = true
    · cases b <;> simp [isMulti] at hmb
      rename_i bs
      rw [sub_multi_left, allMatch_eq, List.all_eq_true] at hb
      rw [concat_pm a bs (plain_of a han haa hma'), sub_multi_left, allMatch_eq, List.all_eq_true]
      intro z hz
      rcases mem_insertM hz with h | h
      · exact hb z h
      · rw [h]; exact ha
    · have hmb' : isMulti b = false := by simpa using hmb
      rw [concat_pp a b (plain_of a han haa hma') (plain_of b hbn hba hmb') he', sub_multi_left, allMatch_eq]
      simp [ha, hb]


/-! ### `concat` of well-formed types is well-formed -/

theorem memL_append (a : Ty) (xs ys : List Ty) : memL a (xs ++ ys) = (memL a xs || memL a ys) := by
  induction xs with
  | nil => simp [memL]
  | cons x xs ih => simp [memL_cons, ih, Bool.or_assoc]

theorem nodupL_snoc : ∀ (ms : List Ty) (t : Ty), nodupL ms = true → (∀ x ∈ ms, eqv x t = false) →
    nodupL (ms ++ [t]) = true := by
  intro ms
  induction ms with
  | nil => intro t _ _; simp [nodupL, memL]
  | cons x xs ih =>
    intro t hn hne
    rw [nodupL_cons, Bool.and_eq_true, Bool.not_eq_true'] at hn
    simp only [List.cons_append]
    rw [nodupL_cons, Bool.and_eq_true, Bool.not_eq_true', memL_append]
    refine ⟨?_, ih t hn.2 (fun y hy => hne y (by simp [hy]))⟩
    simp [hn.1, memL_cons, memL, hne x (by simp)]

theorem wfL_append (xs ys : List Ty) : wfL (xs ++ ys) = (wfL xs && wfL ys) := by
  induction xs with
  | nil => simp [wfL]
  | cons x xs ih => simp [wfL, ih, Bool.and_assoc]

theorem membersOk_snoc : ∀ (ms : List Ty) (t : Ty), membersOk ms = true → PlainT t → membersOk (ms ++ [t]) = true := by
  intro ms
  induction ms with
  | nil =>
    intro t _ ht
    obtain ⟨t1, t2, t3⟩ := ht
    cases t <;> simp_all [membersOk, isMulti, isNever]
  | cons x xs ih =>
    intro t h ht
    have hx : membersOk xs = true := by cases x <;> simp_all [membersOk]
    have := ih t hx ht
    cases x <;> simp_all [membersOk]

/-- the invariant of a union's member list -/
def MembersInv (ms : List Ty) : Prop := wfL ms = true ∧ membersOk ms = true ∧ nodupL ms = true

theorem insertM_inv (ms : List Ty) (t : Ty) (h : MembersInv ms) (wt : wf t = true) (ht : PlainT t) :
    MembersInv (insertM t ms) := by
  unfold insertM
  by_cases hm : memL t ms = true
  · simpa [hm] using h
  · simp only [hm, Bool.false_eq_true, if_false]
    obtain ⟨h1, h2, h3⟩ := h
    refine ⟨by simp [wfL_append, h1, wfL, wt], membersOk_snoc ms t h2 ht, nodupL_snoc ms t h3 ?_⟩
    intro x hx
    cases hxt : eqv x t with
    | false => rfl
    | true =>
      exfalso
      have := eqv_symm x t (wfL_mem h1 hx) wt hxt
      exact hm ((memL_iff t ms).mpr ⟨x, hx, this⟩)

theorem extendM_inv : ∀ (ns ms : List Ty), MembersInv ms → (∀ t ∈ ns, wf t = true ∧ PlainT t) →
    MembersInv (extendM ms ns) := by
  intro ns
  induction ns with
  | nil => intro ms h _; simpa [extendM] using h
  | cons n ns ih =>
    intro ms h hns
    simp only [extendM, List.foldl_cons]
    exact ih (insertM n ms) (insertM_inv ms n h (hns n (by simp)).1 (hns n (by simp)).2)
      (fun t ht => hns t (by simp [ht]))

theorem length_insertM (t : Ty) (ms : List Ty) : ms.length ≤ (insertM t ms).length := by
  unfold insertM; split <;> simp

theorem length_extendM : ∀ (ns ms : List Ty), ms.length ≤ (extendM ms ns).length := by
  intro ns
  induction ns with
  | nil => intro ms; simp [extendM]
  | cons n ns ih =>
    intro ms
    simp only [extendM, List.foldl_cons]
    exact Nat.le_trans (length_insertM n ms) (ih (insertM n ms))

theorem wf_multi_of (L : List Ty) (hl : 2 ≤ L.length) (h : MembersInv L) : wf (.multi L) = true := by
  obtain ⟨h1, h2, h3⟩ := h
  simp [wf, hl, h1, h2, h3]

theorem inv_of_wf_multi (ms : List Ty) (hw : wf (.multi ms) = true) : 2 ≤ ms.length ∧ MembersInv ms := by
  simp only [wf, Bool.and_eq_true, decide_eq_true_eq] at hw
  exact ⟨hw.1.1.1, hw.1.1.2, hw.1.2, hw.2⟩

theorem concat_wf (a b : Ty) (wa : wf a = true) (wb : wf b = true) : wf (concat a b) = true := by
  by_cases han : a = .never
  · subst han
    have : concat .never b = b := by cases b <;> simp [concat]
    rw [this]; exact wb
  by_cases hbn : b = .never
  · subst hbn
    have : concat a .never = a := by cases a <;> simp_all [concat]
    rw [this]; exact wa
  by_cases haa : a = .any
  · subst haa
    have : concat .any b = .any := by cases b <;> simp_all [concat]
    rw [this]; rfl
  by_cases hba : b = .any
  · subst hba
    have : concat a .any = .any := by cases a <;> simp_all [concat]
    rw [this]; rfl
  by_cases he : eqv a b = true
  · have : concat a b = a := by cases a <;> cases b <;> simp_all [concat]
    rw [this]; exact wa
  have he' : eqv a b = false := by simpa using he
  have plainMem : ∀ (ms : List Ty), wf (.multi ms) = true → ∀ x ∈ ms, wf x = true ∧ PlainT x :=
    fun ms hw x hx => by have := isMulti_false_of_member hw hx; exact ⟨this.2.2.2, this.1, this.2.1, this.2.2.1⟩
  by_cases hma : isMulti a = true
  · cases a <;> simp [isMulti] at hma
    rename_i as
    obtain ⟨la, ia⟩ := inv_of_wf_multi as wa
    by_cases hmb : isMulti b = true
    · cases b <;> simp [isMulti] at hmb
      rename_i bs
      rw [concat_mm as bs he']
      exact wf_multi_of _ (Nat.le_trans la (length_extendM bs as)) (extendM_inv bs as ia (plainMem bs wb))
    · have hmb' : isMulti b = false := by simpa using hmb
      have hpb := plain_of b hbn hba hmb'
      rw [concat_mp as b hpb]
      exact wf_multi_of _ (Nat.le_trans la (length_insertM b as)) (insertM_inv as b ia wb hpb)
  · have hma' : isMulti a = false := by simpa using hma
    have hpa := plain_of a han haa hma'
    by_cases hmb : isMulti b = true
    · cases b <;> simp [isMulti] at hmb
      rename_i bs
      obtain ⟨lb, ib⟩ := inv_of_wf_multi bs wb
      rw [concat_pm a bs hpa]
      exact wf_multi_of _ (Nat.le_trans lb (length_insertM a bs)) (insertM_inv bs a ib wa hpa)
    · have hmb' : isMulti b = false := by simpa using hmb
      have hpb := plain_of b hbn hba hmb'
      rw [concat_pp a b hpa hpb he']
      apply wf_multi_of _ (by simp)
      refine ⟨by simp [wfL, wa, wb], ?_, by simp [nodupL, memL, he']⟩
      have m1 := membersOk_snoc [] a (by simp [membersOk]) hpa
      exact membersOk_snoc [a] b (by simpa using m1) hpb


/-! ### `conjoin` (the meet used for parameters of a union of functions) is a lower bound -/

theorem conjoinL_nil_left (ys : List Ty) : conjoinL [] ys = [] := by rw [conjoinL] <;> (intros; simp_all)
theorem conjoinL_nil_right (xs : List Ty) : conjoinL xs [] = [] := by
  cases xs with
  | nil => exact conjoinL_nil_left []
  | cons x xs => rw [conjoinL] <;> (intros; simp_all)
theorem conjoinL_cons (x y : Ty) (xs ys : List Ty) : conjoinL (x :: xs) (y :: ys) = conjoin x y :: conjoinL xs ys := by
  rw [conjoinL]

theorem conjoinM_nil (o : Ty) : conjoinM [] o = .never := by rw [conjoinM]
theorem conjoinM_one (m o : Ty) : conjoinM [m] o = conjoin m o := by rw [conjoinM]
theorem conjoinM_cons2 (m m2 : Ty) (ms : List Ty) (o : Ty) :
    conjoinM (m :: m2 :: ms) o = concat (conjoin m o) (conjoinM (m2 :: ms) o) := by
  rw [conjoinM]
  intro h; simp at h

def ConjBelow (n : Nat) : Prop :=
  ∀ a b : Ty, size a + size b ≤ n → wf a = true → wf b = true →
    wf (conjoin a b) = true ∧ sub (conjoin a b) a = true ∧ sub (conjoin a b) b = true

theorem conjoinL_props (n : Nat) (hp : ConjBelow n) (xs : List Ty) : ∀ (ys : List Ty), xs.length = ys.length →
    sizeL xs + sizeL ys ≤ n → wfL xs = true → wfL ys = true →
    wfL (conjoinL xs ys) = true ∧ matchesL (conjoinL xs ys) xs = true ∧ matchesL (conjoinL xs ys) ys = true := by
  induction xs with
  | nil =>
    intro ys hl _ _ _
    cases ys with
    | nil => rw [conjoinL_nil_left]; exact ⟨rfl, matchesL_nil, matchesL_nil⟩
    | cons y ys => simp at hl
  | cons x xs ih =>
    intro ys hl hs wx wy
    cases ys with
    | nil => simp at hl
    | cons y ys =>
      rw [conjoinL_cons]
      simp only [sizeL] at hs
      simp only [wfL, Bool.and_eq_true] at wx wy ⊢
      simp only [List.length_cons, Nat.add_right_cancel_iff] at hl
      obtain ⟨h1, h2, h3⟩ := hp x y (by omega) wx.1 wy.1
      obtain ⟨g1, g2, g3⟩ := ih ys hl (by omega) wx.2 wy.2
      rw [matchesL_cons, matchesL_cons]
      simp [h1, h2, h3, g1, g2, g3]

theorem zipConcat_props (ps : List Ty) : ∀ (ps2 : List Ty), ps.length = ps2.length → wfL ps = true → wfL ps2 = true →
    wfL (List.zipWith concat ps ps2) = true ∧ matchesParams ps (List.zipWith concat ps ps2) = true ∧
    matchesParams ps2 (List.zipWith concat ps ps2) = true := by
  induction ps with
  | nil =>
    intro ps2 hl _ _
    cases ps2 with
    | nil => exact ⟨rfl, matchesParams_nil, matchesParams_nil⟩
    | cons y ys => simp at hl
  | cons p ps ih =>
    intro ps2 hl wp wp2
    cases ps2 with
    | nil => simp at hl
    | cons q qs =>
      simp only [List.zipWith_cons_cons]
      simp only [wfL, Bool.and_eq_true] at wp wp2 ⊢
      simp only [List.length_cons, Nat.add_right_cancel_iff] at hl
      obtain ⟨u1, u2⟩ := concat_upper p q wp.1 wp2.1
      obtain ⟨g1, g2, g3⟩ := ih qs hl wp.2 wp2.2
      rw [matchesParams_cons, matchesParams_cons]
      simp [concat_wf p q wp.1 wp2.1, u1, u2, g1, g2, g3]

theorem member_below_union (MS : List Ty) (hw : wf (.multi MS) = true) (m : Ty) (hm : m ∈ MS) :
    sub m (.multi MS) = true := by
  have h := isMulti_false_of_member hw hm
  rw [sub_multi_right m MS h.1 h.2.1, anyMatch_eq, List.any_eq_true]
  exact ⟨m, hm, sub_refl m h.2.2.2⟩

theorem conjoinM_props (n : Nat) (hp : ConjBelow n) (MS : List Ty) (wMS : wf (.multi MS) = true) (o : Ty) (wo : wf o = true) :
    ∀ (ms : List Ty), (∀ m ∈ ms, m ∈ MS) → sizeL ms + size o ≤ n →
    wf (conjoinM ms o) = true ∧ sub (conjoinM ms o) (.multi MS) = true ∧ sub (conjoinM ms o) o = true := by
  intro ms
  induction ms with
  | nil => intro _ _; rw [conjoinM_nil]; exact ⟨rfl, sub_never _, sub_never _⟩
  | cons m ms ih =>
    intro hsub hs
    simp only [sizeL] at hs
    have hmMS : m ∈ MS := hsub m (by simp)
    have wm : wf m = true := (isMulti_false_of_member wMS hmMS).2.2.2
    obtain ⟨c1, c2, c3⟩ := hp m o (by omega) wm wo
    have c2' : sub (conjoin m o) (.multi MS) = true :=
      sub_trans _ m _ c1 wm wMS c2 (member_below_union MS wMS m hmMS)
    cases ms with
    | nil => rw [conjoinM_one]; exact ⟨c1, c2', c3⟩
    | cons m2 rest =>
      rw [conjoinM_cons2]
      obtain ⟨d1, d2, d3⟩ := ih (fun x hx => hsub x (by simp [hx])) (by simp only [sizeL] at hs ⊢; omega)
      exact ⟨concat_wf _ _ c1 d1, concat_least _ _ _ c1 d1 c2' d2, concat_least _ _ _ c1 d1 c3 d3⟩

theorem conjoin_props : ∀ n : Nat, ConjBelow n := by
  intro n
  induction n with
  | zero => intro a b h; have := size_pos a; omega
  | succ n ih =>
    intro a b hs wa wb
    by_cases he : eqv a b = true
    · have : conjoin a b = a := by rw [conjoin.eq_def]; simp [he]
      rw [this]
      exact ⟨wa, sub_refl a wa, sub_of_eqv a b wa wb he⟩
    have he' : eqv a b = false := by simpa using he
    rw [conjoin.eq_def]
    simp only [he', Bool.false_eq_true, if_false]
    split
    · exact ⟨wa, sub_refl a wa, any_greatest_aux _ a (Nat.le_refl _)⟩
    · exact ⟨wb, any_greatest_aux _ b (Nat.le_refl _), sub_refl b wb⟩
    · rename_i x y
      simp only [size] at hs
      simp only [wf] at wa wb
      obtain ⟨h1, h2, h3⟩ := ih x y (by omega) wa wb
      exact ⟨by simpa [wf] using h1, by rw [sub_arr]; exact h2, by rw [sub_arr]; exact h3⟩
    · rename_i xs ys
      simp only [size] at hs
      simp only [wf] at wa wb
      by_cases hl : xs.length = ys.length
      · have : (xs.length != ys.length) = false := by simp [hl]
        simp only [this, Bool.false_eq_true, if_false]
        obtain ⟨g1, g2, g3⟩ := conjoinL_props n ih xs ys hl (by omega) wa wb
        exact ⟨by simpa [wf] using g1, by rw [sub_tup]; exact g2, by rw [sub_tup]; exact g3⟩
      · have : (xs.length != ys.length) = true := by simp [hl]
        simp only [this, if_true]
        exact ⟨rfl, sub_never _, sub_never _⟩
    · rename_i ms _
      simp only [size] at hs
      exact conjoinM_props n ih ms wa b wb ms (fun m hm => hm) (by omega)
    · rename_i ms _ _
      simp only [size] at hs
      obtain ⟨g1, g2, g3⟩ := conjoinM_props n ih ms wb a wa ms (fun m hm => hm) (by omega)
      exact ⟨g1, g3, g2⟩
    · rename_i ps r ps2 r2
      simp only [size] at hs
      simp only [wf, Bool.and_eq_true] at wa wb
      by_cases hl : ps.length = ps2.length
      · have : (ps.length != ps2.length) = false := by simp [hl]
        simp only [this, Bool.false_eq_true, if_false]
        obtain ⟨r1, r2', r3⟩ := ih r r2 (by omega) wa.2 wb.2
        split
        · exact ⟨rfl, sub_never _, sub_never _⟩
        · obtain ⟨z1, z2, z3⟩ := zipConcat_props ps ps2 hl wa.1 wb.1
          refine ⟨by simp [wf, z1, r1], ?_, ?_⟩
          · rw [sub_fn]; simp [z2, r2']
          · rw [sub_fn]; simp [z3, r3]
      · have : (ps.length != ps2.length) = true := by simp [hl]
        simp only [this, if_true]
        exact ⟨rfl, sub_never _, sub_never _⟩
    · exact ⟨rfl, sub_never _, sub_never _⟩

/-- **the meet is a lower bound of its arguments** (and well-formed) -/
theorem conjoin_lower (a b : Ty) (wa : wf a = true) (wb : wf b = true) :
    sub (conjoin a b) a = true ∧ sub (conjoin a b) b = true :=
  let h := conjoin_props _ a b (Nat.le_refl _) wa wb
  ⟨h.2.1, h.2.2⟩

theorem conjoin_wf (a b : Ty) (wa : wf a = true) (wb : wf b = true) : wf (conjoin a b) = true :=
  (conjoin_props _ a b (Nat.le_refl _) wa wb).1

end Ssl.Ty
