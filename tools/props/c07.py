"""C07 — evaluation order.  Proof: SslModel.Thm.C07 (composition order of the store transformers in
`Spec` for every construct; short-circuit and branch selection with explicit stores).
Correspondence: marker-log programs — every subexpression wrapped in a logging function, in every
syntactic position, with literal (foldable) and run-time operands — implementation log vs. `Spec` log."""
import progprop
from gen.programs import INT, BOOL, STR, FLOAT, tup, fn, iter_of, arr, cell

THM_MODULES = ["SslModel.Thm.C07", "SslModel.Thm.C07Seq"]
TRANSLATE_PARTS = ["scalar"]

I = lambda n: ("i", n)
V = lambda x: ("id", x)
ANY = ("any",)


def prelude():
    out = [("set", "log", ("mut", arr(ANY), ("array", [])))]
    for nm, t in (("mi", INT), ("mb", BOOL), ("ms", STR), ("mf", FLOAT), ("ma", arr(INT)), ("mc", cell(INT)),
                  ("mg", fn((INT,), INT)), ("mt", iter_of(INT)), ("mr", fn((INT, INT), INT))):
        out.append(("fndecl", nm, [("k", INT), ("v", t)], t,
                    [("assign", "add", V("log"), ("array", [V("k")])), ("return", V("v"))]))
    # a PROCEDURE (result type `()`) with an effect, and functions whose result type has a single value / is a union
    out.append(("fndecl", "mv", [("k", INT)], ("void",), [("assign", "add", V("log"), ("array", [V("k")]))]))
    out.append(("fndecl", "mu", [("k", INT), ("v", ("any",))], ("any",), [("assign", "add", V("log"), ("array", [V("k")])), ("return", V("v"))]))
    out.append(("fndecl", "hi", [("v", INT)], INT, [("return", V("v"))]))      # hides a constant from the folder
    out.append(("fndecl", "hb", [("v", BOOL)], BOOL, [("return", V("v"))]))
    out.append(("fndecl", "inc", [("v", INT)], INT, [("return", ("bin", "add", V("v"), I(1)))]))
    out.append(("fndecl", "plus", [("a", INT), ("b", INT)], INT, [("return", ("bin", "add", V("a"), V("b")))]))
    return out


def templates():
    T = []
    P = prelude()
    k = [0]

    def m(fnm, e):
        k[0] += 1
        return ("call", V(fnm), [I(k[0]), e])

    def fin(e):
        return ("tuple", [e, ("pre", "deref", V("log"))])

    for hide in (False, True):
        lit = (lambda n: ("call", V("hi"), [I(n)])) if hide else I
        blit = (lambda b: ("call", V("hb"), [(("true",) if b else ("false",))])) if hide else (lambda b: ("true",) if b else ("false",))
        for op in ("add", "sub", "mul", "div", "mod", "pow", "shl", "shr", "band", "bor", "bxor", "eq", "ne", "lt", "le", "gt", "ge"):
            k[0] = 0
            T.append(P + [fin(("bin", op, m("mi", lit(7)), m("mi", lit(2))))])
            # failing right operand: the left one was still evaluated first
            if op in ("div", "mod", "shl", "shr", "pow"):
                bad = {"div": 0, "mod": 0, "shl": 64, "shr": -1, "pow": -1}[op]
                k[0] = 0
                T.append(P + [("set", "r", ("bin", op, m("mi", ("call", V("hi"), [I(7)])), m("mi", ("call", V("hi"), [I(bad)])))), fin(V("r"))])
        for a in (True, False):
            for b in (True, False):
                for op in ("and", "or"):
                    k[0] = 0
                    T.append(P + [fin((op, m("mb", blit(a)), m("mb", blit(b))))])
                for op in ("band", "bor", "bxor"):
                    k[0] = 0
                    T.append(P + [fin(("bin", op, m("mb", blit(a)), m("mb", blit(b))))])
        # nested operators: ((1 op 2) op (3 op 4))
        k[0] = 0
        T.append(P + [fin(("bin", "sub", m("mi", ("bin", "add", m("mi", lit(1)), m("mi", lit(2)))),
                           m("mi", ("bin", "mul", m("mi", lit(3)), m("mi", lit(4))))))])
        # call: function expression, then arguments left to right
        k[0] = 0
        T.append(P + [fin(("call", m("mr", V("plus")), [m("mi", lit(1)), m("mi", lit(2))]))])
        k[0] = 0
        T.append(P + [fin(("call", m("mg", V("inc")), [m("mi", ("call", m("mg", V("inc")), [m("mi", lit(1))]))]))])
        # array / tuple / struct / repeat
        k[0] = 0
        T.append(P + [fin(("array", [m("mi", lit(1)), m("mi", lit(2)), m("mi", lit(3))]))])
        k[0] = 0
        T.append(P + [fin(("tuple", [m("mi", lit(1)), m("ms", ("s", "a")), m("mb", blit(True))]))])
        k[0] = 0
        T.append(P + [fin(("struct", [("b", m("mi", lit(1))), ("a", m("mi", lit(2))), ("c", m("mi", lit(3)))]))])
        # `==` / `!=` whose operands have a type with ONE value (`()`), the same union, or `any`: the answer may be known from
        # the types, the operands are evaluated all the same
        for op in ("eq", "ne"):
            T.append(P + [fin(("bin", op, ("call", V("mv"), [I(1)]), ("call", V("mv"), [I(2)])))])
            T.append(P + [fin(("bin", op, ("call", V("mv"), [I(1)]), ("unit",)))])
            T.append(P + [fin(("bin", op, ("call", V("mu"), [I(1), ("unit",)]), ("call", V("mu"), [I(2), lit(3)])))])
            T.append(P + [fin(("bin", op, ("tuple", [("call", V("mv"), [I(1)]), lit(1)]), ("tuple", [("call", V("mv"), [I(2)]), lit(1)])))])
            T.append(P + [("set", "r", ("bin", op, ("call", V("mv"), [I(1)]), ("call", V("mv"), [I(2)]))), fin(V("r"))])
        # the condition of an `if` used as a value is evaluated exactly once - also when both branches are the same constant,
        # written as bare expressions or as blocks
        for br in ((lit(7), lit(7)), (("s", "ab"), ("bin", "add", ("s", "a"), ("s", "b"))), (lit(1), lit(2))):
            k[0] = 0
            T.append(P + [fin(("ifx", m("mb", blit(True)), br[0], br[1]))])
            k[0] = 0
            T.append(P + [("set", "x", ("ifx", ("bin", "gt", m("mi", lit(3)), lit(1)), br[0], br[1])), fin(V("x"))])
            k[0] = 0
            T.append(P + [fin(("if", m("mb", blit(False)), ("block", [br[0]]), ("block", [br[1]])))])
        # a struct literal that repeats a field name: every field expression is still evaluated, in order, once
        k[0] = 0
        T.append(P + [fin(("struct", [("a", m("mi", lit(1))), ("a", m("mi", lit(2)))]))])
        k[0] = 0
        T.append(P + [fin(("struct", [("a", m("mi", lit(1))), ("b", m("mi", lit(2))), ("a", m("mi", lit(3)))]))])
        k[0] = 0
        T.append(P + [fin(("facc", ("struct", [("a", m("mi", lit(1))), ("b", m("ms", ("s", "x"))), ("a", m("mi", lit(3))), ("b", m("ms", ("s", "y")))]), "a"))])
        k[0] = 0
        T.append(P + [fin(("repeat", m("mi", lit(5)), m("mi", lit(2))))])
        # index and slice
        k[0] = 0
        T.append(P + [fin(("at", m("ma", ("array", [lit(1), lit(2), lit(3)])), m("mi", lit(1))))])
        for pat in ((1, 1, 1), (1, 1, 0), (1, 0, 1), (0, 1, 1), (1, 0, 0), (0, 0, 1)):
            k[0] = 0
            bs = [m("mi", lit(v)) if p else None for p, v in zip(pat, (0, 3, 1))]
            T.append(P + [fin(("slice", m("ma", ("array", [lit(1), lit(2), lit(3), lit(4)])), bs[0], bs[1], bs[2]))])
        # assignment: target then value; compound reads the cell after the value was evaluated
        for op in ("set", "add", "sub", "mul", "div", "mod", "pow", "shl", "shr", "band", "bor", "bxor"):
            k[0] = 0
            T.append(P + [("set", "c", ("mut", INT, I(6))),
                          ("set", "r", ("assign", op, m("mc", V("c")), m("mi", ("bin", "add", lit(1), ("assign", "add", V("c"), lit(2)))))),
                          fin(("tuple", [V("r"), ("pre", "deref", V("c"))]))])
        # reduce: iterator, initial value, function
        k[0] = 0
        T.append(P + [("set", "g", m("mr", V("plus"))),
                      fin(("reduce", m("mt", ("post", "iter", ("array", [m("mi", lit(1)), m("mi", lit(2))]))), m("mi", lit(10)), V("g")))])
        # reduce with effects in ALL three operands: iterator, then initial value, then function expression
        k[0] = 0
        T.append(P + [fin(("reduce", m("mt", ("post", "iter", ("array", [lit(1), lit(2)]))), m("mi", lit(10)), m("mr", V("plus"))))])
        # ... a failing initial value is met before the function expression is evaluated
        k[0] = 0
        T.append(P + [("set", "r", ("reduce", m("mt", ("post", "iter", ("array", [lit(1)]))), m("mi", ("bin", "div", lit(1), ("call", V("hi"), [I(0)]))),
                                    m("mr", V("plus")))), fin(V("r"))])
        # ... and the initial value may depend on a cell the function expression overwrites
        k[0] = 0
        T.append(P + [("set", "c", ("mut", INT, I(5))),
                      ("fndecl", "mkf", [], fn((INT, INT), INT), [("assign", "set", V("c"), I(1000)), ("return", V("plus"))]),
                      fin(("reduce", ("post", "iter", ("array", [lit(1), lit(2)])), ("pre", "deref", V("c")), ("call", V("mkf"), [])))])
        # map / filter / partition: iterator operand, then function operand (both once, at creation)
        for bop, fnm in (("map", "inc"), ("filter", "pos"), ("partition", "pos")):
            k[0] = 0
            mk = "mg" if fnm == "inc" else "mp"
            e = ("bin", bop, m("mt", ("post", "iter", ("array", [lit(1), lit(2)]))), m(mk, V(fnm)))
            T.append(P + [("fndecl", "pos", [("v", INT)], BOOL, [("return", ("bin", "gt", V("v"), I(1)))]),
                          ("fndecl", "mp", [("k", INT), ("v", fn((INT,), BOOL))], fn((INT,), BOOL),
                           [("assign", "add", V("log"), ("array", [V("k")])), ("return", V("v"))]),
                          fin(e if bop == "partition" else ("post", "collect", e))])
        # type filter and the postfix reducers evaluate their operand once
        k[0] = 0
        T.append(P + [fin(("post", "collect", ("tfilter", m("mt", ("post", "iter", ("array", [lit(1), lit(2)]))), INT)))])
        for pop in ("sum", "product", "bitand", "bitor", "collect"):
            k[0] = 0
            T.append(P + [fin(("post", pop, m("mt", ("post", "iter", ("array", [m("mi", lit(3)), m("mi", lit(5))])))))])
        # if: condition, then only the chosen branch
        for c in (True, False):
            k[0] = 0
            T.append(P + [("set", "r", ("if", m("mb", blit(c)), ("block", [m("mi", lit(1))]), ("block", [m("mi", lit(2))]))), fin(V("r"))])
        # match: scrutinee once, value candidates top to bottom until the first hit
        for scrut in (1, 3, 5, 9):
            k[0] = 0
            T.append(P + [("set", "r", ("match", m("mi", lit(scrut)),
                                        [("val", [m("mi", lit(1)), m("mi", lit(2))], ("block", [m("mi", lit(100))])),
                                         ("val", [m("mi", lit(3)), m("mi", lit(3)), m("mi", lit(4))], ("block", [m("mi", lit(200))])),
                                         ("ty", "y", INT, ("block", [m("mi", ("bin", "add", V("y"), lit(300)))]))])), fin(V("r"))])
        # match candidates mixing logged calls with bare constants (a constant candidate may not be
        # tried before a call that stands to its left, whether or not the constants are folded)
        for scrut in (1, 2, 3, 4, 9):
            for shape in (("m1", "c3"), ("c1", "m2", "c3"), ("m1", "m2", "c3", "m4"), ("c9", "m3"), ("m1", "c2")):
                k[0] = 0
                cands = [(m("mi", lit(int(c[1:]))) if c[0] == "m" else I(int(c[1:]))) for c in shape]
                T.append(P + [("set", "kc", I(3)),
                              ("set", "r", ("match", m("mi", lit(scrut)),
                                            [("val", cands, ("block", [m("mi", lit(100))])),
                                             ("val", [V("kc"), m("mi", lit(4))], ("block", [m("mi", lit(200))])),
                                             ("default", ("block", [m("mi", lit(300))]))])), fin(V("r"))])
        # map / filter callbacks run lazily, once per element, in order
        k[0] = 0
        T.append(P + [("set", "it", ("bin", "map", ("post", "iter", ("array", [m("mi", lit(1)), m("mi", lit(2))])),
                                      ("fn", [("e", INT)], INT, [("return", ("call", V("mi"), [("bin", "add", V("e"), I(100)), V("e")]))]))),
                      m("mi", lit(50)), fin(("post", "collect", V("it")))])
    return T


def run(res, tier, seed, broken_model):
    feats = dict(mark=0.9, weights=dict(decl=40, assign=20, exprstmt=20, **{"if": 12, "match": 12}))
    recs, good = progprop.stream(res, tier, seed, broken_model, 500, 15000, features=feats, templates=templates(),
                                 label="order", depth=4, stmts=(2, 5))
    logs = set()
    for r in good:
        if r.ivalue and r.ivalue.startswith("(tup"):
            logs.add(r.ivalue)
    res.count("distinct-logged-outcomes", len(logs))
    res.rule = ("hand templates: every binary operator, && || & | ^ on all bool pairs, nested operators, calls, array / tuple / "
                "struct / repeat elements, index, every slice-bound pattern, all 12 assignment operators with a cell-mutating "
                "right-hand side, reduce, if, match value candidates, lazy map callbacks - each with literal (foldable) and "
                "hidden operands, every subexpression wrapped in a logging function; + seeded programs with marker probability "
                "0.9; non-trivial = distinct accepted program whose log was compared")
