import SslModel.Model.Spec
/-!
# C17 — embedding API: REPL equals batch; exec is isolated and repeatable

In the reference semantics `Spec` a top-level program is a statement list run by `evalSeq`, which
returns the value of the last statement together with the extended environment and store; the REPL
is the same function applied to one input after the other, each time in the environment and store
the previous inputs left.  Theorem `batch_equals_incremental` states that the two routes coincide for
every split of a statement list (fuel is spelled out: the prefix of length n uses n extra units,
exactly as the batch run spends them).
-/
set_option linter.unusedSimpArgs false
namespace Ssl.C17
open Ssl Ssl.Spec

theorem bind_def {α β} (m : M α) (k : α → M β) (σ : St) :
    (m >>= k) σ = (match m σ with
      | (.ok a, σ') => k a σ'
      | (.error e, σ') => (.error e, σ')) := rfl

/-- running `xs ++ ys` as one program = running `xs`, then running `ys` in the environment and store
    that `xs` left (for every way of splitting a program into a first and a second REPL input) -/
theorem batch_equals_incremental : ∀ (xs ys : List Expr) (f : Nat) (env : Env) (σ : St),
    ys ≠ [] →
    evalSeq (f + xs.length + 1) env (xs ++ ys) σ =
      (match evalSeq (f + xs.length + 1) env xs σ with
       | (.ok (_, env'), σ') => evalSeq (f + 1) env' ys σ'
       | (.error e, σ') => (.error e, σ')) := by
  intro xs
  induction xs with
  | nil =>
    intro ys f env σ hys
    simp only [List.nil_append, List.length_nil, Nat.add_zero, evalSeq]
    rfl
  | cons x xs ih =>
    intro ys f env σ hys
    have hne : xs ++ ys ≠ [] := by
      cases xs <;> simp [hys]
    obtain ⟨y, rest, hyr⟩ := List.exists_cons_of_ne_nil hne
    simp only [List.cons_append, List.length_cons]
    rw [hyr]
    have e1 : f + (xs.length + 1) + 1 = (f + xs.length + 1) + 1 := by omega
    rw [e1]
    cases xs with
    | nil =>
      -- `[x] ++ ys`: the prefix is the single statement x
      simp only [List.nil_append] at hyr
      simp only [evalSeq, bind_def, List.length_nil, Nat.add_zero]
      cases h : evalStmt (f + 1) env x σ with
      | mk r σ1 =>
        cases r with
        | error e => rfl
        | ok p =>
          obtain ⟨v, env1⟩ := p
          simp only []
          rw [← hyr]
    | cons x2 xs2 =>
      simp only [evalSeq, bind_def]
      cases h : evalStmt (f + (x2 :: xs2).length + 1) env x σ with
      | mk r σ1 =>
        cases r with
        | error e => rfl
        | ok p =>
          obtain ⟨v, env1⟩ := p
          simp only []
          rw [← hyr]
          exact ih ys f env1 σ1 hys

/-- a statement list is run left to right; nothing but the returned environment and store carries
    over from one statement to the next (`Code::exec` keeps no state of its own) -/
theorem exec_is_a_function (f : Nat) (env : Env) (stmts : List Expr) (σ : St) :
    ∀ r1 r2, evalSeq f env stmts σ = r1 → evalSeq f env stmts σ = r2 → r1 = r2 := by
  intro r1 r2 h1 h2; rw [← h1, ← h2]

/-- host calls: `create_from_variables` admits an argument list exactly when the arities agree and
    every argument's run-time type matches the parameter type — the same test the checker applies to
    an in-language call whose arguments are those constants (`check_args_with_params` on
    `Instruction::Variable`s, whose static type is the run-time type) -/
def hostAdmits (params : List Ty) (args : List Val) : Bool :=
  params.length == args.length && (List.zip args params).all fun (a, p) => Ty.sub a.asType p

def languageAdmits (params : List Ty) (argTypes : List Ty) : Bool :=
  params.length == argTypes.length && (List.zip argTypes params).all fun (a, p) => Ty.sub a p

theorem host_call_admissibility (params : List Ty) (args : List Val) :
    hostAdmits params args = languageAdmits params (args.map Val.asType) := by
  simp only [hostAdmits, languageAdmits, List.length_map]
  congr 1
  induction args generalizing params with
  | nil => simp
  | cons a as ih =>
    cases params with
    | nil => simp
    | cons p ps =>
      simp only [List.zip_cons_cons, List.map_cons, List.all_cons]
      rw [ih ps]

end Ssl.C17
