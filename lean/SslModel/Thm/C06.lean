import SslModel.Model.Spec
/-!
# C06 — lexical scoping; closures capture by value at creation

Theorems about the reference semantics `Ssl.Spec` (to which the implementation is tied by the
`prog` correspondence stream, see tools/props/c06.py).

In `Spec`, **expressions return no environment** (`eval : Nat → Env → Expr → M Val`): only the
statement sequencer `evalSeq` returns one.  "Declarations made inside a block, module, loop body,
match arm, if-set body or function body are invisible after it" is therefore true by the type of
`eval`; the theorems below state what each construct does with the frames it pushes, how names
resolve, what a closure captures and what a callee can see.
-/
namespace Ssl.C06
open Ssl Ssl.Spec

/-! ## a name denotes the nearest preceding declaration -/

theorem frameLookup_cons_same (x : String) (v : Val) (fr : Frame) :
    frameLookup x ((x, v) :: fr) = some v := by
  simp [frameLookup]

theorem frameLookup_cons_other (x y : String) (v : Val) (fr : Frame) (h : (x == y) = false) :
    frameLookup y ((x, v) :: fr) = frameLookup y fr := by
  simp [frameLookup, h]

/-- after `x := v`, `x` denotes `v` … -/
theorem lookup_insert_same (env : Env) (x : String) (v : Val) :
    (env.insert x v).lookup x = some v := by
  cases env with
  | nil => simp [Env.insert, Env.lookup, frameLookup]
  | cons fr rest => simp [Env.insert, Env.lookup, frameLookup]

/-- … and every other name denotes what it denoted before -/
theorem lookup_insert_other (env : Env) (x y : String) (v : Val) (h : (x == y) = false) :
    (env.insert x v).lookup y = env.lookup y := by
  cases env with
  | nil => simp [Env.insert, Env.lookup, frameLookup, h]
  | cons fr rest => simp [Env.insert, Env.lookup, frameLookup, h]

/-- an inner frame shadows, without changing, the outer ones -/
theorem lookup_inner_frame (env : Env) (x : String) (v : Val) :
    Env.lookup ([(x, v)] :: env) x = some v := by
  simp [Env.lookup, frameLookup]

theorem lookup_inner_frame_other (env : Env) (x y : String) (v : Val) (h : (x == y) = false) :
    Env.lookup ([(x, v)] :: env) y = env.lookup y := by
  simp [Env.lookup, frameLookup, h]

/-- popping the frame restores every outer binding (the frame was never merged into them) -/
theorem outer_unchanged_by_inner_frame (env : Env) (fr : Frame) :
    (fr :: env).tail = env := rfl

/-! ## what a closure captures: a snapshot that resolves names exactly as the environment did -/

theorem frameLookup_append (x : String) (a b : Frame) :
    frameLookup x (a ++ b) = (match frameLookup x a with
      | some v => some v
      | none => frameLookup x b) := by
  induction a with
  | nil => simp [frameLookup]
  | cons p a ih =>
    obtain ⟨k, v⟩ := p
    simp only [List.cons_append, frameLookup]
    split <;> simp_all

theorem snapshot_lookup (env : Env) (x : String) :
    Env.lookup [env.snapshot] x = env.lookup x := by
  induction env with
  | nil => simp [Env.snapshot, Env.lookup, frameLookup]
  | cons fr rest ih =>
    simp only [Env.snapshot, List.flatten_cons, Env.lookup, frameLookup_append] at *
    cases h : frameLookup x fr with
    | some v => simp
    | none =>
      simp only []
      cases h2 : frameLookup x rest.flatten with
      | some v => simp [h2] at ih; simp [← ih]
      | none => simp [h2] at ih; simp [← ih]

/-- creating a function value copies the visible bindings *now*; nothing later can change them
    (the value holds the list, not a reference to the environment) -/
theorem fn_captures_snapshot (f : Nat) (env : Env) (ps : List (String × Ty)) (r : Ty)
    (body : List Expr) (σ : St) :
    eval (f + 1) env (.fn ps r body) σ =
      (.ok (.fn σ.nextId ps r body env.snapshot none), { σ with nextId := σ.nextId + 1 }) := by
  rw [eval]; rfl

/-- a declared function additionally knows its own name -/
theorem fndecl_binds_self (f : Nat) (env : Env) (x : String) (ps : List (String × Ty)) (r : Ty)
    (body : List Expr) (σ : St) :
    evalStmt (f + 1) env (.fndecl x ps r body) σ =
      (.ok (.fn σ.nextId ps r body env.snapshot (some x),
            env.insert x (.fn σ.nextId ps r body env.snapshot (some x))),
       { σ with nextId := σ.nextId + 1 }) := by
  rw [evalStmt]; rfl

/-! ## what a callee can see: captured values, its own name, its parameters — never the caller -/

/-- the body of a (non-native) function runs in an environment built from the function value and
    the arguments alone; `callFn` does not even receive the caller's environment -/
theorem callee_environment (f : Nat) (id : Nat) (ps : List (String × Ty)) (r : Ty) (s : Expr)
    (body : List Expr) (cap : Frame) (self : Option String) (args : List Val)
    (hn : ∀ name, s ≠ .native name) :
    callFn (f + 1) (.fn id ps r (s :: body) cap self) args =
      tryCatchS (do
        let _ ← evalSeq f (calleeEnv (.fn id ps r (s :: body) cap self) ps cap self args) (s :: body)
        pure Val.unit)
      (fun sg => match sg with
        | .ret v => pure v
        | .brk => wrong "break outside of loop"
        | .cont => wrong "continue outside of loop"
        | sg => throwS sg) := by
  simp only [callFn]
  split
  · next _ name heq =>
    have : s = .native name := by injection heq
    exact absurd this (hn name)
  · rfl

/-- the callee's environment: its parameters first, then its own name, then what it captured -/
theorem callee_env_shape (fv : Val) (ps : List (String × Ty)) (cap : Frame) (x : String) (args : List Val) :
    calleeEnv fv ps cap (some x) args = [((List.zip (ps.map (·.1)) args)).reverse ++ [(x, fv)], cap] ∧
    calleeEnv fv ps cap none args = [((List.zip (ps.map (·.1)) args)).reverse ++ [], cap] := ⟨rfl, rfl⟩

/-- a call depends on the caller's environment only through the values of the callee expression
    and of the arguments -/
theorem call_uses_only_values (f : Nat) (env env' : Env) (g : Expr) (args : List Expr)
    (hg : eval f env g = eval f env' g) (ha : evalList f env args = evalList f env' args) :
    eval (f + 1) env (.call g args) = eval (f + 1) env' (.call g args) := by
  rw [eval, eval, hg, ha]

/-! ## blocks, modules, arms, if-set bodies, loop bodies -/

theorem block_pushes_and_drops_frame (f : Nat) (env : Env) (body : List Expr) :
    eval (f + 1) env (.block body) = (do
      let (v, _) ← evalSeq f ([] :: env) body
      pure v) := by
  rw [eval]

/-- a module yields exactly the names declared at its own top level (latest declaration of each) -/
theorem module_exports (f : Nat) (env : Env) (body : List Expr) :
    eval (f + 1) env (.modE body) = (do
      let (_, env') ← evalSeq f ([] :: env) body
      match env' with
      | fr :: _ => pure (.struct (frameFields fr))
      | [] => wrong "module without frame") := by
  rw [eval]; rfl

theorem ifset_binds_only_in_body (f : Nat) (env : Env) (x : String) (ty : Ty) (e body : Expr)
    (els : Option Expr) :
    eval (f + 1) env (.ifSet x ty e body els) = (do
      let v ← eval f env e
      if Ty.sub v.asType ty then eval f ([(x, v)] :: env) body
      else match els with
        | some e => eval f env e
        | none => pure .unit) := by
  simp only [eval]; rfl

theorem type_arm_binds_only_in_body (f : Nat) (env : Env) (v : Val) (x : String) (t : Ty)
    (body : Expr) (rest : List Arm) :
    evalArms (f + 1) env v (.ty x t body :: rest) =
      (if Ty.sub v.asType t then eval f ([(x, v)] :: env) body else evalArms f env v rest) := by
  rw [evalArms]

theorem for_binds_only_in_body (f : Nat) (env : Env) (x : String) (it : Val) (body : Expr) :
    forGo (f + 1) env x it body = (do
      let r ← callFn f it []
      match r with
      | .tup [.bool c, v] =>
        if c then do
          let go ← bodyOnce f ([(x, v), ("$con", .bool c)] :: env) body
          if go then forGo f env x it body else pure .unit
        else pure .unit
      | _ => wrong "for over something that is not an iterator") := by
  rw [forGo]; rfl

/-! ## non-vacuity -/
example : Env.lookup ([("x", Val.int 1)] :: [[("x", Val.int 2), ("y", Val.int 3)]]) "y" = some (Val.int 3) := by
  simp [Env.lookup, frameLookup]

end Ssl.C06
