"""C11 — iterator operators equal their sequence definitions.  Proof: SslModel.Thm.C11 (for any
iterator described by the results of its successive pulls: collect, the built-in reducers with their
units, $&& / $|| short-circuit, per-element steps of reduce / partition / for, laziness of @ ? ?T).
Correspondence: operator pipelines over array-derived and user-written sources with logging callbacks —
implementation vs. `Spec` vs. an independent list-semantics simulation in Python (the direct oracle)."""
import random

import progprop
import progstream as P
from gen.programs import INT, BOOL, STR, FLOAT, VOID, tup, fn, iter_of, arr, cell, multi
from vlib import sexp_parse, sexp_str, strip_tags

THM_MODULES = ["SslModel.Thm.C11", "SslModel.Thm.C11Pipe", "SslModel.Thm.C11Iter", "SslModel.Thm.C11Chain"]
TRANSLATE_PARTS = ["scalar"]

I = lambda n: ("i", n)
V = lambda x: ("id", x)
ANY = ("any",)
D = lambda e: ("pre", "deref", e)
M64 = 2**64


def wrap(x):
    return (x + 2**63) % M64 - 2**63


def logt(tag, e):
    return ("assign", "add", V("log"), ("array", [("tuple", [I(tag), e])]))


class Pipe:
    """one generated pipeline with its list-semantics simulation"""

    def __init__(self, rnd):
        self.r = rnd
        self.log = []

    def build(self):
        r = self.r
        n = r.choice([0, 0, 1, 2, 3, 4, 6])
        xs = [r.choice([0, 1, 2, 3, 5, 8, -1, -4, 7, 10]) for _ in range(n)]
        src_kind = r.choice(["array", "counter", "cellarray"])
        stmts = [("set", "log", ("mut", arr(ANY), ("array", [])))]
        if src_kind == "array":
            arr_e = ("array", [I(x) for x in xs]) if xs or r.random() < 0.5 else ("repeat", I(0), I(0))
            stmts.append(("set", "it0", ("post", "iter", arr_e)))
            logged_pulls = False
        elif src_kind == "counter":
            stmts.append(("set", "xs", ("array", [I(x) for x in xs]) if xs else ("repeat", I(0), I(0))))
            stmts.append(("set", "cnt", ("mut", INT, I(0))))
            stmts.append(("fndecl", "it0", [], tup(BOOL, INT),
                          [("assign", "add", V("cnt"), I(1)), logt(1, D(V("cnt"))),
                           ("if", ("bin", "le", D(V("cnt")), I(n)), ("block", [("return", ("tuple", [("true",), ("at", V("xs"), ("bin", "sub", D(V("cnt")), I(1)))]))]), None),
                           ("return", ("tuple", [("false",), I(0)]))]))
            logged_pulls = True
        else:
            # iterator over an array held in a captured cell, position in a second cell
            stmts.append(("set", "store", ("mut", arr(INT), ("array", [I(x) for x in xs]) if xs else ("repeat", I(0), I(0)))))
            stmts.append(("set", "pos", ("mut", INT, I(0))))
            stmts.append(("fndecl", "it0", [], tup(BOOL, INT),
                          [logt(1, ("bin", "add", D(V("pos")), I(1))),
                           ("if", ("bin", "lt", D(V("pos")), ("call", ("facc", V("std"), "len"), [D(V("store"))])),
                            ("block", [("assign", "add", V("pos"), I(1)), ("return", ("tuple", [("true",), ("at", D(V("store")), ("bin", "sub", D(V("pos")), I(1)))]))]), None),
                           ("assign", "add", V("pos"), I(1)),
                           ("return", ("tuple", [("false",), I(0)]))]))
            logged_pulls = True
        # python generator for the source
        def source():
            for i, x in enumerate(xs):
                if logged_pulls:
                    self.log.append((1, i + 1))
                yield x
            if logged_pulls:
                self.log.append((1, len(xs) + 1))
        gen = source()
        cur = V("it0")
        nst = r.randint(0, 3)
        for s in range(nst):
            kind = r.choice(["map", "filter", "map", "filter", "tfilter"])
            name = "it%d" % (s + 1)
            tag = 10 + s
            if kind == "map":
                k, c = r.choice([(2, 1), (1, 10), (-1, 0), (3, -2)])
                f = ("fn", [("e", INT)], INT, [logt(tag, V("e")), ("return", ("bin", "add", ("bin", "mul", V("e"), I(k)), I(c)))])
                stmts.append(("set", name, ("bin", "map", cur, f)))
                def mp(g=gen, k=k, c=c, tag=tag):
                    for x in g:
                        self.log.append((tag, x))
                        yield wrap(x * k + c)
                gen = mp()
            elif kind == "filter":
                m, rem = r.choice([(2, 0), (2, 1), (3, 0), (1, 0)])
                cond = ("bin", "eq", ("bin", "mod", V("e"), I(m)), I(rem)) if m != 1 else ("bin", "gt", V("e"), I(2))
                p = ("fn", [("e", INT)], BOOL, [logt(tag, V("e")), ("return", cond)])
                stmts.append(("set", name, ("bin", "filter", cur, p)))
                def fl(g=gen, m=m, rem=rem, tag=tag):
                    for x in g:
                        self.log.append((tag, x))
                        # SimpleSL % takes the sign of the dividend
                        ok = (abs(x) % m) * (1 if x >= 0 else -1) == rem if m != 1 else x > 2
                        if ok:
                            yield x
                gen = fl()
            else:
                stmts.append(("set", name, ("tfilter", cur, INT)))
            cur = V(name)
        cons = r.choice(["collect", "sum", "product", "bitand", "bitor", "all", "any", "reduce", "partition", "for", "pull-past-end"])
        self.consumer = cons
        exp = None
        if cons == "collect":
            stmts.append(("set", "r", ("post", "collect", cur)))
            exp = "(arr%s)" % "".join(" (i %d)" % x for x in gen)
        elif cons in ("sum", "product", "bitand", "bitor"):
            stmts.append(("set", "r", ("post", cons, cur)))
            acc = {"sum": 0, "product": 1, "bitand": -1, "bitor": 0}[cons]
            for x in gen:
                acc = {"sum": lambda a, b: wrap(a + b), "product": lambda a, b: wrap(a * b),
                       "bitand": lambda a, b: a & b, "bitor": lambda a, b: a | b}[cons](acc, x)
            exp = "(i %d)" % acc
        elif cons in ("all", "any"):
            thr = r.choice([0, 2, 5])
            f = ("fn", [("e", INT)], BOOL, [logt(30, V("e")), ("return", ("bin", "gt", V("e"), I(thr)))])
            stmts.append(("set", "r", ("post", cons, ("bin", "map", cur, f))))
            res = cons == "all"
            for x in gen:
                self.log.append((30, x))
                b = x > thr
                if cons == "all" and not b:
                    res = False
                    break
                if cons == "any" and b:
                    res = True
                    break
            exp = "true" if res else "false"
        elif cons == "reduce":
            init = r.choice([0, 1, 100])
            g = ("fn", [("a", INT), ("c", INT)], INT, [logt(31, V("c")), ("return", ("bin", "sub", ("bin", "mul", V("a"), I(3)), V("c")))])
            stmts.append(("set", "r", ("reduce", cur, I(init), g)))
            acc = init
            for x in gen:
                self.log.append((31, x))
                acc = wrap(acc * 3 - x)
            exp = "(i %d)" % acc
        elif cons == "partition":
            p = ("fn", [("e", INT)], BOOL, [logt(32, V("e")), ("return", ("bin", "ge", V("e"), I(3)))])
            stmts.append(("set", "r", ("bin", "partition", cur, p)))
            l, rr = [], []
            for x in gen:
                self.log.append((32, x))
                (l if x >= 3 else rr).append(x)
            exp = "(tup (arr%s) (arr%s))" % ("".join(" (i %d)" % x for x in l), "".join(" (i %d)" % x for x in rr))
        elif cons == "for":
            stmts.append(("set", "acc", ("mut", INT, I(0))))
            stmts.append(("for", "x", cur, ("block", [logt(33, V("x")), ("assign", "add", V("acc"), V("x"))])))
            stmts.append(("set", "r", D(V("acc"))))
            acc = 0
            for x in gen:
                self.log.append((33, x))
                acc = wrap(acc + x)
            exp = "(i %d)" % acc
        else:
            # pull by hand past the end: every pull after exhaustion still reports `false`
            pulls = n + 3 if nst == 0 else 8
            stmts.append(("set", "flags", ("mut", arr(ANY), ("array", []))))
            for _ in range(pulls):
                stmts.append(("assign", "add", V("flags"), ("array", [("tacc", ("call", cur, []), 0)])))
            stmts.append(("set", "r", D(V("flags"))))
            exp = None
        stmts.append(("tuple", [V("r"), D(V("log"))]))
        self.expected_value = exp
        self.expected_log = "(arr%s)" % "".join(" (tup (i %d) (i %d))" % e for e in self.log) if exp is not None else None
        self.has_tfilter = any(s[0] == "set" and isinstance(s[2], tuple) and s[2][0] == "tfilter" for s in stmts)
        return stmts


def repeated_templates():
    """the same `a~` expression evaluated several times: every evaluation starts a fresh enumeration,
    whether the array is a literal, a captured constant, or built at run time"""
    out = []
    arrs = {"lit": ("array", [I(1), I(2), I(3)]), "empty": ("repeat", I(0), I(0)), "one": ("array", [I(7)])}
    consumers = {
        "collect": lambda it: ("post", "collect", it), "sum": lambda it: ("post", "sum", it), "product": lambda it: ("post", "product", it),
        "bitand": lambda it: ("post", "bitand", it), "bitor": lambda it: ("post", "bitor", it),
        "reduce": lambda it: ("reduce", it, I(100), ("fn", [("a", INT), ("c", INT)], INT, [("return", ("bin", "sub", V("a"), V("c")))])),
        "map": lambda it: ("post", "collect", ("bin", "map", it, ("fn", [("e", INT)], INT, [("return", ("bin", "mul", V("e"), I(2)))]))),
        "filter": lambda it: ("post", "collect", ("bin", "filter", it, ("fn", [("e", INT)], BOOL, [("return", ("bin", "gt", V("e"), I(1)))]))),
        "tfilter": lambda it: ("post", "collect", ("tfilter", it, INT)),
        "partition": lambda it: ("bin", "partition", it, ("fn", [("e", INT)], BOOL, [("return", ("bin", "gt", V("e"), I(1)))])),
        "pull": lambda it: ("call", it, []),
    }
    for an, ae in arrs.items():
        for cn, c in consumers.items():
            rt = ANY
            # (1) inside a function called three times
            out.append([("fndecl", "f", [], rt, [("return", c(("post", "iter", ae)))]),
                        ("tuple", [("call", V("f"), []), ("call", V("f"), []), ("call", V("f"), [])])])
            # (2) a captured constant array
            out.append([("set", "a", ae), ("fndecl", "g", [], rt, [("return", c(("post", "iter", V("a"))))]),
                        ("tuple", [("call", V("g"), []), ("call", V("g"), [])])])
            # (3) in a loop body, results appended to a log
            out.append([("set", "log", ("mut", arr(ANY), ("array", []))), ("set", "k", ("mut", INT, I(0))),
                        ("while", ("bin", "lt", D(V("k")), I(3)),
                         ("block", [("assign", "add", V("log"), ("array", [c(("post", "iter", ae))])), ("assign", "add", V("k"), I(1))])),
                        D(V("log"))])
            # (4) in a for body nested in a for over the same literal
            out.append([("set", "log", ("mut", arr(ANY), ("array", []))),
                        ("for", "i", ("post", "iter", ae), ("block", [("for", "j", ("post", "iter", ae), ("block", [
                            ("assign", "add", V("log"), ("array", [("tuple", [V("i"), V("j"), c(("post", "iter", ae))])]))]))])),
                        D(V("log"))])
    return out


def run(res, tier, seed, broken_model):
    rnd = random.Random(seed)
    reps = repeated_templates()
    rrecs = P.run_programs(reps, broken_model=broken_model)
    res.streams["repeated-evaluation"] = dict(programs=len(reps))
    progprop.judge(res, rrecs, broken_model, label="repeated", ntemplates=len(rrecs))
    n = 500 if tier == "quick" else 15000
    pipes, progs = [], []
    for _ in range(n):
        p = Pipe(rnd)
        progs.append(p.build())
        pipes.append(p)
    recs = P.run_programs(progs, broken_model=broken_model)
    res.streams["pipelines"] = dict(programs=len(progs))
    good = progprop.judge(res, recs, broken_model, label="pipes")
    goodset = set(id(r) for r in good)
    for p, r in zip(pipes, recs):
        res.count("consumer:" + p.consumer)
        if id(r) not in goodset or p.expected_value is None or not r.ivalue or not r.ivalue.startswith("(tup"):
            continue
        s = strip_tags(sexp_parse(r.ivalue))
        got_v, got_log = sexp_str(s[1]), sexp_str(s[2])
        if got_v != p.expected_value or got_log != p.expected_log:
            res.violation("pipeline result differs from its sequence definition: `%s`: got %s log %s, list semantics give %s log %s" %
                          (r.src[:400], got_v, got_log[:200], p.expected_value, p.expected_log[:200]),
                          dict(program=r.src, flags=r.flags, impl=r.impl, expected=p.expected_value, expected_log=p.expected_log, model=r.model),
                          dict(oracle="list-semantics", consumer=p.consumer))
        else:
            res.count("list-oracle-agree")
    for r in recs[:3]:
        res.samples.append(dict(program=r.src[:600], impl=r.impl[:300], model=r.model[:200]))
    res.rule = ("pipelines: element sequences of length 0..6 x {array-derived, user-written counter, user-written over a captured "
                "cell} sources (user sources log every pull) x 0..3 lazy stages (@ f, ? p, ? int; callbacks log their argument) x "
                "11 consumers ($], $+, $*, $&, $|, $&&, $||, $ init f, \\\\ p, for, manual pulls past the end); value and log are "
                "compared with Spec and with an independent Python simulation of list semantics; + 132 templates evaluating one `a~` "
                "expression repeatedly (function called 3 times, captured constant array, loop body, nested for) under 11 consumers, "
                "vs. Spec; non-trivial = distinct accepted pipeline")
