"""C01 — type soundness.  Proof: SslModel.Thm.C01 (stage 1: value-in-type membership, soundness of
the subtype relation for first-order values, union / array membership, typing of scalar operators,
indexing).  Decision for the running code: the in-crate monitor (cargo feature `verif`) compares the
result of EVERY executed instruction with that instruction's own return_type(), by run-time tag and
by contents recursively; plus Code::return_type() vs. the final value; on generated programs, iterator
pipelines pulled past exhaustion, and host calls of yielded functions with admissible arguments."""
import random
import re

import progprop
import progstream as P
from gen import ast as A
from gen import types as T
from gen.programs import INT, BOOL, STR, FLOAT, VOID, tup, fn, iter_of, arr, cell, multi
from props import c11, c13
from vlib import esc_field, harness_run, sexp_parse, sexp_str

THM_MODULES = ["SslModel.Thm.C01", "SslModel.Thm.C01Eval", "SslModel.Thm.C01Fn", "SslModel.Thm.C01StA", "SslModel.Thm.C01StB", "SslModel.Thm.C01StU", "SslModel.Thm.C01StS", "SslModel.Thm.C01StC", "SslModel.Thm.C01StD", "SslModel.Thm.C01Fold"]
TRANSLATE_PARTS = ["scalar", "errors"]
ANY = ("any",)


def monitor_oracle(res, recs, label):
    for r in recs:
        if r.status.startswith("rejected") or r.status in ("parse-panic", "impl-crash"):
            continue
        cls = progprop.root_class(r)
        if cls is not None:
            u = r.unsound[0]
            res.count("monitor:" + cls.split("/")[0])
            res.violation("an executed instruction produced a value outside its static type: %s in `%s`" %
                          (sexp_str(u)[:300], r.src[:300]),
                          dict(program=r.src, flags=r.flags, impl=r.impl), dict(oracle="monitor", rootcls=cls))
        elif "(value " in r.impl and ("tag=0" in r.impl or "content=0" in r.impl or "tags=0" in r.impl):
            res.violation("the final value is outside the program's static type %s: `%s` -> %s" % (r.static, r.src[:300], r.impl[:300]),
                          dict(program=r.src, flags=r.flags, impl=r.impl), dict(oracle="final-type", cls=str(r.static)[:40]))
        if r.observed:
            res.count("instructions-judged", r.observed)


def arg_for(rnd, t):
    return c13.value_of(rnd, t) if t[0] in ("int", "float", "str", "bool", "arr", "multi", "any", "void") else None


FN_SIGS = [
    ([INT], INT, ("bin", "add", ("id", "p0"), ("i", 1))),
    ([INT, STR], STR, ("bin", "add", ("id", "p1"), ("s", "!"))),
    ([arr(INT)], INT, ("post", "sum", ("post", "iter", ("id", "p0")))),
    ([arr(ANY)], ANY, ("at", ("id", "p0"), ("i", 0))),
    ([multi(INT, STR)], multi(INT, STR), ("id", "p0")),
    ([multi(INT, STR)], INT, ("match", ("id", "p0"), [("ty", "a", INT, ("block", [("id", "a")])), ("ty", "b", STR, ("block", [("call", ("facc", ("id", "std"), "len"), [("id", "b")])]))])),
    ([ANY], BOOL, ("bin", "eq", ("id", "p0"), ("id", "p0"))),
    ([], arr(INT), ("array", [("i", 1)])),
    ([BOOL, INT, INT], INT, ("block", [("set", "r", ("if", ("id", "p0"), ("block", [("id", "p1")]), ("block", [("id", "p2")]))), ("id", "r")])),
    ([arr(INT), INT], arr(INT), ("slice", ("id", "p0"), ("id", "p1"), None, None)),
    ([FLOAT, FLOAT], BOOL, ("bin", "lt", ("id", "p0"), ("id", "p1"))),
]


def host_calls(res, rnd, n, broken_model, prop):
    """functions called through Function::create_call with admissible and inadmissible argument vectors"""
    lines, metas = [], []
    for _ in range(n):
        ps, ret, body = rnd.choice(FN_SIGS)
        params = [("p%d" % i, t) for i, t in enumerate(ps)]
        fbody = [("return", body)] if body[0] != "block" else body[1][:-1] + [("return", body[1][-1])]
        fsrc = A.src(("fn", params, ret, fbody))
        good = [c13.value_of(rnd, t) for t in ps]
        variants = [("ok", good)]
        if ps:
            bad = list(good)
            j = rnd.randrange(len(ps))
            wrongs = [x for x in (INT, STR, BOOL, FLOAT) if not subtype_guess(x, ps[j])]
            if wrongs:
                bad[j] = c13.value_of(rnd, rnd.choice(wrongs))
                variants.append(("bad-type", bad))
        variants.append(("bad-arity", good + [("i", 1)]))
        if ps:
            variants.append(("bad-arity", good[:-1]))
        # a third of the functions are DECLARED under the name of their own first parameter (`p0 := (p0: T, ..) ..`):
        # the parameter shadows the function's name on every call path
        declared = rnd.random() < 0.34
        for kind, args in variants:
            asrc = A.src(("array", args))
            fexpr = "p0 := %s; p0" % fsrc if declared else fsrc
            lines.append("call\tstd\t%s\t%s" % (esc_field(fexpr), esc_field(asrc)))
            # the same call written in the language
            inlang = ("p0 := %s; p0(%s)" if declared else "f := %s; f(%s)") % (fsrc, ", ".join(A.src(a) for a in args))
            lines.append("prog\tstd\t" + esc_field(inlang))
            metas.append((kind, fexpr, asrc, inlang))
    out = harness_run(lines)
    res.streams["host-calls"] = dict(calls=len(metas))
    for k, m in enumerate(metas):
        kind, fsrc, asrc, inlang = m
        host, lang = out[2 * k], out[2 * k + 1]
        res.evaluations += 1
        res.count("host:" + kind)
        hs, ls = sexp_parse(host), sexp_parse(lang)
        haccept = isinstance(hs, list) and hs and hs[0] == "call-accepted"
        laccept = isinstance(ls, list) and ls and ls[0] == "accepted"
        res.nontrivial.add((fsrc, asrc))
        if prop == "C17" and haccept != laccept:
            res.violation("host call and in-language call disagree on admissibility: `%s` args `%s`: host %s, language %s" % (fsrc, asrc, host[:120], lang[:120]),
                          dict(function=fsrc, args=asrc, host=host, program=inlang, flags="std", lang=lang), dict(oracle="host-admissibility", cls=kind))
        if kind == "ok" and not haccept and prop in ("C17", "C02"):
            res.violation("admissible host call rejected or failed: `%s` args `%s`: %s" % (fsrc, asrc, host[:200]),
                          dict(function=fsrc, args=asrc, host=host), dict(oracle="host-call", cls=host[:30]))
        if kind != "ok" and haccept and prop in ("C17", "C02"):
            res.violation("inadmissible host call accepted: `%s` args `%s`: %s" % (fsrc, asrc, host[:200]),
                          dict(function=fsrc, args=asrc, host=host), dict(oracle="host-call", cls="accepted-" + kind))
        if haccept:
            if "(panic" in host and prop == "C02":
                res.violation("host call panics: `%s` args `%s`: %s" % (fsrc, asrc, host[:200]),
                              dict(function=fsrc, args=asrc, host=host), dict(oracle="panic", root="host:" + host[:60]))
            if prop == "C01" and ("(unsound" in host or "tag=0" in host or "content=0" in host):
                res.violation("host call result / instruction outside its static type: `%s` args `%s`: %s" % (fsrc, asrc, host[:300]),
                              dict(function=fsrc, args=asrc, host=host), dict(oracle="monitor", rootcls="host-call"))
            if prop == "C17" and laccept:
                # same outcome through both routes
                hv = sexp_str(hs[3]) if len(hs) > 3 else ""
                lv = sexp_str(ls[2]) if len(ls) > 2 else ""
                if hv.split(" tag=")[0] != lv.split(" tag=")[0]:
                    res.violation("host call and in-language call give different results: `%s` args `%s`: %s vs %s" % (fsrc, asrc, hv[:120], lv[:120]),
                                  dict(function=fsrc, args=asrc, host=host, lang=lang), dict(oracle="host-result", cls=kind))
            res.traces_validated += 1
    if metas:
        res.samples.append(dict(function=metas[0][1], args=metas[0][2], host=out[0][:200], in_language=out[1][:200]))


def subtype_guess(a, b):
    """conservative: could a value of type a be admitted by parameter type b?"""
    if b == ANY or a == b:
        return True
    if b[0] == "multi":
        return any(subtype_guess(a, m) for m in b[1])
    if a[0] == "arr" and b[0] == "arr":
        return subtype_guess(a[1], b[1]) or True     # empty arrays are in every array type
    return False


MONITOR_ONLY = 0


def edge_templates():
    """results that come from the 'other' source of an operator: the initial value of a reduce over an
    empty iterator, the unit of a built-in reducer, the missing else, the arm of another type"""
    I = lambda n: ("i", n)
    V = lambda x: ("id", x)
    out = []
    inits = [(("s", "none"), multi(INT, STR)), (("unit",), ANY), (("f", 1.5), multi(INT, FLOAT)), (I(0), INT), (("array", [I(1)]), multi(INT, arr(INT)))]
    sources = [("repeat", I(0), I(0)), ("array", []), ("array", [I(4)]), ("array", [I(4), I(5)]),
               ("slice", ("array", [I(1), I(2)]), I(5), None, None)]
    for init, acc_t in inits:
        for srcv in sources:
            f = ("fn", [("acc", acc_t), ("x", INT)], INT, [("return", V("x"))])
            out.append([("set", "r", ("reduce", ("post", "iter", srcv), init, f)), V("r")])
            # the same inside a function, through a parameter (nothing folds), result bound and returned
            out.append([("fndecl", "g", [("a", arr(INT))], ANY, [("set", "r", ("reduce", ("post", "iter", V("a")), init, f)), ("return", V("r"))]),
                        ("tuple", [("call", V("g"), [("repeat", I(0), I(0))]), ("call", V("g"), [("array", [I(9)])])])])
            # an exhausted iterator reduced a second time
            out.append([("set", "it", ("post", "iter", srcv)), ("set", "r0", ("post", "collect", V("it"))),
                        ("set", "r", ("reduce", V("it"), init, f)), ("tuple", [V("r0"), V("r")])])
    for op in ("sum", "product", "all", "any", "bitand", "bitor", "collect"):
        for srcv in sources[:3]:
            e = srcv if op not in ("all", "any") else ("repeat", ("true",), I(0))
            out.append([("fndecl", "g", [("a", arr(INT) if op not in ("all", "any") else arr(BOOL))], ANY, [("return", ("post", op, ("post", "iter", V("a"))))]),
                        ("call", V("g"), [e])])
    # the iterator of an empty array literal (element type `!`) handed over at a wider iterator type, then reduced.
    # The untyped reference semantics picks the unit of $+ / $* by the iterator's run-time type (int); the
    # implementation uses the static element type: these programs are judged by the monitor only (MONITOR_ONLY)
    global MONITOR_ONLY
    MONITOR_ONLY = len(out)
    for elem, ops_ in ((STR, ("sum",)), (FLOAT, ("sum", "product")), (INT, ("sum", "product", "bitand", "bitor")), (BOOL, ("all", "any"))):
        for op in ops_:
            out.append([("fndecl", "f", [], fn((), tup(BOOL, elem)), [("return", ("post", "iter", ("array", [])))]),
                        ("post", op, ("call", V("f"), []))])
            out.append([("fndecl", "g", [("it", fn((), tup(BOOL, elem)))], ANY, [("return", ("post", op, V("it")))]),
                        ("call", V("g"), [("post", "iter", ("array", []))])])
    # hand-written iterators whose DECLARED result is a union of pair types (not a pair of a union): every operator that
    # builds a new iterator on top must give it a tag that still matches the static type of the expression
    UIT = fn((), multi(tup(BOOL, INT), tup(BOOL, STR)))
    mk_src = [("set", "n", ("mut", INT, I(0))),
              ("fndecl", "src", [], multi(tup(BOOL, INT), tup(BOOL, STR)),
               [("assign", "add", V("n"), I(1)),
                ("if", ("bin", "eq", ("pre", "deref", V("n")), I(1)), ("block", [("return", ("tuple", [("true",), I(7)]))]), None),
                ("if", ("bin", "eq", ("pre", "deref", V("n")), I(2)), ("block", [("return", ("tuple", [("true",), ("s", "x")]))]), None),
                ("return", ("tuple", [("false",), I(0)]))])]
    US = multi(INT, STR)
    built = {
        "filter": ("bin", "filter", V("src"), ("fn", [("v", US)], BOOL, [("return", ("true",))])),
        "map": ("bin", "map", V("src"), ("fn", [("v", US)], US, [("return", V("v"))])),
        "tfilter": ("tfilter", V("src"), INT),
        "filter-filter": ("bin", "filter", ("bin", "filter", V("src"), ("fn", [("v", US)], BOOL, [("return", ("true",))])), ("fn", [("v", US)], BOOL, [("return", ("true",))])),
    }
    for nm, e in built.items():
        out.append(mk_src + [("set", "it", e), ("set", "first", ("call", V("it"), [])), ("tuple", [V("first"), ("post", "collect", V("it"))])])
        out.append(mk_src + [("fndecl", "use", [("k", UIT)], ANY, [("return", ("post", "collect", V("k")))]), ("set", "it", e),
                             ("ifset", "k", UIT, V("it"), ("block", [("call", V("use"), [V("k")])]), ("block", [("s", "not an iterator of the static type")]))])
    for e in (("post", "collect", V("src")), ("bin", "partition", V("src"), ("fn", [("v", US)], BOOL, [("return", ("true",))])),
              ("reduce", V("src"), I(0), ("fn", [("a", INT), ("v", US)], INT, [("return", ("bin", "add", V("a"), I(1)))]))):
        out.append(mk_src + [e])
    tail = []
    for c in (("true",), ("false",)):
        tail.append([("fndecl", "hb", [("v", BOOL)], BOOL, [("return", V("v"))]), ("set", "r", ("if", ("call", V("hb"), [c]), ("block", [I(1)]), None)), V("r")])
        tail.append([("fndecl", "hb", [("v", BOOL)], BOOL, [("return", V("v"))]),
                     ("set", "r", ("if", ("call", V("hb"), [c]), ("block", [I(1)]), ("block", [("s", "x")]))), V("r")])
    # `+` / `+=` on arrays whose element types differ, one a subtype of the other: the result's stored element type must
    # cover both operands' elements (in either order, constant and computed), also after a run-time type test
    S_ = lambda x: ("s", x)
    F_ = lambda x: ("f", x)
    pairs = [(("array", [I(1)]), ("array", [I(2), S_("a")])), (("array", [("array", [])]), ("array", [("array", [I(1)])])),
             (("array", [I(1)]), ("array", [I(3), F_(2.5)])), (("array", [("tuple", [I(1), I(2)])]), ("array", [("tuple", [I(1), S_("b")]), ("tuple", [I(0), I(0)])]))]
    opq = lambda e: ("pre", "deref", ("mut", None, e))
    for a, b in pairs:
        for l, r in ((a, b), (b, a)):
            tail.append([("set", "x", ("bin", "add", l, r)), V("x")])
            tail.append([("set", "l", opq(l)), ("set", "r", opq(r)), ("set", "x", ("bin", "add", V("l"), V("r"))), V("x")])
            tail.append([("set", "l", opq(l)), ("set", "r", opq(r)), ("set", "x", ("bin", "add", V("l"), V("r"))),
                         ("set", "y", ("match", V("x"), [("ty", "ints", arr(INT), ("block", [("bin", "mul", ("at", V("ints"), I(-1)), I(2))])),
                                                         ("other", ("block", [I(0)]))])), ("tuple", [V("x"), V("y")])])
            tail.append([("set", "l", opq(l)), ("set", "c", ("mut", None, r)), ("assign", "add", V("c"), V("l")), ("pre", "deref", V("c"))])
            tail.append([("set", "l", opq(l)), ("set", "r", opq(r)), ("fndecl", "cat", [("p", arr(ANY)), ("q", arr(ANY))], arr(ANY), [("return", ("bin", "add", V("p"), V("q")))]),
                         ("call", V("cat"), [V("l"), V("r")])])
    # type arms / if-set binders that ask for a struct type RELATED to the scrutinee's by width or depth subtyping (fewer
    # fields, a wider field type), next to arms of another result type: the arm that runs must be part of the static type
    SA, SAB, SAW = ("struct", (("a", INT),)), ("struct", (("a", INT), ("b", FLOAT))), ("struct", (("a", multi(INT, FLOAT)),))
    sab = ("struct", [("a", I(1)), ("b", F_(2.5))])
    for sty, sval in ((SAB, sab), (multi(SAB, STR), sab), (SA, ("struct", [("a", I(1))])), (multi(SAB, INT), sab)):
        ids = ("fndecl", "ids", [("v", sty)], sty, [("return", V("v"))])
        for aty in (SA, SAW, SAB):
            arm = ("ty", "x", aty, ("block", [("facc", V("x"), "a")]))
            tail.append([ids, ("set", "s", ("call", V("ids"), [sval])), ("set", "r", ("match", V("s"), [arm, ("other", ("block", [S_("no")]))])), V("r")])
            tail.append([ids, ("set", "s", ("call", V("ids"), [sval])), ("set", "r", ("match", V("s"), [("val", [sval], ("block", [S_("v")])), arm, ("other", ("block", [("unit",)]))])), V("r")])
            tail.append([ids, ("set", "s", ("call", V("ids"), [sval])), ("set", "r", ("ifset", "x", aty, V("s"), ("block", [("facc", V("x"), "a")]), ("block", [S_("no")]))), V("r")])
            tail.append([("fndecl", "g", [("s", sty)], ANY, [("return", ("match", V("s"), [arm, ("other", ("block", [S_("no")]))]))]), ("call", V("g"), [sval])])
            tail.append([("set", "s", sval), ("set", "r", ("match", V("s"), [arm, ("other", ("block", [S_("no")]))])), V("r")])
    # every built-in consumer over the EMPTY iterator `[]~` (and over a one-element one) handed over at a static type that is a
    # UNION of iterator types, or an iterator of a union: the unit / default the consumer makes up must lie in the static type
    from gen.programs import iter_of as _iter_of
    for els in ((INT, FLOAT), (FLOAT, STR), (INT, STR), (INT, FLOAT, STR), (BOOL, INT), (STR, arr(INT)), (FLOAT, INT)):
        for ity in (multi(*[_iter_of(e) for e in els]), _iter_of(multi(*els))):
            for op in ("sum", "product", "bitand", "bitor", "all", "any", "collect"):
                empty = ("post", "iter", ("array", []))
                out.append([("fndecl", "f", [], ity, [("return", empty)]), ("set", "r", ("post", op, ("call", V("f"), []))), V("r")])
                out.append([("fndecl", "g", [("it", ity)], ANY, [("set", "r", ("post", op, V("it"))), ("return", V("r"))]), ("call", V("g"), [empty])])
                out.append([("fndecl", "f", [("k", INT)], ity, [("return", ("at", ("array", [empty, empty]), V("k")))]),
                            ("set", "r", ("post", op, ("call", V("f"), [I(1)]))), V("r")])
    mon = out[MONITOR_ONLY:]
    return out[:MONITOR_ONLY] + tail, mon


def fragment_types(res, rnd, n, broken_model, functions=False, stores=False):
    """the checker model (SslModel.Model.Check, what Thm/C01Eval is about) against the implementation: programs of the
    first-order fragment over opaque free variables; same verdict (typed / rejected) and, when typed, the same static type"""
    from gen import fragment as FR
    from vlib import driver_run
    label = "fragment-st" if stores else ("fragment-fn" if functions else "fragment")
    free = FR.FREE_S if stores else FR.FREE
    if stores:
        g = FR.GenS(rnd)
        bodies = [g.sprogram(rnd.choice([1, 2, 3, 3]), rnd.choice([0.0, 0.05, 0.12])) for _ in range(n)]
    elif functions:
        g = FR.GenF(rnd)
        bodies = [g.fprogram(rnd.choice([1, 2, 3, 3]), rnd.choice([0.0, 0.05, 0.12])) for _ in range(n)]
    else:
        g = FR.Gen(rnd)
        bodies = [g.program(rnd.choice([1, 2, 2, 3])) for _ in range(n // 4)] + \
            [g.typed_program(rnd.choice([1, 2, 3, 3]), rnd.choice([0.0, 0.05, 0.15])) for _ in range(n - n // 4)]
    bodies = [FR.normal(b) for b in bodies]      # control-flow constructs stand in statement positions only
    pre = FR.prelude_s() if stores else FR.prelude()
    impl = harness_run(["prog\tnoexec\t" + esc_field(A.program_src(pre + b)) for b in bodies])
    if broken_model:
        res.streams[label + "-types"] = dict(programs=n, compared=0)
        return
    binds = " ".join("(%s %s)" % (nm, T.canon(t)) for nm, t, _ in free)
    model = driver_run(["%s (%s) %s" % ("tyofs" if stores else ("tyoff" if functions else "tyof"), binds, A.program_sexp(b)) for b in bodies])
    rel, relmeta = [], []
    stats = dict(ok=0, ill=0, unsup=0)
    for b, il, ml in zip(bodies, impl, model):
        res.evaluations += 1
        src = A.program_src(b)
        si, sm = sexp_parse(il), sexp_parse(ml)
        verdict = sm[0] if isinstance(sm, list) and sm else str(sm)
        if verdict not in ("ok", "ill", "unsup"):
            res.broken.append("correspondence:checker model could not read `%s`: %s" % (src[:200], ml[:100]))
            res.disagreements_checked += 1
            continue
        stats[verdict] += 1
        res.count(label + ":" + verdict)
        if verdict != "unsup":
            if "match " in src:
                res.count("%s:%s:with-match" % (label, verdict))
            if re.search(r"if \w+: ", src):
                res.count("%s:%s:with-if-set" % (label, verdict))
            for tag, pat in (("for", r"\bfor \w+ in "), ("destructuring", r"\(\w+(, \w+)*\) := "), ("loop", r"\b(loop|while) "),
                             ("cell-write", r"\bc\w \S*= "), ("union-index", r"\bpua\["), ("union-tuple-access", r"\bput\.\d"),
                             ("union-deref", r"\*puc\b"), ("union-call", r"\bpu[fgm]\("), ("union-assign", r"\bpuc = "), ("collect", r"\$\]"), ("union-slice", r"\bpua\[[^\]]*:"), ("struct-literal", r"\bstruct\{"), ("field-access", r"\.[a-z]\b"),
                             ("union-field-access", r"\bpsu\.a\b"), ("union-destructuring", r"\) := pu[qt]\b")):
                if stores and re.search(pat, src):
                    res.count("%s:%s:with-%s" % (label, verdict, tag))
        if verdict == "unsup":
            continue
        accepted = isinstance(si, list) and si and si[0] == "accepted"
        rejected = isinstance(si, list) and si and si[0] == "rejected"
        if rejected and si[1:] == ["Parsing"]:
            res.count(label + ":unparsable")
            res.disagreements_checked += 1
            res.broken.append("correspondence:generated fragment program does not parse: `%s`" % src[:300])
            continue
        if rejected and len(si) == 2 and si[1] in ("IndexOutOfBounds", "NegativeLength", "NegativeExponent", "ZeroDivision", "ZeroModulo", "OverflowShift"):
            # an operation with a constant operand that must fail when evaluated is reported while parsing
            # (e.g. `x >> (-1)`, `x / 0`): outside what the checker model describes
            res.count(label + ":parse-time-exec-error")
            continue
        if not (accepted or rejected):
            res.violation("implementation crashed / panicked on a fragment program `%s`: %s" % (src[:300], il[:200]),
                          dict(program=A.program_src(pre + b), impl=il), dict(oracle="crash", cls=il[:20]))
            continue
        res.nontrivial.add(src)
        if verdict == "ill" and accepted:
            res.disagreements_checked += 1
            res.broken.append("correspondence:checker model rejects `%s`, implementation types it %s" % (src[:300], sexp_str(si[1])[:100]))
        elif verdict == "ok" and rejected:
            res.disagreements_checked += 1
            res.broken.append("correspondence:checker model types `%s` as %s, implementation rejects it: %s" % (src[:300], sexp_str(sm[1])[:100], il[:120]))
        elif verdict == "ok":
            rel.append("ty rel %s %s" % (sexp_str(si[1]), sexp_str(sm[1]))); relmeta.append((src, sexp_str(si[1]), sexp_str(sm[1])))
        else:
            res.traces_validated += 1
    for (src, ti, tm), out in zip(relmeta, driver_run(rel)):
        if out.startswith("eq=1"):
            res.traces_validated += 1
        else:
            res.disagreements_checked += 1
            res.broken.append("correspondence:static type of `%s`: implementation %s, checker model %s" % (src[:300], ti[:120], tm[:120]))
    res.streams[label + "-types"] = dict(programs=n, **stats)


def fold_types(res, seed, n, broken_model):
    """the checker model COMPOSED with the folding model against the implementation, on programs full of constants: the
    implementation checks the program as written, folds it, and reports the static type of the result; the models answer the
    verdict of `CheckS` on the program as written and the type `CheckS` assigns to what `Fold` answers (driver `tyfold`).
    This carries the checker-model tie - elsewhere established on programs with nothing to fold - over to programs with
    constants, and gives the chain: implementation type = tyS (fold p); value = Spec p = Spec (fold p) (Thm/C04Fold); which
    lies in tyS (fold p) (eval_outcome)."""
    from gen import foldgen
    from vlib import driver_run
    progs = foldgen.generate(seed + 9, n, typed_mut=True, allow_for=False)
    st = dict(programs=len(progs), same_type=0, same_rejection=0, parse_time_error=0, outside_fragment=0, size_exhaustion=0)
    impl = harness_run(["prog\tnoexec\t" + esc_field(A.program_src(p)) for p in progs])
    if broken_model:
        res.streams["fold-types"] = dict(st, note="model not built")
        return
    model = driver_run(["tyfold " + A.program_sexp(p) for p in progs])
    rel, relmeta = [], []
    bysrc = {}
    for p, il, ml in zip(progs, impl, model):
        res.evaluations += 1
        src = A.program_src(p)
        bysrc[src] = p
        si, sm = sexp_parse(il), sexp_parse(ml)
        if not (isinstance(sm, list) and len(sm) == 3 and sm[0] == "tyfold"):
            res.broken.append("correspondence:fold-types: the models could not read `%s`: %s" % (src[:200], ml[:100]))
            continue
        v0, v1 = sm[1], sm[2]
        if not isinstance(si, list) or not si:
            continue
        if si[0] == "parse-panic" and "library/alloc" in il:
            st["size_exhaustion"] += 1          # `[v; MAX]` folded: outside the property
            continue
        if v0[0] == "unsup" or v1[0] in ("unsup", "fold-unsup"):
            st["outside_fragment"] += 1
            continue
        if si[0] == "rejected" and len(si) == 2 and si[1] in ("IndexOutOfBounds", "NegativeLength", "ZeroDivision", "ZeroModulo", "OverflowShift"):
            st["parse_time_error"] += 1         # compared by C04's fold-model stream
            continue
        if si[0] == "rejected":
            if v0[0] == "ill":
                st["same_rejection"] += 1
                res.traces_validated += 1
            else:
                res.broken.append("correspondence:fold-types: the checker model types `%s` as written, the implementation rejects it: %s" % (src[:300], il[:100]))
            continue
        if si[0] != "accepted":
            res.violation("implementation crashed / panicked on a fragment program `%s`: %s" % (src[:300], il[:200]), dict(program=src, impl=il),
                          dict(oracle="crash", cls=il[:20]))
            continue
        res.nontrivial.add(("fold-types", src))
        if v0[0] != "ok" or v1[0] != "ok":
            res.broken.append("correspondence:fold-types: the implementation types `%s` as %s; checker model on the program as written: %s, on the folded program: %s"
                              % (src[:300], sexp_str(si[1])[:80], sexp_str(v0)[:60], sexp_str(v1)[:60]))
            continue
        rel.append("ty rel %s %s" % (sexp_str(si[1]), sexp_str(v1[1])))
        relmeta.append((src, sexp_str(si[1]), sexp_str(v1[1])))
    for (src, ti, tm), out in zip(relmeta, driver_run(rel)):
        if out.startswith("eq=1"):
            st["same_type"] += 1
            res.traces_validated += 1
        else:
            res.disagreements_checked += 1
            res.broken.append("correspondence:fold-types: static type of `%s`: implementation %s, checker model on the folded program %s" % (src[:300], ti[:120], tm[:120]))
            st.setdefault("suspects", []).append(src)
    # failing-input search: a program on whose static type the models and the implementation disagree is RUN under the monitor
    suspects = [bysrc[s] for s in st.pop("suspects", [])][:60]
    if suspects:
        srecs = P.run_programs(suspects, flags="", broken_model=True)
        monitor_oracle(res, srecs, "fold-types")
        st["suspects_run"] = len(srecs)
    res.streams["fold-types"] = st


def run(res, tier, seed, broken_model):
    rnd = random.Random(seed)
    fold_types(res, seed, 1200 if tier == "quick" else 30000, broken_model)
    fragment_types(res, random.Random(seed + 3), 3000 if tier == "quick" else 40000, broken_model)
    fragment_types(res, random.Random(seed + 4), 2500 if tier == "quick" else 30000, broken_model, functions=True)
    fragment_types(res, random.Random(seed + 5), 2500 if tier == "quick" else 30000, broken_model, stores=True)
    spec_t, mon_t = edge_templates()
    erecs = P.run_programs(spec_t, broken_model=broken_model)
    mrecs = P.run_programs(mon_t, broken_model=True)
    res.streams["edge-results"] = dict(programs=len(erecs), monitor_only=len(mrecs))
    progprop.judge(res, erecs, broken_model, label="edge", ntemplates=len(erecs))
    monitor_oracle(res, erecs + mrecs, "edge")
    for r in mrecs:
        res.evaluations += 1
        if r.status in ("exec-panic", "parse-panic", "impl-crash"):
            res.violation("accepted program panics / crashes: `%s`: %s" % (r.src[:200], r.impl[:120]), dict(program=r.src, impl=r.impl),
                          dict(oracle="panic", root="edge"))
    feats = dict(mark=0.15)
    recs, good = progprop.stream(res, tier, seed, broken_model, 600, 20000, features=feats, label="programs", depth=3)
    monitor_oracle(res, recs, "programs")
    # iterator pipelines incl. manual pulls past exhaustion
    n = 300 if tier == "quick" else 8000
    pipes = [c11.Pipe(rnd).build() for _ in range(n)]
    precs = P.run_programs(pipes, broken_model=broken_model)
    res.streams["pipelines"] = dict(programs=len(pipes))
    progprop.judge(res, precs, broken_model, label="pipes")
    monitor_oracle(res, precs, "pipes")
    from props import c02
    c02.negative_stream(res, rnd, tier, seed, "C01")
    host_calls(res, rnd, 60 if tier == "quick" else 1500, broken_model, "C01")
    res.rule = ("seeded type-directed programs over the whole statement / expression grammar, iterator pipelines with manual "
                "pulls past exhaustion, and host calls of functions with arguments drawn from their parameter types; every "
                "executed instruction is judged by the in-crate monitor (`instructions-judged` counts them); non-trivial = "
                "distinct accepted program / call that ran")
