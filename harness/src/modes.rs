use crate::canon;
use crate::LAST_PANIC;
use simplesl::variable::{ReturnType, Type, Typed, Variable};
use simplesl::{Code, Interpreter};
use std::panic::{self, AssertUnwindSafe};

pub fn dispatch(f: &[String]) -> String {
    match f[0].as_str() {
        "prog" => prog(&f[1], &f[2]),
        "pratt" => pratt(&f[1]),
        other => format!("(bad-mode {other})"),
    }
}

fn take_panic() -> String {
    LAST_PANIC.lock().unwrap().take().unwrap_or_else(|| "?".into())
}

/// content-based membership of a value in a type (independent of `matches`)
pub fn inhabits(v: &Variable, t: &Type) -> bool {
    match (v, t) {
        (_, Type::Any) => true,
        (_, Type::Never) => false,
        (_, Type::Multi(m)) => m.iter().any(|t| inhabits(v, t)),
        (Variable::Bool(_), Type::Bool) => true,
        (Variable::Int(_), Type::Int) => true,
        (Variable::Float(_), Type::Float) => true,
        (Variable::String(_), Type::String) => true,
        (Variable::Void, Type::Void) => true,
        (Variable::Array(a), Type::Array(e)) => a.iter().all(|x| inhabits(x, e)),
        (Variable::Tuple(vs), Type::Tuple(ts)) => {
            vs.len() == ts.len() && vs.iter().zip(ts.iter()).all(|(v, t)| inhabits(v, t))
        }
        (Variable::Struct(m), Type::Struct(st)) => st
            .0
            .iter()
            .all(|(k, t)| m.get(k).is_some_and(|v| inhabits(v, t))),
        (Variable::Function(f), Type::Function(_)) => f.as_type().matches(t),
        (Variable::Mut(m), Type::Mut(inner)) => {
            canon::ty(&m.var_type) == canon::ty(inner)
                && m.variable.try_read().map(|g| inhabits(&g, inner)).unwrap_or(true)
        }
        _ => false,
    }
}

/// are all stored tags of a value sound (array element tags cover the elements, cell contents
/// inhabit the declared type)?
pub fn tags_sound(v: &Variable) -> bool {
    match v {
        Variable::Array(a) => {
            a.iter().all(|x| inhabits(x, a.element_type()) && tags_sound(x))
        }
        Variable::Tuple(vs) => vs.iter().all(tags_sound),
        Variable::Struct(m) => m.values().all(tags_sound),
        Variable::Mut(m) => m
            .variable
            .try_read()
            .map(|g| inhabits(&g, &m.var_type) && tags_sound(&g))
            .unwrap_or(true),
        _ => true,
    }
}

pub fn run_code(code: &Code) -> String {
    let t = code.return_type();
    let r = panic::catch_unwind(AssertUnwindSafe(|| code.exec()));
    match r {
        Err(_) => format!("(panic {})", take_panic()),
        Ok(Err(e)) => format!("(error {})", canon::exec_error(&e)),
        Ok(Ok(v)) => {
            let tag = v.as_type().matches(&t);
            let content = inhabits(&v, &t);
            let sound = tags_sound(&v);
            format!(
                "(value {} tag={} content={} tags={})",
                canon::value(&v),
                tag as u8,
                content as u8,
                sound as u8
            )
        }
    }
}

fn interpreter_for(flags: &str) -> Interpreter<'static> {
    if flags.split(',').any(|f| f == "std") {
        Interpreter::with_stdlib()
    } else {
        Interpreter::without_stdlib()
    }
}

fn prog(flags: &str, src: &str) -> String {
    let interp = interpreter_for(flags);
    let parsed = panic::catch_unwind(AssertUnwindSafe(|| Code::parse(&interp, src)));
    let code = match parsed {
        Err(_) => return format!("(parse-panic {})", take_panic()),
        Ok(Err(e)) => return format!("(rejected {})", canon::error(&e)),
        Ok(Ok(c)) => c,
    };
    let t = code.return_type();
    format!("(accepted {} {})", canon::ty(&t), run_code(&code))
}


/// run PRATT_PARSER itself (no type checking) on an expression and print the grouping
fn pratt(src: &str) -> String {
    use pest::Parser;
    use simplesl_parser::{PRATT_PARSER, Rule, SimpleSLParser};
    use std::cell::Cell;
    let r = panic::catch_unwind(AssertUnwindSafe(|| {
        let mut pairs = match SimpleSLParser::parse(Rule::expr, src) {
            Ok(p) => p,
            Err(_) => return "(no-parse)".to_string(),
        };
        let pair = pairs.next().unwrap();
        if pair.as_str().len() != src.trim_end().len() {
            return format!("(partial-parse {})", pair.as_str().len());
        }
        let toks: Vec<String> =
            pair.clone().into_inner().map(|p| format!("{:?}", p.as_rule())).collect();
        let n = Cell::new(0usize);
        let tree = PRATT_PARSER
            .map_primary(|p| {
                n.set(n.get() + 1);
                format!("{:?}{}", p.as_rule(), n.get())
            })
            .map_prefix(|op, rhs| format!("({:?} {})", op.as_rule(), rhs))
            .map_infix(|lhs, op, rhs| format!("({} {:?} {})", lhs, op.as_rule(), rhs))
            .map_postfix(|lhs, op| format!("({} {:?})", lhs, op.as_rule()))
            .parse(pair.into_inner());
        format!("[{}] {}", toks.join(" "), tree)
    }));
    match r {
        Ok(s) => s,
        Err(_) => format!("(panic {})", take_panic()),
    }
}
