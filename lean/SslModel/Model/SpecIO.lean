import SslModel.Model.Spec
import SslModel.Model.TyIO
/-! wire format of programs and outcomes (DESIGN Appendix B) -/
namespace Ssl.Spec
open Ssl Sexp

def preOpOf : String → Option PreOp
  | "not" => some .not | "neg" => some .neg | "deref" => some .deref | _ => none

def binOpOf : String → Option BinOp
  | "add" => some .add | "sub" => some .sub | "mul" => some .mul | "div" => some .div
  | "mod" => some .mod | "pow" => some .pow | "eq" => some .eq | "ne" => some .ne
  | "gt" => some .gt | "ge" => some .ge | "lt" => some .lt | "le" => some .le
  | "band" => some .band | "bor" => some .bor | "bxor" => some .bxor | "shl" => some .shl
  | "shr" => some .shr | "filter" => some .filter | "map" => some .map
  | "partition" => some .partition | _ => none

def assignOpOf : String → Option AssignOp
  | "set" => some .set | "add" => some .add | "sub" => some .sub | "mul" => some .mul
  | "div" => some .div | "mod" => some .mod | "pow" => some .pow | "shl" => some .shl
  | "shr" => some .shr | "band" => some .band | "bor" => some .bor | "bxor" => some .bxor
  | _ => none

def postOpOf : String → Option PostOp
  | "sum" => some .sum | "product" => some .product | "all" => some .all | "any" => some .any
  | "bitand" => some .bitand | "bitor" => some .bitor | "collect" => some .collect
  | "iter" => some .iter | _ => none

def parseHex64 (s : String) : Option UInt64 :=
  (s.toList.foldl (fun acc c => match acc, Sexp.hexVal c with
    | some a, some d => some (a * 16 + d)
    | _, _ => none) (some 0)).map UInt64.ofNat

def paramsOf (l : List Sexp) : Option (List (String × Ty)) :=
  l.mapM fun (p : Sexp) => match p with
    | Sexp.list [Sexp.atom x, t] => (Ty.ofSexp t).map fun t => (x, t)
    | _ => none

mutual
partial def exprOf : Sexp → Option Expr
  | .atom "true" => some (.litBool true)
  | .atom "false" => some (.litBool false)
  | .atom "unit" => some .litUnit
  | .atom "break" => some .brk
  | .atom "continue" => some .cont
  | .list [.atom "i", .atom n] => n.toInt?.map .litInt
  | .list [.atom "f", .atom h] => (parseHex64 h).map .litFloat
  | .list [.atom "s", .str s] => some (.litStr s)
  | .list [.atom "id", .atom x] => some (.var x)
  | .list (.atom "array" :: es) => (es.mapM exprOf).map .array
  | .list [.atom "repeat", v, n] => do some (.arrayRepeat (← exprOf v) (← exprOf n))
  | .list (.atom "tuple" :: es) => (es.mapM exprOf).map .tuple
  | .list (.atom "struct" :: fs) =>
    (fs.mapM fun (p : Sexp) => match p with
      | Sexp.list [Sexp.atom k, e] => (exprOf e).map fun e => (k, e)
      | _ => none).map .struct
  | .list [.atom "mut", t, e] => do some (.mutE (some (← Ty.ofSexp t)) (← exprOf e))
  | .list [.atom "mut_", e] => do some (.mutE none (← exprOf e))
  | .list (.atom "fn" :: .list ps :: r :: body) => do
    some (.fn (← paramsOf ps) (← Ty.ofSexp r) (← body.mapM exprOf))
  | .list (.atom "mod" :: body) => (body.mapM exprOf).map .modE
  | .list [.atom "pre", .atom op, e] => do some (.pre (← preOpOf op) (← exprOf e))
  | .list [.atom "bin", .atom op, a, b] => do some (.bin (← binOpOf op) (← exprOf a) (← exprOf b))
  | .list [.atom "and", a, b] => do some (.and (← exprOf a) (← exprOf b))
  | .list [.atom "or", a, b] => do some (.or (← exprOf a) (← exprOf b))
  | .list [.atom "assign", .atom op, a, b] => do
    some (.assign (← assignOpOf op) (← exprOf a) (← exprOf b))
  | .list [.atom "at", a, i] => do some (.at (← exprOf a) (← exprOf i))
  | .list [.atom "slice", a, s, e, st] => do
    some (.slice (← exprOf a) (← optExprOf s) (← optExprOf e) (← optExprOf st))
  | .list (.atom "call" :: g :: args) => do some (.call (← exprOf g) (← args.mapM exprOf))
  | .list [.atom "tacc", e, .atom n] => do some (.tacc (← exprOf e) (← n.toNat?))
  | .list [.atom "facc", e, .atom k] => do some (.facc (← exprOf e) k)
  | .list [.atom "tfilter", e, t] => do some (.tfilter (← exprOf e) (← Ty.ofSexp t))
  | .list [.atom "post", .atom op, e] => do some (.post (← postOpOf op) (← exprOf e))
  | .list [.atom "reduce", it, init, g] => do
    some (.reduce (← exprOf it) (← exprOf init) (← exprOf g))
  | .list [.atom "set", .atom x, e] => do some (.set x (← exprOf e))
  | .list [.atom "destruct", .list xs, e] => do
    let xs ← xs.mapM fun (x : Sexp) => match x with | Sexp.atom x => some x | _ => none
    some (.destruct xs (← exprOf e))
  | .list (.atom "fndecl" :: .atom x :: .list ps :: r :: body) => do
    some (.fndecl x (← paramsOf ps) (← Ty.ofSexp r) (← body.mapM exprOf))
  | .list (.atom "block" :: body) => (body.mapM exprOf).map .block
  | .list [.atom "if", c, t] => do some (.ifElse (← exprOf c) (← exprOf t) none)
  | .list [.atom "if", c, t, e] => do some (.ifElse (← exprOf c) (← exprOf t) (some (← exprOf e)))
  | .list [.atom "ifset", .atom x, t, e, b] => do
    some (.ifSet x (← Ty.ofSexp t) (← exprOf e) (← exprOf b) none)
  | .list [.atom "ifset", .atom x, t, e, b, els] => do
    some (.ifSet x (← Ty.ofSexp t) (← exprOf e) (← exprOf b) (some (← exprOf els)))
  | .list (.atom "match" :: e :: arms) => do some (.matchE (← exprOf e) (← arms.mapM armOf))
  | .list [.atom "return"] => some (.ret none)
  | .list [.atom "return", e] => do some (.ret (some (← exprOf e)))
  | .list [.atom "loop", b] => do some (.loop (← exprOf b))
  | .list [.atom "while", c, b] => do some (.while (← exprOf c) (← exprOf b))
  | .list [.atom "whileset", .atom x, t, e, b] => do
    some (.whileSet x (← Ty.ofSexp t) (← exprOf e) (← exprOf b))
  | .list [.atom "for", .atom x, it, b] => do some (.forE x (← exprOf it) (← exprOf b))
  | _ => none
partial def optExprOf : Sexp → Option (Option Expr)
  | .atom "_" => some none
  | e => (exprOf e).map some
partial def armOf : Sexp → Option Arm
  | .list [.atom "ty", .atom x, t, b] => do some (.ty x (← Ty.ofSexp t) (← exprOf b))
  | .list [.atom "val", .list cs, b] => do some (.val (← cs.mapM exprOf) (← exprOf b))
  | .list [.atom "other", b] => do some (.other (← exprOf b))
  | _ => none
end

def hex16 (n : Nat) : String :=
  String.ofList ((List.range 16).map fun i => Sexp.hexDigit ((n >>> (4 * (15 - i))) % 16))

def floatBits (b : F64) : String :=
  if F64.isNaN b then "7ff8000000000000" else hex16 b.toNat

/-- canonical rendering of a value relative to a store (cell contents are read from it) -/
partial def showVal (st : St) (depth : Nat) : Val → String
  | .bool b => if b then "true" else "false"
  | .int i => s!"(i {i.toInt})"
  | .float f => s!"(f {floatBits f})"
  | .str s => s!"(s {Sexp.quote s})"
  | .unit => "unit"
  | .arr t es => "(arr " ++ t.render ++ String.join (es.map fun e => " " ++ showVal st (depth + 1) e) ++ ")"
  | .tup es => "(tup" ++ String.join (es.map fun e => " " ++ showVal st (depth + 1) e) ++ ")"
  | .struct fs =>
    "(struct" ++ String.join ((Ty.sortStrings (fs.map fun (k, v) => "(" ++ k ++ " " ++ showVal st (depth + 1) v ++ ")")).map
      fun s => " " ++ s) ++ ")"
  | .cell loc t =>
    if depth > 40 then "(deep)" else
    match st.cells[loc]? with
    | some v => "(cell# " ++ t.render ++ " " ++ showVal st (depth + 1) v ++ ")"
    | none => "(cell# " ++ t.render ++ " (dangling))"
  | v@(.fn ..) => "(fn# " ++ v.asType.render ++ ")"

def showSig : Sig → String
  | .brk => "(wrong break-escaped)" | .cont => "(wrong continue-escaped)"
  | .ret _ => "(wrong return-escaped)"
  | .err e => s!"(error {e.name})"
  | .wrong why => "(wrong " ++ Sexp.quote why ++ ")"
  | .fuel => "(fuel)"

/-- the initial environment: `std` with the modelled native functions -/
def nativeFn (name : String) (ps : List (String × Ty)) (r : Ty) : Val :=
  .fn 1 ps r [.native name] [] none

def stdEnv : Frame :=
  [("std", .struct [("len", nativeFn "len" [("variable", .multi [.arr .any, .str])] .int)])]

/-- run a program (statement list) in a fresh interpreter -/
def runProgram (fuel : Nat) (withStd : Bool) (stmts : List Expr) : String :=
  let env : Env := [[], if withStd then stdEnv else []]
  match evalSeq fuel env stmts {} with
  | (.ok (v, _), st) => "(value " ++ showVal st 0 v ++ ")"
  | (.error s, _) => showSig s

/-- the REPL route: every input is run in the environment and store the previous inputs left;
    an input that fails leaves the environment as it was but keeps the store (cells it wrote stay written) -/
def runRepl (fuel : Nat) (withStd : Bool) (names : List String) (chunks : List (List Expr)) : String :=
  let env0 : Env := [[], if withStd then stdEnv else []]
  let rec go (chunks : List (List Expr)) (env : Env) (st : St) (acc : List String) : List String :=
    match chunks with
    | [] => acc.reverse
    | c :: rest =>
      let (res, env', st') := match evalSeq fuel env c st with
        | (.ok (v, env'), st') => ("(value " ++ showVal st' 0 v ++ ")", env', st')
        | (.error s, st') => (showSig s, env, st')
      let vars := names.map fun n => match env'.lookup n with
        | some v => "(" ++ n ++ " " ++ showVal st' 0 v ++ ")"
        | none => "(" ++ n ++ " unbound)"
      go rest env' st' (("(step " ++ res ++ " (vars " ++ " ".intercalate vars ++ "))") :: acc)
  "(repl " ++ " ".intercalate (go chunks env0 {} []) ++ ")"

end Ssl.Spec
