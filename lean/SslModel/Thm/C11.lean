import SslModel.Model.Spec
/-!
# C11 — iterator operators equal their sequence definitions

Theorems about the reference semantics `Spec`, for **any** iterator value — array-derived or
user-written — described only by what its successive pulls return: `Pulls it n σ xs σ'` says that
pulling `it` repeatedly, starting in store `σ`, yields `x₁ … xₙ` (`(true, xᵢ)`), then reports
exhaustion (`(false, _)`), ending in store `σ'` (each pull may change the store: counters, captured
cells).  The eager consumers are then characterised exactly; the lazy ones (`@`, `?`, `? T`, `~`)
are shown to pull nothing when they are created.
-/
namespace Ssl.C11
open Ssl Ssl.Spec

theorem bind_def {α β} (m : M α) (k : α → M β) (σ : St) :
    (m >>= k) σ = (match m σ with
      | (.ok a, σ') => k a σ'
      | (.error e, σ') => (.error e, σ')) := rfl

/-- `it` yields exactly `xs` and is then exhausted; the fuel index counts down one per pull,
    exactly as the consumers spend it -/
inductive Pulls (it : Val) : Nat → St → List Val → St → Prop where
  | done {f : Nat} {σ σ' : St} : pull f it σ = (.ok none, σ') → Pulls it (f + 1) σ [] σ'
  | more {f : Nat} {σ σ1 σ' : St} {x : Val} {xs : List Val} :
      pull f it σ = (.ok (some x), σ1) → Pulls it f σ1 xs σ' → Pulls it (f + 1) σ (x :: xs) σ'

/-! ## `it $]` is `[x₁ … xₙ]`; each element is pulled exactly once, in order -/

theorem collectGo_spec (it : Val) : ∀ (f : Nat) (σ σ' : St) (xs acc : List Val),
    Pulls it f σ xs σ' → collectGo f it acc σ = (.ok (acc.reverse ++ xs), σ') := by
  intro f σ σ' xs acc h
  induction h generalizing acc with
  | done hp => simp only [collectGo, bind_def, hp]; simp [pure]
  | more hp _ ih =>
    simp only [collectGo, bind_def, hp]
    rw [ih]; simp

theorem collect_spec (f : Nat) (env : Env) (e : Expr) (σ σ1 σ' : St) (it : Val) (xs : List Val)
    (he : eval f env e σ = (.ok it, σ1)) (hp : Pulls it f σ1 xs σ') :
    eval (f + 1) env (.post .collect e) σ = (.ok (Val.mkArray xs), σ') := by
  simp only [eval, bind_def, he, collectGo_spec it f σ1 σ' xs [] hp]; simp [pure]

/-! ## the built-in reducers are left folds with the documented units -/

/-- left fold of a built-in operator over values, failing as soon as a step fails -/
def foldOp (op : BinOp) : Val → List Val → Except Sig Val
  | acc, [] => .ok acc
  | acc, x :: xs => match binScalar op acc x with
    | .ok a => foldOp op a xs
    | .error e => .error e

theorem reduceGo_builtin (it : Val) (op : BinOp) : ∀ (f : Nat) (σ σ' : St) (xs : List Val) (acc r : Val),
    Pulls it f σ xs σ' → foldOp op acc xs = .ok r →
    reduceGo f it acc (.inl op) σ = (.ok r, σ') := by
  intro f σ σ' xs acc r h
  induction h generalizing acc with
  | done hp =>
    intro hf
    simp only [foldOp] at hf; cases hf
    simp only [reduceGo, bind_def, hp]; rfl
  | more hp _ ih =>
    intro hf
    simp only [foldOp] at hf
    split at hf
    · next a ha =>
      simp only [reduceGo, bind_def, hp, liftE, ha]
      exact ih a hf
    · simp at hf

/-- `$+` on an int iterator: the fold of `+` from 0 (so `0` for the empty sequence) -/
theorem sum_int_spec (f : Nat) (env : Env) (e : Expr) (σ σ1 σ' : St) (it : Val) (xs : List Val) (r : Val)
    (he : eval f env e σ = (.ok it, σ1)) (ht : Ty.sub it.asType (tyIterOf .int) = true)
    (hp : Pulls it f σ1 xs σ') (hf : foldOp .add (.int 0) xs = .ok r) :
    eval (f + 1) env (.post .sum e) σ = (.ok r, σ') := by
  simp only [eval, bind_def, he, ht, if_true]
  exact reduceGo_builtin it .add f σ1 σ' xs (.int 0) r hp hf

theorem product_int_spec (f : Nat) (env : Env) (e : Expr) (σ σ1 σ' : St) (it : Val) (xs : List Val) (r : Val)
    (he : eval f env e σ = (.ok it, σ1)) (ht : Ty.sub it.asType (tyIterOf .int) = true)
    (hp : Pulls it f σ1 xs σ') (hf : foldOp .mul (.int 1) xs = .ok r) :
    eval (f + 1) env (.post .product e) σ = (.ok r, σ') := by
  simp only [eval, bind_def, he, ht, if_true]
  exact reduceGo_builtin it .mul f σ1 σ' xs (.int 1) r hp hf

/-- `$&`: fold of `&` from all-ones; `$|`: fold of `|` from 0 -/
theorem bitand_spec (f : Nat) (env : Env) (e : Expr) (σ σ1 σ' : St) (it : Val) (xs : List Val) (r : Val)
    (he : eval f env e σ = (.ok it, σ1)) (hp : Pulls it f σ1 xs σ')
    (hf : foldOp .band (.int (BitVec.ofInt 64 (-1))) xs = .ok r) :
    eval (f + 1) env (.post .bitand e) σ = (.ok r, σ') := by
  simp only [eval, bind_def, he]
  exact reduceGo_builtin it .band f σ1 σ' xs _ r hp hf

theorem bitor_spec (f : Nat) (env : Env) (e : Expr) (σ σ1 σ' : St) (it : Val) (xs : List Val) (r : Val)
    (he : eval f env e σ = (.ok it, σ1)) (hp : Pulls it f σ1 xs σ')
    (hf : foldOp .bor (.int 0) xs = .ok r) :
    eval (f + 1) env (.post .bitor e) σ = (.ok r, σ') := by
  simp only [eval, bind_def, he]
  exact reduceGo_builtin it .bor f σ1 σ' xs _ r hp hf

/-- the unit of each reducer for the empty sequence -/
theorem empty_sequence_units (op : BinOp) (u : Val) : foldOp op u [] = .ok u := rfl

/-! ## `$&&` / `$||` stop at the first deciding element -/

/-- pulls up to and including the first element equal to `!unit`; the rest is never pulled -/
inductive PullsUntil (it : Val) (unit : Bool) : Nat → St → Bool → St → Prop where
  | exhausted {f : Nat} {σ σ' : St} :
      pull f it σ = (.ok none, σ') → PullsUntil it unit (f + 1) σ unit σ'
  | decided {f : Nat} {σ σ' : St} :
      pull f it σ = (.ok (some (.bool (!unit))), σ') → PullsUntil it unit (f + 1) σ (!unit) σ'
  | skip {f : Nat} {σ σ1 σ' : St} {b : Bool} :
      pull f it σ = (.ok (some (.bool unit)), σ1) → PullsUntil it unit f σ1 b σ' →
      PullsUntil it unit (f + 1) σ b σ'

theorem boolGo_spec (it : Val) (unit : Bool) : ∀ (f : Nat) (σ σ' : St) (b : Bool),
    PullsUntil it unit f σ b σ' → boolGo f it unit σ = (.ok (.bool b), σ') := by
  intro f σ σ' b h
  induction h with
  | exhausted hp => simp only [boolGo, bind_def, hp]; rfl
  | decided hp =>
    simp only [boolGo, bind_def, hp]
    cases unit <;> rfl
  | skip hp _ ih =>
    simp only [boolGo, bind_def, hp]
    simp only [beq_self_eq_true, if_true]
    exact ih

/-! ## the left fold with a user function: one call per element, in order -/

theorem reduce_step (f : Nat) (it acc g : Val) :
    reduceGo (f + 1) it acc (.inr g) = (do
      let x ← pull f it
      match x with
      | some x => do
        let acc' ← callFn f g [acc, x]
        reduceGo f it acc' (.inr g)
      | none => pure acc) := by
  simp only [reduceGo]; rfl

/-- partition: one pull, then one call of the predicate on that element, then the next pull -/
theorem partition_step (f : Nat) (it p : Val) (l r : List Val) :
    partitionGo (f + 1) it p l r = (do
      let x ← pull f it
      match x with
      | some x => do
        let c ← callFn f p [x]
        match c with
        | .bool true => partitionGo f it p (x :: l) r
        | _ => partitionGo f it p l (x :: r)
      | none => pure (l.reverse, r.reverse)) := by
  simp only [partitionGo]; rfl

/-- `for` pulls one element, runs the body with it, then pulls the next -/
theorem for_step (f : Nat) (env : Env) (x : String) (it : Val) (body : Expr) :
    forGo (f + 1) env x it body = (do
      let r ← callFn f it []
      match r with
      | .tup [.bool c, v] =>
        if c then do
          let go ← bodyOnce f ([(x, v), ("$con", .bool c)] :: env) body
          if go then forGo f env x it body else pure .unit
        else pure .unit
      | _ => wrong "for over something that is not an iterator") := by
  simp only [forGo]; rfl

/-! ## `@`, `?`, `? T` and `~` are lazy: creating them pulls nothing and calls nothing -/

theorem map_is_lazy (f : Nat) (env : Env) (a b : Expr) (σ σ1 σ2 : St) (it g : Val) (r : Ty)
    (ha : eval f env a σ = (.ok it, σ1)) (hb : eval f env b σ1 = (.ok g, σ2))
    (hr : g.asType.returnType = some r) :
    eval (f + 1) env (.bin .map a b) σ =
      (.ok (.fn σ2.nextId [] (.tup [.bool, r]) mapBody
              [("func", it), ("mapper", g), ("default", (ofType r).getD .unit)] none),
       { σ2 with nextId := σ2.nextId + 1 }) := by
  simp only [eval, bind_def, ha, hb, hr]; rfl

theorem filter_is_lazy (f : Nat) (env : Env) (a b : Expr) (σ σ1 σ2 : St) (it g : Val) (r : Ty)
    (ha : eval f env a σ = (.ok it, σ1)) (hb : eval f env b σ1 = (.ok g, σ2))
    (hr : it.asType.returnType = some r) :
    eval (f + 1) env (.bin .filter a b) σ =
      (.ok (.fn σ2.nextId [] r filterBody [("func", it), ("predicate", g)] none),
       { σ2 with nextId := σ2.nextId + 1 }) := by
  simp only [eval, bind_def, ha, hb, hr]; rfl

theorem type_filter_is_lazy (f : Nat) (env : Env) (a : Expr) (t : Ty) (σ σ1 : St) (it : Val)
    (ha : eval f env a σ = (.ok it, σ1)) :
    eval (f + 1) env (.tfilter a t) σ =
      (.ok (.fn σ1.nextId [] (.tup [.bool, t]) (typeFilterBody t)
              [("iterator", it), ("default", (ofType t).getD .unit)] none),
       { σ1 with nextId := σ1.nextId + 1 }) := by
  simp only [eval, bind_def, ha]; rfl

/-- one pull of a mapped iterator is: one pull of the source, and — only if that yielded an
    element — one call of the mapper on it (`mapBody`, the closure text of bin_op/map.rs) -/
theorem map_body_shape : mapBody =
    [ .set "res" (.call (.var "func") []),
      .destruct ["con", "value"] (.var "res"),
      .ifElse (.pre .not (.var "con")) (.ret (some (.tuple [.litBool false, .var "default"]))) none,
      .ret (some (.tuple [.litBool true, .call (.var "mapper") [.var "value"]])) ] := rfl

end Ssl.C11
