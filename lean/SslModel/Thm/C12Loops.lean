import SslModel.Thm.C12
/-!
# C12 — loops, for any number of iterations

`Thm/C12.lean` has the one-iteration facts (`bodyOnce_*`: what one run of a body does with break / continue / return /
a normal end; `loop_catches_break_continue`; the selection lemmas).  Here the four loop forms are characterised for
runs of ANY length by inductive run relations, and the evaluator is proved to BE the run:

* `while c body` (`while_run`): the condition is evaluated before every iteration, in the store the previous one left;
  the body runs exactly while it is `true`; the loop ends at the first `false` condition or the first `break`; its
  value is `()`;
* `while x: T = e body` (`whileSet_run`): the same with the type test, the body running with `x` bound in a frame of
  its own;
* `loop body` (`loop_run`): ends only by `break` (or by a signal that leaves it: `return`, an error);
* a `return` / error raised in iteration `n` leaves the loop with that signal, after exactly the iterations before it
  (`while_escapes`).

`n` counts the completed body runs, so "the body ran exactly n times" is part of the statement.
-/
namespace Ssl.C12
open Ssl Ssl.Spec

/-- the run of `while c body`: `n` is the number of times the body ran -/
inductive WhileRun (env : Env) (c body : Expr) : Nat → St → Nat → St → Prop where
  | exit {f : Nat} {σ σ' : St} : eval f env c σ = (.ok (.bool false), σ') → WhileRun env c body (f + 1) σ 0 σ'
  | step {f n : Nat} {σ σ1 σ2 σ' : St} :
      eval f env c σ = (.ok (.bool true), σ1) → bodyOnce f env body σ1 = (.ok true, σ2) →
      WhileRun env c body f σ2 n σ' → WhileRun env c body (f + 1) σ (n + 1) σ'
  | brk {f : Nat} {σ σ1 σ2 : St} :
      eval f env c σ = (.ok (.bool true), σ1) → bodyOnce f env body σ1 = (.ok false, σ2) →
      WhileRun env c body (f + 1) σ 1 σ2

theorem while_run (env : Env) (c body : Expr) (F : Nat) (σ σ' : St) (n : Nat)
    (h : WhileRun env c body F σ n σ') : whileGo F env c body σ = (.ok .unit, σ') := by
  induction h with
  | exit hc => simp only [whileGo, bind_def, hc, liftE, asBool]; rfl
  | step hc hb _ ih => simp only [whileGo, bind_def, hc, liftE, asBool, if_true, hb]; exact ih
  | brk hc hb => simp only [whileGo, bind_def, hc, liftE, asBool, if_true, hb]; rfl

/-- the expression form -/
theorem while_expr_run (env : Env) (c body : Expr) (F : Nat) (σ σ' : St) (n : Nat)
    (h : WhileRun env c body F σ n σ') : eval (F + 1) env (.while c body) σ = (.ok .unit, σ') := by
  simp only [eval]; exact while_run env c body F σ σ' n h

/-- a signal (`return`, an error) that the body of iteration `n + 1` lets through leaves the loop with it, after `n`
    complete iterations -/
inductive WhileEscapes (env : Env) (c body : Expr) (s : Sig) : Nat → St → Nat → St → Prop where
  | here {f : Nat} {σ σ1 σ2 : St} :
      eval f env c σ = (.ok (.bool true), σ1) → bodyOnce f env body σ1 = (.error s, σ2) →
      WhileEscapes env c body s (f + 1) σ 0 σ2
  | cond {f : Nat} {σ σ1 : St} :
      eval f env c σ = (.error s, σ1) → WhileEscapes env c body s (f + 1) σ 0 σ1
  | later {f n : Nat} {σ σ1 σ2 σ' : St} :
      eval f env c σ = (.ok (.bool true), σ1) → bodyOnce f env body σ1 = (.ok true, σ2) →
      WhileEscapes env c body s f σ2 n σ' → WhileEscapes env c body s (f + 1) σ (n + 1) σ'

theorem while_escapes (env : Env) (c body : Expr) (s : Sig) (F : Nat) (σ σ' : St) (n : Nat)
    (h : WhileEscapes env c body s F σ n σ') : whileGo F env c body σ = (.error s, σ') := by
  induction h with
  | here hc hb => simp only [whileGo, bind_def, hc, liftE, asBool, if_true, hb]
  | cond hc => simp only [whileGo, bind_def, hc]
  | later hc hb _ ih => simp only [whileGo, bind_def, hc, liftE, asBool, if_true, hb]; exact ih

/-- the run of `while x: T = e body` -/
inductive WhileSetRun (env : Env) (x : String) (ty : Ty) (e body : Expr) : Nat → St → Nat → St → Prop where
  | exit {f : Nat} {σ σ' : St} {v : Val} :
      eval f env e σ = (.ok v, σ') → Ty.sub v.asType ty = false → WhileSetRun env x ty e body (f + 1) σ 0 σ'
  | step {f n : Nat} {σ σ1 σ2 σ' : St} {v : Val} :
      eval f env e σ = (.ok v, σ1) → Ty.sub v.asType ty = true →
      bodyOnce f ([(x, v)] :: env) body σ1 = (.ok true, σ2) →
      WhileSetRun env x ty e body f σ2 n σ' → WhileSetRun env x ty e body (f + 1) σ (n + 1) σ'
  | brk {f : Nat} {σ σ1 σ2 : St} {v : Val} :
      eval f env e σ = (.ok v, σ1) → Ty.sub v.asType ty = true →
      bodyOnce f ([(x, v)] :: env) body σ1 = (.ok false, σ2) → WhileSetRun env x ty e body (f + 1) σ 1 σ2

theorem whileSet_run (env : Env) (x : String) (ty : Ty) (e body : Expr) (F : Nat) (σ σ' : St) (n : Nat)
    (h : WhileSetRun env x ty e body F σ n σ') : whileSetGo F env x ty e body σ = (.ok .unit, σ') := by
  induction h with
  | exit he ht => simp only [whileSetGo, bind_def, he, ht]; rfl
  | step he ht hb _ ih => simp only [whileSetGo, bind_def, he, ht, if_true, hb]; exact ih
  | brk he ht hb => simp only [whileSetGo, bind_def, he, ht, if_true, hb]; rfl

/-- the run of `loop body`: it ends only by `break` -/
inductive LoopRun (env : Env) (body : Expr) : Nat → St → Nat → St → Prop where
  | brk {f : Nat} {σ σ' : St} : bodyOnce f env body σ = (.ok false, σ') → LoopRun env body (f + 1) σ 1 σ'
  | step {f n : Nat} {σ σ1 σ' : St} :
      bodyOnce f env body σ = (.ok true, σ1) → LoopRun env body f σ1 n σ' → LoopRun env body (f + 1) σ (n + 1) σ'

theorem loop_run (env : Env) (body : Expr) (F : Nat) (σ σ' : St) (n : Nat)
    (h : LoopRun env body F σ n σ') : loopGo F env body σ = (.ok .unit, σ') := by
  induction h with
  | brk hb => simp only [loopGo, bind_def, hb]; rfl
  | step hb _ ih => simp only [loopGo, bind_def, hb, if_true]; exact ih

/-- a loop that ended ran its body at least once -/
theorem LoopRun.pos {env : Env} {body : Expr} {F : Nat} {σ σ' : St} {n : Nat} (h : LoopRun env body F σ n σ') : 0 < n := by
  cases h <;> omega

/-! ## `match`: the FIRST covering arm, for any number of arms and candidates -/

/-- the candidates of a value arm tried left to right: `CandMiss` - all of them evaluated, none equal;
    `CandHit` - evaluated up to and including the first equal one, the rest (`post`) not at all -/
inductive CandMiss (env : Env) (v : Val) : Nat → List Expr → St → St → Prop where
  | nil {f : Nat} {σ : St} : CandMiss env v (f + 1) [] σ σ
  | cons {f : Nat} {c : Expr} {cs : List Expr} {σ σ1 σ' : St} {w : Val} :
      eval f env c σ = (.ok w, σ1) → veq w v = false → CandMiss env v f cs σ1 σ' → CandMiss env v (f + 1) (c :: cs) σ σ'

inductive CandHit (env : Env) (v : Val) : Nat → List Expr → St → St → Prop where
  | here {f : Nat} {c : Expr} {post : List Expr} {σ σ' : St} {w : Val} :
      eval f env c σ = (.ok w, σ') → veq w v = true → CandHit env v (f + 1) (c :: post) σ σ'
  | later {f : Nat} {c : Expr} {cs : List Expr} {σ σ1 σ' : St} {w : Val} :
      eval f env c σ = (.ok w, σ1) → veq w v = false → CandHit env v f cs σ1 σ' → CandHit env v (f + 1) (c :: cs) σ σ'

theorem cand_miss (env : Env) (v : Val) (F : Nat) (cs : List Expr) (σ σ' : St) (h : CandMiss env v F cs σ σ') :
    candGo F env v cs σ = (.ok false, σ') := by
  induction h with
  | nil => simp only [candGo]; rfl
  | cons hc hv _ ih => simp only [candGo, bind_def, hc, hv]; exact ih

theorem cand_hit (env : Env) (v : Val) (F : Nat) (cs : List Expr) (σ σ' : St) (h : CandHit env v F cs σ σ') :
    candGo F env v cs σ = (.ok true, σ') := by
  induction h with
  | here hc hv => simp only [candGo, bind_def, hc, hv]; rfl
  | later hc hv _ ih => simp only [candGo, bind_def, hc, hv]; exact ih

/-- arms that do NOT cover the value, tried top to bottom: a type arm whose type the value's run-time type does not
    match (its body is not evaluated), a value arm all of whose candidates were evaluated and differ -/
inductive ArmsSkipped (env : Env) (v : Val) : Nat → List Arm → St → St → Nat → Prop where
  | nil {f : Nat} {σ : St} : ArmsSkipped env v f [] σ σ f
  | ty {f f' : Nat} {x : String} {t : Ty} {body : Expr} {rest : List Arm} {σ σ' : St} :
      Ty.sub v.asType t = false → ArmsSkipped env v f rest σ σ' f' →
      ArmsSkipped env v (f + 1) (.ty x t body :: rest) σ σ' f'
  | val {f f' : Nat} {cands : List Expr} {body : Expr} {rest : List Arm} {σ σ1 σ' : St} :
      CandMiss env v f cands σ σ1 → ArmsSkipped env v f rest σ1 σ' f' →
      ArmsSkipped env v (f + 1) (.val cands body :: rest) σ σ' f'

/-- the arms after the skipped ones are what `match` goes on with; in particular the arms after the first covering
    one (`post` below) are never looked at -/
theorem arms_skipped (env : Env) (v : Val) (F f' : Nat) (pre rest : List Arm) (σ σ1 : St)
    (h : ArmsSkipped env v F pre σ σ1 f') :
    evalArms F env v (pre ++ rest) σ = evalArms f' env v rest σ1 := by
  induction h with
  | nil => rfl
  | ty ht _ ih => simp only [List.cons_append, evalArms, ht]; exact ih
  | val hc _ ih => simp only [List.cons_append, evalArms, bind_def, cand_miss env v _ _ _ _ hc]; exact ih

/-- first covering arm is a type arm: its body runs with the name bound to the scrutinee, in a frame of its own -/
theorem match_first_type_arm (env : Env) (v : Val) (F f' : Nat) (pre post : List Arm) (x : String) (t : Ty) (body : Expr)
    (σ σ1 : St) (h : ArmsSkipped env v F pre σ σ1 (f' + 1)) (ht : Ty.sub v.asType t = true) :
    evalArms F env v (pre ++ .ty x t body :: post) σ = eval f' ([(x, v)] :: env) body σ1 := by
  rw [arms_skipped env v F (f' + 1) pre _ σ σ1 h]; simp only [evalArms, ht]; rfl

/-- first covering arm is a value arm -/
theorem match_first_value_arm (env : Env) (v : Val) (F f' : Nat) (pre post : List Arm) (cands : List Expr) (body : Expr)
    (σ σ1 σ2 : St) (h : ArmsSkipped env v F pre σ σ1 (f' + 1)) (hc : CandHit env v f' cands σ1 σ2) :
    evalArms F env v (pre ++ .val cands body :: post) σ = eval f' env body σ2 := by
  rw [arms_skipped env v F (f' + 1) pre _ σ σ1 h]; simp only [evalArms, bind_def, cand_hit env v _ _ _ _ hc]; rfl

/-- first covering arm is the catch-all -/
theorem match_first_other_arm (env : Env) (v : Val) (F f' : Nat) (pre post : List Arm) (body : Expr)
    (σ σ1 : St) (h : ArmsSkipped env v F pre σ σ1 (f' + 1)) :
    evalArms F env v (pre ++ .other body :: post) σ = eval f' env body σ1 := by
  rw [arms_skipped env v F (f' + 1) pre _ σ σ1 h]; simp only [evalArms]

end Ssl.C12
