import SslModel.Lemmas.Ty
/-!
  Transitivity of `==` and of `Type::matches` on well-formed types (C10).
-/
set_option linter.unusedSimpArgs false
set_option linter.unusedVariables false
namespace Ssl.Ty

/-! ### characterisations of the list helpers -/

theorem memL_iff (a : Ty) (bs : List Ty) : memL a bs = true ↔ ∃ b ∈ bs, eqv a b = true := by
  induction bs with
  | nil => rw [memL]; simp
  | cons b bs ih =>
    rw [memL_cons, Bool.or_eq_true, ih]
    constructor
    · rintro (h | ⟨x, hx, hxe⟩)
      · exact ⟨b, by simp, h⟩
      · exact ⟨x, by simp [hx], hxe⟩
    · rintro ⟨x, hx, hxe⟩
      rcases List.mem_cons.mp hx with rfl | hx
      · exact Or.inl hxe
      · exact Or.inr ⟨x, hx, hxe⟩

theorem subL_iff (as bs : List Ty) : subL as bs = true ↔ ∀ a ∈ as, memL a bs = true := by
  induction as with
  | nil => rw [subL]; simp
  | cons a as ih =>
    rw [subL, Bool.and_eq_true, ih]
    simp

theorem eqvL_cons (a b : Ty) (as bs : List Ty) : eqvL (a :: as) (b :: bs) = (eqv a b && eqvL as bs) := by
  rw [eqvL]

theorem eqvL_nil_cons (b : Ty) (bs : List Ty) : eqvL [] (b :: bs) = false := by
  rw [eqvL] <;> (intros; simp_all)
theorem eqvL_cons_nil (a : Ty) (as : List Ty) : eqvL (a :: as) [] = false := by
  rw [eqvL] <;> (intros; simp_all)

theorem fieldEq_iff (k : String) (t : Ty) (fb : List (String × Ty)) :
    fieldEq k t fb = true ↔ ∃ t', lookupF k fb = some t' ∧ eqv t t' = true := by
  induction fb with
  | nil => rw [fieldEq]; simp [lookupF]
  | cons p fb ih =>
    obtain ⟨k', t'⟩ := p
    rw [fieldEq]
    simp only [lookupF]
    by_cases hk : (k == k') = true
    · simp [hk]
    · simp only [hk, Bool.false_eq_true, if_false]
      exact ih

theorem subF_iff (fa fb : List (String × Ty)) :
    subF fa fb = true ↔ ∀ p ∈ fa, fieldEq p.1 p.2 fb = true := by
  induction fa with
  | nil => rw [subF]; simp
  | cons p fa ih =>
    obtain ⟨k, t⟩ := p
    rw [subF, Bool.and_eq_true, ih]
    simp

theorem lookupF_mem {k : String} {fs : List (String × Ty)} {t : Ty} (h : lookupF k fs = some t) :
    (k, t) ∈ fs := by
  induction fs with
  | nil => simp [lookupF] at h
  | cons p fs ih =>
    obtain ⟨k', t'⟩ := p
    simp only [lookupF] at h
    split at h
    · rename_i hk
      have : k = k' := by simpa using hk
      cases h; subst this; simp
    · exact List.mem_cons_of_mem _ (ih h)

/-! ### `==` is transitive -/

theorem eqvL_trans_of (as : List Ty) : ∀ (bs cs : List Ty),
    (∀ a ∈ as, ∀ b c, eqv a b = true → eqv b c = true → eqv a c = true) →
    eqvL as bs = true → eqvL bs cs = true → eqvL as cs = true := by
  induction as with
  | nil =>
    intro bs cs _ h1 h2
    cases bs with
    | nil => exact h2
    | cons b bs => rw [eqvL_nil_cons] at h1; simp at h1
  | cons a as ih =>
    intro bs cs hp h1 h2
    cases bs with
    | nil => rw [eqvL_cons_nil] at h1; simp at h1
    | cons b bs =>
      cases cs with
      | nil => rw [eqvL_cons_nil] at h2; simp at h2
      | cons c cs =>
        rw [eqvL_cons, Bool.and_eq_true] at h1 h2 ⊢
        exact ⟨hp a (by simp) b c h1.1 h2.1,
          ih bs cs (fun x hx => hp x (by simp [hx])) h1.2 h2.2⟩

theorem eqvL_size {as bs : List Ty} (h : eqvL as bs = true) : as.length = bs.length := by
  induction as generalizing bs with
  | nil => cases bs with
    | nil => rfl
    | cons b bs => rw [eqvL_nil_cons] at h; simp at h
  | cons a as ih =>
    cases bs with
    | nil => rw [eqvL_cons_nil] at h; simp at h
    | cons b bs =>
      rw [eqvL_cons, Bool.and_eq_true] at h
      simp [ih h.2]

/-- constructor index -/
def head : Ty → Nat
  | .bool => 0 | .int => 1 | .float => 2 | .str => 3 | .void => 4 | .any => 5 | .never => 6
  | .fn _ _ => 7 | .arr _ => 8 | .tup _ => 9 | .multi _ => 10 | .cell _ => 11 | .struct _ => 12

theorem eqv_head {a b : Ty} (h : eqv a b = true) : head a = head b := by
  cases a <;> cases b <;> first
    | rfl
    | (exfalso; rw [eqv] at h <;> simp_all)

theorem eqv_fn (ps ps2 : List Ty) (r r2 : Ty) : eqv (.fn ps r) (.fn ps2 r2) = (eqvL ps ps2 && eqv r r2) := by rw [eqv]
theorem eqv_arr (a b : Ty) : eqv (.arr a) (.arr b) = eqv a b := by rw [eqv]
theorem eqv_cell (a b : Ty) : eqv (.cell a) (.cell b) = eqv a b := by rw [eqv]
theorem eqv_tup (as bs : List Ty) : eqv (.tup as) (.tup bs) = eqvL as bs := by rw [eqv]
theorem eqv_multi (as bs : List Ty) : eqv (.multi as) (.multi bs) = (as.length == bs.length && subL as bs) := by rw [eqv]
theorem eqv_struct (fa fb : List (String × Ty)) :
    eqv (.struct fa) (.struct fb) = (fa.length == fb.length && subF fa fb) := by rw [eqv]

theorem eqvL_trans_sized (n : Nat) (as : List Ty) : ∀ (bs cs : List Ty), sizeL as + sizeL bs + sizeL cs ≤ n →
    (∀ a b c : Ty, size a + size b + size c ≤ n → eqv a b = true → eqv b c = true → eqv a c = true) →
    eqvL as bs = true → eqvL bs cs = true → eqvL as cs = true := by
  induction as with
  | nil =>
    intro bs cs _ _ h1 h2
    cases bs with
    | nil => exact h2
    | cons b bs => rw [eqvL_nil_cons] at h1; simp at h1
  | cons a as ih =>
    intro bs cs hs hp h1 h2
    cases bs with
    | nil => rw [eqvL_cons_nil] at h1; simp at h1
    | cons b bs =>
      cases cs with
      | nil => rw [eqvL_cons_nil] at h2; simp at h2
      | cons c cs =>
        rw [eqvL_cons, Bool.and_eq_true] at h1 h2 ⊢
        simp only [sizeL] at hs
        exact ⟨hp a b c (by omega) h1.1 h2.1, ih bs cs (by omega) hp h1.2 h2.2⟩

theorem eqv_trans_aux : ∀ n : Nat, ∀ a b c : Ty, size a + size b + size c ≤ n →
    eqv a b = true → eqv b c = true → eqv a c = true := by
  intro n
  induction n with
  | zero => intro a b c h; have := size_pos a; omega
  | succ n ih =>
    intro a b c hs hab hbc
    have h1 := eqv_head hab
    have h2 := eqv_head hbc
    cases a <;> cases b <;> simp only [head] at h1 <;> (try omega) <;>
      cases c <;> simp only [head] at h2 <;> (try omega)
    all_goals try (rw [eqv]; done)
    case fn.fn.fn ps r ps2 r2 ps3 r3 =>
      rw [eqv_fn, Bool.and_eq_true] at hab hbc ⊢
      simp only [size] at hs
      refine ⟨eqvL_trans_sized n ps ps2 ps3 (by omega) ih hab.1 hbc.1, ih r r2 r3 (by omega) hab.2 hbc.2⟩
    case arr.arr.arr x y z =>
      rw [eqv_arr] at hab hbc ⊢
      simp only [size] at hs
      exact ih x y z (by omega) hab hbc
    case cell.cell.cell x y z =>
      rw [eqv_cell] at hab hbc ⊢
      simp only [size] at hs
      exact ih x y z (by omega) hab hbc
    case tup.tup.tup xs ys zs =>
      rw [eqv_tup] at hab hbc ⊢
      simp only [size] at hs
      exact eqvL_trans_sized n xs ys zs (by omega) ih hab hbc
    case multi.multi.multi xs ys zs =>
      rw [eqv_multi, Bool.and_eq_true] at hab hbc ⊢
      simp only [size] at hs
      refine ⟨by have := hab.1; have := hbc.1; simp_all, ?_⟩
      rw [subL_iff] at hab hbc ⊢
      intro x hx
      obtain ⟨y, hy, hxy⟩ := (memL_iff x ys).mp (hab.2 x hx)
      obtain ⟨z, hz, hyz⟩ := (memL_iff y zs).mp (hbc.2 y hy)
      rw [memL_iff]
      refine ⟨z, hz, ih x y z ?_ hxy hyz⟩
      have := size_lt_sizeL hx; have := size_lt_sizeL hy; have := size_lt_sizeL hz
      omega
    case struct.struct.struct fa fb fc =>
      rw [eqv_struct, Bool.and_eq_true] at hab hbc ⊢
      simp only [size] at hs
      refine ⟨by have := hab.1; have := hbc.1; simp_all, ?_⟩
      rw [subF_iff] at hab hbc ⊢
      intro p hp
      obtain ⟨t', hl, he⟩ := (fieldEq_iff p.1 p.2 fb).mp (hab.2 p hp)
      have hmem := lookupF_mem hl
      obtain ⟨t'', hl2, he2⟩ := (fieldEq_iff p.1 t' fc).mp (hbc.2 (p.1, t') hmem)
      rw [fieldEq_iff]
      refine ⟨t'', hl2, ih p.2 t' t'' ?_ he he2⟩
      have := size_lt_sizeF (k := p.1) (x := p.2) (fs := fa) hp
      have := lookupF_size hl; have := lookupF_size hl2
      omega

theorem eqv_trans (a b c : Ty) (h1 : eqv a b = true) (h2 : eqv b c = true) : eqv a c = true :=
  eqv_trans_aux _ a b c (Nat.le_refl _) h1 h2

/-! ### `matches` is transitive on well-formed types -/

theorem matchesL_nil_cons (b : Ty) (bs : List Ty) : matchesL [] (b :: bs) = false := by
  rw [matchesL] <;> (intros; simp_all)
theorem matchesL_cons_nil (a : Ty) (as : List Ty) : matchesL (a :: as) [] = false := by
  rw [matchesL] <;> (intros; simp_all)
theorem matchesParams_nil : matchesParams [] [] = true := by rw [matchesParams]
theorem matchesParams_cons (a b : Ty) (as bs : List Ty) :
    matchesParams (a :: as) (b :: bs) = (sub a b && matchesParams as bs) := by rw [matchesParams]
theorem matchesParams_nil_cons (b : Ty) (bs : List Ty) : matchesParams [] (b :: bs) = false := by
  rw [matchesParams] <;> (intros; simp_all)
theorem matchesParams_cons_nil (a : Ty) (as : List Ty) : matchesParams (a :: as) [] = false := by
  rw [matchesParams] <;> (intros; simp_all)

theorem fieldMatches_iff (fa : List (String × Ty)) (k : String) (t2 : Ty) :
    fieldMatches fa k t2 = true ↔ ∃ t1, lookupF k fa = some t1 ∧ sub t1 t2 = true := by
  induction fa with
  | nil => rw [fieldMatches]; simp [lookupF]
  | cons p fa ih =>
    obtain ⟨k', t'⟩ := p
    rw [fieldMatches]
    simp only [lookupF]
    by_cases hk : (k == k') = true
    · simp [hk]
    · simp only [hk, Bool.false_eq_true, if_false]
      exact ih

theorem structMatches_iff (fa fb : List (String × Ty)) :
    structMatches fa fb = true ↔ ∀ p ∈ fb, fieldMatches fa p.1 p.2 = true := by
  induction fb with
  | nil => rw [structMatches]; simp
  | cons p fb ih =>
    obtain ⟨k, t⟩ := p
    rw [structMatches, Bool.and_eq_true, ih]
    simp

/-- the hypothesis the list lemmas take: transitivity below a size bound -/
def TransBelow (n : Nat) : Prop :=
  ∀ a b c : Ty, size a + size b + size c ≤ n → wf a = true → wf b = true → wf c = true →
    sub a b = true → sub b c = true → sub a c = true

theorem matchesL_trans_sized (n : Nat) (hp : TransBelow n) (as : List Ty) : ∀ (bs cs : List Ty),
    sizeL as + sizeL bs + sizeL cs ≤ n → wfL as = true → wfL bs = true → wfL cs = true →
    matchesL as bs = true → matchesL bs cs = true → matchesL as cs = true := by
  induction as with
  | nil =>
    intro bs cs _ _ _ _ h1 h2
    cases bs with
    | nil => exact h2
    | cons b bs => rw [matchesL_nil_cons] at h1; simp at h1
  | cons a as ih =>
    intro bs cs hs wa wb wc h1 h2
    cases bs with
    | nil => rw [matchesL_cons_nil] at h1; simp at h1
    | cons b bs =>
      cases cs with
      | nil => rw [matchesL_cons_nil] at h2; simp at h2
      | cons c cs =>
        rw [matchesL_cons, Bool.and_eq_true] at h1 h2 ⊢
        simp only [sizeL] at hs
        simp only [wfL, Bool.and_eq_true] at wa wb wc
        exact ⟨hp a b c (by omega) wa.1 wb.1 wc.1 h1.1 h2.1, ih bs cs (by omega) wa.2 wb.2 wc.2 h1.2 h2.2⟩

/-- parameters are compared the other way round: `cs ≤ bs ≤ as` pointwise gives `cs ≤ as` -/
theorem matchesParams_trans_sized (n : Nat) (hp : TransBelow n) (cs : List Ty) : ∀ (bs as : List Ty),
    sizeL as + sizeL bs + sizeL cs ≤ n → wfL as = true → wfL bs = true → wfL cs = true →
    matchesParams cs bs = true → matchesParams bs as = true → matchesParams cs as = true := by
  induction cs with
  | nil =>
    intro bs as _ _ _ _ h1 h2
    cases bs with
    | nil => exact h2
    | cons b bs => rw [matchesParams_nil_cons] at h1; simp at h1
  | cons c cs ih =>
    intro bs as hs wa wb wc h1 h2
    cases bs with
    | nil => rw [matchesParams_cons_nil] at h1; simp at h1
    | cons b bs =>
      cases as with
      | nil => rw [matchesParams_cons_nil] at h2; simp at h2
      | cons a as =>
        rw [matchesParams_cons, Bool.and_eq_true] at h1 h2 ⊢
        simp only [sizeL] at hs
        simp only [wfL, Bool.and_eq_true] at wa wb wc
        exact ⟨hp c b a (by omega) wc.1 wb.1 wa.1 h1.1 h2.1, ih bs as (by omega) wa.2 wb.2 wc.2 h1.2 h2.2⟩

theorem sub_never_right (a : Ty) (h1 : isMulti a = false) (h2 : isNever a = false) : sub a .never = false := by
  cases a <;> simp [isMulti, isNever] at h1 h2 <;> (rw [sub] <;> simp_all [eqv])

theorem sub_any_left (c : Ty) (h1 : isMulti c = false) (h2 : c ≠ .any) : sub .any c = false := by
  cases c <;> simp [isMulti] at h1 h2 <;> (rw [sub] <;> simp_all [eqv])

/-- between non-union types other than `!` on the left and `any` on the right, `matches` relates
    only types with the same outermost constructor -/
theorem sub_head {a b : Ty} (ha1 : isMulti a = false) (ha2 : isNever a = false)
    (hb1 : isMulti b = false) (hb2 : b ≠ .any) (h : sub a b = true) : head a = head b := by
  cases a <;> simp [isMulti, isNever] at ha1 ha2 <;> cases b <;> simp [isMulti] at hb1 hb2 <;> first
    | rfl
    | (exfalso; rw [sub] at h <;> simp_all [eqv])

theorem isMulti_false_of_member {ms : List Ty} (hw : wf (.multi ms) = true) {m : Ty} (hm : m ∈ ms) :
    isMulti m = false ∧ isNever m = false ∧ m ≠ .any ∧ wf m = true := by
  simp only [wf, Bool.and_eq_true] at hw
  have := membersOk_mem hw.1.2 hm
  exact ⟨this.1, this.2.1, this.2.2, wfL_mem hw.1.1.2 hm⟩

theorem sub_trans_aux : ∀ n : Nat, TransBelow n := by
  intro n
  induction n with
  | zero => intro a b c h; have := size_pos a; omega
  | succ n ih =>
    intro a b c hs wa wb wc hab hbc
    -- `!` on the left
    by_cases han0 : isNever a = true
    · cases a <;> simp [isNever] at han0
      exact sub_never _
    have han : isNever a = false := by simpa using han0
    clear han0
    -- a union on the left: member by member
    by_cases ham0 : isMulti a = true
    · cases a <;> simp [isMulti] at ham0
      rename_i as
      rw [sub_multi_left, allMatch_eq, List.all_eq_true] at hab ⊢
      intro x hx
      have hx' := isMulti_false_of_member wa hx
      simp only [size] at hs
      exact ih x b c (by have := size_lt_sizeL hx; omega) hx'.2.2.2 wb wc (hab x hx) hbc
    have ham : isMulti a = false := by simpa using ham0
    clear ham0
    -- a union on the right: some member is above
    by_cases hcm0 : isMulti c = true
    · cases c <;> simp [isMulti] at hcm0
      rename_i cs
      rw [sub_multi_right a cs ham han, anyMatch_eq, List.any_eq_true]
      simp only [size] at hs
      by_cases hbm0 : isMulti b = true
      · cases b <;> simp [isMulti] at hbm0
        rename_i bs
        rw [sub_multi_right a bs ham han, anyMatch_eq, List.any_eq_true] at hab
        obtain ⟨m, hm, ham'⟩ := hab
        rw [sub_multi_left, allMatch_eq, List.all_eq_true] at hbc
        have hm' := isMulti_false_of_member wb hm
        have hmc := hbc m hm
        rw [sub_multi_right m cs hm'.1 hm'.2.1, anyMatch_eq, List.any_eq_true] at hmc
        obtain ⟨z, hz, hmz⟩ := hmc
        have hz' := isMulti_false_of_member wc hz
        simp only [size] at hs
        exact ⟨z, hz, ih a m z (by have := size_lt_sizeL hm; have := size_lt_sizeL hz; omega) wa hm'.2.2.2 hz'.2.2.2 ham' hmz⟩
      · have hbm : isMulti b = false := by simpa using hbm0
        clear hbm0
        have hbn : isNever b = false := by
          cases hb : isNever b with
          | false => rfl
          | true =>
            cases b <;> simp [isNever] at hb
            rw [sub_never_right a ham han] at hab; simp at hab
        rw [sub_multi_right b cs hbm hbn, anyMatch_eq, List.any_eq_true] at hbc
        obtain ⟨z, hz, hbz⟩ := hbc
        have hz' := isMulti_false_of_member wc hz
        exact ⟨z, hz, ih a b z (by have := size_lt_sizeL hz; omega) wa wb hz'.2.2.2 hab hbz⟩
    have hcm : isMulti c = false := by simpa using hcm0
    clear hcm0
    -- `any` on the right
    by_cases hca : c = .any
    · subst hca; exact sub_any_right_base a ham
    -- a union in the middle
    by_cases hbm0 : isMulti b = true
    · cases b <;> simp [isMulti] at hbm0
      rename_i bs
      rw [sub_multi_right a bs ham han, anyMatch_eq, List.any_eq_true] at hab
      obtain ⟨m, hm, ham'⟩ := hab
      rw [sub_multi_left, allMatch_eq, List.all_eq_true] at hbc
      have hm' := isMulti_false_of_member wb hm
      simp only [size] at hs
      exact ih a m c (by have := size_lt_sizeL hm; omega) wa hm'.2.2.2 wc ham' (hbc m hm)
    have hbm : isMulti b = false := by simpa using hbm0
    clear hbm0
    have hba : b ≠ .any := by
      intro h; subst h
      rw [sub_any_left c hcm hca] at hbc; simp at hbc
    have hbn : isNever b = false := by
      cases hb : isNever b with
      | false => rfl
      | true =>
        cases b <;> simp [isNever] at hb
        rw [sub_never_right a ham han] at hab; simp at hab
    -- three non-union types with the same outermost constructor
    have h1 := sub_head ham han hbm hba hab
    have h2 := sub_head hbm hbn hcm hca hbc
    cases a <;> (try (simp [isMulti] at ham; done)) <;> (try (simp [isNever] at han; done)) <;>
      cases b <;> simp only [head] at h1 <;> (try omega) <;>
      cases c <;> simp only [head] at h2 <;> (try omega)
    all_goals try (exact hab)
    case fn.fn.fn ps r ps2 r2 ps3 r3 =>
      rw [sub_fn, Bool.and_eq_true] at hab hbc ⊢
      simp only [size] at hs
      simp only [wf, Bool.and_eq_true] at wa wb wc
      exact ⟨matchesParams_trans_sized n ih ps3 ps2 ps (by omega) wa.1 wb.1 wc.1 hbc.1 hab.1,
        ih r r2 r3 (by omega) wa.2 wb.2 wc.2 hab.2 hbc.2⟩
    case arr.arr.arr x y z =>
      rw [sub_arr] at hab hbc ⊢
      simp only [size] at hs
      simp only [wf] at wa wb wc
      exact ih x y z (by omega) wa wb wc hab hbc
    case cell.cell.cell x y z =>
      rw [sub_cell] at hab hbc ⊢
      exact eqv_trans x y z hab hbc
    case tup.tup.tup xs ys zs =>
      rw [sub_tup] at hab hbc ⊢
      simp only [size] at hs
      simp only [wf] at wa wb wc
      exact matchesL_trans_sized n ih xs ys zs (by omega) wa wb wc hab hbc
    case struct.struct.struct fa fb fc =>
      rw [sub_struct, structMatches_iff] at hab hbc ⊢
      simp only [size] at hs
      simp only [wf, Bool.and_eq_true] at wa wb wc
      intro p hp
      obtain ⟨t2, hl2, h23⟩ := (fieldMatches_iff fb p.1 p.2).mp (hbc p hp)
      have hm2 := lookupF_mem hl2
      obtain ⟨t1, hl1, h12⟩ := (fieldMatches_iff fa p.1 t2).mp (hab (p.1, t2) hm2)
      have hm1 := lookupF_mem hl1
      rw [fieldMatches_iff]
      refine ⟨t1, hl1, ih t1 t2 p.2 ?_ (wfF_mem wa.1 hm1) (wfF_mem wb.1 hm2) (wfF_mem wc.1 hp) h12 h23⟩
      have := size_lt_sizeF (k := p.1) (x := p.2) (fs := fc) hp
      have := lookupF_size hl1; have := lookupF_size hl2
      omega

/-- **`matches` is transitive** on well-formed types -/
theorem sub_trans (a b c : Ty) (wa : wf a = true) (wb : wf b = true) (wc : wf c = true)
    (h1 : sub a b = true) (h2 : sub b c = true) : sub a c = true :=
  sub_trans_aux _ a b c (Nat.le_refl _) wa wb wc h1 h2

/-! ### `==` is symmetric on well-formed types -/

theorem nodupL_cons (t : Ty) (ts : List Ty) : nodupL (t :: ts) = (!memL t ts && nodupL ts) := by
  simp [nodupL]

/-- counting modulo `==`: if the members of `as` are pairwise different, `as` and `bs` have the same
    length, and every member of `as` equals some member of `bs`, then every member of `bs` equals
    some member of `as` -/
theorem pigeon_eqv : ∀ (as bs : List Ty),
    (∀ a ∈ as, ∀ b ∈ bs, eqv a b = true → eqv b a = true) →
    nodupL as = true → as.length = bs.length →
    (∀ a ∈ as, ∃ b ∈ bs, eqv a b = true) →
    ∀ b ∈ bs, ∃ a ∈ as, eqv b a = true := by
  intro as
  induction as with
  | nil =>
    intro bs _ _ hlen _ b hb
    cases bs with
    | nil => cases hb
    | cons x xs => simp at hlen
  | cons a as ih =>
    intro bs hsym hnd hlen hsub b hb
    rw [nodupL_cons, Bool.and_eq_true, Bool.not_eq_true'] at hnd
    obtain ⟨b0, hb0, hab0⟩ := hsub a (by simp)
    obtain ⟨l1, l2, rfl⟩ := List.append_of_mem hb0
    have hfar : ∀ a' ∈ as, eqv a' b0 = false := by
      intro a' ha'
      cases h : eqv a' b0 with
      | false => rfl
      | true =>
        exfalso
        have h1 : eqv b0 a' = true := hsym a' (by simp [ha']) b0 (by simp) h
        have h2 : eqv a a' = true := eqv_trans a b0 a' hab0 h1
        have : memL a as = true := (memL_iff a as).mpr ⟨a', ha', h2⟩
        rw [this] at hnd; exact absurd hnd.1 (by simp)
    have hsub' : ∀ a' ∈ as, ∃ b' ∈ l1 ++ l2, eqv a' b' = true := by
      intro a' ha'
      obtain ⟨b', hb', hab'⟩ := hsub a' (by simp [ha'])
      rcases List.mem_append.mp hb' with h | h
      · exact ⟨b', by simp [h], hab'⟩
      · rcases List.mem_cons.mp h with rfl | h
        · rw [hfar a' ha'] at hab'; exact absurd hab' (by simp)
        · exact ⟨b', by simp [h], hab'⟩
    have hlen' : as.length = (l1 ++ l2).length := by
      simp only [List.length_append, List.length_cons] at hlen ⊢; omega
    have hsym' : ∀ a' ∈ as, ∀ b' ∈ l1 ++ l2, eqv a' b' = true → eqv b' a' = true := by
      intro a' ha' b' hb' h
      refine hsym a' (by simp [ha']) b' ?_ h
      rcases List.mem_append.mp hb' with h | h <;> simp [h]
    have ih' := ih (l1 ++ l2) hsym' hnd.2 hlen' hsub'
    rcases List.mem_append.mp hb with h | h
    · obtain ⟨a', ha', h'⟩ := ih' b (by simp [h]); exact ⟨a', by simp [ha'], h'⟩
    · rcases List.mem_cons.mp h with rfl | h
      · exact ⟨a, by simp, hsym a (by simp) b (by simp) hab0⟩
      · obtain ⟨a', ha', h'⟩ := ih' b (by simp [h]); exact ⟨a', by simp [ha'], h'⟩

theorem lookupF_of_mem {k : String} {t : Ty} {fs : List (String × Ty)} (hn : nodupKeys fs = true)
    (hm : (k, t) ∈ fs) : lookupF k fs = some t := by
  induction fs with
  | nil => cases hm
  | cons p fs ih =>
    obtain ⟨k', w⟩ := p
    simp only [nodupKeys, Bool.and_eq_true, Bool.not_eq_true'] at hn
    simp only [lookupF]
    rcases List.mem_cons.mp hm with h | h
    · cases h; simp
    · have hne : (k == k') = false := by
        cases hkk : (k == k') with
        | false => rfl
        | true =>
          have : k = k' := by simpa using hkk
          subst this
          have : fs.any (fun p => p.1 == k) = true := by
            rw [List.any_eq_true]; exact ⟨(k, t), h, by simp⟩
          rw [this] at hn; exact absurd hn.1 (by simp)
      simp [hne, ih hn.2 h]

theorem keys_nodup {fs : List (String × Ty)} (hn : nodupKeys fs = true) : (fs.map (·.1)).Nodup := by
  induction fs with
  | nil => simp
  | cons p fs ih =>
    obtain ⟨k, v⟩ := p
    simp only [nodupKeys, Bool.and_eq_true, Bool.not_eq_true'] at hn
    simp only [List.map_cons, List.nodup_cons]
    refine ⟨?_, ih hn.2⟩
    intro hmem
    rw [List.mem_map] at hmem
    obtain ⟨q, hq, hqk⟩ := hmem
    have : fs.any (fun p => p.1 == k) = true := by
      rw [List.any_eq_true]; exact ⟨q, hq, by simp [hqk]⟩
    rw [this] at hn; exact absurd hn.1 (by simp)

theorem keys_pigeonhole (fa fb : List (String × Ty)) (ha : nodupKeys fa = true)
    (hlen : fa.length = fb.length) (hsub : ∀ p ∈ fa, p.1 ∈ fb.map (·.1)) :
    ∀ q ∈ fb, q.1 ∈ fa.map (·.1) := by
  intro q hq
  apply Classical.byContradiction
  intro hnot
  have hqk : q.1 ∈ fb.map (·.1) := List.mem_map.mpr ⟨q, hq, rfl⟩
  have hsub' : fa.map (·.1) ⊆ (fb.map (·.1)).erase q.1 := by
    intro x hx
    have hxq : x ≠ q.1 := fun h => hnot (h ▸ hx)
    obtain ⟨p, hp, rfl⟩ := List.mem_map.mp hx
    exact (List.mem_erase_of_ne hxq).2 (hsub p hp)
  have h1 := List.Nodup.length_le_of_subset (keys_nodup ha) hsub'
  have h2 : ((fb.map (·.1)).erase q.1).length = (fb.map (·.1)).length - 1 := by
    rw [List.length_erase]; simp [hqk]
  have h3 : 1 ≤ (fb.map (·.1)).length := List.length_pos_of_mem hqk
  simp only [List.length_map] at h1 h2 h3
  omega

theorem eqvL_symm_sized (n : Nat) (as : List Ty) : ∀ (bs : List Ty), sizeL as + sizeL bs ≤ n →
    wfL as = true → wfL bs = true →
    (∀ a b : Ty, size a + size b ≤ n → wf a = true → wf b = true → eqv a b = true → eqv b a = true) →
    eqvL as bs = true → eqvL bs as = true := by
  induction as with
  | nil =>
    intro bs _ _ _ _ h
    cases bs with
    | nil => exact h
    | cons b bs => rw [eqvL_nil_cons] at h; simp at h
  | cons a as ih =>
    intro bs hs wa wb hp h
    cases bs with
    | nil => rw [eqvL_cons_nil] at h; simp at h
    | cons b bs =>
      rw [eqvL_cons, Bool.and_eq_true] at h ⊢
      simp only [sizeL] at hs
      simp only [wfL, Bool.and_eq_true] at wa wb
      exact ⟨hp a b (by omega) wa.1 wb.1 h.1, ih bs (by omega) wa.2 wb.2 hp h.2⟩

theorem eqv_symm_aux : ∀ n : Nat, ∀ a b : Ty, size a + size b ≤ n → wf a = true → wf b = true →
    eqv a b = true → eqv b a = true := by
  intro n
  induction n with
  | zero => intro a b h; have := size_pos a; omega
  | succ n ih =>
    intro a b hs wa wb hab
    have h1 := eqv_head hab
    cases a <;> cases b <;> simp only [head] at h1 <;> (try omega)
    all_goals try (rw [eqv]; done)
    case fn.fn ps r ps2 r2 =>
      rw [eqv_fn, Bool.and_eq_true] at hab ⊢
      simp only [size] at hs
      simp only [wf, Bool.and_eq_true] at wa wb
      exact ⟨eqvL_symm_sized n ps ps2 (by omega) wa.1 wb.1 ih hab.1, ih r r2 (by omega) wa.2 wb.2 hab.2⟩
    case arr.arr x y =>
      rw [eqv_arr] at hab ⊢
      simp only [size] at hs; simp only [wf] at wa wb
      exact ih x y (by omega) wa wb hab
    case cell.cell x y =>
      rw [eqv_cell] at hab ⊢
      simp only [size] at hs; simp only [wf] at wa wb
      exact ih x y (by omega) wa wb hab
    case tup.tup xs ys =>
      rw [eqv_tup] at hab ⊢
      simp only [size] at hs; simp only [wf] at wa wb
      exact eqvL_symm_sized n xs ys (by omega) wa wb ih hab
    case multi.multi xs ys =>
      rw [eqv_multi, Bool.and_eq_true] at hab ⊢
      simp only [size] at hs
      simp only [wf, Bool.and_eq_true] at wa wb
      have hlen : xs.length = ys.length := by simpa using hab.1
      refine ⟨by simp [hlen], ?_⟩
      rw [subL_iff] at hab ⊢
      have hsub : ∀ a ∈ xs, ∃ b ∈ ys, eqv a b = true := fun a ha => (memL_iff a ys).mp (hab.2 a ha)
      have hsym : ∀ a ∈ xs, ∀ b ∈ ys, eqv a b = true → eqv b a = true := fun a ha b hb h =>
        ih a b (by have := size_lt_sizeL ha; have := size_lt_sizeL hb; omega) (wfL_mem wa.1.1.2 ha) (wfL_mem wb.1.1.2 hb) h
      intro b hb
      exact (memL_iff b xs).mpr (pigeon_eqv xs ys hsym wa.2 hlen hsub b hb)
    case struct.struct fa fb =>
      rw [eqv_struct, Bool.and_eq_true] at hab ⊢
      simp only [size] at hs
      simp only [wf, Bool.and_eq_true] at wa wb
      have hlen : fa.length = fb.length := by simpa using hab.1
      refine ⟨by simp [hlen], ?_⟩
      rw [subF_iff] at hab ⊢
      have hsubk : ∀ p ∈ fa, p.1 ∈ fb.map (·.1) := by
        intro p hp
        obtain ⟨t', hl, _⟩ := (fieldEq_iff p.1 p.2 fb).mp (hab.2 p hp)
        exact List.mem_map.mpr ⟨(p.1, t'), lookupF_mem hl, rfl⟩
      intro q hq
      have := keys_pigeonhole fa fb wa.2 hlen hsubk q hq
      obtain ⟨p, hp, hpk⟩ := List.mem_map.mp this
      obtain ⟨t', hl, he⟩ := (fieldEq_iff p.1 p.2 fb).mp (hab.2 p hp)
      have hq' : (p.1, q.2) ∈ fb := by rw [hpk]; exact hq
      have ht' : t' = q.2 := by
        have := lookupF_of_mem wb.2 hq'
        rw [hl] at this; cases this; rfl
      subst ht'
      rw [fieldEq_iff]
      refine ⟨p.2, ?_, ?_⟩
      · rw [← hpk]; exact lookupF_of_mem wa.2 hp
      · exact ih p.2 q.2 (by have := size_lt_sizeF (k := p.1) (x := p.2) (fs := fa) hp
                             have := size_lt_sizeF (k := q.1) (x := q.2) (fs := fb) hq; omega)
          (wfF_mem wa.1 hp) (wfF_mem wb.1 hq) he

/-- **`==` is symmetric** on well-formed types -/
theorem eqv_symm (a b : Ty) (wa : wf a = true) (wb : wf b = true) (h : eqv a b = true) : eqv b a = true :=
  eqv_symm_aux _ a b (Nat.le_refl _) wa wb h

theorem eqv_comm (a b : Ty) (wa : wf a = true) (wb : wf b = true) : eqv a b = eqv b a := by
  cases h1 : eqv a b <;> cases h2 : eqv b a <;> try rfl
  · have := eqv_symm b a wb wa h2; rw [h1] at this; exact absurd this (by simp)
  · have := eqv_symm a b wa wb h1; rw [h2] at this; exact absurd this (by simp)

end Ssl.Ty
