import SslModel.Model.CheckF
import SslModel.Model.Spec
/-!
  The checker model of `Model/CheckF.lean` extended with MUTABLE CELLS (`mut T e`, `*c`, `c = v`, the eleven `c op= v`) and
  LOOPS (`loop`, `while`, `while x: T = e`, `break`, `continue`); `lp` = "inside a loop body" (reset by function bodies).
  Sources: instruction/{mut,prefix_op,bin_op,bin_op/assign,loop,loop/while,loop/while_set}.rs and instruction.rs
  (`Rule::break` / `Rule::continue`).  Below: the text of CheckF it extends.

  The checker model of `Model/Check.lean` extended with FUNCTIONS: anonymous functions, function declarations (with
  recursion through the function's own name), calls on operands of a (non-union) function type, and `return`.
  `tyS ret g e`: `ret` is the declared result type of the enclosing function (`none` at top level, where `return` is
  an error).  A function body must contain, among its top-level statements, one of type `!` unless `()` matches the
  declared result type (`MissingReturn`).

  Sources: instruction/function/{anonymous,declaration,call}.rs, instruction/return.rs, plus everything listed in
  Model/Check.lean.  Cells, loops, structs and iterators stay outside (`unsup`).
-/
set_option linter.unusedVariables false
namespace Ssl.CheckS
open Ssl Ssl.Ty Ssl.Check Ssl.CheckF

/-- the weird helper of bin_op.rs used for the result of `op=`: the left type if `[]` matches it, else the right type -/
def helperRet (c r : Ty) : Ty := if sub (.arr .never) c then c else r

/-- the fields of a struct literal: a repeated name keeps its LAST initialiser (the literal fills a map in order) -/
def lastFields (fts : List (String × Ty)) : List (String × Ty) :=
  fts.reverse.foldl (fun acc (p : String × Ty) => if acc.any (fun q => q.1 == p.1) then acc else acc ++ [p]) []

/-- declarations in order: a later one shadows an earlier one -/
def bindAll (bs : List (String × Ty)) (g : TEnv) : TEnv := bs.foldl (fun g b => b :: g) g

mutual
def tyS : Bool → Option Ty → TEnv → Expr → Res Ty
  | lp, _, _, .litBool _ => .ok .bool
  | lp, _, _, .litInt _ => .ok .int
  | lp, _, _, .litFloat _ => .ok .float
  | lp, _, _, .litStr _ => .ok .str
  | lp, _, _, .litUnit => .ok .void
  | lp, _, g, .var x => match g.lookup x with
    | some t => okW t
    | none => .ill
  | lp, r, g, .array es => (tySList lp r g es).bind fun ts => okW (.arr (concatL ts))
  | lp, r, g, .tuple es => if es.length < 2 then .unsup else (tySList lp r g es).bind fun ts => okW (.tup ts)
  | lp, r, g, .pre .not e => (tyS lp r g e).bind fun t => if sub t accNot then okW t else .ill
  | lp, r, g, .pre .neg e => (tyS lp r g e).bind fun t => if sub t accNeg then okW t else .ill
  | lp, r, g, .and a b => (tyS lp r g a).bind fun ta => (tyS lp r g b).bind fun tb =>
      if eqv ta .bool && eqv tb .bool then .ok .bool else .ill
  | lp, r, g, .or a b => (tyS lp r g a).bind fun ta => (tyS lp r g b).bind fun tb =>
      if eqv ta .bool && eqv tb .bool then .ok .bool else .ill
  | lp, r, g, .bin op a b => (tyS lp r g a).bind fun ta => (tyS lp r g b).bind fun tb => binTy op ta tb
  | lp, r, g, .at a i => (tyS lp r g a).bind fun ta => (tyS lp r g i).bind fun ti =>
      if !eqv ti .int then .ill else
      match ta with
      | .arr e => okW e
      | .str => .ok .str
      | .multi _ =>
        -- a union of indexable types: `can_be_indexed`, then `index_result` (the join of the members' element types)
        if !canBeIndexed ta then .ill else
        (match indexResult ta with
         | some T => okW T
         | none => .unsup)
      | .never => .unsup
      | _ => .ill
  | lp, r, g, .tacc e n => (tyS lp r g e).bind fun t =>
      match t with
      | .tup ts => match ts[n]? with
        | some x => okW x
        | none => .ill
      | .multi _ =>
        -- a union of tuple types: `is_tuple`, the index below the shortest member, `tuple_element_at` (join)
        if !isTuple t then .ill else
        (match minTupleLen t with
         | some len =>
           if n < len then (match tupleElementAt n t with
             | some T => okW T
             | none => .unsup)
           else .ill
         | none => .unsup)
      | .never => .unsup
      | _ => .ill
  | lp, r, g, .ifElse c t e => (tyS lp r g c).bind fun tc =>
      if !(eqv tc .bool || eqv tc .never) then .ill else
      (tyS lp r g t).bind fun tt =>
      match e with
      | some e => (tyS lp r g e).bind fun te => okW (concat tt te)
      | none => okW (concat tt .void)
  | lp, r, g, .block body => (tySSeq lp r g body).bind fun (ts, _) => okW (lastTy ts)
  | lp, r, g, .ifSet x ty e body els =>
      if !wf ty then .unsup else
      (tyS lp r g e).bind fun _ => (tyS lp r ((x, ty) :: g) body).bind fun tb =>
      match els with
      | some el => (tyS lp r g el).bind fun tl => okW (concat tb tl)
      | none => okW (concat tb .void)
  | lp, r, g, .arrayRepeat v n => (tyS lp r g v).bind fun tv => (tyS lp r g n).bind fun tn =>
      if !sub tn .int then .ill else
      if !eqv tn .int then .unsup else okW (.arr tv)
  | lp, r, g, .slice a st en sp => (tyS lp r g a).bind fun ta =>
      (tySOpt lp r g st).bind fun ts => (tySOpt lp r g en).bind fun te => (tySOpt lp r g sp).bind fun tp =>
      if !canBeIndexed ta then .ill else
      if !(boundOk ts && boundOk te && boundOk tp) then .ill else
      match ta with
      | .arr _ => okW ta
      | .str => .ok .str
      | .multi _ => okW ta            -- a union of indexable types: the slice has the operand's own (union) type
      | _ => .unsup
  | lp, r, g, .matchE e arms =>
      (tyS lp r g e).bind fun te => (tySArms lp r g arms).bind fun tys =>
      if !(covering (armKinds arms) te) then .ill else okW (concatL tys)
  -- functions
  | lp, _, g, .fn ps rt body =>
      if !(wfParams ps && wf rt) then .unsup else
      (tySSeq false (some rt) (bindParams ps g) body).bind fun (ts, _) =>
      if !sub .void rt && !ts.any (fun t => eqv t .never) then .ill     -- MissingReturn
      else okW (.fn (ps.map (·.2)) rt)
  | lp, r, g, .call f args => (tyS lp r g f).bind fun tf => (tySList lp r g args).bind fun tas =>
      match tf with
      | .fn pts rt => if argsOk tas pts then okW rt else .ill
      | .multi _ =>
        -- a union of function types: `is_function`, the arguments against `params()` (the member-wise MEET of the
        -- parameter types), the result `return_type()` (the join of the members' results)
        if !isFunction tf then .ill else
        (match params tf with
         | none => .ill
         | some pts =>
           match returnType tf with
           | some rt => if argsOk tas pts then okW rt else .ill
           | none => .unsup)
      | .never => .unsup
      | .any => .ill
      | _ => .ill
  | lp, r, g, .ret e =>
      match r with
      | none => .ill                                                  -- ReturnOutsideFunction
      | some rt =>
        match e with
        | some e => (tyS lp r g e).bind fun te => if sub te rt then .ok .never else .ill
        | none => if sub .void rt then .ok .never else .ill
  -- cells (declared content type only; the inferred `mut e` is outside the fragment)
  | lp, r, g, .mutE (some ty) e =>
      if !wf ty then .unsup else
      (tyS lp r g e).bind fun te => if sub te ty then okW (.cell ty) else .ill
  | lp, r, g, .pre .deref e => (tyS lp r g e).bind fun t =>
      match t with
      | .cell c => okW c
      | .multi _ =>
        -- a union of cell types: `is_mut`, then `mut_element_type` (the join of the members' contents)
        if !isMut t then .ill else
        (match mutElementType t with
         | some T => okW T
         | none => .unsup)
      | .never => .unsup
      | _ => .ill
  | lp, r, g, .assign op target value => (tyS lp r g target).bind fun tt => (tyS lp r g value).bind fun tv =>
      match tt with
      | .cell c =>
        (match Spec.assignBase op with
         | none => if sub tv c then okW tv else .ill                    -- `c = v` has the type of `v`
         | some BinOp.add => (binTy .add c tv).bind fun rt => if sub rt c then okW c else .ill
         | some bop => (binTy bop c tv).bind fun _ => if sub (helperRet c tv) c then okW c else .ill)
      | .multi _ =>
        -- `c = v` through a union of cell types: the value must match `mut_assign_type` (the MEET of the members' contents)
        (match Spec.assignBase op with
         | none =>
           (match mutElementType tt, mutAssignType tt with
            | some _, some A => if sub tv A then okW tv else .ill
            | _, _ => .ill)
         | some _ => .unsup)
      | .never => .unsup
      | _ => .ill
  -- loops: the body is checked "inside a loop"; `break` / `continue` only there; a loop has type `()`
  | _, r, g, .loop body => (tyS true r g body).bind fun _ => .ok .void
  | lp, r, g, .while c body => (tyS lp r g c).bind fun tc =>
      if !eqv tc .bool then .ill else (tyS true r g body).bind fun _ => .ok .void
  | lp, r, g, .whileSet x ty e body =>
      if !wf ty then .unsup else
      (tyS lp r g e).bind fun _ => (tyS true r ((x, ty) :: g) body).bind fun _ => .ok .void
  -- `for x in it body`: `it` must be an iterator `() -> (bool, T)`; the body sees `x : T` (and the two names the desugaring
  -- binds at run time, which no program text can mention) and is "inside a loop"
  | lp, r, g, .forE x it body => (tyS lp r g it).bind fun ti =>
      match ti with
      | .fn [] (.tup [b, t]) =>
        if !eqv b .bool then .ill else
        (tyS true r ((x, t) :: ("$con", .bool) :: ("$iter", ti) :: g) body).bind fun _ => .ok .void
      | .fn [] (.multi _) => .unsup
      | .multi _ => .unsup
      | .never => .unsup
      | _ => .ill
  -- `it $]`: collecting an iterator `() -> (bool, T)` gives `[T]`
  | lp, r, g, .post .collect e => (tyS lp r g e).bind fun ti =>
      match ti with
      | .fn [] (.tup [b, t]) => if !eqv b .bool then .ill else okW (.arr t)
      | .fn [] (.multi _) => .unsup
      | .multi _ => .unsup
      | .never => .unsup
      | _ => .ill
  -- struct literals and field access on a (non-union) struct type
  | lp, r, g, .struct fs => (tySFields lp r g fs).bind fun fts => okW (.struct (lastFields fts))
  | lp, r, g, .facc e k => (tyS lp r g e).bind fun t =>
      match t with
      | .struct fts => (match lookupF k fts with
        | some x => okW x
        | none => .ill)
      | .multi _ =>
        -- a union of struct types that all have the field: `is_struct`, `has_field`, `field_type` (join)
        if !isStruct t then .ill else
        if !Ty.hasField k t then .ill else
        (match fieldType k t with
         | some T => okW T
         | none => .unsup)
      | .never => .unsup
      | _ => .ill
  | lp, _, _, .brk => if lp then .ok .never else .ill
  | lp, _, _, .cont => if lp then .ok .never else .ill
  | lp, _, _, _ => .unsup
def tySOpt : Bool → Option Ty → TEnv → Option Expr → Res (Option Ty)
  | lp, _, _, none => .ok none
  | lp, r, g, some e => (tyS lp r g e).bind fun t => .ok (some t)
def tySFields : Bool → Option Ty → TEnv → List (String × Expr) → Res (List (String × Ty))
  | lp, _, _, [] => .ok []
  | lp, r, g, (k, e) :: es => (tyS lp r g e).bind fun t => (tySFields lp r g es).bind fun ts => .ok ((k, t) :: ts)
def tySList : Bool → Option Ty → TEnv → List Expr → Res (List Ty)
  | lp, _, _, [] => .ok []
  | lp, r, g, e :: es => (tyS lp r g e).bind fun t => (tySList lp r g es).bind fun ts => .ok (t :: ts)
def tySArms : Bool → Option Ty → TEnv → List Arm → Res (List Ty)
  | lp, _, _, [] => .ok []
  | lp, r, g, .ty x t body :: rest =>
      if !wf t then .unsup else
      (tyS lp r ((x, t) :: g) body).bind fun tb => (tySArms lp r g rest).bind fun ts => .ok (tb :: ts)
  | lp, r, g, .val cands body :: rest =>
      (tySList lp r g cands).bind fun _ => (tyS lp r g body).bind fun tb => (tySArms lp r g rest).bind fun ts => .ok (tb :: ts)
  | lp, r, g, .other body :: rest =>
      (tyS lp r g body).bind fun tb => (tySArms lp r g rest).bind fun ts => .ok (tb :: ts)
/-- a statement list: the types of ALL its statements, in order, and the extended environment -/
def tySSeq : Bool → Option Ty → TEnv → List Expr → Res (List Ty × TEnv)
  | lp, _, g, [] => .ok ([], g)
  | lp, r, g, s :: rest => (tySStmt lp r g s).bind fun (t, g') => (tySSeq lp r g' rest).bind fun (ts, g'') => .ok (t :: ts, g'')
def tySStmt : Bool → Option Ty → TEnv → Expr → Res (Ty × TEnv)
  | lp, r, g, .set x e => (tyS lp r g e).bind fun t => .ok (t, (x, t) :: g)
  -- `(a, b) := e`: `e` must have a tuple type of that length; later names shadow earlier ones
  | lp, r, g, .destruct xs e => (tyS lp r g e).bind fun te =>
      match te with
      | .tup ts => if ts.length == xs.length then .ok (te, bindAll (List.zip xs ts) g) else .ill
      | .multi _ =>
        -- a union of tuple types: `is_tuple`, ONE common length (`tuple_len`), the names typed position by position with the
        -- join of the members' element types (`flatten_tuple`)
        if !isTuple te then .ill else
        (match tupleLen te with
         | none => .ill
         | some len =>
           if len == xs.length then
             (match flattenTuple te with
              | some ts => .ok (te, bindAll (List.zip xs ts) g)
              | none => .unsup)
           else .ill)
      | .never => .unsup
      | _ => .ill
  | lp, _, g, .fndecl x ps rt body =>
      if !(wfParams ps && wf rt) then .unsup else
      let ft : Ty := .fn (ps.map (·.2)) rt
      (tySSeq false (some rt) (bindParams ps ((x, ft) :: g)) body).bind fun (ts, _) =>
      if !sub .void rt && !ts.any (fun t => eqv t .never) then .ill
      else .ok (ft, (x, ft) :: g)
  | lp, r, g, e => (tyS lp r g e).bind fun t => .ok (t, g)
end

def tySProgram (g : TEnv) (prog : List Expr) : Res Ty := (tySSeq false none g prog).bind fun (ts, _) => .ok (lastTy ts)

end Ssl.CheckS
