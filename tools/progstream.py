"""Shared `prog` stream: generated programs run on the implementation and on the Lean reference
semantics (`Spec`), outcomes compared."""
import random

from gen import ast as A
from gen.programs import ProgGen
from vlib import driver_run, esc_field, harness_run, sexp_parse, sexp_str, strip_tags

FUEL = 4000


class Rec:
    __slots__ = ("stmts", "src", "sexp", "impl", "model", "status", "ivalue", "mvalue", "static", "flags", "meta",
                 "unsound", "observed", "panic_at")


def run_programs(progs, flags="std", broken_model=False, fuel=FUEL):
    """progs: list of statement lists (AST).  Returns list of Rec."""
    recs = []
    for stmts in progs:
        r = Rec()
        r.stmts = stmts
        r.src = A.program_src(stmts)
        r.sexp = A.program_sexp(stmts)
        r.flags = flags
        r.meta = None
        recs.append(r)
    impl = harness_run(["prog\t%s\t%s" % (flags, esc_field(r.src)) for r in recs])
    if broken_model:
        model = ["(no-model)"] * len(recs)
    else:
        model = driver_run(["prog %s %d %s" % (flags if flags else "-", fuel, r.sexp) for r in recs])
    for r, il, ml in zip(recs, impl, model):
        r.impl, r.model = il, ml
        classify(r)
    return recs


def mask_junk(v):
    """the second component an exhausted iterator returns is unspecified (and for union element types
    depends on hash order): compare `(false, _)` pairs only by their flag"""
    if isinstance(v, list):
        if len(v) == 3 and v[0] == "tup" and v[1] == "false":
            return ["tup", "false", "_"]
        return [mask_junk(x) for x in v]
    return v


def classify(r):
    s = sexp_parse(r.impl)
    m = sexp_parse(r.model)
    r.ivalue = r.mvalue = r.static = None
    r.unsound = []
    r.observed = 0
    r.panic_at = None
    if not isinstance(s, list) or not s:
        r.status = "impl-crash"          # (crash) / (timeout) / harness trouble
        return
    if s[0] == "rejected":
        r.status = "rejected:" + s[1]
        return
    if s[0] == "parse-panic":
        r.status = "parse-panic"
        return
    if s[0] != "accepted":
        r.status = "impl-crash"
        return
    r.static = sexp_str(s[1])
    out = s[2]
    for extra in s[3:]:
        if isinstance(extra, str) and extra.startswith("observed="):
            r.observed = int(extra[9:])
        elif isinstance(extra, list) and extra and extra[0] == "unsound":
            r.unsound.append(extra)
    if out[0] == "panic":
        r.status = "exec-panic"
        r.panic_at = out[1] if len(out) > 1 else "?"
        return
    if out[0] == "fuel":
        r.status = "inconclusive-fuel"
        return
    if out[0] == "error":
        r.ivalue = "(error %s)" % out[1]
    elif out[0] == "value":
        r.ivalue = sexp_str(out[1])
    else:
        r.status = "impl-crash"
        return
    if isinstance(m, list) and m and m[0] == "value":
        r.mvalue = sexp_str(m[1])
    elif isinstance(m, list) and m and m[0] == "error":
        r.mvalue = "(error %s)" % m[1]
    elif isinstance(m, list) and m and m[0] == "fuel":
        r.status = "inconclusive-fuel"
        return
    elif r.model == "(no-model)":
        r.status = "no-model"
        return
    else:
        r.status = "model-wrong"          # (wrong ...) / (bad-program) / crash
        return
    if r.ivalue == r.mvalue or (out[0] == "value" and isinstance(m, list) and m[0] == "value" and
                               sexp_str(mask_junk(out[1])) == sexp_str(mask_junk(m[1]))):
        r.status = "agree"
    elif out[0] == "value" and isinstance(m, list) and m[0] == "value" and \
            sexp_str(strip_tags(out[1])) == sexp_str(strip_tags(m[1])):
        r.status = "agree-content"        # same contents, different stored tags
    else:
        r.status = "differ"


def flags_of(rec):
    """the three soundness flags the harness prints for a value outcome"""
    s = rec.impl
    return dict(tag="tag=1" in s, content="content=1" in s, tags="tags=1" in s)


def generate(seed, n, max_depth=3, stmts=(3, 8), features=None):
    rnd = random.Random(seed)
    g = ProgGen(rnd, max_depth=max_depth, stmts=stmts, features=features)
    progs = [g.program() for _ in range(n)]
    return progs, g.stats
