#!/usr/bin/env python3
"""Source -> Lean translator.  Regenerates lean/SslModel/Gen/*.lean from /repo's *current
working tree* on every run.  Strict: any construct it does not recognise raises
TranslateError, which the caller reports as a broken tie.

Usage: translate.py [--repo /repo] [--out /verif/lean/SslModel/Gen] [part ...]
Parts: scalar pratt doc binop errors (default: all)
"""
import hashlib
import os
import re
import sys

sys.path.insert(0, os.path.dirname(os.path.abspath(__file__)))
from rustlex import (TranslateError, expand_duplicate_items, find_fn, find_match, lex,
                     match_close, split_top)

REPO = os.environ.get("VERIF_REPO", "/repo")
OUT = os.path.join(os.path.dirname(os.path.abspath(__file__)), "..", "lean", "SslModel", "Gen")


def read(rel):
    with open(os.path.join(REPO, rel), encoding="utf-8") as f:
        return f.read()


def sha(text):
    return hashlib.sha256(text.encode()).hexdigest()[:16]


def write_if_changed(name, text):
    path = os.path.join(OUT, name)
    os.makedirs(OUT, exist_ok=True)
    old = None
    if os.path.exists(path):
        with open(path, encoding="utf-8") as f:
            old = f.read()
    if old != text:
        with open(path, "w", encoding="utf-8") as f:
            f.write(text)
        return True
    return False


def lstr(s):
    return '"' + s.replace("\\", "\\\\").replace('"', '\\"') + '"'


# ----------------------------------------------------------------------------- scalar ops

def strip_wrappers(toks):
    """remove Ok( .. ), ( .. ), { .. }, trailing .into() and `?`/`,` around an expression"""
    changed = True
    while changed:
        changed = False
        if len(toks) >= 4 and toks[-3:] == [".", "into", "("] + [] and False:
            pass
        if len(toks) >= 4 and toks[-4:] == [".", "into", "(", ")"]:
            toks = toks[:-4]
            changed = True
        if toks and toks[0] in ("(", "{") and match_close(toks, 0) == len(toks) - 1:
            toks = toks[1:-1]
            changed = True
        if len(toks) >= 3 and toks[0] == "Ok" and toks[1] == "(" and match_close(toks, 1) == len(toks) - 1:
            toks = toks[2:-1]
            changed = True
        if toks and toks[-1] in (",", ";"):
            toks = toks[:-1]
            changed = True
    return toks


INT_METHODS = {
    "wrapping_add": "wrappingAdd", "wrapping_sub": "wrappingSub", "wrapping_mul": "wrappingMul",
    "wrapping_div": "wrappingDiv", "wrapping_rem": "wrappingRem",
}
INT_INFIX = {"<<": "shl", ">>": "shr", "&": "band", "|": "bor", "^": "bxor",
             "<": "lt", "<=": "le", ">": "gt", ">=": "ge"}
FLOAT_INFIX = {"+": "fadd", "-": "fsub", "*": "fmul", "/": "fdiv",
               "<": "flt", "<=": "fle", ">": "fgt", ">=": "fge"}
BOOL_INFIX = {"&": "band", "|": "bor", "^": "bxor"}

# the square-and-multiply helper accepted in pow.rs (token-exact after lexing)
POW_HELPER = lex("""
fn wrapping_pow_u64(mut base: i64, mut exp: u64) -> i64 {
    let mut acc: i64 = 1;
    while exp > 0 {
        if exp & 1 == 1 {
            acc = acc.wrapping_mul(base);
        }
        base = base.wrapping_mul(base);
        exp >>= 1;
    }
    acc
}
""")


def int_expr(toks, a, b, helpers):
    t = strip_wrappers(toks)
    # a.method(b)
    if len(t) == 6 and t[0] == a and t[1] == "." and t[3] == "(" and t[4] == b and t[5] == ")":
        if t[2] in INT_METHODS:
            return INT_METHODS[t[2]]
    if t == [a, ".", "wrapping_pow", "(", b, "as", "u32", ")"]:
        return "wrappingPowU32"
    if t == ["wrapping_pow_u64", "(", a, ",", b, "as", "u64", ")"]:
        if helpers.get("wrapping_pow_u64") != "ok":
            raise TranslateError("pow.rs: wrapping_pow_u64 helper is not the recognised square-and-multiply loop")
        return "powSqMulU64"
    if len(t) == 3 and t[0] == a and t[2] == b and t[1] in INT_INFIX:
        return INT_INFIX[t[1]]
    raise TranslateError("unrecognised int arm expression: %s" % " ".join(toks))


def float_expr(toks, a, b):
    t = strip_wrappers(toks)
    if len(t) == 3 and t[0] == a and t[2] == b and t[1] in FLOAT_INFIX:
        return FLOAT_INFIX[t[1]]
    if t == [a, ".", "powf", "(", b, ")"]:
        return "powf"
    raise TranslateError("unrecognised float arm expression: %s" % " ".join(toks))


def err_of(toks):
    t = strip_wrappers(toks)
    if len(t) >= 2 and t[0] == "return":
        t = strip_wrappers(t[1:])
    if len(t) == 6 and t[:2] == ["Err", "("] and t[2] == "ExecError" and t[3] == "::" and t[5] == ")":
        return t[4]
    return None


def pat_pair(pat):
    """(Variable::K(x), Variable::K2(y)) -> (K, x, K2, y); `_` allowed -> (None, None, ..)"""
    if not (pat and pat[0] == "(" and match_close(pat, 0) == len(pat) - 1):
        return None
    parts = split_top(pat[1:-1])
    if len(parts) != 2:
        return None
    out = []
    for p in parts:
        if p == ["_"]:
            out += [None, None]
        elif len(p) == 6 and p[0] == "Variable" and p[1] == "::" and p[3] == "(" and p[5] == ")":
            out += [p[2], p[4]]
        else:
            return None
    return tuple(out)


def split_alternatives(pat):
    return split_top(pat, "|")


def translate_binop_exec(name, text):
    """returns dict(guards=[(guard,err)], body=intexpr, fbody=floatexpr|None, bbody=boolexpr|None)"""
    toks = lex(text)
    helpers = {}
    h = find_fn(toks, "wrapping_pow_u64")
    if h is not None:
        # compare the whole fn token-exactly
        i = next(k for k in range(len(toks) - 1) if toks[k] == "fn" and toks[k + 1] == "wrapping_pow_u64")
        helpers["wrapping_pow_u64"] = "ok" if toks[i : h[2] + 1] == POW_HELPER else "changed"
    fn = find_fn(toks, "exec")
    if fn is None:
        raise TranslateError("%s: no fn exec" % name)
    params, body, _ = fn
    res = dict(guards=[], body=None, fbody=None, bbody=None)
    m = find_match(body)
    if m is None:
        # shift.rs template: let-else destructuring, range guard, Ok((lhs OP rhs).into())
        norm = " ".join(body)
        mm = re.match(
            r"let \( Variable :: Int \( (\w+) \) , Variable :: Int \( (\w+) \) \) = \( & \w+ , & \w+ \) else \{ unreachable ! \(.*?\) \} ; "
            r"if ! \( 0 \.\.= 63 \) \. contains \( (\w+) \) \{ return Err \( ExecError :: (\w+) \) ; \} (.*)$",
            norm)
        if not mm or mm.group(3) != mm.group(2):
            raise TranslateError("%s: exec body is neither a match nor the shift template" % name)
        res["guards"].append(("rhsOutside0to63", mm.group(4)))
        res["body"] = int_expr(mm.group(5).split(" "), mm.group(1), mm.group(2), helpers)
        return res
    scrut, arms = m
    seen_int = False
    for pat, guard, rhs in arms:
        for alt in split_alternatives(pat):
            pp = pat_pair(alt)
            if pp is None:
                # catch-all `(lhs, rhs) => panic!(..)` is fine only after the int arm
                r = " ".join(rhs)
                if ("panic !" in r or "unreachable !" in r):
                    continue
                raise TranslateError("%s: unrecognised arm pattern %s" % (name, " ".join(alt)))
            k1, x, k2, y = pp
            e = err_of(rhs)
            if e is not None:
                # guard arm
                if seen_int:
                    continue  # unreachable for ints; ignore
                if k1 is None and k2 == "Int" and y == "0" and guard is None:
                    res["guards"].append(("rhsZero", e))
                elif k1 is None and k2 == "Int" and guard == [y, "<", "0"]:
                    res["guards"].append(("rhsNegative", e))
                elif k1 is None and k2 == "Int" and " ".join(guard or []) == "! ( 0 ..= 63 ) . contains ( & %s )" % y:
                    res["guards"].append(("rhsOutside0to63", e))
                else:
                    raise TranslateError("%s: unrecognised error arm %s if %s" % (name, " ".join(alt), guard))
                continue
            if guard is not None:
                raise TranslateError("%s: guarded value arm" % name)
            if k1 == "Int" and k2 == "Int":
                res["body"] = int_expr(rhs, x, y, helpers)
                seen_int = True
            elif k1 == "Float" and k2 == "Float":
                res["fbody"] = float_expr(rhs, x, y)
            elif k1 == "Bool" and k2 == "Bool":
                t = strip_wrappers(rhs)
                if len(t) == 3 and t[0] == x and t[2] == y and t[1] in BOOL_INFIX:
                    res["bbody"] = BOOL_INFIX[t[1]]
                else:
                    raise TranslateError("%s: unrecognised bool arm" % name)
            elif (k1, k2) in (("String", "String"), ("Array", "Array")):
                pass  # modelled by hand (Op.lean), tied by correspondence
            else:
                raise TranslateError("%s: unexpected arm kinds %s %s" % (name, k1, k2))
    if res["body"] is None:
        raise TranslateError("%s: no (Int, Int) arm" % name)
    return res


def translate_unop_exec(name, text):
    toks = lex(text)
    fn = find_fn(toks, "exec")
    if fn is None:
        raise TranslateError("%s: no fn exec" % name)
    m = find_match(fn[1])
    if m is None:
        raise TranslateError("%s: exec without match" % name)
    out = {}
    for pat, guard, rhs in m[1]:
        if len(pat) == 6 and pat[:2] == ["Variable", "::"] and pat[3] == "(" and pat[5] == ")":
            kind, x = pat[2], pat[4]
            t = strip_wrappers(rhs)
            if t[:3] == ["var", "!", "("]:
                t = strip_wrappers(t[2:])
            if kind == "Int":
                if t == [x, ".", "wrapping_neg", "(", ")"]:
                    out["int"] = "wrappingNeg"
                elif t == ["!", x]:
                    out["int"] = "bitNot"
                else:
                    raise TranslateError("%s: unrecognised int arm %s" % (name, " ".join(rhs)))
            elif kind == "Float":
                if t == ["-", x]:
                    out["float"] = "fneg"
                else:
                    raise TranslateError("%s: unrecognised float arm" % name)
            elif kind == "Bool":
                if t == ["!", x]:
                    out["bool"] = "bnot"
                else:
                    raise TranslateError("%s: unrecognised bool arm" % name)
            else:
                raise TranslateError("%s: unexpected arm kind %s" % (name, kind))
        else:
            r = " ".join(rhs)
            if "panic !" in r or "unreachable !" in r:
                continue
            raise TranslateError("%s: unrecognised arm" % name)
    if "int" not in out:
        raise TranslateError("%s: no Int arm" % name)
    return out


def module_uses_own_exec(name, text):
    """does `create_from_instructions` fold two constants by calling this module's `exec`?"""
    toks = lex(text)
    fn = find_fn(toks, "create_from_instructions")
    if fn is None:
        return None
    body = " ".join(fn[1])
    if re.search(r"create_from_instructions_with_exec \( \w+ , \w+ , BinOperator :: \w+ , exec \)", body):
        return True
    if re.search(r"\( Instruction :: Variable \( (\w+) \) , Instruction :: Variable \( (\w+) \) \) => (?:\{ )?Ok \( exec \( \1 , \2 \) \? \. into \( \) \)", body):
        return True
    return False


def gen_scalar():
    B = "src/instruction/bin_op/"
    srcs = {}
    mods = {}
    for nm in ("add", "subtract", "multiply", "divide", "modulo", "pow"):
        mods[nm] = read(B + "math/%s.rs" % nm)
        srcs[B + "math/%s.rs" % nm] = mods[nm]
    for f in ("math.rs", "shift.rs", "bitwise.rs"):
        s = read(B + f)
        srcs[B + f] = s
        ex, _ = expand_duplicate_items(s)
        mods.update(ex)
    bin_src = read(B[:-1] + ".rs")
    srcs["src/instruction/bin_op.rs"] = bin_src
    prefix_src = read("src/instruction/prefix_op.rs")
    srcs["src/instruction/prefix_op.rs"] = prefix_src
    want = ["add", "subtract", "multiply", "divide", "modulo", "pow", "lshift", "rshift",
            "bitwise_and", "bitwise_or", "xor", "greater", "greater_equal", "lower", "lower_equal"]
    lines = ["-- GENERATED by tools/translate.py from /repo (do not edit).",
             "-- sources: " + ", ".join("%s@%s" % (k, sha(v)) for k, v in sorted(srcs.items())),
             "import SslModel.Model.Int64", "namespace Ssl.Gen", ""]
    folds = {}
    fl = {}
    for nm in want:
        if nm not in mods:
            raise TranslateError("operator module %s not found" % nm)
        r = translate_binop_exec(nm, mods[nm])
        guards = ", ".join("(.%s, .%s)" % g for g in r["guards"])
        lines.append("def %s : IntOp := { guards := [%s], body := .%s }" % (nm, guards, r["body"]))
        fl[nm] = (r["fbody"], r["bbody"])
        folds[nm] = module_uses_own_exec(nm, mods[nm])
    lines.append("")
    lines.append("/-- float / bool arm of each operator module (none = no such arm) -/")
    lines.append("def floatArms : List (String × Option String × Option String) := [")
    lines.append(",\n".join("  (%s, %s, %s)" % (lstr(nm), "some " + lstr(f) if f else "none",
                                              "some " + lstr(b) if b else "none")
                           for nm, (f, b) in fl.items()))
    lines.append("]")
    # prefix operators: modules unary_minus, not inside prefix_op.rs
    pm = {}
    for mname in ("unary_minus", "not"):
        m = re.search(r"pub mod %s \{" % mname, prefix_src)
        if not m:
            raise TranslateError("prefix_op.rs: module %s not found" % mname)
        i = m.end()
        depth = 1
        while depth:
            c = prefix_src[i]
            depth += (c == "{") - (c == "}")
            i += 1
        pm[mname] = translate_unop_exec(mname, prefix_src[m.end(): i - 1])
    lines.append("")
    lines.append("def unary_minus : UnExpr := .%s" % pm["unary_minus"]["int"])
    lines.append("def not : UnExpr := .%s" % pm["not"]["int"])
    lines.append("def unaryOther : List (String × String × String) := [%s]" % ", ".join(
        "(%s, %s, %s)" % (lstr(m), lstr(k), lstr(v)) for m, d in pm.items() for k, v in d.items() if k != "int"))
    # the three paths: Exec table, Recreate (fold) table, assignment table of bin_op.rs
    toks = lex(bin_src)
    # impl Exec for BinOperation
    exec_tab, fold_tab, assign_tab = [], [], []
    i = 0
    impl_bodies = {}
    while i < len(toks):
        if toks[i] == "impl" and toks[i + 2] == "for" and toks[i + 3] == "BinOperation":
            j = i + 4
            e = match_close(toks, j)
            impl_bodies[toks[i + 1]] = toks[j + 1 : e]
            i = e
        i += 1
    for need in ("Exec", "Recreate"):
        if need not in impl_bodies:
            raise TranslateError("bin_op.rs: impl %s for BinOperation not found" % need)
    ex_fn = find_fn(impl_bodies["Exec"], "exec")
    # last match in exec body is `match self.op { ... }`
    body = ex_fn[1]
    idx = max(k for k in range(len(body) - 3) if body[k : k + 4] == ["match", "self", ".", "op"])
    _, arms = find_match(body[idx:])
    for pat, guard, rhs in arms:
        for alt in split_alternatives(pat):
            if alt == ["_"]:
                continue
            if not (len(alt) == 3 and alt[0] == "BinOperator" and alt[1] == "::"):
                raise TranslateError("bin_op.rs Exec: pattern %s" % " ".join(alt))
            op = alt[2]
            r = " ".join(rhs)
            m1 = re.match(r"^(\w+) :: exec \( lhs , rhs \)(?: \?)?$", r)
            m2 = re.match(r"^assign :: (exec|try_exec) \( lhs , rhs , (\w+) :: exec \)(?: \?)?$", r)
            m3 = re.match(r"^assign :: exec \( lhs , rhs , \| _ , (\w+) \| \1 \)$", r)
            if m1:
                exec_tab.append((op, m1.group(1)))
            elif m2:
                assign_tab.append((op, m2.group(2), m2.group(1)))
            elif m3:
                assign_tab.append((op, "<rhs>", "exec"))
            else:
                raise TranslateError("bin_op.rs Exec: unrecognised arm for %s: %s" % (op, r))
    rc_fn = find_fn(impl_bodies["Recreate"], "recreate")
    body = rc_fn[1]
    idx = max(k for k in range(len(body) - 3) if body[k : k + 4] == ["match", "self", ".", "op"])
    _, arms = find_match(body[idx:])
    for pat, guard, rhs in arms:
        for alt in split_alternatives(pat):
            if len(alt) == 3 and alt[0] == "BinOperator":
                r = " ".join(strip_wrappers(rhs))
                m1 = re.match(r"^(\w+) :: create_from_instructions \( lhs , rhs \)$", r)
                if not m1:
                    raise TranslateError("bin_op.rs Recreate: unrecognised arm %s" % r)
                fold_tab.append((alt[2], m1.group(1)))
            elif alt == ["op"]:
                pass
            else:
                raise TranslateError("bin_op.rs Recreate: pattern %s" % " ".join(alt))
    lines.append("")
    lines.append("/-- `impl Exec for BinOperation`: operator ↦ module whose `exec` runs it -/")
    lines.append("def execTable : List (String × String) := [%s]" % ", ".join("(%s, %s)" % (lstr(a), lstr(b)) for a, b in exec_tab))
    lines.append("/-- `impl Recreate for BinOperation`: operator ↦ module whose `create_from_instructions` folds it -/")
    lines.append("def foldTable : List (String × String) := [%s]" % ", ".join("(%s, %s)" % (lstr(a), lstr(b)) for a, b in fold_tab))
    lines.append("/-- compound assignments: operator ↦ module whose `exec` is applied to (*cell, rhs) -/")
    lines.append("def assignTable : List (String × String) := [%s]" % ", ".join("(%s, %s)" % (lstr(a), lstr(b)) for a, b, _ in assign_tab))
    lines.append("/-- does module m's `create_from_instructions` fold two constants through its own `exec`? -/")
    lines.append("def foldsThroughOwnExec : List (String × Bool) := [%s]" % ", ".join(
        "(%s, %s)" % (lstr(k), "true" if v else "false") for k, v in folds.items() if v is not None))
    lines += ["", "end Ssl.Gen", ""]
    return write_if_changed("ScalarOps.lean", "\n".join(lines))


# ----------------------------------------------------------------------------- errors

def gen_errors():
    src = read("src/errors/exec_error.rs")
    toks = lex(src)
    i = next(k for k in range(len(toks)) if toks[k] == "enum" and toks[k + 1] == "ExecError")
    e = match_close(toks, i + 2)
    inner = toks[i + 3 : e]
    variants = []
    k = 0
    while k < len(inner):
        if inner[k] == "#":
            k = match_close(inner, k + 1) + 1
            continue
        if re.match(r"^[A-Z]\w*$", inner[k]):
            variants.append(inner[k])
            k += 1
            if k < len(inner) and inner[k] in ("(", "{"):
                raise TranslateError("ExecError variant with payload: %s" % variants[-1])
            continue
        if inner[k] == ",":
            k += 1
            continue
        raise TranslateError("exec_error.rs: unexpected token %s" % inner[k])
    variants = sorted(variants)         # the SET of variants is what matters; their declaration order carries no meaning
    lines = ["-- GENERATED by tools/translate.py from /repo (do not edit).",
             "-- source: src/errors/exec_error.rs@" + sha(src),
             "namespace Ssl.Gen",
             "def execErrors : List String := [%s]" % ", ".join(lstr(v) for v in variants),
             "end Ssl.Gen", ""]
    return write_if_changed("ExecErrors.lean", "\n".join(lines))


# ----------------------------------------------------------------------------- pest grammar

class PestParser:
    """recursive-descent reader for the subset of pest syntax used by simplesl.pest"""
    TOK = re.compile(r'\s*(?://[^\n]*\n\s*)*("(?:\\.|[^"\\])*"|[A-Za-z_][A-Za-z0-9_]*|[=_@$!{}()|~*+?&])')

    def __init__(self, src):
        self.toks = []
        pos = 0
        src = src.rstrip() + "\n"
        while pos < len(src):
            m = self.TOK.match(src, pos)
            if not m:
                if src[pos:].strip() == "" or re.match(r"\s*(//[^\n]*\n\s*)*$", src[pos:]):
                    break
                raise TranslateError("pest: cannot tokenise at %r" % src[pos:pos + 40])
            self.toks.append(m.group(1))
            pos = m.end()
        self.i = 0

    def peek(self):
        return self.toks[self.i] if self.i < len(self.toks) else None

    def next(self):
        t = self.peek()
        self.i += 1
        return t

    def expect(self, t):
        if self.next() != t:
            raise TranslateError("pest: expected %s near token %d (%s)" % (t, self.i, self.toks[max(0, self.i - 3):self.i + 2]))

    def rules(self):
        out = []
        while self.peek() is not None:
            name = self.next()
            if not re.match(r"^[A-Za-z_]\w*$", name):
                raise TranslateError("pest: rule name expected, got %s" % name)
            self.expect("=")
            kind = "normal"
            if self.peek() in ("_", "@", "$", "!"):
                kind = {"_": "silent", "@": "atomic", "$": "compound", "!": "nonatomic"}[self.next()]
            self.expect("{")
            e = self.choice()
            self.expect("}")
            out.append((name, kind, e))
        return out

    def choice(self):
        if self.peek() == "|":
            self.next()
        alts = [self.seq()]
        while self.peek() == "|":
            self.next()
            alts.append(self.seq())
        return alts[0] if len(alts) == 1 else ("choice", alts)

    def seq(self):
        items = [self.term()]
        while self.peek() == "~":
            self.next()
            items.append(self.term())
        return items[0] if len(items) == 1 else ("seq", items)

    def term(self):
        t = self.peek()
        if t in ("!", "&"):
            self.next()
            return ("not" if t == "!" else "and", self.term())
        if t == "(":
            self.next()
            e = self.choice()
            self.expect(")")
        elif t is not None and t.startswith('"'):
            self.next()
            e = ("str", bytes(t[1:-1], "utf-8").decode("unicode_escape"))
        elif t is not None and re.match(r"^[A-Za-z_]\w*$", t):
            self.next()
            e = ("rule", t)
        else:
            raise TranslateError("pest: unexpected token %s" % t)
        while self.peek() in ("*", "+", "?"):
            e = ({"*": "star", "+": "plus", "?": "opt"}[self.next()], e)
        return e


BUILTINS = {"ANY", "ASCII_ALPHANUMERIC", "ASCII_ALPHA", "ASCII_DIGIT", "ASCII_BIN_DIGIT",
            "ASCII_OCT_DIGIT", "ASCII_HEX_DIGIT", "NEWLINE", "EOI"}


def peg_lean(e):
    k = e[0]
    if k == "str":
        return "(.str %s)" % lstr(e[1])
    if k == "rule":
        if e[1] in BUILTINS:
            return "(.builtin %s)" % lstr(e[1])
        return "(.rule %s)" % lstr(e[1])
    if k in ("choice", "seq"):
        return "(.%s [%s])" % (k, ", ".join(peg_lean(x) for x in e[1]))
    return "(.%s %s)" % ({"not": "notP", "and": "andP", "star": "star", "plus": "plus", "opt": "opt"}[k], peg_lean(e[1]))


_grammar_cache = {}


def parse_grammar():
    src = read("parser/src/simplesl.pest")
    if src not in _grammar_cache:
        rules = PestParser(src).rules()
        names = {r[0] for r in rules}
        def check(e):
            if e[0] == "rule" and e[1] not in names and e[1] not in BUILTINS:
                raise TranslateError("pest: reference to unknown rule %s" % e[1])
            if e[0] in ("choice", "seq"):
                for x in e[1]:
                    check(x)
            elif e[0] in ("not", "and", "star", "plus", "opt"):
                check(e[1])
        for r in rules:
            check(r[2])
        if len(names) != len(rules):
            raise TranslateError("pest: duplicate rule")
        _grammar_cache[src] = rules
    return src, _grammar_cache[src]


def gen_grammar():
    src, rules = parse_grammar()
    lines = ["-- GENERATED by tools/translate.py from /repo (do not edit).",
             "-- source: parser/src/simplesl.pest@" + sha(src),
             "import SslModel.Model.Peg", "namespace Ssl.Gen", "open Ssl.Peg", "",
             "def grammar : List (String × RuleKind × Peg) := ["]
    lines.append(",\n".join("  (%s, .%s, %s)" % (lstr(n), k, peg_lean(e)) for n, k, e in rules))
    lines += ["]", "", "end Ssl.Gen", ""]
    return write_if_changed("Grammar.lean", "\n".join(lines))


def alternatives(rules, name):
    """ordered alternatives of rule `name` with silent choice rules inlined:
    list of (rule name, literal text or None)"""
    d = {n: (k, e) for n, k, e in rules}
    out = []

    def lit(e):
        # literal text a rule starts with (for operator rules: the whole literal, or the leading one)
        if e[0] == "str":
            return e[1]
        if e[0] == "seq" and e[1][0][0] == "str":
            return e[1][0][1]
        return None

    def walk(e):
        if e[0] == "choice":
            for x in e[1]:
                walk(x)
        elif e[0] == "rule":
            k, body = d[e[1]]
            if k == "silent" and body[0] in ("choice", "rule"):
                walk(body)
            elif k == "silent" and body[0] == "seq":
                for x in body[1]:
                    if x[0] == "rule":
                        walk(x)
            else:
                out.append((e[1], lit(body)))
        else:
            raise TranslateError("pest: rule %s is not an ordered choice of rules" % name)
    walk(d[name][1])
    return out


# ----------------------------------------------------------------------------- Pratt table, doc table, operator maps

def gen_pratt():
    src = read("parser/src/lib.rs")
    toks = lex(src)
    try:
        i = next(k for k in range(len(toks) - 4) if toks[k:k + 5] == ["PrattParser", "::", "new", "(", ")"])
    except StopIteration:
        raise TranslateError("parser/src/lib.rs: PrattParser::new() not found")
    i += 5
    levels = []
    while toks[i] == ".":
        if toks[i + 1] != "op" or toks[i + 2] != "(":
            raise TranslateError("lib.rs: expected .op( in the PrattParser chain, got .%s" % toks[i + 1])
        e = match_close(toks, i + 2)
        ops = []
        for part in split_top(toks[i + 3:e], "|"):
            p = " ".join(part)
            m = re.match(r"^Op :: infix \( (\w+) , (Left|Right) \)$", p)
            if m:
                ops.append((m.group(1), "infixL" if m.group(2) == "Left" else "infixR"))
                continue
            m = re.match(r"^Op :: (prefix|postfix) \( (\w+) \)$", p)
            if m:
                ops.append((m.group(2), m.group(1) + "Op"))
                continue
            raise TranslateError("lib.rs: unrecognised operator spec `%s`" % p)
        levels.append(ops)
        i = e + 1
    if not levels:
        raise TranslateError("lib.rs: empty PrattParser chain")
    # pin pest's version and the hash of its pratt_parser.rs
    lock = read("Cargo.lock")
    m = re.search(r'name = "pest"\nversion = "([^"]+)"', lock)
    pest_ver = m.group(1) if m else "?"
    pratt_src = None
    reg = os.path.expanduser("~/.cargo/registry/src")
    if os.path.isdir(reg):
        for d in os.listdir(reg):
            p = os.path.join(reg, d, "pest-%s" % pest_ver, "src", "pratt_parser.rs")
            if os.path.exists(p):
                pratt_src = open(p, encoding="utf-8").read()
    pratt_sha = hashlib.sha256(pratt_src.encode()).hexdigest() if pratt_src else "unavailable"
    _, rules = parse_grammar()
    bin_alts = alternatives(rules, "bin_op")
    pre_alts = alternatives(rules, "prefix_op")
    post_alts = alternatives(rules, "postfix_op")
    prim_alts = alternatives(rules, "primary")
    lines = ["-- GENERATED by tools/translate.py from /repo (do not edit).",
             "-- sources: parser/src/lib.rs@%s parser/src/simplesl.pest Cargo.lock" % sha(src),
             "import SslModel.Model.Pratt", "namespace Ssl.Gen", "open Ssl.Pratt", "",
             "/-- `.op(...)` levels of PRATT_PARSER, lowest precedence first -/",
             "def prattLevels : List (List (String × Affix)) := ["]
    lines.append(",\n".join("  [%s]" % ", ".join("(%s, .%s)" % (lstr(r), a) for r, a in lv) for lv in levels))
    lines.append("]")
    lines.append("")
    for nm, alts in (("binOpAlts", bin_alts), ("prefixOpAlts", pre_alts), ("postfixOpAlts", post_alts)):
        lines.append("/-- ordered alternatives (silent rules inlined) with their leading literal -/")
        lines.append("def %s : List (String × String) := [%s]" % (nm, ", ".join(
            "(%s, %s)" % (lstr(r), lstr(l if l is not None else "")) for r, l in alts)))
    lines.append("def primaryAlts : List String := [%s]" % ", ".join(lstr(r) for r, _ in prim_alts))
    lines.append("def pestVersion : String := %s" % lstr(pest_ver))
    lines.append("def prattParserSha256 : String := %s" % lstr(pratt_sha))
    lines += ["", "end Ssl.Gen", ""]
    return write_if_changed("PrattTable.lean", "\n".join(lines))


DOC_ALIASES = {
    "[]": ["at", "slicing"], "? type": ["type_filter"], "()": ["function_call"],
    "!": ["not"], "-": None, "*": None,   # resolved by level context below
    "@": ["map"], "?": ["filter"], "\\\\": ["partition"], "\\": ["partition"],
    "$ expression": ["reduce"], "$+": ["sum"], "$*": ["product"], "$&&": ["all"],
    "$||": ["reduce_any"], "$&": ["bitand_reduce"], "$|": ["bitor_reduce"], "~": ["iter"],
    "**": ["pow"], "/": ["divide"], "%": ["modulo"], "+": ["add"], "<<": ["lshift"],
    ">>": ["rshift"], "&": ["bitwise_and"], "^": ["xor"], "|": ["bitwise_or"], "==": ["equal"],
    "!=": ["not_equal"], "<": ["lower"], "<=": ["lower_equal"], ">": ["greater"],
    ">=": ["greater_equal"], "&&": ["and"], "||": ["or"], "=": ["assign"], "+=": ["assign_add"],
    "-=": ["assign_subtract"], "*=": ["assing_multiply"], "/=": ["assign_divide"],
    "%=": ["assign_modulo"], "**=": ["assign_pow"], "&=": ["assign_bitwise_and"],
    "|=": ["assign_bitwise_or"], "^=": ["assign_xor"], "<<=": ["assign_lshift"],
    ">>=": ["assign_rshift"],
}
# rows the table does not list but the property statement places on a level
DOC_IMPLICIT = {1: ["tuple_access", "field_access"], 3: ["collect"]}


def doc_levels():
    """[(level, [rules], 'left'|'right')] parsed from docs/operators.md"""
    src = read("docs/operators.md")
    m = re.search(r"## Precedence\n(.*?)\n\n", src, re.S)
    if not m:
        raise TranslateError("docs/operators.md: Precedence section not found")
    rows = [r for r in m.group(1).splitlines() if r.startswith("|")]
    levels = {}   # level -> (ops, assoc)
    cur = None
    for r in rows[2:]:
        r = re.sub(r"^\|(\s*)\|(\s*)\|=", r"|\1|\2\\|=", r)   # the `|=` row is not escaped in the source
        # split on unescaped pipes
        cells = [c.strip() for c in re.split(r"(?<!\\)\|", r)[1:]]
        if len(cells) < 2:
            raise TranslateError("operators.md: malformed row %s" % r)
        lvl, op = cells[0], cells[1].replace("\\|", "|")
        if op == "" and len(cells) >= 3:
            # a row like `|            | |=           | ...` : the operator itself is a pipe form
            raise TranslateError("operators.md: empty operator cell in %s" % r)
        assoc = cells[3] if len(cells) > 3 else ""
        if lvl:
            cur = int(lvl)
            levels[cur] = ([], None)
        if cur is None:
            raise TranslateError("operators.md: row before first level")
        ops, a = levels[cur]
        if op in ("-", "*"):
            rule = {("-", 2): "unary_minus", ("*", 2): "indirection", ("-", 6): "subtract",
                    ("*", 5): "multiply"}.get((op, cur))
            if rule is None:
                raise TranslateError("operators.md: operator %s on unexpected level %d" % (op, cur))
            names = [rule]
        else:
            if op not in DOC_ALIASES or DOC_ALIASES[op] is None:
                raise TranslateError("operators.md: unknown operator cell `%s`" % op)
            names = DOC_ALIASES[op]
        ops.extend(names)
        if "Right-to-left" in assoc:
            a = "right"
        elif "Left-to-right" in assoc:
            a = "left"
        levels[cur] = (ops, a)
    out = []
    default = "left"
    for lvl in sorted(levels):
        ops, a = levels[lvl]
        ops = ops + DOC_IMPLICIT.get(lvl, [])
        out.append((lvl, ops, a or default))
    return src, out


def gen_doc():
    src, out = doc_levels()
    lines = ["-- GENERATED by tools/translate.py from /repo (do not edit).",
             "-- source: docs/operators.md@" + sha(src),
             "namespace Ssl.Gen", "",
             "/-- precedence table of docs/operators.md: (level (1 = binds tightest), rules, right-assoc?) -/",
             "def docLevels : List (Nat × List String × Bool) := ["]
    lines.append(",\n".join("  (%d, [%s], %s)" % (lvl, ", ".join(lstr(o) for o in ops), "true" if a == "right" else "false")
                           for lvl, ops, a in out))
    lines += ["]", "", "end Ssl.Gen", ""]
    return write_if_changed("DocPrecedence.lean", "\n".join(lines))


def gen_binop():
    src = read("src/bin_operator.rs")
    toks = lex(src)
    i = next(k for k in range(len(toks)) if toks[k] == "enum" and toks[k + 1] == "BinOperator")
    e = match_close(toks, i + 2)
    inner = toks[i + 3:e]
    variants = []
    k = 0
    disp = None
    while k < len(inner):
        if inner[k] == "#":
            ce = match_close(inner, k + 1)
            attr = inner[k + 2:ce]
            if attr and attr[0] == "display":
                disp = bytes(attr[2][1:-1], "utf-8").decode("unicode_escape")
            k = ce + 1
            continue
        if re.match(r"^[A-Z]\w*$", inner[k]):
            variants.append((inner[k], disp))
            disp = None
        k += 1
    fn = find_fn(toks, "from")
    if fn is None:
        raise TranslateError("bin_operator.rs: From<Rule> not found")
    m = find_match(fn[1])
    pairs = []
    for pat, guard, rhs in m[1]:
        if pat == ["_"]:
            continue
        if len(pat) == 3 and pat[0] == "Rule" and len(rhs) == 3 and rhs[0] == "Self":
            pairs.append((pat[2], rhs[2]))
        else:
            raise TranslateError("bin_operator.rs: unrecognised arm %s" % " ".join(pat))
    usrc = read("src/unary_operator.rs")
    lines = ["-- GENERATED by tools/translate.py from /repo (do not edit).",
             "-- source: src/bin_operator.rs@" + sha(src),
             "namespace Ssl.Gen", "",
             "/-- BinOperator variants with their `#[display]` text (empty = none) -/",
             "def binOperators : List (String × String) := [%s]" % ", ".join("(%s, %s)" % (lstr(v), lstr(d or "")) for v, d in variants),
             "/-- `impl From<Rule> for BinOperator` -/",
             "def ruleToBinOp : List (String × String) := [%s]" % ", ".join("(%s, %s)" % (lstr(a), lstr(b)) for a, b in pairs),
             "", "end Ssl.Gen", ""]
    return write_if_changed("BinOpMap.lean", "\n".join(lines))


PARTS = {"scalar": gen_scalar, "errors": gen_errors}
PARTS.update({"grammar": gen_grammar, "pratt": gen_pratt, "doc": gen_doc, "binop": gen_binop})


# ----------------------------------------------------------------------------- std-lib export signatures

def _tok_text(toks):
    out = ""
    for t in toks:
        if out and (re.match(r"\w", t[0]) and re.match(r"\w", out[-1])):
            out += " "
        out += t
    return out


def std_exports():
    """[(module, kind, name, [(pname, rust type, var_type override or None)], rust return type, return_type override or None)]"""
    files = ["src/stdlib.rs"] + ["src/stdlib/%s.rs" % n for n in ("convert", "fs", "io", "math", "string")]
    out = []
    srcs = {}
    for rel in files:
        src = read(rel)
        srcs[rel] = src
        toks = lex(src)
        i = 0
        n = len(toks)
        cur_mod = None
        pending_ret = None
        while i < n:
            t = toks[i]
            if t == "#" and toks[i + 1] == "[":
                e = match_close(toks, i + 1)
                attr = toks[i + 2:e]
                if attr and attr[0] == "export":
                    cur_mod = attr[2]
                elif attr and attr[0] == "return_type":
                    pending_ret = _tok_text(attr[2:-1])
                i = e + 1
                continue
            if t == "pub" and i + 2 < n and toks[i + 1] == "fn":
                name = toks[i + 2]
                if toks[i + 3] != "(":
                    raise TranslateError("%s: generic exported function %s" % (rel, name))
                pe = match_close(toks, i + 3)
                ptoks = toks[i + 4:pe]
                params = []
                for part in split_top(ptoks):
                    override = None
                    while part and part[0] == "#":
                        ae = match_close(part, 1)
                        attr = part[2:ae]
                        if attr and attr[0] == "var_type":
                            override = _tok_text(attr[2:-1])
                        part = part[ae + 1:]
                    if ":" not in part:
                        raise TranslateError("%s: cannot read parameter of %s" % (rel, name))
                    k = part.index(":")
                    params.append((_tok_text(part[:k]), _tok_text(part[k + 1:]), override))
                j = pe + 1
                ret = "()"
                if toks[j] == "->":
                    k = j + 1
                    depth = 0
                    while not (toks[k] == "{" and depth == 0):
                        if toks[k] == "<":
                            depth += 1
                        elif toks[k] == ">":
                            depth -= 1
                        k += 1
                    ret = _tok_text(toks[j + 1:k])
                    j = k
                if cur_mod is None:
                    raise TranslateError("%s: pub fn %s outside an #[export] item" % (rel, name))
                out.append((cur_mod, "fn", name, params, ret, pending_ret))
                pending_ret = None
                i = match_close(toks, j) + 1
                continue
            if t == "pub" and i + 1 < n and toks[i + 1] == "const":
                name = toks[i + 2]
                k = i + 4
                ty = []
                while toks[k] != "=":
                    ty.append(toks[k])
                    k += 1
                out.append((cur_mod, "const", name, [], _tok_text(ty), None))
                while toks[k] != ";":
                    k += 1
                i = k + 1
                continue
            i += 1
    return srcs, out


RUST_TY = {
    "()": ".unit", "bool": ".bool", "i64": ".i64", "u32": ".u32", "usize": ".usize", "f64": ".f64",
    "&str": ".strRef", "String": ".string", "Arc<str>": ".arcStr", "std::sync::Arc<str>": ".arcStr",
    "&[Variable]": ".slice", "Arc<[Variable]>": ".arcSlice", "&Variable": ".varRef", "Variable": ".variable",
    "io::Error": ".ioError", "Array": ".array", "&Array": ".arrayRef", "Arc<Array>": ".arcArray", "i32": ".i32",
}


def rust_ty(text):
    t = "".join(text.split())
    if t in RUST_TY:
        return RUST_TY[t]
    m = re.fullmatch(r"Option<(.*)>", t)
    if m:
        return "(.option %s)" % rust_ty(m.group(1))
    m = re.fullmatch(r"io::Result<(.*)>", t)
    if m:
        return "(.ioResult %s)" % rust_ty(m.group(1))
    raise TranslateError("std signature: Rust type %r is not in the modelled set" % text)


def var_type_to_lean(text):
    """the `var_type!` mini-language, as far as std signatures use it -> Lean `Ty` term"""
    toks = re.findall(r"\(\)|[A-Za-z_][A-Za-z_0-9]*|[\[\]{}|:,()]", text)
    if "".join(toks) != "".join(text.split()):
        raise TranslateError("var_type text not understood: %r" % text)
    pos = [0]

    def peek():
        return toks[pos[0]] if pos[0] < len(toks) else None

    def eat(x=None):
        t = peek()
        if t is None or (x is not None and t != x):
            raise TranslateError("var_type text not understood: %r" % text)
        pos[0] += 1
        return t

    def atom():
        t = eat()
        prim = {"int": ".int", "float": ".float", "string": ".str", "bool": ".bool", "any": ".any", "()": ".void"}
        if t in prim:
            return prim[t]
        if t == "[":
            e = union()
            eat("]")
            return "(.arr %s)" % e
        if t == "struct":
            eat("{")
            fs = []
            while peek() != "}":
                k = eat()
                eat(":")
                fs.append("(%s, %s)" % (lstr(k), union()))
                if peek() == ",":
                    eat(",")
            eat("}")
            return "(.struct [%s])" % ", ".join(fs)
        raise TranslateError("var_type text not understood: %r" % text)

    def union():
        ms = [atom()]
        while peek() == "|":
            eat("|")
            ms.append(atom())
        return ms[0] if len(ms) == 1 else "(.multi [%s])" % ", ".join(ms)

    r = union()
    if pos[0] != len(toks):
        raise TranslateError("var_type text not understood: %r" % text)
    return r


def type_of_body_to_lean(body):
    m = re.fullmatch(r"Type::(\w+)", body)
    if m:
        prim = {"Void": ".void", "Bool": ".bool", "Int": ".int", "Float": ".float", "String": ".str", "Any": ".any"}
        if m.group(1) not in prim:
            raise TranslateError("type_of body %r" % body)
        return prim[m.group(1)]
    m = re.fullmatch(r"var_type!\((.*)\)", body)
    if m:
        return var_type_to_lean(m.group(1))
    raise TranslateError("type_of body not understood: %r" % body)


RESULT_RULE = "let ok = T::type_of(); let err = S::type_of(); var_type!(ok | err)"


def gen_stdsig():
    srcs, ex = std_exports()
    tsrc = read("src/variable/type_of.rs")
    msrc = read("macros/src/export.rs")
    # the macro's argument import and result conversion, as modelled in Model/StdLib.lean
    for needle in ("interpreter.get_variable(#ident_str).unwrap().try_into().unwrap()",
                   "<#param_type as simplesl::variable::TypeOf>::type_of()",
                   ").map(|value| value.into())"):
        if needle not in msrc:
            raise TranslateError("macros/src/export.rs: expected %r" % needle)
    table = []
    result_rule = False
    for m in re.finditer(r"(?:#\[duplicate_item\(T;(.*?)\)\]\s*)?impl(?:<[^>]*>)?\s+TypeOf\s+for\s+(.*?)\s*\{\s*fn type_of\(\) -> Type \{(.*?)\n    \}", tsrc, re.S):
        dup, target, body = m.group(1), m.group(2), m.group(3)
        body = " ".join(body.split())
        targets = [x.strip() for x in re.findall(r"\[([^\[\]]*(?:\[[^\[\]]*\][^\[\]]*)*)\]", dup)] if dup else [target.strip()]
        for tg in targets:
            tg = "".join(tg.split())
            if tg == "Result<T,S>":
                if body != RESULT_RULE:
                    raise TranslateError("type_of.rs: Result<T, S> rule changed: %r" % body)
                result_rule = True
                continue
            if tg.startswith("Result<"):
                continue   # Result<_, ExecError> forms: not used by exported signatures
            table.append((rust_ty(tg), type_of_body_to_lean(body)))
    if len(table) < 12:
        raise TranslateError("type_of.rs: TypeOf table not recognised (%d entries)" % len(table))
    lines = ["-- GENERATED by tools/translate.py from /repo (do not edit).",
             "-- sources: " + ", ".join("%s@%s" % (k, sha(v)) for k, v in sorted(srcs.items())) +
             ", src/variable/type_of.rs@" + sha(tsrc) + ", macros/src/export.rs@" + sha(msrc),
             "import SslModel.Model.StdTypes",
             "namespace Ssl.Gen", "open Ssl", "",
             "/-- every `pub fn` / `pub const` of the `#[export]` items of src/stdlib.rs, src/stdlib/*.rs -/",
             "def stdExports : List StdExport := ["]
    rows = []
    for mod, kind, name, params, ret, ro in ex:
        ps = ", ".join("(%s, %s, %s)" % (lstr(a), rust_ty(b), "some " + var_type_to_lean(c) if c else "none") for a, b, c in params)
        rows.append("  { module := %s, isConst := %s, name := %s, params := [%s], ret := %s, retOverride := %s }" %
                    (lstr(mod), "true" if kind == "const" else "false", lstr(name), ps, rust_ty(ret),
                     "some " + var_type_to_lean(ro) if ro else "none"))
    lines.append(",\n".join(rows))
    lines.append("]")
    lines.append("")
    lines.append("/-- `impl TypeOf for …` table of src/variable/type_of.rs -/")
    lines.append("def typeOfTable : List (RustTy × Ty) := [")
    lines.append(",\n".join("  (%s, %s)" % (a, b) for a, b in table))
    lines += ["]", "",
              "/-- `impl<T: TypeOf, S: TypeOf> TypeOf for Result<T, S>` is `T::type_of() | S::type_of()` -/",
              "def resultRule : Bool := %s" % ("true" if result_rule else "false"),
              "", "end Ssl.Gen", ""]
    return write_if_changed("StdSig.lean", "\n".join(lines))


PARTS["stdsig"] = gen_stdsig


# ----------------------------------------------------------------------------- lock shape (C16)

def fn_tokens(toks, name):
    """tokens of the body of `fn <name>` (first occurrence), or None"""
    for i in range(len(toks) - 1):
        if toks[i] == "fn" and toks[i + 1] == name:
            j = i
            while toks[j] != "{":
                if toks[j] in ("(", "<", "["):
                    j = match_close(toks, j) if toks[j] != "<" else j
                j += 1
            return toks[j + 1:match_close(toks, j)]
    return None


def count_calls(toks, method):
    return sum(1 for i in range(len(toks) - 2) if toks[i] == "." and toks[i + 1] == method and toks[i + 2] == "(")


def gen_lockshape():
    import glob
    asrc = read("src/instruction/bin_op/assign.rs")
    toks = lex(asrc)
    fns = []
    for name, tail in (("exec", ""), ("try_exec", "?")):
        body = fn_tokens(toks, name)
        if body is None:
            raise TranslateError("assign.rs: fn %s not found" % name)
        text = " ".join(body)
        # the guard is taken once, and the read of the old value and the store both go through it
        m = re.search(r"let mut (\w+) = (\w+) \. variable \. write \( \) \. unwrap \( \) ;", text)
        guard = m.group(1) if m else None
        rmw = False
        if guard:
            pat = r"\* %s = function \( %s \. clone \( \) , rhs \)%s ;" % (guard, guard, (" \\?" if tail else ""))
            rest = text[m.end():]
            m2 = re.search(pat, rest)
            rmw = bool(m2) and ("drop (" not in rest[:m2.start()] if m2 else False)
        fns.append((name, count_calls(body, "read"), count_calls(body, "write"), rmw))
    sites = []
    srcs = {}
    for path in sorted(glob.glob(os.path.join(REPO, "src", "**", "*.rs"), recursive=True)):
        rel = os.path.relpath(path, REPO)
        if rel == "src/verif.rs":
            continue
        text = read(rel)
        t = lex(text)
        # the in-crate monitor's own uses are guarded by cfg(feature = "verif") and live in src/verif.rs
        r, w = count_calls(t, "read"), count_calls(t, "write")
        other = sum(count_calls(t, mth) for mth in ("try_read", "try_write", "lock", "try_lock", "wait", "get_mut"))
        prim = sum(1 for x in t if x in ("Mutex", "Condvar", "RwLock", "AtomicBool", "AtomicUsize", "AtomicU64", "AtomicI64", "UnsafeCell", "RefCell", "Cell", "static"))
        uns = sum(1 for x in t if x == "unsafe")
        if r or w or other or uns or (prim and "RwLock" in t or "Mutex" in t or "RefCell" in t or "UnsafeCell" in t):
            sites.append((rel, r, w, other, uns))
            srcs[rel] = text
    lines = ["-- GENERATED by tools/translate.py from /repo (do not edit).",
             "-- sources: " + ", ".join("%s@%s" % (k, sha(v)) for k, v in sorted(srcs.items())),
             "namespace Ssl.Gen", "",
             "/-- `assign::exec` / `assign::try_exec`: name, `.read()` calls, `.write()` calls, and whether the old value is read and the",
             "    new one stored through the one write guard (`*g = function(g.clone(), rhs)`) -/",
             "def assignLockFns : List (String × Nat × Nat × Bool) := [" +
             ", ".join("(%s, %d, %d, %s)" % (lstr(n), r, w, "true" if b else "false") for n, r, w, b in fns) + "]",
             "",
             "/-- every source file (outside the verification hook) that takes a lock, uses another synchronisation primitive or `unsafe`:",
             "    file, `.read()`, `.write()`, other lock-like calls, `unsafe` tokens -/",
             "def lockSites : List (String × Nat × Nat × Nat × Nat) := [" +
             ", ".join("(%s, %d, %d, %d, %d)" % (lstr(f), r, w, o, u) for f, r, w, o, u in sites) + "]",
             "", "end Ssl.Gen", ""]
    return write_if_changed("LockShape.lean", "\n".join(lines))


PARTS["lockshape"] = gen_lockshape


# ----------------------------------------------------------------------------- grammar rules used by the walking code (C03)

def gen_ruleuse():
    import glob
    uses = {}
    entries = {}
    srcs = {}
    files = sorted(glob.glob(os.path.join(REPO, "src", "**", "*.rs"), recursive=True)) + \
        sorted(glob.glob(os.path.join(REPO, "parser", "src", "*.rs")))
    for path in files:
        rel = os.path.relpath(path, REPO)
        if rel == "src/verif.rs":
            continue
        text = read(rel)
        if "Rule::" not in text:
            continue
        t = lex(text)
        found = False
        for i in range(len(t) - 2):
            if t[i] == "Rule" and t[i + 1] == "::" and re.fullmatch(r"[a-z_][a-z_0-9#]*", t[i + 2] or ""):
                name = t[i + 2]
                if name.startswith("r#"):
                    name = name[2:]
                found = True
                # `SimpleSLParser::parse(Rule::x, ..)` names the start rule: no pair of that rule is expected
                if i >= 2 and t[i - 1] == "(" and t[i - 2] == "parse":
                    entries.setdefault(name, set()).add(rel)
                else:
                    uses.setdefault(name, set()).add(rel)
        if found:
            srcs[rel] = text
    if len(uses) < 40:
        raise TranslateError("only %d grammar rules found in the walking code" % len(uses))
    lines = ["-- GENERATED by tools/translate.py from /repo (do not edit).",
             "-- sources: " + ", ".join("%s@%s" % (k, sha(v)) for k, v in sorted(srcs.items())),
             "namespace Ssl.Gen", "",
             "/-- every `Rule::<name>` the crate mentions (patterns of the pair-walking code, PRATT_PARSER, `parse(Rule::..)` entry points),",
             "    with the number of files mentioning it -/",
             "def rulesInCode : List (String × Nat) := [" + ", ".join("(%s, %d)" % (lstr(k), len(v)) for k, v in sorted(uses.items())) + "]",
             "",
             "/-- start rules handed to `SimpleSLParser::parse` -/",
             "def startRules : List String := [" + ", ".join(lstr(k) for k in sorted(entries)) + "]",
             "", "end Ssl.Gen", ""]
    return write_if_changed("RuleUse.lean", "\n".join(lines))


PARTS["ruleuse"] = gen_ruleuse


def main(argv):
    global REPO, OUT
    args = list(argv)
    while args and args[0].startswith("--"):
        if args[0] == "--repo":
            REPO = args[1]
        elif args[0] == "--out":
            OUT = args[1]
        else:
            raise SystemExit("unknown option " + args[0])
        args = args[2:]
    parts = args or list(PARTS)
    rc = 0
    for p in parts:
        try:
            changed = PARTS[p]()
            print("translate %s: ok%s" % (p, " (changed)" if changed else ""))
        except TranslateError as e:
            print("translate %s: BROKEN-TIE %s" % (p, e))
            rc = 2
    return rc


if __name__ == "__main__":
    sys.exit(main(sys.argv[1:]))
