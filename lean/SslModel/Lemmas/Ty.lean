import SslModel.Model.Ty
/-! Helper lemmas about `Ssl.Ty` (sizes, unfolding equations, reflexivity of `==`). -/
set_option linter.unusedSimpArgs false
set_option linter.unusedVariables false
namespace Ssl.Ty

/-! ### sizes -/
theorem size_pos (t : Ty) : 0 < size t := by cases t <;> simp [size] <;> omega

theorem size_lt_sizeL {x : Ty} {ts : List Ty} (h : x ∈ ts) : size x < sizeL ts := by
  induction ts with
  | nil => cases h
  | cons t ts ih =>
    simp only [sizeL]
    rcases List.mem_cons.mp h with rfl | h
    · omega
    · have := ih h; omega

theorem size_lt_sizeF {k : String} {x : Ty} {fs : List (String × Ty)} (h : (k, x) ∈ fs) :
    size x < sizeF fs := by
  induction fs with
  | nil => cases h
  | cons p fs ih =>
    obtain ⟨k', t'⟩ := p
    simp only [sizeF]
    rcases List.mem_cons.mp h with h | h
    · cases h; omega
    · have := ih h; omega

/-! ### unfolding equations of `sub` (`Type::matches`) -/
theorem sub_never (t : Ty) : sub .never t = true := by rw [sub]
theorem sub_arr (a b : Ty) : sub (.arr a) (.arr b) = sub a b := by rw [sub]
theorem sub_tup (as bs : List Ty) : sub (.tup as) (.tup bs) = matchesL as bs := by rw [sub]
theorem sub_fn (ps ps2 : List Ty) (r r2 : Ty) :
    sub (.fn ps r) (.fn ps2 r2) = (matchesParams ps2 ps && sub r r2) := by rw [sub]
theorem sub_struct (fa fb : List (String × Ty)) :
    sub (.struct fa) (.struct fb) = structMatches fa fb := by rw [sub]
theorem sub_multi_left (ms : List Ty) (c : Ty) : sub (.multi ms) c = allMatch ms c := by
  cases c <;> rw [sub]
theorem sub_cell (a b : Ty) : sub (.cell a) (.cell b) = eqv a b := by
  rw [sub] <;> first | (simp [eqv]) | (intros; simp_all)

theorem allMatch_eq (ms : List Ty) (c : Ty) : allMatch ms c = ms.all (fun m => sub m c) := by
  induction ms with
  | nil => rw [allMatch]; rfl
  | cons m ms ih => rw [allMatch, ih]; rfl

theorem anyMatch_eq (a : Ty) (ms : List Ty) : anyMatch a ms = ms.any (fun m => sub a m) := by
  induction ms with
  | nil => rw [anyMatch]; rfl
  | cons m ms ih => rw [anyMatch, ih]; rfl

theorem matchesL_cons (a b : Ty) (as bs : List Ty) :
    matchesL (a :: as) (b :: bs) = (sub a b && matchesL as bs) := by rw [matchesL]
theorem matchesL_nil : matchesL [] [] = true := by rw [matchesL]

/-! ### `==` is reflexive on well-formed types -/
theorem memL_cons (a b : Ty) (bs : List Ty) : memL a (b :: bs) = (eqv a b || memL a bs) := by
  rw [memL]

theorem memL_of_mem {a : Ty} {bs : List Ty} (h : a ∈ bs) (hr : eqv a a = true) : memL a bs = true := by
  induction bs with
  | nil => cases h
  | cons b bs ih =>
    rw [memL_cons]
    rcases List.mem_cons.mp h with rfl | h
    · simp [hr]
    · simp [ih h]

theorem subL_of (as bs : List Ty) (hr : ∀ x ∈ as, eqv x x = true) (hs : ∀ x ∈ as, x ∈ bs) :
    subL as bs = true := by
  induction as with
  | nil => rw [subL]
  | cons a as ih =>
    rw [subL]
    have h1 := memL_of_mem (hs a (List.mem_cons_self)) (hr a (List.mem_cons_self))
    have h2 := ih (fun x hx => hr x (List.mem_cons_of_mem _ hx)) (fun x hx => hs x (List.mem_cons_of_mem _ hx))
    simp [h1, h2]

theorem eqvL_refl_of (ts : List Ty) (hr : ∀ x ∈ ts, eqv x x = true) : eqvL ts ts = true := by
  induction ts with
  | nil => rw [eqvL]
  | cons t ts ih =>
    rw [eqvL]
    simp [hr t (List.mem_cons_self), ih (fun x hx => hr x (List.mem_cons_of_mem _ hx))]

theorem fieldEq_of_mem {k : String} {t : Ty} {fs : List (String × Ty)} (hn : nodupKeys fs = true)
    (hm : (k, t) ∈ fs) (hr : eqv t t = true) : fieldEq k t fs = true := by
  induction fs with
  | nil => cases hm
  | cons p fs ih =>
    obtain ⟨k', t'⟩ := p
    rw [fieldEq]
    simp only [nodupKeys, Bool.and_eq_true, Bool.not_eq_true'] at hn
    rcases List.mem_cons.mp hm with h | h
    · cases h; simp [hr]
    · have hne : (k == k') = false := by
        cases hkk : (k == k') with
        | false => rfl
        | true =>
          have : k = k' := by simpa using hkk
          subst this
          have : fs.any (fun p => p.1 == k) = true := by
            rw [List.any_eq_true]; exact ⟨(k, t), h, by simp⟩
          rw [this] at hn; exact absurd hn.1 (by simp)
      simp [hne, ih hn.2 h]

theorem subF_of (fa fb : List (String × Ty)) (hn : nodupKeys fb = true)
    (hr : ∀ p ∈ fa, eqv p.2 p.2 = true) (hs : ∀ p ∈ fa, p ∈ fb) : subF fa fb = true := by
  induction fa with
  | nil => rw [subF]
  | cons p fa ih =>
    obtain ⟨k, t⟩ := p
    rw [subF]
    have h1 := fieldEq_of_mem hn (hs (k, t) (List.mem_cons_self)) (hr (k, t) (List.mem_cons_self))
    have h2 := ih (fun x hx => hr x (List.mem_cons_of_mem _ hx)) (fun x hx => hs x (List.mem_cons_of_mem _ hx))
    simp [h1, h2]

theorem wfL_mem {ts : List Ty} (h : wfL ts = true) {x : Ty} (hx : x ∈ ts) : wf x = true := by
  induction ts with
  | nil => cases hx
  | cons t ts ih =>
    simp only [wfL, Bool.and_eq_true] at h
    rcases List.mem_cons.mp hx with rfl | hx
    · exact h.1
    · exact ih h.2 hx

theorem wfF_mem {fs : List (String × Ty)} (h : wfF fs = true) {p : String × Ty} (hp : p ∈ fs) :
    wf p.2 = true := by
  induction fs with
  | nil => cases hp
  | cons q fs ih =>
    obtain ⟨k, t⟩ := q
    simp only [wfF, Bool.and_eq_true] at h
    rcases List.mem_cons.mp hp with rfl | hp
    · exact h.1
    · exact ih h.2 hp

theorem eqv_refl_aux : ∀ n : Nat, ∀ t : Ty, size t ≤ n → wf t = true → eqv t t = true := by
  intro n
  induction n with
  | zero => intro t h; have := size_pos t; omega
  | succ n ih =>
    intro t hs hw
    cases t with
    | bool => rw [eqv] | int => rw [eqv] | float => rw [eqv] | str => rw [eqv]
    | void => rw [eqv] | any => rw [eqv] | never => rw [eqv]
    | fn ps r =>
      rw [eqv]
      simp only [wf, Bool.and_eq_true] at hw
      simp only [size] at hs
      have h1 := eqvL_refl_of ps (fun x hx => ih x (by have := size_lt_sizeL hx; omega) (wfL_mem hw.1 hx))
      have h2 := ih r (by omega) hw.2
      simp [h1, h2]
    | arr e => rw [eqv]; simp only [wf] at hw; simp only [size] at hs; exact ih e (by omega) hw
    | cell e => rw [eqv]; simp only [wf] at hw; simp only [size] at hs; exact ih e (by omega) hw
    | tup es =>
      rw [eqv]; simp only [wf] at hw; simp only [size] at hs
      exact eqvL_refl_of es (fun x hx => ih x (by have := size_lt_sizeL hx; omega) (wfL_mem hw hx))
    | multi ms =>
      rw [eqv]; simp only [wf, Bool.and_eq_true] at hw; simp only [size] at hs
      have := subL_of ms ms (fun x hx => ih x (by have := size_lt_sizeL hx; omega) (wfL_mem hw.1.1.2 hx))
        (fun x hx => hx)
      simp [this]
    | struct fs =>
      rw [eqv]; simp only [wf, Bool.and_eq_true] at hw; simp only [size] at hs
      have := subF_of fs fs hw.2
        (fun p hp => ih p.2 (by have := size_lt_sizeF (k := p.1) (x := p.2) (fs := fs) hp; omega) (wfF_mem hw.1 hp))
        (fun x hx => hx)
      simp [this]

theorem eqv_refl (t : Ty) (hw : wf t = true) : eqv t t = true := eqv_refl_aux (size t) t (Nat.le_refl _) hw

/-! ### more unfolding: the catch-all arms -/
def isMulti : Ty → Bool | .multi _ => true | _ => false
def isNever : Ty → Bool | .never => true | _ => false

theorem sub_multi_right (a : Ty) (ms : List Ty) (h1 : isMulti a = false) (h2 : isNever a = false) :
    sub a (.multi ms) = anyMatch a ms := by
  cases a with
  | multi _ => simp [isMulti] at h1
  | never => simp [isNever] at h2
  | bool => rw [sub] <;> (intros; simp_all)
  | int => rw [sub] <;> (intros; simp_all)
  | float => rw [sub] <;> (intros; simp_all)
  | str => rw [sub] <;> (intros; simp_all)
  | void => rw [sub] <;> (intros; simp_all)
  | any => rw [sub] <;> (intros; simp_all)
  | fn _ _ => rw [sub] <;> (intros; simp_all)
  | arr _ => rw [sub] <;> (intros; simp_all)
  | tup _ => rw [sub] <;> (intros; simp_all)
  | cell _ => rw [sub] <;> (intros; simp_all)
  | struct _ => rw [sub] <;> (intros; simp_all)

theorem sub_any_right_base (a : Ty) (h1 : isMulti a = false) : sub a .any = true := by
  cases a with
  | multi _ => simp [isMulti] at h1
  | never => rw [sub]
  | bool => rw [sub] <;> (intros; simp_all)
  | int => rw [sub] <;> (intros; simp_all)
  | float => rw [sub] <;> (intros; simp_all)
  | str => rw [sub] <;> (intros; simp_all)
  | void => rw [sub] <;> (intros; simp_all)
  | any => rw [sub] <;> (intros; simp_all)
  | fn _ _ => rw [sub] <;> (intros; simp_all)
  | arr _ => rw [sub] <;> (intros; simp_all)
  | tup _ => rw [sub] <;> (intros; simp_all)
  | cell _ => rw [sub] <;> (intros; simp_all)
  | struct _ => rw [sub] <;> (intros; simp_all)

theorem any_greatest_aux : ∀ n : Nat, ∀ t : Ty, size t ≤ n → sub t .any = true := by
  intro n
  induction n with
  | zero => intro t h; have := size_pos t; omega
  | succ n ih =>
    intro t hs
    by_cases hm : isMulti t = true
    · cases t <;> simp [isMulti] at hm
      rename_i ms
      rw [sub_multi_left, allMatch_eq, List.all_eq_true]
      intro m hm
      simp only [size] at hs
      exact ih m (by have := size_lt_sizeL hm; omega)
    · exact sub_any_right_base t (by simpa using hm)

theorem sub_base_eqv (a : Ty) (h : a = .bool ∨ a = .int ∨ a = .float ∨ a = .str ∨ a = .void) :
    sub a a = true := by
  rcases h with rfl | rfl | rfl | rfl | rfl <;> (rw [sub] <;> first | (simp [eqv]; done) | (intros; simp_all))

theorem matchesParams_refl_of (ps : List Ty) (h : ∀ p ∈ ps, sub p p = true) :
    matchesParams ps ps = true := by
  induction ps with
  | nil => rw [matchesParams]
  | cons p ps ih =>
    rw [matchesParams]
    simp [h p List.mem_cons_self, ih (fun x hx => h x (List.mem_cons_of_mem _ hx))]

theorem matchesL_refl_of (ps : List Ty) (h : ∀ p ∈ ps, sub p p = true) : matchesL ps ps = true := by
  induction ps with
  | nil => rw [matchesL]
  | cons p ps ih =>
    rw [matchesL]
    simp [h p List.mem_cons_self, ih (fun x hx => h x (List.mem_cons_of_mem _ hx))]

theorem fieldMatches_of_mem {k : String} {t : Ty} {fs : List (String × Ty)} (hn : nodupKeys fs = true)
    (hm : (k, t) ∈ fs) (hr : sub t t = true) : fieldMatches fs k t = true := by
  induction fs with
  | nil => cases hm
  | cons p fs ih =>
    obtain ⟨k', t'⟩ := p
    rw [fieldMatches]
    simp only [nodupKeys, Bool.and_eq_true, Bool.not_eq_true'] at hn
    rcases List.mem_cons.mp hm with h | h
    · cases h; simp [hr]
    · have hne : (k == k') = false := by
        cases hkk : (k == k') with
        | false => rfl
        | true =>
          have : k = k' := by simpa using hkk
          subst this
          have : fs.any (fun p => p.1 == k) = true := by
            rw [List.any_eq_true]; exact ⟨(k, t), h, by simp⟩
          rw [this] at hn; exact absurd hn.1 (by simp)
      simp [hne, ih hn.2 h]

theorem structMatches_of (fa fb : List (String × Ty)) (hn : nodupKeys fa = true)
    (hr : ∀ p ∈ fb, sub p.2 p.2 = true) (hs : ∀ p ∈ fb, p ∈ fa) : structMatches fa fb = true := by
  induction fb with
  | nil => rw [structMatches]
  | cons p fb ih =>
    obtain ⟨k, t⟩ := p
    rw [structMatches]
    have h1 := fieldMatches_of_mem hn (hs (k, t) List.mem_cons_self) (hr (k, t) List.mem_cons_self)
    have h2 := ih (fun x hx => hr x (List.mem_cons_of_mem _ hx)) (fun x hx => hs x (List.mem_cons_of_mem _ hx))
    simp [h1, h2]

theorem membersOk_mem {ms : List Ty} (h : membersOk ms = true) {m : Ty} (hm : m ∈ ms) :
    isMulti m = false ∧ isNever m = false ∧ m ≠ .any := by
  induction ms with
  | nil => cases hm
  | cons x xs ih =>
    rcases List.mem_cons.mp hm with rfl | hm
    · cases m <;> simp_all [membersOk, isMulti, isNever]
    · have : membersOk xs = true := by cases x <;> simp_all [membersOk]
      exact ih this hm

theorem sub_refl_aux : ∀ n : Nat, ∀ t : Ty, size t ≤ n → wf t = true → sub t t = true := by
  intro n
  induction n with
  | zero => intro t h; have := size_pos t; omega
  | succ n ih =>
    intro t hs hw
    cases t with
    | bool => exact sub_base_eqv _ (by simp) | int => exact sub_base_eqv _ (by simp)
    | float => exact sub_base_eqv _ (by simp) | str => exact sub_base_eqv _ (by simp)
    | void => exact sub_base_eqv _ (by simp)
    | any => exact sub_any_right_base _ rfl
    | never => exact sub_never _
    | fn ps r =>
      rw [sub_fn]
      simp only [wf, Bool.and_eq_true] at hw
      simp only [size] at hs
      have h1 := matchesParams_refl_of ps (fun x hx => ih x (by have := size_lt_sizeL hx; omega) (wfL_mem hw.1 hx))
      have h2 := ih r (by omega) hw.2
      simp [h1, h2]
    | arr e => rw [sub_arr]; simp only [wf] at hw; simp only [size] at hs; exact ih e (by omega) hw
    | cell e => rw [sub_cell]; simp only [wf] at hw; exact eqv_refl e hw
    | tup es =>
      rw [sub_tup]; simp only [wf] at hw; simp only [size] at hs
      exact matchesL_refl_of es (fun x hx => ih x (by have := size_lt_sizeL hx; omega) (wfL_mem hw hx))
    | multi ms =>
      simp only [wf, Bool.and_eq_true] at hw; simp only [size] at hs
      rw [sub_multi_left, allMatch_eq, List.all_eq_true]
      intro m hm
      have hk := membersOk_mem hw.1.2 hm
      rw [sub_multi_right m ms hk.1 hk.2.1, anyMatch_eq, List.any_eq_true]
      exact ⟨m, hm, ih m (by have := size_lt_sizeL hm; omega) (wfL_mem hw.1.1.2 hm)⟩
    | struct fs =>
      rw [sub_struct]; simp only [wf, Bool.and_eq_true] at hw; simp only [size] at hs
      exact structMatches_of fs fs hw.2
        (fun p hp => ih p.2 (by have := size_lt_sizeF (k := p.1) (x := p.2) (fs := fs) hp; omega) (wfF_mem hw.1 hp))
        (fun x hx => hx)

theorem sub_refl (t : Ty) (hw : wf t = true) : sub t t = true :=
  sub_refl_aux (size t) t (Nat.le_refl _) hw

end Ssl.Ty
