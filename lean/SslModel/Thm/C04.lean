import SslModel.Thm.C08
import SslModel.Model.Spec
/-!
# C04 — constant folding and propagation are unobservable

The `Recreate` pass of the implementation rewrites the instruction tree.  Each rewrite rule it
applies is shown here to be an equivalence of the reference semantics `Spec` (same value, same
store, same signal), and each parse-time error it may report is shown to be an error the
operation raises *whenever* it is evaluated, whatever the environment, the store and the other
operand.  The rules themselves (which operator is folded through which `exec`) are tied to the
source by the translated tables of C08 (`three_paths_fold`).  Constant *propagation* through
names (a substitution lemma) is not proved; it is exercised by the twin-program stream.
-/
set_option linter.unusedSimpArgs false
namespace Ssl.C04
open Ssl Ssl.Spec

theorem bind_def {α β} (m : M α) (k : α → M β) (σ : St) :
    (m >>= k) σ = (match m σ with
      | (.ok a, σ') => k a σ'
      | (.error e, σ') => (.error e, σ')) := rfl

/-- literals evaluate to their value, in any environment, without touching the store -/
theorem literal_pure (f : Nat) (env : Env) (σ : St) :
    (∀ b, eval (f + 1) env (.litBool b) σ = (.ok (.bool b), σ)) ∧
    (∀ i, eval (f + 1) env (.litInt i) σ = (.ok (.int (BitVec.ofInt 64 i)), σ)) ∧
    (∀ x, eval (f + 1) env (.litFloat x) σ = (.ok (.float x), σ)) ∧
    (∀ s, eval (f + 1) env (.litStr s) σ = (.ok (.str s), σ)) ∧
    eval (f + 1) env .litUnit σ = (.ok .unit, σ) := by
  refine ⟨?_, ?_, ?_, ?_, ?_⟩ <;> intros <;> simp only [eval] <;> rfl

/-! ## folding an operator applied to two constants -/

/-- `c₁ op c₂` is exactly the operator's own `exec` on the two constants: no store change, and the
    same outcome in every environment — so replacing it by its result, or reporting its error at
    parse time, cannot be observed -/
theorem fold_int_binop (f : Nat) (env : Env) (σ : St) (op : BinOp) (a b : Int)
    (h : op ≠ .map ∧ op ≠ .filter ∧ op ≠ .partition) :
    eval (f + 2) env (.bin op (.litInt a) (.litInt b)) σ =
      (binScalar op (.int (BitVec.ofInt 64 a)) (.int (BitVec.ofInt 64 b)), σ) := by
  cases op <;> first
    | (exfalso; simp at h; done)
    | (simp only [eval, bind_def, liftE]; rfl)

theorem fold_bool_binop (f : Nat) (env : Env) (σ : St) (op : BinOp) (a b : Bool)
    (h : op = .band ∨ op = .bor ∨ op = .bxor ∨ op = .eq ∨ op = .ne) :
    eval (f + 2) env (.bin op (.litBool a) (.litBool b)) σ = (binScalar op (.bool a) (.bool b), σ) := by
  rcases h with rfl | rfl | rfl | rfl | rfl <;> (simp only [eval, bind_def, liftE]; rfl)

theorem fold_prefix (f : Nat) (env : Env) (σ : St) (a : Int) :
    eval (f + 2) env (.pre .neg (.litInt a)) σ = (preScalar .neg (.int (BitVec.ofInt 64 a)), σ) ∧
    eval (f + 2) env (.pre .not (.litInt a)) σ = (preScalar .not (.int (BitVec.ofInt 64 a)), σ) := by
  constructor <;> (simp only [eval, bind_def, liftE]; rfl)

/-! ## pruning `&&`, `||`, `if`, `while` on a constant -/

theorem and_true_left (f : Nat) (env : Env) (b : Expr) :
    eval (f + 2) env (.and (.litBool true) b) = eval (f + 1) env b := by
  funext σ; simp only [eval, bind_def, liftE, asBool]; rfl

/-- `false && b` is `false`; `b` is not evaluated (and need not even be folded) -/
theorem and_false_left (f : Nat) (env : Env) (b : Expr) (σ : St) :
    eval (f + 2) env (.and (.litBool false) b) σ = (.ok (.bool false), σ) := by
  simp only [eval, bind_def, liftE, asBool]; rfl

theorem or_true_left (f : Nat) (env : Env) (b : Expr) (σ : St) :
    eval (f + 2) env (.or (.litBool true) b) σ = (.ok (.bool true), σ) := by
  simp only [eval, bind_def, liftE, asBool]; rfl

theorem or_false_left (f : Nat) (env : Env) (b : Expr) :
    eval (f + 2) env (.or (.litBool false) b) = eval (f + 1) env b := by
  funext σ; simp only [eval, bind_def, liftE, asBool]; rfl

theorem if_true_prunes (f : Nat) (env : Env) (t : Expr) (e : Option Expr) :
    eval (f + 2) env (.ifElse (.litBool true) t e) = eval (f + 1) env t := by
  funext σ; simp only [eval, bind_def, liftE, asBool]; rfl

theorem if_false_prunes (f : Nat) (env : Env) (t e : Expr) :
    eval (f + 2) env (.ifElse (.litBool false) t (some e)) = eval (f + 1) env e := by
  funext σ; simp only [eval, bind_def, liftE, asBool]; rfl

theorem if_false_no_else_is_unit (f : Nat) (env : Env) (t : Expr) (σ : St) :
    eval (f + 2) env (.ifElse (.litBool false) t none) σ = (.ok .unit, σ) := by
  simp only [eval, bind_def, liftE, asBool]; rfl

/-- `while false { … }` is `()` -/
theorem while_false_is_unit (f : Nat) (env : Env) (body : Expr) (σ : St) :
    eval (f + 3) env (.while (.litBool false) body) σ = (.ok .unit, σ) := by
  simp only [eval, whileGo, bind_def, liftE, asBool]; rfl

/-! ## dropping a constant statement that is not the last one -/

theorem drop_constant_statement (f : Nat) (env : Env) (i : Int) (s : Expr) (rest : List Expr) :
    evalSeq (f + 3) env (.litInt i :: s :: rest) = evalSeq (f + 2) env (s :: rest) := by
  funext σ; simp only [evalSeq, evalStmt, eval, bind_def]; rfl

/-! ## errors that may be reported at parse time are errors whenever the operation is evaluated -/

/-- `x / 0`, `x % 0` fail for every int `x` -/
theorem division_by_constant_zero (x : I64) :
    binScalar .div (.int x) (.int 0) = .error (.err .ZeroDivision) ∧
    binScalar .mod (.int x) (.int 0) = .error (.err .ZeroModulo) := by
  constructor
  · simp only [binScalar]; rw [C08.div_zero x 0 (by decide)]; rfl
  · simp only [binScalar]; rw [C08.rem_zero x 0 (by decide)]; rfl

/-- a shift by a constant outside 0..=63 fails for every left operand -/
theorem shift_by_constant_out_of_range (x s : I64) (h : s.toInt < 0 ∨ 63 < s.toInt) :
    binScalar .shl (.int x) (.int s) = .error (.err .OverflowShift) ∧
    binScalar .shr (.int x) (.int s) = .error (.err .OverflowShift) := by
  constructor
  · simp only [binScalar]; rw [C08.shl_err x s h]; rfl
  · simp only [binScalar]; rw [C08.shr_err x s h]; rfl

/-- indexing an array of `n` elements with a constant outside `-n ..< n` fails whatever the
    elements are (the rule applied to array *literals* with non-constant elements) -/
theorem index_constant_out_of_range (t : Ty) (es : List Val) (i : I64)
    (h : ¬ (-(es.length : Int) ≤ i.toInt ∧ i.toInt < es.length)) :
    atVal (.arr t es) (.int i) = .error (.err .IndexOutOfBounds) := by
  have : Seq.atIdx es.length i.toInt = none := by
    unfold Seq.atIdx
    by_cases h0 : 0 ≤ i.toInt
    · simp only [h0, if_true]
      have : ¬ i.toInt.toNat < es.length := by omega
      simp [this]
    · simp only [h0, if_false]
      by_cases h2 : (es.length : Int) + i.toInt < 0
      · simp [h2]
      · exfalso; omega
  simp only [atVal, this]

/-- a negative constant length fails for every repeated value -/
theorem negative_constant_length (f : Nat) (env : Env) (σ σ1 : St) (v : Expr) (x : Val) (n : Int)
    (hv : eval (f + 1) env v σ = (.ok x, σ1)) (hn : (BitVec.ofInt 64 n).toInt < 0) :
    eval (f + 2) env (.arrayRepeat v (.litInt n)) σ = (.error (.err .NegativeLength), σ1) := by
  rw [eval]
  simp only [bind_def, hv]
  rw [eval]
  simp only [pure, hn, if_true, throwS]

end Ssl.C04
