import SslModel.Thm.C01StU
set_option linter.unusedSimpArgs false
set_option linter.unusedVariables false
set_option maxRecDepth 2000
/-!
  Struct literals and field access: the value a struct literal builds (`frameFields` of the evaluated fields, last
  initialiser of a repeated name) against the type the checker model gives it (`lastFields` of the field types).
-/
namespace Ssl.CS
open Ssl Ssl.Ty Ssl.Val Ssl.Spec Ssl.Check Ssl.CheckF Ssl.CheckS Ssl.C01
variable {S : STy}

theorem rel_mono {S S' : STy} (h : Ext S S') : ∀ (a : List (String × Ty)) (b : List (String × Val)), Rel S a b → Rel S' a b
  | [], [], _ => by simp [Rel]
  | (n, t) :: a, (m, v) :: b, hr => by
    simp only [Rel] at hr ⊢
    exact ⟨hr.1, vt_mono h hr.2.1, rel_mono h a b hr.2.2⟩
  | [], _ :: _, hr => by simp [Rel] at hr
  | _ :: _, [], hr => by simp [Rel] at hr

/-- the two folds (on field types, on field values) walk related lists in step -/
def stepT (acc : List (String × Ty)) (p : String × Ty) : List (String × Ty) :=
  if acc.any (fun q => q.1 == p.1) then acc else acc ++ [p]
def stepV (acc : List (String × Val)) (p : String × Val) : List (String × Val) :=
  if acc.any (fun q => q.1 == p.1) then acc else acc ++ [p]

theorem lastFields_eq (fts : List (String × Ty)) : lastFields fts = fts.reverse.foldl stepT [] := rfl
theorem frameFields_eq (f : Frame) : frameFields f = f.foldl stepV [] := by
  unfold frameFields stepV
  congr 1

theorem rel_any (k : String) : ∀ (a : List (String × Ty)) (b : List (String × Val)), Rel S a b →
    a.any (fun q => q.1 == k) = b.any (fun q => q.1 == k)
  | [], [], _ => rfl
  | (n, t) :: a, (m, v) :: b, h => by
    simp only [Rel] at h
    obtain ⟨rfl, _, h3⟩ := h
    simp only [List.any_cons, rel_any k a b h3]
  | [], _ :: _, h => by simp [Rel] at h
  | _ :: _, [], h => by simp [Rel] at h

theorem fold_rel : ∀ (ts : List (String × Ty)) (vs : List (String × Val)) (accT : List (String × Ty)) (accV : List (String × Val)),
    Rel S ts vs → Rel S accT accV → Rel S (ts.foldl stepT accT) (vs.foldl stepV accV)
  | [], [], accT, accV, _, ha => by simpa using ha
  | (n, t) :: ts, (m, v) :: vs, accT, accV, h, ha => by
    simp only [Rel] at h
    obtain ⟨rfl, hv, h3⟩ := h
    simp only [List.foldl]
    apply fold_rel ts vs _ _ h3
    simp only [stepT, stepV, rel_any n accT accV ha]
    split
    · exact ha
    · exact rel_append _ _ _ _ ha (by simp [Rel, hv])
  | [], _ :: _, _, _, h, _ => by simp [Rel] at h
  | _ :: _, [], _, _, h, _ => by simp [Rel] at h

/-- keys of a list of typed fields, in order -/
def keysT (l : List (String × Ty)) : List String := l.map (·.1)

theorem nodup_stepT (acc : List (String × Ty)) (p : String × Ty) (h : nodupKeys acc = true) : nodupKeys (stepT acc p) = true := by
  unfold stepT
  split
  · exact h
  · rename_i hany
    -- appending a key that does not occur keeps the keys distinct
    have : ∀ (l : List (String × Ty)), nodupKeys l = true → l.any (fun q => q.1 == p.1) = false → nodupKeys (l ++ [p]) = true := by
      intro l
      induction l with
      | nil => intro _ _; simp [nodupKeys]
      | cons q l ih =>
        intro hn ha
        obtain ⟨k, t⟩ := q
        simp only [nodupKeys, Bool.and_eq_true] at hn
        simp only [List.any_cons, Bool.or_eq_false_iff] at ha
        simp only [List.cons_append, nodupKeys, Bool.and_eq_true]
        refine ⟨?_, ih hn.2 ha.2⟩
        simp only [List.any_append, List.any_cons, List.any_nil, Bool.or_false, Bool.not_eq_true', Bool.or_eq_false_iff]
        refine ⟨by simpa using hn.1, ?_⟩
        -- p.1 ≠ k
        have h1 : (k == p.1) = false := ha.1
        cases hq : (p.1 == k) with
        | false => rfl
        | true =>
          have : p.1 = k := by simpa using hq
          rw [this] at h1
          simp at h1
    exact this acc h (by simpa only [Bool.not_eq_true] using hany)

theorem nodup_foldT : ∀ (ts acc : List (String × Ty)), nodupKeys acc = true → nodupKeys (ts.foldl stepT acc) = true
  | [], acc, h => by simpa using h
  | p :: ts, acc, h => by
    simp only [List.foldl]
    exact nodup_foldT ts _ (nodup_stepT acc p h)

/-- related lists have the same keys; with distinct keys the value list's tag matches the type list as a struct -/
theorem rel_keys : ∀ (a : List (String × Ty)) (b : List (String × Val)), Rel S a b → keysT (asTypeF b) = keysT a
  | [], [], _ => by simp [asTypeF, keysT]
  | (n, t) :: a, (m, v) :: b, h => by
    simp only [Rel] at h
    obtain ⟨rfl, _, h3⟩ := h
    have := rel_keys a b h3
    simp only [keysT, asTypeF, List.map_cons] at this ⊢
    rw [this]
  | [], _ :: _, h => by simp [Rel] at h
  | _ :: _, [], h => by simp [Rel] at h

theorem nodupKeys_of_keys : ∀ (a b : List (String × Ty)), keysT a = keysT b → nodupKeys b = true → nodupKeys a = true
  | [], [], _, _ => by simp [nodupKeys]
  | (k, t) :: a, (k2, t2) :: b, hk, hn => by
    simp only [keysT, List.map_cons, List.cons.injEq] at hk
    obtain ⟨rfl, hk2⟩ := hk
    simp only [nodupKeys, Bool.and_eq_true] at hn ⊢
    refine ⟨?_, nodupKeys_of_keys a b hk2 hn.2⟩
    have : ∀ (l : List (String × Ty)), l.any (fun p => p.1 == k) = (keysT l).any (fun x => x == k) := by
      intro l; induction l with
      | nil => rfl
      | cons q l ih => simp [keysT, List.any_cons] at ih ⊢; simp [ih]
    rw [this a, show keysT a = keysT b from hk2, ← this b]
    exact hn.1
  | [], _ :: _, hk, _ => by simp [keysT] at hk
  | _ :: _, [], hk, _ => by simp [keysT] at hk

/-- looking a key up in the tag of a related value list finds a tag below the field's type -/
theorem fieldMatches_rel : ∀ (a : List (String × Ty)) (b : List (String × Val)) (k : String) (t : Ty),
    Rel S a b → nodupKeys a = true → (k, t) ∈ a → fieldMatches (asTypeF b) k t = true
  | [], [], _, _, _, _, hm => by cases hm
  | (n, t0) :: a, (m, v) :: b, k, t, h, hn, hm => by
    simp only [Rel] at h
    obtain ⟨rfl, hv, h3⟩ := h
    simp only [nodupKeys, Bool.and_eq_true] at hn
    rw [asTypeF, fieldMatches]
    rcases List.mem_cons.mp hm with he | hm2
    · cases he
      simp only [beq_self_eq_true, if_true]
      exact hv.1
    · have hne : (k == n) = false := by
        cases hq : (k == n) with
        | false => rfl
        | true =>
          have e : k = n := by simpa using hq
          subst e
          have : a.any (fun p => p.1 == k) = true := by
            simp only [List.any_eq_true]
            exact ⟨(k, t), hm2, by simp⟩
          simp [this] at hn
      simp only [hne, Bool.false_eq_true, if_false]
      exact fieldMatches_rel a b k t h3 hn.2 hm2
  | [], _ :: _, _, _, h, _, _ => by simp [Rel] at h
  | _ :: _, [], _, _, h, _, _ => by simp [Rel] at h

theorem structMatches_rel (a : List (String × Ty)) (b : List (String × Val)) (h : Rel S a b) (hn : nodupKeys a = true) :
    structMatches (asTypeF b) a = true := by
  have key : ∀ (l : List (String × Ty)), (∀ p ∈ l, p ∈ a) → structMatches (asTypeF b) l = true := by
    intro l
    induction l with
    | nil => intro _; simp [structMatches]
    | cons q l ih =>
      intro hsub
      obtain ⟨k, t⟩ := q
      rw [structMatches]
      simp only [Bool.and_eq_true]
      exact ⟨fieldMatches_rel a b k t h hn (hsub (k, t) (by simp)), ih (fun p hp => hsub p (by simp [hp]))⟩
  exact key a (fun p hp => hp)

theorem rel_good : ∀ (a : List (String × Ty)) (b : List (String × Val)), Rel S a b → ∀ p ∈ b, Good S p.2
  | [], [], _ => by simp
  | (n, t) :: a, (m, v) :: b, h => by
    simp only [Rel] at h
    intro p hp
    rcases List.mem_cons.mp hp with rfl | hp
    · exact h.2.1.2
    · exact rel_good a b h.2.2 p hp
  | [], _ :: _, h => by simp [Rel] at h
  | _ :: _, [], h => by simp [Rel] at h

/-- **the struct literal**: evaluated fields related to their types give a struct value of the literal's type -/
theorem struct_literal (fts : List (String × Ty)) (vs : List (String × Val)) (h : Rel S fts vs) :
    VT S (.struct (lastFields fts)) (.struct (frameFields vs.reverse)) := by
  have hr : Rel S (lastFields fts) (frameFields vs.reverse) := by
    rw [lastFields_eq, frameFields_eq]
    exact fold_rel _ _ [] [] (rel_reverse fts vs h) (by simp [Rel])
  have hn : nodupKeys (lastFields fts) = true := by
    rw [lastFields_eq]; exact nodup_foldT _ [] (by simp [nodupKeys])
  have hnv : nodupKeys (asTypeF (frameFields vs.reverse)) = true :=
    nodupKeys_of_keys _ _ (rel_keys _ _ hr) hn
  refine ⟨?_, Good.struct _ hnv (rel_good _ _ hr)⟩
  simp only [asType, sub_struct]
  exact structMatches_rel _ _ hr hn

/-- **field access**: a good struct value of a struct type has every field of the type, with a value of the field's type -/
theorem field_value {x : Val} {fts : List (String × Ty)} {k : String} {t : Ty} (hx : VT S (.struct fts) x)
    (hk : lookupF k fts = some t) : ∃ fs v, x = .struct fs ∧ frameLookup k fs = some v ∧ VT S t v := by
  obtain ⟨hs, hg⟩ := hx
  cases hg with
  | struct fs hn hgood =>
    simp only [asType, sub_struct] at hs
    -- the field is demanded by the type, so the tag has it, below `t`
    have hfm : fieldMatches (asTypeF fs) k t = true := by
      have : ∀ (l : List (String × Ty)), structMatches (asTypeF fs) l = true → lookupF k l = some t → fieldMatches (asTypeF fs) k t = true := by
        intro l
        induction l with
        | nil => intro _ h; simp [lookupF] at h
        | cons q l ih =>
          intro hm hl
          obtain ⟨k2, t2⟩ := q
          rw [structMatches] at hm
          simp only [Bool.and_eq_true] at hm
          rw [lookupF] at hl
          split at hl
          · rename_i he
            have e : k = k2 := by simpa using he
            subst e
            cases hl
            exact hm.1
          · exact ih hm.2 hl
      exact this fts hs hk
    -- and the value list has the field at the same place
    have : ∀ (l : List (String × Val)), (∀ p ∈ l, Good S p.2) → fieldMatches (asTypeF l) k t = true →
        ∃ v, frameLookup k l = some v ∧ VT S t v := by
      intro l
      induction l with
      | nil => intro _ h; simp [asTypeF, fieldMatches] at h
      | cons q l ih =>
        intro hg2 hf
        obtain ⟨k2, v2⟩ := q
        rw [asTypeF, fieldMatches] at hf
        rw [frameLookup]
        by_cases he : (k == k2) = true
        · have e : k = k2 := by simpa using he
          subst e
          simp only [beq_self_eq_true, if_true] at hf ⊢
          exact ⟨v2, rfl, hf, hg2 (k, v2) (by simp)⟩
        · have he' : (k == k2) = false := by simpa using he
          have he2 : (k2 == k) = false := by
            cases hq : (k2 == k) with
            | false => rfl
            | true => have : k2 = k := by simpa using hq
                      subst this; simp at he'
          simp only [he', he2, Bool.false_eq_true, if_false] at hf ⊢
          exact ih (fun p hp => hg2 p (by simp [hp])) hf
    obtain ⟨v, hv, hvt⟩ := this fs hgood hfm
    exact ⟨fs, v, rfl, hv, hvt⟩
  | _ => simp [asType, sub, eqv] at hs

end Ssl.CS
