import SslModel.Model.Int64
import SslModel.Gen.ScalarOps
import SslModel.Gen.ExecErrors
