import SslModel.Model.CheckF
import SslModel.Thm.C02Eval
/-!
# C01 / C02 (stage 3) — soundness and progress at the level of the evaluator, WITH FUNCTIONS

`CheckF.tyF` extends the checker model of `Model/Check.lean` with anonymous functions, function declarations (recursive
through their own name), calls on operands of a function type and `return` (tied to the implementation by the
`fragment-fn-types` stream of tools/props/c01.py).  One statement covers soundness, return typing and progress:
**for every expression the model types, the reference evaluator ends in a value whose run-time tag lies below the
static type (hence it inhabits the type by contents), or in a documented run-time error, or runs out of fuel, or
`return`s a value of the enclosing function's declared result type - never `wrong`, never an escaping `break` /
`continue`** (`eval_outcome`, `program_outcome`; all fuel, all stores, all environments respecting the static types).

The invariant on values (`Good`) is an inductive predicate: arrays carry well-formed tags above their elements' tags, and
a FUNCTION VALUE is good when its body was accepted by the checker model in some static environment that its captured
values respect - which is exactly what lets a call be analysed: the callee's environment (parameters, own name,
captured values) respects the environment its body was checked in (`envOkG_callee`), the arguments' tags lie below the
callee's own parameter types by contravariance of `matches` on function types, a `return`ed value is caught with the
declared result type, and falling off the end of the body is possible only if no top-level statement had type `!`,
i.e. only if `()` is a result (`MissingReturn`).  Cells, loops, structs and iterators remain outside.
-/
set_option linter.unusedSimpArgs false
set_option linter.unusedVariables false
namespace Ssl.CF
open Ssl Ssl.Ty Ssl.Val Ssl.Spec Ssl.Check Ssl.CheckF Ssl.C01

/-- the static environment a function body is checked in: parameters over the function's own name (if declared) over
    the environment of the definition -/
def bodyEnv (self : Option String) (ps : List (String × Ty)) (rt : Ty) (Γ : TEnv) : TEnv :=
  bindParams ps (match self with
    | some x => (x, .fn (ps.map (·.2)) rt) :: Γ
    | none => Γ)

/-- the checker accepted the body: it is typed with the declared result type, and falls off its end only if `()`
    is a result (some top-level statement has type `!` otherwise) -/
def BodyOk (self : Option String) (ps : List (String × Ty)) (rt : Ty) (body : List Expr) (Γ : TEnv) : Prop :=
  ∃ ts g', tyFSeq (some rt) (bodyEnv self ps rt Γ) body = .ok (ts, g') ∧
    (sub .void rt = true ∨ ts.any (fun t => eqv t .never) = true)

/-- values the fragment builds: scalars, arrays whose stored tag is well-formed and above the elements' tags, tuples,
    and FUNCTION values whose body the checker accepted in some static environment that the captured values respect -/
inductive Good : Val → Prop
  | bool (b : Bool) : Good (.bool b)
  | int (i : I64) : Good (.int i)
  | float (x : F64) : Good (.float x)
  | str (s : String) : Good (.str s)
  | unit : Good .unit
  | arr (t : Ty) (es : List Val) : wf t = true → (∀ e ∈ es, sub e.asType t = true) → (∀ e ∈ es, Good e) → Good (.arr t es)
  | tup (es : List Val) : (∀ e ∈ es, Good e) → Good (.tup es)
  | fn (id : Nat) (ps : List (String × Ty)) (rt : Ty) (body : List Expr) (cap : List (String × Val)) (self : Option String)
      (Γ : TEnv) : wfParams ps = true → wf rt = true → (∀ x t, Γ.lookup x = some t → wf t = true) →
      (∀ x t, Γ.lookup x = some t → ∃ v, frameLookup x cap = some v ∧ sub v.asType t = true) →
      (∀ x t v, Γ.lookup x = some t → frameLookup x cap = some v → Good v) →
      BodyOk self ps rt body Γ → Good (.fn id ps rt body cap self)


theorem wfL_of_wfParams (ps : List (String × Ty)) (h : wfParams ps = true) : wfL (ps.map (·.2)) = true := by
  induction ps with
  | nil => simp [wfL]
  | cons p ps ih =>
    simp only [wfParams, List.all_cons, Bool.and_eq_true] at h
    simp only [List.map_cons, wfL, Bool.and_eq_true]
    exact ⟨h.1, ih (by simpa [wfParams] using h.2)⟩

theorem good_facts : ∀ n : Nat, ∀ v : Val, Val.size v ≤ n → Good v →
    okv v = true ∧ wf v.asType = true ∧ hasTy v v.asType = true := by
  intro n
  induction n with
  | zero => intro v h; cases v <;> simp [Val.size] at h <;> omega
  | succ n ih =>
    intro v hs hg
    cases hg with
    | bool b => simp [okv, asType, wf, hasTy]
    | int i => simp [okv, asType, wf, hasTy]
    | float x => simp [okv, asType, wf, hasTy]
    | str s => simp [okv, asType, wf, hasTy]
    | unit => simp [okv, asType, wf, hasTy]
    | arr t es wt hsub hgood =>
      simp only [Val.size] at hs
      have hall : ∀ x ∈ es, okv x = true ∧ wf x.asType = true ∧ hasTy x x.asType = true :=
        fun x hx => ih x (by have := valSizeL_mem hx; omega) (hgood x hx)
      refine ⟨?_, by simpa [asType, wf] using wt, ?_⟩
      · simp only [okv]
        clear hs
        induction es with
        | nil => simp [okvL]
        | cons e es ihe => simp [okvL, (hall e (by simp)).1, ihe (fun x hx => hsub x (by simp [hx])) (fun x hx => hgood x (by simp [hx])) (fun x hx => hall x (by simp [hx]))]
      · rw [asType, hasTy_arr, allHasTy_iff]
        intro x hx
        exact matches_sound x x.asType t (hall x hx).1 (hall x hx).2.1 wt (hsub x hx) (hall x hx).2.2
    | tup es hgood =>
      simp only [Val.size] at hs
      have hall : ∀ x ∈ es, okv x = true ∧ wf x.asType = true ∧ hasTy x x.asType = true :=
        fun x hx => ih x (by have := valSizeL_mem hx; omega) (hgood x hx)
      clear hs
      refine ⟨?_, ?_, ?_⟩
      · simp only [okv]
        induction es with
        | nil => simp [okvL]
        | cons e es ihe => simp [okvL, (hall e (by simp)).1, ihe (fun x hx => hgood x (by simp [hx])) (fun x hx => hall x (by simp [hx]))]
      · simp only [asType, wf]
        induction es with
        | nil => simp [asTypeL, wfL]
        | cons e es ihe =>
          simp only [asTypeL, wfL, Bool.and_eq_true]
          exact ⟨(hall e (by simp)).2.1, ihe (fun x hx => hgood x (by simp [hx])) (fun x hx => hall x (by simp [hx]))⟩
      · rw [asType, hasTy_tup]
        induction es with
        | nil => simp [asTypeL, hasTyL]
        | cons e es ihe =>
          simp only [asTypeL, hasTyL, Bool.and_eq_true]
          exact ⟨(hall e (by simp)).2.2, ihe (fun x hx => hgood x (by simp [hx])) (fun x hx => hall x (by simp [hx]))⟩
    | fn id ps rt body cap self Γ wp wr _ _ _ _ =>
      have wft : wf (Val.fn id ps rt body cap self).asType = true := by
        simp only [asType, wf, Bool.and_eq_true]
        exact ⟨wfL_of_wfParams ps wp, wr⟩
      refine ⟨by simpa [okv] using wft, wft, ?_⟩
      have hsr := sub_refl _ wft
      simp only [asType] at hsr ⊢
      rw [hasTy]
      simpa [asType] using hsr

theorem good_okv {v : Val} (h : Good v) : okv v = true := (good_facts _ v (Nat.le_refl _) h).1
theorem good_wf_tag {v : Val} (h : Good v) : wf v.asType = true := (good_facts _ v (Nat.le_refl _) h).2.1
theorem good_hasTy_tag {v : Val} (h : Good v) : hasTy v v.asType = true := (good_facts _ v (Nat.le_refl _) h).2.2

/-- a good value whose tag lies below a well-formed `T` inhabits `T` -/
theorem hasTy_of_tagG {v : Val} {T : Ty} (gv : Good v) (wT : wf T = true) (h : sub v.asType T = true) : hasTy v T = true :=
  matches_sound v v.asType T (good_okv gv) (good_wf_tag gv) wT h (good_hasTy_tag gv)


/-! ### operators -/

theorem pair_inG (x y : Val) (l r acc : Ty) (hx : hasTy x l = true) (hy : hasTy y r = true)
    (ox : okv x = true) (oy : okv y = true) (wl : wf l = true) (wr : wf r = true) (wa : wf acc = true)
    (h : sub (pairTy l r) acc = true) : hasTy (.tup [x, y]) acc = true :=
  matches_sound (.tup [x, y]) (pairTy l r) acc (by simp [okv, okvL, ox, oy]) (by simp [pairTy, wf, wfL, wl, wr]) wa h
    (hasTy_pair x y l r hx hy)

theorem wf_accs : wf accNum = true ∧ wf accInt = true ∧ wf accBit = true ∧ wf accAddScalar = true := by
  simp [accNum, accInt, accBit, accAddScalar, pairTy, wf, wfL, membersOk, nodupL, memL, eqv, eqvL]

def scalarV : Val → Bool
  | .bool _ | .int _ | .float _ | .str _ | .unit => true
  | _ => false

theorem plain_of_scalar {v : Val} (h : scalarV v = true) : plain v = true := by
  cases v <;> simp [scalarV] at h <;> simp [plain]

theorem good_of_scalarish {v : Val} (h : plain v = true) (hs : scalarV v = true) : Good v := by
  cases v <;> simp [scalarV] at hs <;> constructor

/-- which operands a typed scalar operator can meet: scalars, or (for `+`) two arrays, or anything for `==` / `!=` -/
theorem operand_shapes (op : BinOp) (l r T : Ty) (x y : Val) (hx : hasTy x l = true) (hy : hasTy y r = true)
    (ox : okv x = true) (oy : okv y = true) (wl : wf l = true) (wr : wf r = true) (ht : binTy op l r = .ok T) :
    (scalarV x = true ∧ scalarV y = true) ∨
    (op = .add ∧ ∃ le re, l = .arr le ∧ r = .arr re) ∨ op = .eq ∨ op = .ne := by
  obtain ⟨w1, w2, w3, w4⟩ := wf_accs
  have num : sub (pairTy l r) accNum = true → scalarV x = true ∧ scalarV y = true := fun hs => by
    rcases in_accNum x y (pair_inG x y l r accNum hx hy ox oy wl wr w1 hs) with ⟨a, b, rfl, rfl⟩ | ⟨a, b, rfl, rfl⟩ <;> simp [scalarV]
  have int : sub (pairTy l r) accInt = true → scalarV x = true ∧ scalarV y = true := fun hs => by
    obtain ⟨a, b, rfl, rfl⟩ := in_accInt x y (pair_inG x y l r accInt hx hy ox oy wl wr w2 hs); simp [scalarV]
  have bit : sub (pairTy l r) accBit = true → scalarV x = true ∧ scalarV y = true := fun hs => by
    rcases in_accBit x y (pair_inG x y l r accBit hx hy ox oy wl wr w3 hs) with ⟨a, b, rfl, rfl⟩ | ⟨a, b, rfl, rfl⟩ <;> simp [scalarV]
  cases op with
  | add =>
    simp only [binTy] at ht
    split at ht
    · rename_i le re
      exact Or.inr (Or.inl ⟨rfl, le, re, rfl, rfl⟩)
    · split at ht
      · rename_i hs
        left
        rcases in_accAddScalar x y (pair_inG x y l r accAddScalar hx hy ox oy wl wr w4 hs) with
          ⟨a, b, rfl, rfl⟩ | ⟨a, b, rfl, rfl⟩ | ⟨a, b, rfl, rfl⟩ <;> simp [scalarV]
      · split at ht <;> cases ht
  | eq => exact Or.inr (Or.inr (Or.inl rfl))
  | ne => exact Or.inr (Or.inr (Or.inr rfl))
  | filter => simp only [binTy] at ht; cases ht
  | map => simp only [binTy] at ht; cases ht
  | partition => simp only [binTy] at ht; cases ht
  | sub | mul | div | pow | lt | le | gt | ge =>
    simp only [binTy] at ht
    split at ht
    · rename_i hs; exact Or.inl (num hs)
    · cases ht
  | mod | shl | shr =>
    simp only [binTy] at ht
    split at ht
    · rename_i hs; exact Or.inl (int hs)
    · cases ht
  | band | bor | bxor =>
    simp only [binTy] at ht
    split at ht
    · rename_i hs; exact Or.inl (bit hs)
    · cases ht


theorem good_of_plain : ∀ n : Nat, ∀ v : Val, Val.size v ≤ n → plain v = true → Good v := by
  intro n
  induction n with
  | zero => intro v h; cases v <;> simp [Val.size] at h <;> omega
  | succ n ih =>
    intro v hs hp
    cases v with
    | arr t es =>
      simp only [plain, Bool.and_eq_true] at hp
      simp only [Val.size] at hs
      exact Good.arr t es hp.1.1 ((allTagSub_iff es t).mp hp.1.2)
        (fun e he => ih e (by have := valSizeL_mem he; omega) (plainL_mem hp.2 he))
    | tup es =>
      simp only [plain] at hp
      simp only [Val.size] at hs
      exact Good.tup es (fun e he => ih e (by have := valSizeL_mem he; omega) (plainL_mem hp he))
    | struct _ => simp [plain] at hp
    | cell _ _ => simp [plain] at hp
    | fn _ _ _ _ _ _ => simp [plain] at hp
    | _ => constructor

theorem ofScalar_sig (r : Except ExecErr Scalar) (s : Sig) (h : ofScalar r = .error s) : ∃ e, s = .err e := by
  cases r with
  | error e => simp [ofScalar] at h; exact ⟨e, h.symm⟩
  | ok sc => cases sc <;> simp [ofScalar] at h

/-- value typing: the run-time tag lies below `T`, and the value is well-formed -/
def VT (T : Ty) (v : Val) : Prop := sub v.asType T = true ∧ Good v

/-- what a signal may be: a `return` of a value of the enclosing function's result type, a documented run-time error,
    or fuel exhaustion - never `break` / `continue` and never `wrong` -/
def okSig (ret : Option Ty) : Sig → Prop
  | .ret v => ∃ rt, ret = some rt ∧ VT rt v
  | .err _ => True
  | .fuel => True
  | .brk => False
  | .cont => False
  | .wrong _ => False

theorem tagArr_sub (t e : Ty) (h : sub (Ty.arr t) (Ty.arr e) = true) : sub t e = true := by rwa [C01.sub_arr] at h

/-- a scalar operator fails only with a documented error or with `wrong` -/
theorem binScalar_sig (op : BinOp) (x y : Val) (s : Sig) (h : binScalar op x y = .error s) :
    (∃ e, s = .err e) ∨ (∃ w, s = .wrong w) := by
  unfold binScalar at h
  split at h <;> first
    | (obtain ⟨e, rfl⟩ := ofScalar_sig _ _ h; exact Or.inl ⟨e, rfl⟩)
    | (cases h; exact Or.inr ⟨_, rfl⟩)
    | cases h

/-- a typed binary operator on operands of its operand types: a value of the result type, or a documented error -/
theorem out_bin (ret : Option Ty) (op : BinOp) (l r T : Ty) (x y : Val) (hx : VT l x) (hy : VT r y)
    (wl : wf l = true) (wr : wf r = true) (ht : binTy op l r = .ok T) :
    (match binScalar op x y with
     | .ok v => VT T v
     | .error s => okSig ret s) := by
  obtain ⟨tx, gx⟩ := hx
  obtain ⟨ty, gy⟩ := hy
  have cx := hasTy_of_tagG gx wl tx
  have cy := hasTy_of_tagG gy wr ty
  rcases operand_shapes op l r T x y cx cy (good_okv gx) (good_okv gy) wl wr ht with ⟨sx, sy⟩ | ⟨rfl, le, re, rfl, rfl⟩ | rfl | rfl
  · have px := plain_of_scalar sx
    have py := plain_of_scalar sy
    cases hb : binScalar op x y with
    | ok v =>
      obtain ⟨h1, h2⟩ := sound_bin op l r T x y v tx ty px py wl wr ht hb
      exact ⟨h1, good_of_plain _ v (Nat.le_refl _) h2⟩
    | error s =>
      have nw := C02.bin_not_wrong op l r T x y cx cy (plain_fo px) (plain_fo py) ht
      rw [hb] at nw
      rcases binScalar_sig op x y s hb with ⟨e, rfl⟩ | ⟨w, rfl⟩
      · simp [okSig]
      · simp [C02.isWrong] at nw
  · -- `+` on two arrays
    simp only [binTy] at ht
    have hT := (okW_ok ht).1
    subst hT
    simp only [wf] at wl wr
    obtain ⟨t1, xs, rfl⟩ := arr_of_hasTy cx
    obtain ⟨t2, ys, rfl⟩ := arr_of_hasTy cy
    simp only [asType, C01.sub_arr] at tx ty
    cases gx with
    | arr _ _ w1 hs1 hg1 =>
    cases gy with
    | arr _ _ w2 hs2 hg2 =>
    have wc := concat_wf t1 t2 w1 w2
    have wC := concat_wf le re wl wr
    obtain ⟨u1, u2⟩ := concat_upper le re wl wr
    obtain ⟨v1, v2⟩ := concat_upper t1 t2 w1 w2
    have s1 : sub t1 (concat le re) = true := sub_trans t1 le _ w1 wl wC tx u1
    have s2 : sub t2 (concat le re) = true := sub_trans t2 re _ w2 wr wC ty u2
    simp only [binScalar, concatArrays]
    split
    · exact ⟨by simp only [asType, C01.sub_arr]; exact s2, Good.arr t2 ys w2 hs2 hg2⟩
    · split
      · exact ⟨by simp only [asType, C01.sub_arr]; exact s1, Good.arr t1 xs w1 hs1 hg1⟩
      · refine ⟨by simp only [asType, C01.sub_arr]; exact concat_least t1 t2 _ w1 w2 s1 s2, Good.arr _ _ wc ?_ ?_⟩
        · intro e he
          rcases List.mem_append.mp he with h | h
          · exact sub_trans _ t1 _ (good_wf_tag (hg1 e h)) w1 wc (hs1 e h) v1
          · exact sub_trans _ t2 _ (good_wf_tag (hg2 e h)) w2 wc (hs2 e h) v2
        · intro e he
          rcases List.mem_append.mp he with h | h
          · exact hg1 e h
          · exact hg2 e h
  · simp only [binTy] at ht
    cases ht
    have : binScalar .eq x y = .ok (.bool (veq x y)) := by cases x <;> cases y <;> simp [binScalar]
    rw [this]
    exact ⟨by simp [asType, sub, eqv], Good.bool _⟩
  · simp only [binTy] at ht
    cases ht
    have : binScalar .ne x y = .ok (.bool (!veq x y)) := by cases x <;> cases y <;> simp [binScalar]
    rw [this]
    exact ⟨by simp [asType, sub, eqv], Good.bool _⟩


/-! ### outcomes -/

/-- the outcome of a computation: `P` of its value, or an admissible signal -/
def OutP {α} (ret : Option Ty) (P : α → Prop) (r : Except Sig α × St) : Prop :=
  match r.1 with
  | .ok a => P a
  | .error s => okSig ret s

theorem outP_bind {α β} (ret : Option Ty) (P : α → Prop) (Q : β → Prop) (m : M α) (k : α → M β) (σ : St)
    (h1 : OutP ret P (m σ)) (h2 : ∀ a σ1, m σ = (.ok a, σ1) → P a → OutP ret Q (k a σ1)) :
    OutP ret Q ((m >>= k) σ) := by
  rw [C07.bind_def]
  cases hm : m σ with
  | mk r σ1 =>
    rw [hm] at h1
    cases r with
    | ok a => exact h2 a σ1 hm (by simpa [OutP] using h1)
    | error e => simpa [OutP] using h1

theorem outP_pure {α} (ret : Option Ty) (P : α → Prop) (a : α) (σ : St) (h : P a) : OutP ret P ((pure a : M α) σ) := by
  simpa [OutP, pure] using h

theorem outP_liftE {α} (ret : Option Ty) (P : α → Prop) (r : Except Sig α) (σ : St)
    (h : match r with | .ok a => P a | .error s => okSig ret s) : OutP ret P (liftE r σ) := by
  cases r <;> simpa [OutP, liftE] using h

theorem outP_liftE2 {α} (ret : Option Ty) (P : α → Prop) (r : Except Sig α) (σ : St)
    (hok : ∀ a, r = .ok a → P a) (herr : ∀ s, r = .error s → okSig ret s) : OutP ret P (liftE r σ) := by
  cases r with
  | ok a => simpa [OutP, liftE] using hok a rfl
  | error s => simpa [OutP, liftE] using herr s rfl

theorem atVal_sig (x : Val) (k : I64) (s : Sig) (hx : (∃ t xs, x = .arr t xs) ∨ (∃ str, x = .str str))
    (h : atVal x (.int k) = .error s) : s = .err .IndexOutOfBounds := by
  rcases hx with ⟨t, xs, rfl⟩ | ⟨str, rfl⟩
  · simp only [atVal] at h
    split at h
    · split at h
      · cases h
      · cases h; rfl
    · cases h; rfl
  · simp only [atVal] at h
    split at h
    · split at h
      · cases h
      · cases h; rfl
    · cases h; rfl

theorem outP_mono {α} (ret : Option Ty) (P Q : α → Prop) (r : Except Sig α × St) (h : OutP ret P r) (hpq : ∀ a, P a → Q a) :
    OutP ret Q r := by
  unfold OutP at *
  cases hr : r.1 with
  | ok a => rw [hr] at h; exact hpq a h
  | error s => rw [hr] at h; exact h

theorem outP_ok {α} {ret : Option Ty} {P : α → Prop} {r : Except Sig α × St} {a : α} {σ : St} (h : OutP ret P r)
    (hr : r = (.ok a, σ)) : P a := by
  subst hr; simpa [OutP] using h

/-! ### environments -/

def EnvOkG (env : Env) (g : TEnv) : Prop := ∀ x t, g.lookup x = some t → ∃ v, env.lookup x = some v ∧ VT t v
def GWf (g : TEnv) : Prop := ∀ x t, g.lookup x = some t → wf t = true

theorem gwf_cons (g : TEnv) (x : String) (t : Ty) (h : GWf g) (wt : wf t = true) : GWf ((x, t) :: g) := by
  intro y ty hy
  simp only [TEnv.lookup] at hy
  split at hy
  · cases hy; exact wt
  · exact h y ty hy

theorem envOkG_insert (env : Env) (g : TEnv) (x : String) (v : Val) (t : Ty) (h : EnvOkG env g) (hv : VT t v) :
    EnvOkG (env.insert x v) ((x, t) :: g) := by
  intro y ty hy
  simp only [TEnv.lookup] at hy
  by_cases hxy : (y == x) = true
  · simp only [hxy, if_true, Option.some.injEq] at hy
    subst hy
    have : y = x := by simpa using hxy
    subst this
    exact ⟨v, C06.lookup_insert_same env y v, hv⟩
  · have hxy' : (y == x) = false := by simpa using hxy
    simp only [hxy', Bool.false_eq_true, if_false] at hy
    obtain ⟨w, hw, h1⟩ := h y ty hy
    have hne : (x == y) = false := by
      cases hq : (x == y) with
      | false => rfl
      | true => have : x = y := by simpa using hq
                subst this; simp at hxy'
    exact ⟨w, by rw [C06.lookup_insert_other env x y v hne]; exact hw, h1⟩

theorem envOkG_bind (env : Env) (g : TEnv) (x : String) (v : Val) (t : Ty) (h : EnvOkG env g) (hv : VT t v) :
    EnvOkG ([(x, v)] :: env) ((x, t) :: g) := by
  intro y ty hy
  simp only [TEnv.lookup] at hy
  by_cases hxy : (y == x) = true
  · simp only [hxy, if_true, Option.some.injEq] at hy
    subst hy
    have : y = x := by simpa using hxy
    subst this
    exact ⟨v, C06.lookup_inner_frame env y v, hv⟩
  · have hxy' : (y == x) = false := by simpa using hxy
    simp only [hxy', Bool.false_eq_true, if_false] at hy
    obtain ⟨w, hw, h1⟩ := h y ty hy
    have hne : (x == y) = false := by
      cases hq : (x == y) with
      | false => rfl
      | true => have : x = y := by simpa using hq
                subst this; simp at hxy'
    exact ⟨w, by rw [C06.lookup_inner_frame_other env x y v hne]; exact hw, h1⟩

theorem envOkG_push (env : Env) (g : TEnv) (h : EnvOkG env g) : EnvOkG ([] :: env) g := by
  intro y ty hy
  obtain ⟨w, hw, h1⟩ := h y ty hy
  exact ⟨w, by simpa [Env.lookup, frameLookup] using hw, h1⟩


/-! ### the callee's environment -/

/-- typed bindings and value bindings, name by name -/
def Rel : List (String × Ty) → List (String × Val) → Prop
  | [], [] => True
  | (n, t) :: a, (m, v) :: b => n = m ∧ VT t v ∧ Rel a b
  | _, _ => False

theorem rel_append : ∀ (a : List (String × Ty)) (b : List (String × Val)) (c : List (String × Ty)) (d : List (String × Val)),
    Rel a b → Rel c d → Rel (a ++ c) (b ++ d)
  | [], [], c, d, _, h => by simpa using h
  | (n, t) :: a, (m, v) :: b, c, d, h1, h2 => by
    simp only [Rel] at h1
    simp only [List.cons_append, Rel]
    exact ⟨h1.1, h1.2.1, rel_append a b c d h1.2.2 h2⟩
  | [], _ :: _, _, _, h, _ => by simp [Rel] at h
  | _ :: _, [], _, _, h, _ => by simp [Rel] at h

theorem rel_reverse : ∀ (a : List (String × Ty)) (b : List (String × Val)), Rel a b → Rel a.reverse b.reverse
  | [], [], _ => by simp [Rel]
  | (n, t) :: a, (m, v) :: b, h => by
    simp only [Rel] at h
    simp only [List.reverse_cons]
    exact rel_append _ _ _ _ (rel_reverse a b h.2.2) (by simp [Rel, h.1, h.2.1])
  | [], _ :: _, h => by simp [Rel] at h
  | _ :: _, [], h => by simp [Rel] at h

/-- looking a name up in related binding lists, with related fall-through -/
theorem lookup_rel : ∀ (a : List (String × Ty)) (b : List (String × Val)) (g : TEnv) (fr : Frame) (y : String) (t : Ty),
    Rel a b → (∀ t, g.lookup y = some t → ∃ v, frameLookup y fr = some v ∧ VT t v) →
    TEnv.lookup y (a ++ g) = some t → ∃ v, frameLookup y (b ++ fr) = some v ∧ VT t v
  | [], [], g, fr, y, t, _, hf, h => by simpa using hf t (by simpa using h)
  | (n, t0) :: a, (m, v0) :: b, g, fr, y, t, hr, hf, h => by
    simp only [Rel] at hr
    obtain ⟨rfl, hv, hr'⟩ := hr
    simp only [List.cons_append, TEnv.lookup] at h
    simp only [List.cons_append, frameLookup]
    by_cases hyn : (y == n) = true
    · have : (n == y) = true := by
        have : y = n := by simpa using hyn
        subst this; simp
      simp only [hyn, if_true, Option.some.injEq] at h
      subst h
      exact ⟨v0, by simp [this], hv⟩
    · have hyn' : (y == n) = false := by simpa using hyn
      have : (n == y) = false := by
        cases hq : (n == y) with
        | false => rfl
        | true => have : n = y := by simpa using hq
                  subst this; simp at hyn'
      simp only [hyn', Bool.false_eq_true, if_false] at h
      simp only [this, Bool.false_eq_true, if_false]
      exact lookup_rel a b g fr y t hr' hf h
  | [], _ :: _, _, _, _, _, h, _, _ => by simp [Rel] at h
  | _ :: _, [], _, _, _, _, h, _, _ => by simp [Rel] at h

/-- the arguments of a call against the parameters of the callee -/
def ArgsOk : List (String × Ty) → List Val → Prop
  | [], [] => True
  | (_, t) :: ps, v :: vs => VT t v ∧ ArgsOk ps vs
  | _, _ => False

theorem rel_zip : ∀ (ps : List (String × Ty)) (args : List Val), ArgsOk ps args →
    Rel ps (List.zip (ps.map (·.1)) args)
  | [], [], _ => by simp [Rel]
  | (n, t) :: ps, v :: vs, h => by
    simp only [ArgsOk] at h
    simp only [List.map_cons, List.zip_cons_cons, Rel]
    exact ⟨trivial, h.1, rel_zip ps vs h.2⟩
  | [], _ :: _, h => by simp [ArgsOk] at h
  | _ :: _, [], h => by simp [ArgsOk] at h

theorem lookup_two_frames (fr1 fr2 : Frame) (y : String) :
    Env.lookup [fr1, fr2] y = frameLookup y (fr1 ++ fr2) := by
  simp only [Env.lookup, C06.frameLookup_append]
  cases frameLookup y fr1 <;> cases frameLookup y fr2 <;> simp

theorem envOkG_callee (fv : Val) (ps : List (String × Ty)) (rt : Ty) (cap : Frame) (self : Option String)
    (args : List Val) (Γ : TEnv) (hargs : ArgsOk ps args)
    (hself : ∀ x, self = some x → VT (.fn (ps.map (·.2)) rt) fv)
    (hcap : ∀ x t, Γ.lookup x = some t → ∃ v, frameLookup x cap = some v ∧ VT t v) :
    EnvOkG (calleeEnv fv ps cap self args) (bodyEnv self ps rt Γ) := by
  intro y t hy
  unfold calleeEnv
  rw [lookup_two_frames]
  unfold bodyEnv bindParams at hy
  have hr := rel_reverse _ _ (rel_zip ps args hargs)
  cases self with
  | none =>
    simp only [List.append_nil] at hy ⊢
    obtain ⟨v, hv, hvt⟩ := lookup_rel _ _ Γ cap y t hr (hcap y) hy
    exact ⟨v, by simpa using hv, hvt⟩
  | some x =>
    have hr2 : Rel (ps.reverse ++ [(x, Ty.fn (ps.map (·.2)) rt)]) ((List.zip (ps.map (·.1)) args).reverse ++ [(x, fv)]) :=
      rel_append _ _ _ _ hr (by simp [Rel, hself x rfl])
    have hy' : TEnv.lookup y ((ps.reverse ++ [(x, Ty.fn (ps.map (·.2)) rt)]) ++ Γ) = some t := by simpa using hy
    obtain ⟨v, hv, hvt⟩ := lookup_rel _ _ Γ cap y t hr2 (hcap y) hy'
    exact ⟨v, by simpa using hv, hvt⟩


/-! ### the types the model answers are well-formed -/

theorem tyF_wf (ret : Option Ty) (g : TEnv) (e : Expr) (T : Ty) (h : tyF ret g e = .ok T) : wf T = true := by
  have okw : ∀ {t : Ty}, okW t = .ok T → wf T = true := fun hh => (okW_ok hh).1 ▸ (okW_ok hh).2
  cases e with
  | litBool _ => simp only [tyF] at h; cases h; rfl
  | litInt _ => simp only [tyF] at h; cases h; rfl
  | litFloat _ => simp only [tyF] at h; cases h; rfl
  | litStr _ => simp only [tyF] at h; cases h; rfl
  | litUnit => simp only [tyF] at h; cases h; rfl
  | var x =>
    simp only [tyF] at h
    split at h
    · exact okw h
    · cases h
  | array es =>
    simp only [tyF] at h
    obtain ⟨ts, _, h2⟩ := bind_ok h
    exact okw h2
  | tuple es =>
    simp only [tyF] at h
    split at h
    · cases h
    · obtain ⟨ts, _, h2⟩ := bind_ok h
      exact okw h2
  | pre op e =>
    cases op <;> simp only [tyF] at h
    · obtain ⟨t, _, h2⟩ := bind_ok h
      split at h2
      · exact okw h2
      · cases h2
    · obtain ⟨t, _, h2⟩ := bind_ok h
      split at h2
      · exact okw h2
      · cases h2
    · cases h
  | and a b =>
    simp only [tyF] at h
    obtain ⟨ta, _, h2⟩ := bind_ok h
    obtain ⟨tb, _, h3⟩ := bind_ok h2
    split at h3
    · cases h3; rfl
    · cases h3
  | or a b =>
    simp only [tyF] at h
    obtain ⟨ta, _, h2⟩ := bind_ok h
    obtain ⟨tb, _, h3⟩ := bind_ok h2
    split at h3
    · cases h3; rfl
    · cases h3
  | bin op a b =>
    simp only [tyF] at h
    obtain ⟨ta, _, h2⟩ := bind_ok h
    obtain ⟨tb, _, h3⟩ := bind_ok h2
    exact binTy_wf op ta tb T h3
  | «at» a i =>
    simp only [tyF] at h
    obtain ⟨ta, _, h2⟩ := bind_ok h
    obtain ⟨ti, _, h3⟩ := bind_ok h2
    split at h3
    · cases h3
    · split at h3
      · exact okw h3
      · cases h3; rfl
      all_goals cases h3
  | tacc e n =>
    simp only [tyF] at h
    obtain ⟨t, _, h2⟩ := bind_ok h
    split at h2
    · split at h2
      · exact okw h2
      · cases h2
    all_goals cases h2
  | ifElse c t e =>
    simp only [tyF] at h
    obtain ⟨tc, _, h2⟩ := bind_ok h
    split at h2
    · cases h2
    · obtain ⟨tt, _, h3⟩ := bind_ok h2
      split at h3
      · obtain ⟨te, _, h4⟩ := bind_ok h3
        exact okw h4
      · exact okw h3
  | block body =>
    simp only [tyF] at h
    obtain ⟨p, _, h2⟩ := bind_ok h
    exact okw h2
  | ifSet x ty e body els =>
    simp only [tyF] at h
    split at h
    · cases h
    · obtain ⟨te, _, h2⟩ := bind_ok h
      obtain ⟨tb, _, h3⟩ := bind_ok h2
      split at h3
      · obtain ⟨tl, _, h4⟩ := bind_ok h3
        exact okw h4
      · exact okw h3
  | matchE e arms =>
    simp only [tyF] at h
    obtain ⟨te, _, h2⟩ := bind_ok h
    obtain ⟨tys, _, h3⟩ := bind_ok h2
    split at h3
    · cases h3
    · exact okw h3
  | arrayRepeat v n =>
    simp only [tyF] at h
    obtain ⟨tv, _, h2⟩ := bind_ok h
    obtain ⟨tn, _, h3⟩ := bind_ok h2
    split at h3
    · cases h3
    · split at h3
      · cases h3
      · exact okw h3
  | slice a st en sp =>
    simp only [tyF] at h
    obtain ⟨ta, _, h2⟩ := bind_ok h
    obtain ⟨ts, _, h3⟩ := bind_ok h2
    obtain ⟨te, _, h4⟩ := bind_ok h3
    obtain ⟨tp, _, h5⟩ := bind_ok h4
    split at h5
    · cases h5
    · split at h5
      · cases h5
      · split at h5
        · exact okw h5
        · cases h5; rfl
        · cases h5
  | fn ps rt body =>
    simp only [tyF] at h
    split at h
    · cases h
    · obtain ⟨p, _, h2⟩ := bind_ok h
      split at h2
      · cases h2
      · exact okw h2
  | call f args =>
    simp only [tyF] at h
    obtain ⟨tf, _, h2⟩ := bind_ok h
    obtain ⟨tas, _, h3⟩ := bind_ok h2
    split at h3
    · split at h3
      · exact okw h3
      · cases h3
    all_goals cases h3
  | ret e =>
    cases ret with
    | none => simp only [tyF] at h; cases h
    | some rt =>
      cases e with
      | some e =>
        simp only [tyF] at h
        obtain ⟨te, _, h2⟩ := bind_ok h
        split at h2
        · cases h2; rfl
        · cases h2
      | none =>
        simp only [tyF] at h
        split at h
        · cases h; rfl
        · cases h
  | _ => simp only [tyF] at h; cases h




theorem tyFList_wf (ret : Option Ty) (g : TEnv) : ∀ (es : List Expr) (ts : List Ty), tyFList ret g es = .ok ts → wfL ts = true
  | [], ts, h => by simp only [tyFList] at h; cases h; rfl
  | e :: es, ts, h => by
    simp only [tyFList] at h
    obtain ⟨t, ht, h2⟩ := bind_ok h
    obtain ⟨ts', hts, h3⟩ := bind_ok h2
    cases h3
    simp only [wfL, Bool.and_eq_true]
    exact ⟨tyF_wf ret g e t ht, tyFList_wf ret g es ts' hts⟩

theorem tyFArms_wf (ret : Option Ty) (g : TEnv) : ∀ (arms : List Arm) (tys : List Ty), tyFArms ret g arms = .ok tys → wfL tys = true
  | [], tys, h => by simp only [tyFArms] at h; cases h; rfl
  | .ty x t body :: rest, tys, h => by
    simp only [tyFArms] at h
    split at h
    · cases h
    · obtain ⟨tb, htb, h2⟩ := bind_ok h
      obtain ⟨ts, hts, h3⟩ := bind_ok h2
      cases h3
      simp only [wfL, Bool.and_eq_true]
      exact ⟨tyF_wf _ _ body tb htb, tyFArms_wf ret g rest ts hts⟩
  | .val cands body :: rest, tys, h => by
    simp only [tyFArms] at h
    obtain ⟨_, _, h1⟩ := bind_ok h
    obtain ⟨tb, htb, h2⟩ := bind_ok h1
    obtain ⟨ts, hts, h3⟩ := bind_ok h2
    cases h3
    simp only [wfL, Bool.and_eq_true]
    exact ⟨tyF_wf _ _ body tb htb, tyFArms_wf ret g rest ts hts⟩
  | .other body :: rest, tys, h => by
    simp only [tyFArms] at h
    obtain ⟨tb, htb, h2⟩ := bind_ok h
    obtain ⟨ts, hts, h3⟩ := bind_ok h2
    cases h3
    simp only [wfL, Bool.and_eq_true]
    exact ⟨tyF_wf _ _ body tb htb, tyFArms_wf ret g rest ts hts⟩

theorem armKindsF_wf (ret : Option Ty) (g : TEnv) : ∀ (arms : List Arm) (tys : List Ty), tyFArms ret g arms = .ok tys →
    ∀ a, ArmKind.ty a ∈ armKinds arms → wf a = true
  | [], _, _, a, ha => by simp [armKinds] at ha
  | .ty x t body :: rest, tys, h, a, ha => by
    simp only [tyFArms] at h
    split at h
    · cases h
    · rename_i hw
      obtain ⟨tb, _, h2⟩ := bind_ok h
      obtain ⟨ts, hts, _⟩ := bind_ok h2
      simp only [armKinds, List.mem_cons, ArmKind.ty.injEq] at ha
      rcases ha with rfl | ha
      · simpa using hw
      · exact armKindsF_wf ret g rest ts hts a ha
  | .val cands body :: rest, tys, h, a, ha => by
    simp only [tyFArms] at h
    obtain ⟨_, _, h1⟩ := bind_ok h
    obtain ⟨tb, _, h2⟩ := bind_ok h1
    obtain ⟨ts, hts, _⟩ := bind_ok h2
    simp only [armKinds, List.mem_cons, reduceCtorEq, false_or] at ha
    exact armKindsF_wf ret g rest ts hts a ha
  | .other body :: rest, tys, h, a, ha => by
    simp only [tyFArms] at h
    obtain ⟨tb, _, h2⟩ := bind_ok h
    obtain ⟨ts, hts, _⟩ := bind_ok h2
    simp only [armKinds, List.mem_cons, reduceCtorEq, false_or] at ha
    exact armKindsF_wf ret g rest ts hts a ha

/-! ### small facts about value typing -/

theorem good_tag_shape {v : Val} (h : Good v) : isMulti v.asType = false ∧ isNever v.asType = false := by
  cases h <;> simp [asType, isMulti, isNever]

theorem vt_never (v : Val) : ¬ VT .never v := by
  intro ⟨h, g⟩
  obtain ⟨s1, s2⟩ := good_tag_shape g
  rw [sub_regular_never _ s1 s2] at h
  cases h

theorem vt_trans {v : Val} {a b : Ty} (h : VT a v) (wa : wf a = true) (wb : wf b = true) (hs : sub a b = true) : VT b v :=
  ⟨sub_trans _ a b (good_wf_tag h.2) wa wb h.1 hs, h.2⟩

theorem vt_contents {v : Val} {T : Ty} (h : VT T v) (wT : wf T = true) : hasTy v T = true := hasTy_of_tagG h.2 wT h.1

theorem vt_bool {v : Val} (h : VT .bool v) : ∃ k, v = .bool k := bool_of_hasTy (vt_contents h rfl)
theorem vt_int {v : Val} (h : VT .int v) : ∃ k, v = .int k := int_of_hasTy (vt_contents h rfl)

theorem eq_never_of_eqv {t : Ty} (h : eqv t .never = true) : t = .never := by
  cases t <;> simp [eqv] at h <;> rfl


/-! ### the statements proved together by induction on the evaluator's fuel -/

def RWf (ret : Option Ty) : Prop := ∀ rt, ret = some rt → wf rt = true

def ListOk (Ts : List Ty) (vs : List Val) : Prop := matchesL (asTypeL vs) Ts = true ∧ ∀ v ∈ vs, Good v

def OptRelG : Option Val → Option Ty → Prop
  | some v, some t => VT t v
  | none, none => True
  | _, _ => False

def PE (f : Nat) : Prop := ∀ (ret : Option Ty) (g : TEnv) (env : Env) (e : Expr) (T : Ty) (σ : St),
  EnvOkG env g → GWf g → RWf ret → tyF ret g e = .ok T → OutP ret (VT T) (eval f env e σ)
def PL (f : Nat) : Prop := ∀ (ret : Option Ty) (g : TEnv) (env : Env) (es : List Expr) (Ts : List Ty) (σ : St),
  EnvOkG env g → GWf g → RWf ret → tyFList ret g es = .ok Ts → OutP ret (ListOk Ts) (evalList f env es σ)
def PO (f : Nat) : Prop := ∀ (ret : Option Ty) (g : TEnv) (env : Env) (o : Option Expr) (ot : Option Ty) (σ : St),
  EnvOkG env g → GWf g → RWf ret → tyFOpt ret g o = .ok ot → OutP ret (fun ov => OptRelG ov ot) (evalOpt f env o σ)
def PS (f : Nat) : Prop := ∀ (ret : Option Ty) (g g' : TEnv) (env : Env) (body : List Expr) (ts : List Ty) (σ : St),
  EnvOkG env g → GWf g → RWf ret → tyFSeq ret g body = .ok (ts, g') →
  OutP ret (fun p => VT (lastTy ts) p.1 ∧ EnvOkG p.2 g' ∧ GWf g' ∧ ∀ t ∈ ts, eqv t .never = false) (evalSeq f env body σ)
def PSt (f : Nat) : Prop := ∀ (ret : Option Ty) (g g' : TEnv) (env : Env) (s : Expr) (t : Ty) (σ : St),
  EnvOkG env g → GWf g → RWf ret → tyFStmt ret g s = .ok (t, g') →
  OutP ret (fun p => VT t p.1 ∧ EnvOkG p.2 g' ∧ GWf g') (evalStmt f env s σ)
def PV (f : Nat) : Prop := ∀ (ret : Option Ty) (g : TEnv) (env : Env) (e : Expr) (T : Ty) (σ : St),
  EnvOkG env g → GWf g → RWf ret → tyF ret g e = .ok T → OutP ret (VT T) (evalStmtValue f env e σ)
def PA (f : Nat) : Prop := ∀ (ret : Option Ty) (g : TEnv) (env : Env) (v : Val) (arms : List Arm) (tys : List Ty) (σ : St),
  EnvOkG env g → GWf g → RWf ret → Good v → tyFArms ret g arms = .ok tys →
  (∃ k ∈ armKinds arms, armCovers k v.asType = true) → OutP ret (fun r => ∃ t ∈ tys, VT t r) (evalArms f env v arms σ)
def PC (f : Nat) : Prop := ∀ (ret : Option Ty) (g : TEnv) (env : Env) (v : Val) (cands : List Expr) (ts : List Ty) (σ : St),
  EnvOkG env g → GWf g → RWf ret → tyFList ret g cands = .ok ts → OutP ret (fun _ => True) (candGo f env v cands σ)
/-- calling a good function value of a function type with arguments whose tags lie below the static parameter types -/
def PF (f : Nat) : Prop := ∀ (ret : Option Ty) (fv : Val) (args : List Val) (pts : List Ty) (rt : Ty) (σ : St),
  Good fv → sub fv.asType (.fn pts rt) = true → wfL pts = true → wf rt = true → ListOk pts args →
  OutP ret (VT rt) (callFn f fv args σ)


theorem asTypeL_none : ∀ (vs : List Val) (n : Nat), vs[n]? = none → (asTypeL vs)[n]? = none
  | [], _, _ => by simp [asTypeL]
  | v :: vs, 0, h => by simp at h
  | v :: vs, n + 1, h => by simp at h; simp [asTypeL, asTypeL_none vs n (by simpa using h)]

theorem matchesL_some : ∀ (as bs : List Ty) (n : Nat) (b : Ty), matchesL as bs = true → bs[n]? = some b → as[n]? ≠ none
  | [], bs, n, b, h, hb => by cases bs <;> simp [matchesL] at h; simp at hb
  | a :: as, [], n, b, h, hb => by simp at hb
  | a :: as, b0 :: bs, 0, b, h, hb => by simp
  | a :: as, b0 :: bs, n + 1, b, h, hb => by
    rw [matchesL] at h
    simp only [Bool.and_eq_true] at h
    have := matchesL_some as bs n b h.2 (by simpa using hb)
    simpa using this

theorem listOk_get (Ts : List Ty) (vs : List Val) (h : ListOk Ts vs) (n : Nat) (v : Val) (t : Ty)
    (hv : vs[n]? = some v) (ht : Ts[n]? = some t) : VT t v :=
  ⟨matchesL_get (asTypeL vs) Ts n v.asType t h.1 (asTypeL_get vs n v hv) ht, h.2 v (List.mem_of_getElem? hv)⟩

theorem good_mkArray (vs : List Val) (h : ∀ v ∈ vs, Good v) : Good (Val.mkArray vs) := by
  have hw : wfL (asTypeL vs) = true := by
    induction vs with
    | nil => simp [asTypeL, wfL]
    | cons v vs ih =>
      simp only [asTypeL, wfL, Bool.and_eq_true]
      exact ⟨good_wf_tag (h v (by simp)), ih (fun x hx => h x (by simp [hx]))⟩
  exact Good.arr _ _ (wf_concatL _ hw)
    (fun v hv => members_sub_concatL (asTypeL vs) hw v.asType (asType_mem vs v hv)) h

theorem wfL_asTypeLG (vs : List Val) (h : ∀ v ∈ vs, Good v) : wfL (asTypeL vs) = true := by
  induction vs with
  | nil => simp [asTypeL, wfL]
  | cons v vs ih =>
    simp only [asTypeL, wfL, Bool.and_eq_true]
    exact ⟨good_wf_tag (h v (by simp)), ih (fun x hx => h x (by simp [hx]))⟩

theorem optIdx_okG (ov : Option Val) (ot : Option Ty) (hr : OptRelG ov ot) (hb : boundOk ot = true) :
    ∃ oi, optIdx ov = .ok oi := by
  cases ov with
  | none => exact ⟨none, rfl⟩
  | some v =>
    cases ot with
    | none => cases hr
    | some t =>
      simp only [boundOk] at hb
      have e := eq_of_eqv_int hb
      subst e
      obtain ⟨k, rfl⟩ := vt_int hr
      exact ⟨some k.toInt, rfl⟩

theorem matchesL_trans : ∀ (as bs cs : List Ty), wfL as = true → wfL bs = true → wfL cs = true →
    matchesL as bs = true → argsOk bs cs = true → matchesL as cs = true
  | [], [], [], _, _, _, _, _ => by simp [matchesL]
  | a :: as, b :: bs, c :: cs, wa, wb, wc, h1, h2 => by
    rw [matchesL] at h1 ⊢
    simp only [argsOk, Bool.and_eq_true] at h2
    simp only [wfL, Bool.and_eq_true] at wa wb wc
    simp only [Bool.and_eq_true] at h1 ⊢
    exact ⟨sub_trans a b c wa.1 wb.1 wc.1 h1.1 h2.1, matchesL_trans as bs cs wa.2 wb.2 wc.2 h1.2 h2.2⟩
  | [], _ :: _, _, _, _, _, h, _ => by simp [matchesL] at h
  | _ :: _, [], _, _, _, _, h, _ => by simp [matchesL] at h
  | [], [], _ :: _, _, _, _, _, h => by simp [argsOk] at h
  | _ :: _, _ :: _, [], _, _, _, _, h => by simp [argsOk] at h

theorem lookup_single (fr : Frame) (x : String) : Env.lookup [fr] x = frameLookup x fr := by
  simp only [Env.lookup]
  cases frameLookup x fr <;> rfl

theorem step_E (f : Nat) (hE : PE f) (hL : PL f) (hS : PS f) (hA : PA f) (hO : PO f) (hF : PF f) : PE (f + 1) := by
  intro ret g env e T σ henv hg hr ht
  cases e with
  | litBool b => simp only [tyF] at ht; cases ht; simp only [eval]; exact outP_pure _ _ _ _ ⟨by simp [asType, sub, eqv], Good.bool _⟩
  | litInt i => simp only [tyF] at ht; cases ht; simp only [eval]; exact outP_pure _ _ _ _ ⟨by simp [asType, sub, eqv], Good.int _⟩
  | litFloat x => simp only [tyF] at ht; cases ht; simp only [eval]; exact outP_pure _ _ _ _ ⟨by simp [asType, sub, eqv], Good.float _⟩
  | litStr x => simp only [tyF] at ht; cases ht; simp only [eval]; exact outP_pure _ _ _ _ ⟨by simp [asType, sub, eqv], Good.str _⟩
  | litUnit => simp only [tyF] at ht; cases ht; simp only [eval]; exact outP_pure _ _ _ _ ⟨by simp [asType, sub, eqv], Good.unit⟩
  | var x =>
    simp only [tyF] at ht
    split at ht
    · rename_i t hl
      obtain ⟨rfl, _⟩ := okW_ok ht
      obtain ⟨w, hw, h1⟩ := henv x _ hl
      simp only [eval, hw]
      exact outP_pure _ _ _ _ h1
    · cases ht
  | bin op a b =>
    simp only [tyF] at ht
    obtain ⟨ta, hta, h2⟩ := bind_ok ht
    obtain ⟨tb, htb, h3⟩ := bind_ok h2
    by_cases hop : C07.isScalarOp op = true
    · have ha := hE ret g env a ta σ henv hg hr hta
      rw [C07.bin_left_then_right f env op a b σ hop]
      cases hea : eval f env a σ with
      | mk ra σ1 =>
        rw [hea] at ha
        cases ra with
        | error e => simpa [OutP] using ha
        | ok x =>
          simp only []
          have hb := hE ret g env b tb σ1 henv hg hr htb
          cases heb : eval f env b σ1 with
          | mk rb σ2 =>
            rw [heb] at hb
            cases rb with
            | error e => simpa [OutP] using hb
            | ok y =>
              simp only []
              have hx : VT ta x := by simpa [OutP] using ha
              have hy : VT tb y := by simpa [OutP] using hb
              have := out_bin ret op ta tb T x y hx hy (tyF_wf ret g a ta hta) (tyF_wf ret g b tb htb) h3
              unfold OutP
              simp only []
              cases hbs : binScalar op x y with
              | ok v => rw [hbs] at this; exact this
              | error s => rw [hbs] at this; exact this
    · cases op <;> simp [C07.isScalarOp] at hop <;> (simp only [binTy] at h3; cases h3)
  | pre op a =>
    cases op with
    | deref => simp only [tyF] at ht; cases ht
    | not =>
      simp only [tyF] at ht
      obtain ⟨ta, hta, h2⟩ := bind_ok ht
      split at h2
      · rename_i hs
        have wta := tyF_wf ret g a ta hta
        rw [(okW_ok h2).1]
        simp only [eval]
        apply outP_bind ret (VT ta) _ _ _ σ (hE ret g env a ta σ henv hg hr hta)
        intro x σ1 _ hx
        have hm := matches_sound x ta accNot (good_okv hx.2) wta (by simp [accNot, wf, wfL, membersOk, nodupL, memL, eqv]) hs (vt_contents hx wta)
        simp only [accNot, hasTy_multi, hasTyAny, Bool.or_eq_true, Bool.or_false] at hm
        apply outP_liftE
        rcases hm with hm | hm
        · obtain ⟨k, rfl⟩ := int_of_hasTy hm
          simp only [preScalar]
          exact ⟨by rw [sameKind_asType (b := .int k) rfl]; exact hx.1, Good.int _⟩
        · obtain ⟨k, rfl⟩ := bool_of_hasTy hm
          simp only [preScalar]
          exact ⟨by rw [sameKind_asType (b := .bool k) rfl]; exact hx.1, Good.bool _⟩
      · cases h2
    | neg =>
      simp only [tyF] at ht
      obtain ⟨ta, hta, h2⟩ := bind_ok ht
      split at h2
      · rename_i hs
        have wta := tyF_wf ret g a ta hta
        rw [(okW_ok h2).1]
        simp only [eval]
        apply outP_bind ret (VT ta) _ _ _ σ (hE ret g env a ta σ henv hg hr hta)
        intro x σ1 _ hx
        have hm := matches_sound x ta accNeg (good_okv hx.2) wta (by simp [accNeg, wf, wfL, membersOk, nodupL, memL, eqv]) hs (vt_contents hx wta)
        simp only [accNeg, hasTy_multi, hasTyAny, Bool.or_eq_true, Bool.or_false] at hm
        apply outP_liftE
        rcases hm with hm | hm
        · obtain ⟨k, rfl⟩ := int_of_hasTy hm
          simp only [preScalar]
          exact ⟨by rw [sameKind_asType (b := .int k) rfl]; exact hx.1, Good.int _⟩
        · obtain ⟨k, rfl⟩ := float_of_hasTy hm
          simp only [preScalar]
          exact ⟨by rw [sameKind_asType (b := .float k) rfl]; exact hx.1, Good.float _⟩
      · cases h2
  | and a b =>
    simp only [tyF] at ht
    obtain ⟨ta, hta, h2⟩ := bind_ok ht
    obtain ⟨tb, htb, h3⟩ := bind_ok h2
    split at h3
    · rename_i hb
      cases h3
      simp only [Bool.and_eq_true] at hb
      have e1 := eq_of_eqv_bool hb.1
      have e2 := eq_of_eqv_bool hb.2
      subst e1 e2
      simp only [eval]
      apply outP_bind ret (VT .bool) _ _ _ σ (hE ret g env a .bool σ henv hg hr hta)
      intro x σ1 _ hx
      obtain ⟨k, rfl⟩ := vt_bool hx
      apply outP_bind ret (fun k2 => k2 = k) _ _ _ σ1 (outP_liftE _ _ _ _ (by simp [asBool]))
      intro k2 σ2 _ hk
      subst hk
      cases k2
      · simp only [Bool.not_false, Bool.not_true, if_true, if_false, Bool.false_eq_true]
        exact outP_pure _ _ _ _ ⟨by simp [asType, sub, eqv], Good.bool _⟩
      · simp only [Bool.not_false, Bool.not_true, if_true, if_false, Bool.false_eq_true]
        exact hE ret g env b .bool σ2 henv hg hr htb
    · cases h3
  | or a b =>
    simp only [tyF] at ht
    obtain ⟨ta, hta, h2⟩ := bind_ok ht
    obtain ⟨tb, htb, h3⟩ := bind_ok h2
    split at h3
    · rename_i hb
      cases h3
      simp only [Bool.and_eq_true] at hb
      have e1 := eq_of_eqv_bool hb.1
      have e2 := eq_of_eqv_bool hb.2
      subst e1 e2
      simp only [eval]
      apply outP_bind ret (VT .bool) _ _ _ σ (hE ret g env a .bool σ henv hg hr hta)
      intro x σ1 _ hx
      obtain ⟨k, rfl⟩ := vt_bool hx
      apply outP_bind ret (fun k2 => k2 = k) _ _ _ σ1 (outP_liftE _ _ _ _ (by simp [asBool]))
      intro k2 σ2 _ hk
      subst hk
      cases k2
      · simp only [Bool.not_false, Bool.not_true, if_true, if_false, Bool.false_eq_true]
        exact hE ret g env b .bool σ2 henv hg hr htb
      · simp only [Bool.not_false, Bool.not_true, if_true, if_false, Bool.false_eq_true]
        exact outP_pure _ _ _ _ ⟨by simp [asType, sub, eqv], Good.bool _⟩
    · cases h3
  | array es =>
    simp only [tyF] at ht
    obtain ⟨ts, hts, h2⟩ := bind_ok ht
    rw [(okW_ok h2).1]
    simp only [eval]
    apply outP_bind ret (ListOk ts) _ _ _ σ (hL ret g env es ts σ henv hg hr hts)
    intro vs σ1 _ hvs
    apply outP_pure
    refine ⟨?_, good_mkArray vs hvs.2⟩
    simp only [Val.mkArray, asType, C01.sub_arr]
    exact concatL_mono (asTypeL vs) ts (wfL_asTypeLG vs hvs.2) (tyFList_wf ret g es ts hts) hvs.1
  | tuple es =>
    simp only [tyF] at ht
    split at ht
    · cases ht
    · obtain ⟨ts, hts, h2⟩ := bind_ok ht
      rw [(okW_ok h2).1]
      simp only [eval]
      apply outP_bind ret (ListOk ts) _ _ _ σ (hL ret g env es ts σ henv hg hr hts)
      intro vs σ1 _ hvs
      apply outP_pure
      exact ⟨by simp only [asType, C01.sub_tup]; exact hvs.1, Good.tup vs hvs.2⟩
  | «at» a i =>
    simp only [tyF] at ht
    obtain ⟨ta, hta, h2⟩ := bind_ok ht
    obtain ⟨ti, hti, h3⟩ := bind_ok h2
    have wta := tyF_wf ret g a ta hta
    simp only [eval]
    apply outP_bind ret (VT ta) _ _ _ σ (hE ret g env a ta σ henv hg hr hta)
    intro x σ1 _ hx
    apply outP_bind ret (VT ti) _ _ _ σ1 (hE ret g env i ti σ1 henv hg hr hti)
    intro y σ2 _ hy
    split at h3
    · cases h3
    · rename_i hint
      have e1 := eq_of_eqv_int (by simpa using hint)
      subst e1
      obtain ⟨k, rfl⟩ := vt_int hy
      have cx := vt_contents hx wta
      split at h3
      · rename_i e
        have we := (okW_ok h3).2
        rw [(okW_ok h3).1]
        obtain ⟨t1, xs, rfl⟩ := arr_of_hasTy cx
        obtain ⟨tx, gx⟩ := hx
        simp only [asType, C01.sub_arr] at tx
        cases gx with
        | arr _ _ w1 hs1 hg1 =>
        apply outP_liftE2
        · intro v hat
          have hmem := atVal_mem t1 xs k v hat
          exact ⟨sub_trans _ t1 e (good_wf_tag (hg1 v hmem)) w1 we (hs1 v hmem) tx, hg1 v hmem⟩
        · intro sg hat
          rw [atVal_sig _ k sg (Or.inl ⟨t1, xs, rfl⟩) hat]; simp [okSig]
      · cases h3
        obtain ⟨str, rfl⟩ : ∃ str, x = .str str := by cases x <;> simp [hasTy] at cx; exact ⟨_, rfl⟩
        apply outP_liftE2
        · intro v hat
          have := index_string_yields_string str k v hat
          obtain ⟨w, rfl⟩ : ∃ w, v = .str w := by cases v <;> simp [hasTy] at this; exact ⟨_, rfl⟩
          exact ⟨by simp [asType, sub, eqv], Good.str _⟩
        · intro sg hat
          rw [atVal_sig _ k sg (Or.inr ⟨str, rfl⟩) hat]; simp [okSig]
      all_goals cases h3
  | tacc a n =>
    simp only [tyF] at ht
    obtain ⟨ta, hta, h2⟩ := bind_ok ht
    have wta := tyF_wf ret g a ta hta
    simp only [eval]
    apply outP_bind ret (VT ta) _ _ _ σ (hE ret g env a ta σ henv hg hr hta)
    intro x σ1 _ hx
    have cx := vt_contents hx wta
    split at h2
    · rename_i ts
      split at h2
      · rename_i tx' htx
        rw [(okW_ok h2).1]
        obtain ⟨vs, rfl⟩ := tup_of_hasTy cx
        obtain ⟨tx, gx⟩ := hx
        simp only [asType, C01.sub_tup] at tx
        cases gx with
        | tup _ hgs =>
        cases hw : vs[n]? with
        | some w =>
          simp only [hw]
          exact outP_pure _ _ _ _ (listOk_get ts vs ⟨tx, hgs⟩ n w tx' hw htx)
        | none =>
          exact absurd (asTypeL_none vs n hw) (matchesL_some (asTypeL vs) ts n tx' tx htx)
      · cases h2
    all_goals cases h2
  | ifElse c t e =>
    simp only [tyF] at ht
    obtain ⟨tc, htc, h2⟩ := bind_ok ht
    split at h2
    · cases h2
    · rename_i hb
      obtain ⟨tt, htt, h3⟩ := bind_ok h2
      have wtt := tyF_wf ret g t tt htt
      simp only [eval]
      apply outP_bind ret (VT tc) _ _ _ σ (hE ret g env c tc σ henv hg hr htc)
      intro x σ1 _ hx
      have hcond : tc = .bool := by
        simp only [Bool.not_eq_true', Bool.not_eq_false', Bool.or_eq_true] at hb
        have hb' : eqv tc .bool = true ∨ eqv tc .never = true := by
          cases h1 : eqv tc .bool <;> cases h2' : eqv tc .never <;> simp_all
        rcases hb' with h | h
        · exact eq_of_eqv_bool h
        · exfalso
          have := eq_never_of_eqv h
          subst this
          exact vt_never x hx
      subst hcond
      obtain ⟨k, rfl⟩ := vt_bool hx
      apply outP_bind ret (fun k2 => k2 = k) _ _ _ σ1 (outP_liftE _ _ _ _ (by simp [asBool]))
      intro k2 σ2 _ hk
      subst hk
      cases e with
      | some e =>
        simp only [] at h3
        obtain ⟨te, hte, h4⟩ := bind_ok h3
        have wte := tyF_wf ret g e te hte
        have wC := (okW_ok h4).2
        rw [(okW_ok h4).1]
        obtain ⟨u1, u2⟩ := concat_upper tt te wtt wte
        cases k2
        · simp only [Bool.false_eq_true, if_false]
          exact outP_mono _ _ _ _ (hE ret g env e te σ2 henv hg hr hte) (fun v hv => vt_trans hv wte wC u2)
        · simp only [if_true]
          exact outP_mono _ _ _ _ (hE ret g env t tt σ2 henv hg hr htt) (fun v hv => vt_trans hv wtt wC u1)
      | none =>
        simp only [] at h3
        have wC := (okW_ok h3).2
        rw [(okW_ok h3).1]
        obtain ⟨u1, u2⟩ := concat_upper tt .void wtt rfl
        cases k2
        · simp only [Bool.false_eq_true, if_false]
          exact outP_pure _ _ _ _ ⟨by simpa [asType] using u2, Good.unit⟩
        · simp only [if_true]
          exact outP_mono _ _ _ _ (hE ret g env t tt σ2 henv hg hr htt) (fun v hv => vt_trans hv wtt wC u1)
  | block body =>
    simp only [tyF] at ht
    obtain ⟨p, hp, h2⟩ := bind_ok ht
    obtain ⟨ts, g'⟩ := p
    simp only [] at h2
    rw [(okW_ok h2).1]
    simp only [eval]
    apply outP_bind ret _ _ _ _ σ (hS ret g g' ([] :: env) body ts σ (envOkG_push env g henv) hg hr hp)
    intro r σ1 _ hr1
    obtain ⟨w, env'⟩ := r
    exact outP_pure _ _ _ _ hr1.1
  | ifSet x ty e body els =>
    simp only [tyF] at ht
    split at ht
    · cases ht
    · rename_i hwty
      have wty : wf ty = true := by simpa using hwty
      obtain ⟨te, hte, h2⟩ := bind_ok ht
      obtain ⟨tb, htb, h3⟩ := bind_ok h2
      have wtb := tyF_wf _ _ body tb htb
      simp only [eval]
      apply outP_bind ret (VT te) _ _ _ σ (hE ret g env e te σ henv hg hr hte)
      intro x0 σ1 _ hx0
      by_cases hm : Ty.sub x0.asType ty = true
      · simp only [hm, if_true]
        have hb := hE ret ((x, ty) :: g) ([(x, x0)] :: env) body tb σ1 (envOkG_bind env g x x0 ty henv ⟨hm, hx0.2⟩) (gwf_cons g x ty hg wty) hr htb
        cases els with
        | some el =>
          simp only [] at h3
          obtain ⟨tl, htl, h4⟩ := bind_ok h3
          have wC := (okW_ok h4).2
          rw [(okW_ok h4).1]
          exact outP_mono _ _ _ _ hb (fun v hv => vt_trans hv wtb wC (concat_upper tb tl wtb (tyF_wf ret g el tl htl)).1)
        | none =>
          simp only [] at h3
          have wC := (okW_ok h3).2
          rw [(okW_ok h3).1]
          exact outP_mono _ _ _ _ hb (fun v hv => vt_trans hv wtb wC (concat_upper tb .void wtb rfl).1)
      · simp only [hm, Bool.false_eq_true, if_false]
        cases els with
        | some el =>
          simp only [] at h3 ⊢
          obtain ⟨tl, htl, h4⟩ := bind_ok h3
          have wC := (okW_ok h4).2
          have wtl := tyF_wf ret g el tl htl
          rw [(okW_ok h4).1]
          exact outP_mono _ _ _ _ (hE ret g env el tl σ1 henv hg hr htl) (fun v hv => vt_trans hv wtl wC (concat_upper tb tl wtb wtl).2)
        | none =>
          simp only [] at h3 ⊢
          rw [(okW_ok h3).1]
          exact outP_pure _ _ _ _ ⟨by simpa [asType] using (concat_upper tb .void wtb rfl).2, Good.unit⟩
  | arrayRepeat a n =>
    simp only [tyF] at ht
    obtain ⟨tv, htv, h2⟩ := bind_ok ht
    obtain ⟨tn, htn, h3⟩ := bind_ok h2
    split at h3
    · cases h3
    · split at h3
      · cases h3
      · rename_i _ hint
        have e1 := eq_of_eqv_int (by simpa using hint)
        subst e1
        rw [(okW_ok h3).1]
        simp only [eval]
        apply outP_bind ret (VT tv) _ _ _ σ (hE ret g env a tv σ henv hg hr htv)
        intro x σ1 _ hx
        apply outP_bind ret (VT .int) _ _ _ σ1 (hE ret g env n .int σ1 henv hg hr htn)
        intro y σ2 _ hy
        obtain ⟨k, rfl⟩ := vt_int hy
        simp only []
        split
        · simp [OutP, throwS, okSig]
        · apply outP_pure
          refine ⟨by simp only [asType, C01.sub_arr]; exact hx.1, ?_⟩
          have wx := good_wf_tag hx.2
          exact Good.arr _ _ wx (fun z hz => by rw [List.eq_of_mem_replicate hz]; exact sub_refl _ wx)
            (fun z hz => by rw [List.eq_of_mem_replicate hz]; exact hx.2)
  | slice a st en sp =>
    simp only [tyF] at ht
    obtain ⟨ta, hta, h2⟩ := bind_ok ht
    obtain ⟨ts, hts, h3⟩ := bind_ok h2
    obtain ⟨te, hte, h4⟩ := bind_ok h3
    obtain ⟨tp, htp, h5⟩ := bind_ok h4
    have wta := tyF_wf ret g a ta hta
    simp only [eval]
    apply outP_bind ret (VT ta) _ _ _ σ (hE ret g env a ta σ henv hg hr hta)
    intro x σ1 _ hx
    apply outP_bind ret _ _ _ _ σ1 (hO ret g env st ts σ1 henv hg hr hts)
    intro vs σ2 _ r1
    apply outP_bind ret _ _ _ _ σ2 (hO ret g env en te σ2 henv hg hr hte)
    intro ve σ3 _ r2
    apply outP_bind ret _ _ _ _ σ3 (hO ret g env sp tp σ3 henv hg hr htp)
    intro vp σ4 _ r3
    split at h5
    · cases h5
    · split at h5
      · cases h5
      · rename_i _ hb
        have hb' : boundOk ts = true ∧ boundOk te = true ∧ boundOk tp = true := by
          cases h1 : boundOk ts <;> cases h2 : boundOk te <;> cases h3 : boundOk tp <;> simp_all
        obtain ⟨i1, e1⟩ := optIdx_okG vs ts r1 hb'.1
        obtain ⟨i2, e2⟩ := optIdx_okG ve te r2 hb'.2.1
        obtain ⟨i3, e3⟩ := optIdx_okG vp tp r3 hb'.2.2
        have cx := vt_contents hx wta
        cases ta with
        | arr e =>
          simp only [] at h5
          rw [(okW_ok h5).1]
          obtain ⟨t1, xs, rfl⟩ := arr_of_hasTy cx
          have hsv : sliceVal (.arr t1 xs) vs ve vp = .ok (Val.mkArray (Seq.slice xs i1 i2 i3)) := by
            simp [sliceVal, e1, e2, e3, bind, Except.bind]
          rw [hsv]
          apply outP_liftE
          simp only []
          obtain ⟨tx, gx⟩ := hx
          simp only [asType, C01.sub_arr] at tx
          cases gx with
          | arr _ _ w1 hs1 hg1 =>
          have hsel : ∀ z ∈ Seq.slice xs i1 i2 i3, z ∈ xs := slice_mem xs i1 i2 i3
          have gsel : ∀ z ∈ Seq.slice xs i1 i2 i3, Good z := fun z hz => hg1 z (hsel z hz)
          have we : wf e = true := by have := (okW_ok h5).2; simpa [wf] using this
          refine ⟨?_, good_mkArray _ gsel⟩
          simp only [Val.mkArray, asType, C01.sub_arr]
          have hw := wfL_asTypeLG _ gsel
          refine sub_trans _ t1 e (wf_concatL _ hw) w1 we (concatL_least _ t1 hw ?_) tx
          intro t ht'
          obtain ⟨z, hz, rfl⟩ := mem_asTypeL _ t ht'
          exact hs1 z (hsel z hz)
        | str =>
          simp only [] at h5
          cases h5
          obtain ⟨str, rfl⟩ : ∃ str, x = .str str := by cases x <;> simp [hasTy] at cx; exact ⟨_, rfl⟩
          have hsv : sliceVal (.str str) vs ve vp = .ok (.str (String.ofList (Seq.slice str.toList i1 i2 i3))) := by
            simp [sliceVal, e1, e2, e3, bind, Except.bind]
          rw [hsv]
          apply outP_liftE
          exact ⟨by simp [asType, sub, eqv], Good.str _⟩
        | _ => simp only [] at h5; cases h5
  | matchE e arms =>
    simp only [tyF] at ht
    obtain ⟨te, hte, h2⟩ := bind_ok ht
    obtain ⟨tys, htys, h3⟩ := bind_ok h2
    split at h3
    · cases h3
    · rename_i hcov
      have wC := (okW_ok h3).2
      rw [(okW_ok h3).1]
      simp only [eval]
      apply outP_bind ret (VT te) _ _ _ σ (hE ret g env e te σ henv hg hr hte)
      intro v0 σ1 _ hv0
      obtain ⟨s1, s2⟩ := good_tag_shape hv0.2
      have hex := C12.coverage_sound (armKinds arms) v0.asType te (good_wf_tag hv0.2) (tyF_wf ret g e te hte)
        (armKindsF_wf ret g arms tys htys) s1 s2 hv0.1 (by simpa using hcov)
      have wts := tyFArms_wf ret g arms tys htys
      exact outP_mono _ _ _ _ (hA ret g env v0 arms tys σ1 henv hg hr hv0.2 htys hex)
        (fun r ⟨t, htm, hvt⟩ => vt_trans hvt (wfL_mem wts htm) wC (members_sub_concatL tys wts t htm))
  | fn ps rt body =>
    simp only [tyF] at ht
    split at ht
    · cases ht
    · rename_i hwf
      have hwf' : wfParams ps = true ∧ wf rt = true := by simpa using hwf
      obtain ⟨p, hp, h2⟩ := bind_ok ht
      obtain ⟨ts, g'⟩ := p
      simp only [] at h2
      split at h2
      · cases h2
      · rename_i hmr
        have wT := (okW_ok h2).2
        rw [(okW_ok h2).1]
        simp only [eval]
        apply outP_bind ret (fun _ => True) _ _ _ σ (by simp [OutP, freshId])
        intro id σ1 _ _
        apply outP_pure
        have hsnap : ∀ x, frameLookup x env.snapshot = env.lookup x := fun x => by
          rw [← lookup_single]; exact C06.snapshot_lookup env x
        refine ⟨by simp only [asType]; exact sub_refl _ wT, Good.fn id ps rt body env.snapshot none g hwf'.1 hwf'.2 hg ?_ ?_ ?_⟩
        · intro x t hx
          obtain ⟨v, hv, hvt⟩ := henv x t hx
          exact ⟨v, by rw [hsnap]; exact hv, hvt.1⟩
        · intro x t v hx hv
          obtain ⟨w, hw, hwt⟩ := henv x t hx
          rw [hsnap, hw] at hv
          cases hv
          exact hwt.2
        · refine ⟨ts, g', by simpa [bodyEnv] using hp, ?_⟩
          cases h1 : sub Ty.void rt <;> cases h2' : ts.any (fun t => eqv t .never) <;> simp_all
  | call fe args =>
    simp only [tyF] at ht
    obtain ⟨tf, htf, h2⟩ := bind_ok ht
    obtain ⟨tas, htas, h3⟩ := bind_ok h2
    have wtf := tyF_wf ret g fe tf htf
    simp only [eval]
    apply outP_bind ret (VT tf) _ _ _ σ (hE ret g env fe tf σ henv hg hr htf)
    intro fv σ1 _ hfv
    apply outP_bind ret (ListOk tas) _ _ _ σ1 (hL ret g env args tas σ1 henv hg hr htas)
    intro vs σ2 _ hvs
    cases tf with
    | fn pts rt =>
      simp only [] at h3
      split at h3
      · rename_i hargs
        rw [(okW_ok h3).1]
        simp only [wf, Bool.and_eq_true] at wtf
        exact hF ret fv vs pts rt σ2 hfv.2 hfv.1 wtf.1 wtf.2
          ⟨matchesL_trans _ tas pts (wfL_asTypeLG vs hvs.2) (tyFList_wf ret g args tas htas) wtf.1 hvs.1 hargs, hvs.2⟩
      · cases h3
    | _ => simp only [] at h3; cases h3
  | ret e =>
    cases ret with
    | none => simp only [tyF] at ht; cases ht
    | some rt =>
      have wrt := hr rt rfl
      cases e with
      | some e =>
        simp only [tyF] at ht
        obtain ⟨te, hte, h2⟩ := bind_ok ht
        split at h2
        · rename_i hs
          simp only [eval]
          apply outP_bind (some rt) (VT te) _ _ _ σ (hE (some rt) g env e te σ henv hg hr hte)
          intro v σ1 _ hv
          simp only [OutP, throwS, okSig]
          exact ⟨rt, rfl, vt_trans hv (tyF_wf _ g e te hte) wrt hs⟩
        · cases h2
      | none =>
        simp only [tyF] at ht
        split at ht
        · rename_i hs
          simp only [eval]
          apply outP_bind (some rt) (fun v => v = Val.unit) _ _ _ σ (outP_pure _ _ _ _ rfl)
          intro v σ1 _ hv
          subst hv
          simp only [OutP, throwS, okSig]
          exact ⟨rt, rfl, by simpa [asType] using hs, Good.unit⟩
        · cases ht
  | _ => simp only [tyF] at ht; cases ht


theorem step_L (f : Nat) (hE : PE f) (hL : PL f) : PL (f + 1) := by
  intro ret g env es Ts σ henv hg hr ht
  cases es with
  | nil =>
    simp only [tyFList] at ht; cases ht
    simp only [evalList]
    exact outP_pure _ _ _ _ ⟨by simp [asTypeL, matchesL], by simp⟩
  | cons e es =>
    simp only [tyFList] at ht
    obtain ⟨t, hte, h2⟩ := bind_ok ht
    obtain ⟨ts, hts, h3⟩ := bind_ok h2
    cases h3
    rw [C07.list_left_to_right]
    apply outP_bind ret (VT t) _ _ _ σ (hE ret g env e t σ henv hg hr hte)
    intro v σ1 _ hv
    apply outP_bind ret (ListOk ts) _ _ _ σ1 (hL ret g env es ts σ1 henv hg hr hts)
    intro vs σ2 _ hvs
    apply outP_pure
    refine ⟨by simp [asTypeL, matchesL, hv.1, hvs.1], ?_⟩
    intro z hz
    rcases List.mem_cons.mp hz with rfl | hz
    · exact hv.2
    · exact hvs.2 z hz

theorem step_O (f : Nat) (hE : PE f) : PO (f + 1) := by
  intro ret g env o ot σ henv hg hr ht
  cases o with
  | none =>
    simp only [tyFOpt] at ht; cases ht
    simp only [evalOpt]
    exact outP_pure _ _ _ _ trivial
  | some e =>
    simp only [tyFOpt] at ht
    obtain ⟨t, hte, h2⟩ := bind_ok ht
    cases h2
    simp only [evalOpt]
    apply outP_bind ret (VT t) _ _ _ σ (hE ret g env e t σ henv hg hr hte)
    intro v σ1 _ hv
    exact outP_pure _ _ _ _ hv

theorem step_V (f : Nat) (hE : PE f) : PV (f + 1) := by
  intro ret g env e T σ henv hg hr ht
  simp only [evalStmtValue]
  exact hE ret g env e T σ henv hg hr ht

theorem gwf_bodyEnv (self : Option String) (ps : List (String × Ty)) (rt : Ty) (Γ : TEnv) (hΓ : GWf Γ)
    (wp : wfParams ps = true) (wr : wf rt = true) : GWf (bodyEnv self ps rt Γ) := by
  have wft : wf (Ty.fn (ps.map (·.2)) rt) = true := by simp [wf, wfL_of_wfParams ps wp, wr]
  have base : GWf (match self with | some x => (x, Ty.fn (ps.map (·.2)) rt) :: Γ | none => Γ) := by
    cases self with
    | none => exact hΓ
    | some x => exact gwf_cons Γ x _ hΓ wft
  unfold bodyEnv bindParams
  intro y t hy
  -- a lookup in `ps.reverse ++ rest` is a parameter type or a lookup in `rest`
  have key : ∀ (l : List (String × Ty)) (rest : TEnv), (∀ p ∈ l, wf p.2 = true) → GWf rest → GWf (l ++ rest) := by
    intro l
    induction l with
    | nil => intro rest _ h; simpa using h
    | cons p l ih =>
      intro rest hl h
      obtain ⟨n, tp⟩ := p
      exact gwf_cons _ n tp (ih rest (fun q hq => hl q (by simp [hq])) h) (hl (n, tp) (by simp))
  exact key ps.reverse _ (fun p hp => by
    have : p ∈ ps := by simpa using hp
    simp only [wfParams, List.all_eq_true] at wp
    exact wp p this) base y t hy

theorem step_St (f : Nat) (hE : PE f) (hV : PV f) : PSt (f + 1) := by
  intro ret g g' env s t σ henv hg hr ht
  cases s with
  | set x e =>
    simp only [tyFStmt] at ht
    obtain ⟨t', hte, h2⟩ := bind_ok ht
    cases h2
    simp only [evalStmt]
    apply outP_bind ret (VT t) _ _ _ σ (hV ret g env e t σ henv hg hr hte)
    intro v σ1 _ hv
    exact outP_pure _ _ _ _ ⟨hv, envOkG_insert env g x v t henv hv, gwf_cons g x t hg (tyF_wf ret g e t hte)⟩
  | destruct xs e => simp only [tyFStmt] at ht; cases ht
  | fndecl x ps rt body =>
    simp only [tyFStmt] at ht
    split at ht
    · cases ht
    · rename_i hwf
      have hwf' : wfParams ps = true ∧ wf rt = true := by simpa using hwf
      obtain ⟨p, hp, h2⟩ := bind_ok ht
      obtain ⟨ts, g''⟩ := p
      simp only [] at h2
      split at h2
      · cases h2
      · rename_i hmr
        cases h2
        have wft : wf (Ty.fn (ps.map (·.2)) rt) = true := by simp [wf, wfL_of_wfParams ps hwf'.1, hwf'.2]
        simp only [evalStmt]
        apply outP_bind ret (fun _ => True) _ _ _ σ (by simp [OutP, freshId])
        intro id σ1 _ _
        apply outP_pure
        have hsnap : ∀ y, frameLookup y env.snapshot = env.lookup y := fun y => by
          rw [← lookup_single]; exact C06.snapshot_lookup env y
        have gfv : Good (Val.fn id ps rt body env.snapshot (some x)) := by
          refine Good.fn id ps rt body env.snapshot (some x) g hwf'.1 hwf'.2 hg ?_ ?_ ?_
          · intro y ty hy
            obtain ⟨v, hv, hvt⟩ := henv y ty hy
            exact ⟨v, by rw [hsnap]; exact hv, hvt.1⟩
          · intro y ty v hy hv
            obtain ⟨w, hw, hwt⟩ := henv y ty hy
            rw [hsnap, hw] at hv
            cases hv
            exact hwt.2
          · refine ⟨ts, g'', by simpa [bodyEnv] using hp, ?_⟩
            cases h1 : sub Ty.void rt <;> cases h2' : ts.any (fun t => eqv t .never) <;> simp_all
        have vt : VT (Ty.fn (ps.map (·.2)) rt) (Val.fn id ps rt body env.snapshot (some x)) :=
          ⟨by simp only [asType]; exact sub_refl _ wft, gfv⟩
        exact ⟨vt, envOkG_insert env g x _ _ henv vt, gwf_cons g x _ hg wft⟩
  | _ =>
    simp only [tyFStmt] at ht
    obtain ⟨t', hte, h2⟩ := bind_ok ht
    cases h2
    simp only [evalStmt]
    apply outP_bind ret (VT t) _ _ _ σ (hE _ _ _ _ _ _ henv hg hr hte)
    intro v σ1 _ hv
    exact outP_pure _ _ _ _ ⟨hv, henv, hg⟩


theorem never_not_value (t : Ty) (v : Val) (h : VT t v) : eqv t .never = false := by
  cases hq : eqv t .never with
  | false => rfl
  | true =>
    have := eq_never_of_eqv hq
    subst this
    exact absurd h (vt_never v)

theorem step_S (f : Nat) (hSt : PSt f) (hS : PS f) : PS (f + 1) := by
  intro ret g g' env body ts σ henv hg hr ht
  match body with
  | [] =>
    simp only [tyFSeq] at ht; cases ht
    simp only [evalSeq]
    exact outP_pure _ _ _ _ ⟨⟨by simp [lastTy, asType, sub, eqv], Good.unit⟩, henv, hg, by simp⟩
  | [s] =>
    simp only [tyFSeq] at ht
    obtain ⟨p, hp, h2⟩ := bind_ok ht
    obtain ⟨t1, g1⟩ := p
    simp only [Res.bind] at h2
    cases h2
    simp only [evalSeq]
    exact outP_mono _ _ _ _ (hSt ret g g' env s t1 σ henv hg hr hp)
      (fun p ⟨h1, h2, h3⟩ => ⟨by simpa [lastTy] using h1, h2, h3, by
        intro t ht'
        simp only [List.mem_singleton] at ht'
        subst ht'
        exact never_not_value t p.1 h1⟩)
  | s :: s2 :: rest =>
    simp only [tyFSeq] at ht
    obtain ⟨p, hp, h2⟩ := bind_ok ht
    obtain ⟨t1, g1⟩ := p
    simp only [] at h2
    obtain ⟨q, hq, h3⟩ := bind_ok h2
    obtain ⟨ts', g2⟩ := q
    cases h3
    simp only [evalSeq]
    apply outP_bind ret _ _ _ _ σ (hSt ret g g1 env s t1 σ henv hg hr hp)
    intro r σ1 _ hr1
    obtain ⟨w, env1⟩ := r
    obtain ⟨hw, henv1, hg1⟩ := hr1
    have hq' : tyFSeq ret g1 (s2 :: rest) = .ok (ts', g2) := by
      simp only [tyFSeq]; exact hq
    refine outP_mono _ _ _ _ (hS ret g1 g2 env1 (s2 :: rest) ts' σ1 henv1 hg1 hr hq') ?_
    intro p ⟨h1, h2, h3, h4⟩
    refine ⟨?_, h2, h3, ?_⟩
    · cases ts' with
      | nil =>
        -- a non-empty statement list has at least one type
        obtain ⟨p2, _, hh⟩ := bind_ok hq
        obtain ⟨q2, _, hh2⟩ := bind_ok hh
        cases hh2
      | cons t2 ts2 => simpa [lastTy] using h1
    · intro t ht'
      rcases List.mem_cons.mp ht' with rfl | ht'
      · exact never_not_value t w hw
      · exact h4 t ht'

theorem step_C (f : Nat) (hE : PE f) (hC : PC f) : PC (f + 1) := by
  intro ret g env v cands ts σ henv hg hr ht
  cases cands with
  | nil => simp only [candGo]; exact outP_pure _ _ _ _ trivial
  | cons c cs =>
    simp only [tyFList] at ht
    obtain ⟨t, htc, h2⟩ := bind_ok ht
    obtain ⟨ts', hts, _⟩ := bind_ok h2
    simp only [candGo]
    apply outP_bind ret (VT t) _ _ _ σ (hE ret g env c t σ henv hg hr htc)
    intro w σ1 _ _
    by_cases hq : veq w v = true
    · simp only [hq, if_true]; exact outP_pure _ _ _ _ trivial
    · simp only [hq, Bool.false_eq_true, if_false]
      exact hC ret g env v cs ts' σ1 henv hg hr hts

theorem step_A (f : Nat) (hE : PE f) (hC : PC f) (hA : PA f) : PA (f + 1) := by
  intro ret g env v arms tys σ henv hg hr gv ht hex
  cases arms with
  | nil => obtain ⟨k, hk, _⟩ := hex; simp [armKinds] at hk
  | cons arm rest =>
    cases arm with
    | other body =>
      simp only [tyFArms] at ht
      obtain ⟨tb, htb, h2⟩ := bind_ok ht
      obtain ⟨ts, hts, h3⟩ := bind_ok h2
      cases h3
      simp only [evalArms]
      exact outP_mono _ _ _ _ (hE ret g env body tb σ henv hg hr htb) (fun r hr' => ⟨tb, by simp, hr'⟩)
    | ty x t body =>
      simp only [tyFArms] at ht
      split at ht
      · cases ht
      · rename_i hwt
        have wt : wf t = true := by simpa using hwt
        obtain ⟨tb, htb, h2⟩ := bind_ok ht
        obtain ⟨ts, hts, h3⟩ := bind_ok h2
        cases h3
        simp only [evalArms]
        by_cases hm : Ty.sub v.asType t = true
        · simp only [hm, if_true]
          exact outP_mono _ _ _ _
            (hE ret ((x, t) :: g) ([(x, v)] :: env) body tb σ (envOkG_bind env g x v t henv ⟨hm, gv⟩) (gwf_cons g x t hg wt) hr htb)
            (fun r hr' => ⟨tb, by simp, hr'⟩)
        · simp only [hm, Bool.false_eq_true, if_false]
          have hex' : ∃ k ∈ armKinds rest, armCovers k v.asType = true := by
            obtain ⟨k, hk, hc⟩ := hex
            simp only [armKinds, List.mem_cons] at hk
            rcases hk with rfl | hk
            · simp only [armCovers] at hc
              exact absurd hc hm
            · exact ⟨k, hk, hc⟩
          exact outP_mono _ _ _ _ (hA ret g env v rest ts σ henv hg hr gv hts hex')
            (fun r ⟨t', hm', hv'⟩ => ⟨t', by simp [hm'], hv'⟩)
    | val cands body =>
      simp only [tyFArms] at ht
      obtain ⟨tcs, htcs, h1⟩ := bind_ok ht
      obtain ⟨tb, htb, h2⟩ := bind_ok h1
      obtain ⟨ts, hts, h3⟩ := bind_ok h2
      cases h3
      simp only [evalArms]
      apply outP_bind ret (fun _ => True) _ _ _ σ (hC ret g env v cands tcs σ henv hg hr htcs)
      intro hit σ1 _ _
      cases hit
      · simp only [Bool.false_eq_true, if_false]
        have hex' : ∃ k ∈ armKinds rest, armCovers k v.asType = true := by
          obtain ⟨k, hk, hc⟩ := hex
          simp only [armKinds, List.mem_cons] at hk
          rcases hk with rfl | hk
          · simp [armCovers] at hc
          · exact ⟨k, hk, hc⟩
        exact outP_mono _ _ _ _ (hA ret g env v rest ts σ1 henv hg hr gv hts hex')
          (fun r ⟨t', hm', hv'⟩ => ⟨t', by simp [hm'], hv'⟩)
      · simp only [if_true]
        exact outP_mono _ _ _ _ (hE ret g env body tb σ1 henv hg hr htb) (fun r hr' => ⟨tb, by simp, hr'⟩)


theorem argsOk_of_tags : ∀ (ps : List (String × Ty)) (pts : List Ty) (args : List Val),
    matchesParams pts (ps.map (·.2)) = true → wfL pts = true → wfParams ps = true → ListOk pts args → ArgsOk ps args
  | [], [], [], _, _, _, _ => by simp [ArgsOk]
  | (n, t) :: ps, p :: pts, a :: args, hm, wp, wps, hl => by
    simp only [List.map_cons] at hm
    rw [matchesParams] at hm
    simp only [Bool.and_eq_true] at hm
    simp only [wfL, Bool.and_eq_true] at wp
    simp only [wfParams, List.all_cons, Bool.and_eq_true] at wps
    obtain ⟨h1, h2⟩ := hl
    simp only [asTypeL] at h1
    rw [matchesL] at h1
    simp only [Bool.and_eq_true] at h1
    simp only [ArgsOk]
    refine ⟨vt_trans ⟨h1.1, h2 a (by simp)⟩ wp.1 wps.1 hm.1, ?_⟩
    exact argsOk_of_tags ps pts args hm.2 wp.2 (by simpa [wfParams] using wps.2) ⟨h1.2, fun z hz => h2 z (by simp [hz])⟩
  | [], _ :: _, _, hm, _, _, _ => by simp [matchesParams] at hm
  | _ :: _, [], _, hm, _, _, _ => by simp [matchesParams] at hm
  | [], [], _ :: _, _, _, _, hl => by have := hl.1; simp [asTypeL, matchesL] at this
  | _ :: _, _ :: _, [], _, _, _, hl => by have := hl.1; simp [asTypeL, matchesL] at this

theorem step_F (f : Nat) (hS : PS f) : PF (f + 1) := by
  intro ret fv args pts rt σ gfv hsub wpts wrt hargs
  cases gfv with
  | fn id ps rt' body cap self Γ wp wr hΓ hcap hgood hbody =>
    simp only [asType] at hsub
    rw [sub] at hsub
    simp only [Bool.and_eq_true] at hsub
    obtain ⟨hparams, hret⟩ := hsub
    obtain ⟨ts, g', hty, hmr⟩ := hbody
    have gfv : Good (Val.fn id ps rt' body cap self) := Good.fn id ps rt' body cap self Γ wp wr hΓ hcap hgood ⟨ts, g', hty, hmr⟩
    have wft : wf (Ty.fn (ps.map (·.2)) rt') = true := by simp [wf, wfL_of_wfParams ps wp, wr]
    have henv : EnvOkG (calleeEnv (Val.fn id ps rt' body cap self) ps cap self args) (bodyEnv self ps rt' Γ) :=
      envOkG_callee _ ps rt' cap self args Γ (argsOk_of_tags ps pts args hparams wpts wp hargs)
        (fun x _ => ⟨by simp only [asType]; exact sub_refl _ wft, gfv⟩)
        (fun x t hx => by
          obtain ⟨v, hv, hvs⟩ := hcap x t hx
          exact ⟨v, hv, hvs, hgood x t v hx hv⟩)
    have hbodyOut := hS (some rt') (bodyEnv self ps rt' Γ) g' _ body ts σ henv (gwf_bodyEnv self ps rt' Γ hΓ wp wr)
      (fun r hr => by cases hr; exact wr) hty
    simp only [callFn]
    split
    · -- a native body is not typed by the model
      rename_i name
      simp only [tyFSeq, tyFStmt, tyF, Res.bind] at hty
      cases hty
    · simp only [tryCatchS]
      rw [C07.bind_def]
      cases hev : evalSeq f (calleeEnv (Val.fn id ps rt' body cap self) ps cap self args) body σ with
      | mk r σ1 =>
        rw [hev] at hbodyOut
        cases r with
        | ok p =>
          simp only [OutP] at hbodyOut
          obtain ⟨_, _, _, hnever⟩ := hbodyOut
          -- the body fell off its end: no statement had type `!`, so `()` is a result
          have hvoid : sub Ty.void rt' = true := by
            rcases hmr with h | h
            · exact h
            · exfalso
              simp only [List.any_eq_true] at h
              obtain ⟨t, ht, he⟩ := h
              rw [hnever t ht] at he
              cases he
          simp only [OutP, pure]
          exact ⟨sub_trans _ rt' rt (by simp [asType, wf]) wr wrt (by simpa [asType] using hvoid) hret, Good.unit⟩
        | error sg =>
          simp only [OutP] at hbodyOut
          cases sg with
          | ret v =>
            obtain ⟨r2, hr2, hv⟩ := hbodyOut
            cases hr2
            simp only [OutP, pure]
            exact vt_trans hv wr wrt hret
          | brk => cases hbodyOut
          | cont => cases hbodyOut
          | wrong w => cases hbodyOut
          | err e => simp [OutP, throwS, okSig]
          | fuel => simp [OutP, throwS, okSig]
  | bool b => simp [asType, sub, eqv] at hsub
  | int i => simp [asType, sub, eqv] at hsub
  | float x => simp [asType, sub, eqv] at hsub
  | str x => simp [asType, sub, eqv] at hsub
  | unit => simp [asType, sub, eqv] at hsub
  | arr t es _ _ _ => simp [asType, sub, eqv] at hsub
  | tup es _ => simp [asType, sub, eqv] at hsub


/-- everything at once, for every amount of fuel -/
theorem all_f : ∀ f : Nat, PE f ∧ PL f ∧ PO f ∧ PS f ∧ PSt f ∧ PV f ∧ PA f ∧ PC f ∧ PF f := by
  intro f
  induction f with
  | zero =>
    refine ⟨?_, ?_, ?_, ?_, ?_, ?_, ?_, ?_, ?_⟩
    · intro ret g env e T σ _ _ _ _; simp [eval, throwS, OutP, okSig]
    · intro ret g env es Ts σ _ _ _ _; simp [evalList, throwS, OutP, okSig]
    · intro ret g env o ot σ _ _ _ _; simp [evalOpt, throwS, OutP, okSig]
    · intro ret g g' env body ts σ _ _ _ _; simp [evalSeq, throwS, OutP, okSig]
    · intro ret g g' env s t σ _ _ _ _; simp [evalStmt, throwS, OutP, okSig]
    · intro ret g env e T σ _ _ _ _; simp [evalStmtValue, throwS, OutP, okSig]
    · intro ret g env v arms tys σ _ _ _ _ _ _; simp [evalArms, throwS, OutP, okSig]
    · intro ret g env v cands ts σ _ _ _ _; simp [candGo, throwS, OutP, okSig]
    · intro ret fv args pts rt σ _ _ _ _ _; simp [callFn, throwS, OutP, okSig]
  | succ f ih =>
    obtain ⟨hE, hL, hO, hS, hSt, hV, hA, hC, hF⟩ := ih
    exact ⟨step_E f hE hL hS hA hO hF, step_L f hE hL, step_O f hE, step_S f hSt hS, step_St f hE hV, step_V f hE,
      step_A f hE hC hA, step_C f hE hC, step_F f hS⟩

/-- **soundness and progress with functions**: for an expression the function-extended checker model types, the reference
    evaluator - with any fuel, from any store, in any environment whose variables hold well-formed values with tags
    below their static types - ends in a value whose tag lies below the type and which inhabits it by contents, or in a
    documented run-time error, or runs out of fuel, or `return`s a value of the enclosing function's result type; it
    never reaches `wrong`, and no `break` / `continue` escapes -/
theorem eval_outcome (f : Nat) (ret : Option Ty) (g : TEnv) (env : Env) (e : Expr) (T : Ty) (σ : St)
    (henv : EnvOkG env g) (hg : GWf g) (hr : RWf ret) (ht : tyF ret g e = .ok T) :
    OutP ret (fun v => VT T v ∧ hasTy v T = true) (eval f env e σ) :=
  outP_mono _ _ _ _ ((all_f f).1 ret g env e T σ henv hg hr ht) (fun v hv => ⟨hv, vt_contents hv (tyF_wf ret g e T ht)⟩)

/-- whole programs from the empty environment: a value of the program's type, a documented error, or fuel - nothing else
    (at top level there is no enclosing function, so `return` is not an outcome either) -/
theorem program_outcome (f : Nat) (prog : List Expr) (T : Ty) (σ : St) (ht : tyFProgram [] prog = .ok T) :
    (match (evalSeq f [[]] prog σ).1 with
     | .ok p => sub p.1.asType T = true ∧ Good p.1
     | .error (.err _) => True
     | .error .fuel => True
     | .error _ => False) := by
  unfold tyFProgram at ht
  obtain ⟨p, hp, h2⟩ := bind_ok ht
  obtain ⟨ts, g'⟩ := p
  cases h2
  have h0 : EnvOkG [[]] [] := by intro x t hx; simp [TEnv.lookup] at hx
  have hg0 : GWf [] := by intro x t hx; simp [TEnv.lookup] at hx
  have := (all_f f).2.2.2.1 none [] g' [[]] prog ts σ h0 hg0 (by intro rt h; cases h) hp
  unfold OutP at this
  cases hr : (evalSeq f [[]] prog σ).1 with
  | ok p => rw [hr] at this; exact this.1
  | error sg =>
    rw [hr] at this
    cases sg <;> simp [okSig] at this ⊢


/-- non-vacuity: a recursive declared function with an early `return` in a branch, called at top level -/
def sampleFn : List Expr :=
  [.fndecl "fact" [("n", .int)] .int
     [.ifElse (.bin .le (.var "n") (.litInt 1)) (.block [.ret (some (.litInt 1))]) none,
      .ret (some (.bin .mul (.var "n") (.call (.var "fact") [.bin .sub (.var "n") (.litInt 1)])))],
   .call (.var "fact") [.litInt 5]]

example : tyFProgram [] sampleFn = .ok .int := by
  simp [tyFProgram, sampleFn, tyFSeq, tyFStmt, tyF, tyFList, Res.bind, okW, binTy, TEnv.lookup, bindParams, wfParams, argsOk,
    lastTy, pairTy, accNum, concat, wf, wfL, membersOk, nodupL, memL, eqv, eqvL, sub, anyMatch, matchesL, allMatch, insertM,
    extendM, matchesParams]

end Ssl.CF
