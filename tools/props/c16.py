"""C16 — parsed code and values are safe to share between threads.

Proof: SslModel.Thm.C16 over the model of Model/Conc.lean (one atomic step per assignment): every complete
schedule applies a permutation of all operations; commuting families are schedule independent; N
concurrent increments add exactly N; a thread whose cells nobody else touches runs as if alone; no deadlock
in the acquire/release refinement.  The model's atomicity is tied to the source by the regenerated
`Gen.LockShape` (assign::exec / try_exec: one write guard spanning read and store; the list of all lock sites,
lock-like calls and unsafe blocks of the crate) and `Gen.assignTable`; theorems `lock_shape`, `assign_table`.
Correspondence with real OS threads (harness modes `threads`, `progt`):
  * counters: T threads x many iterations of one commuting operator on one shared cell -> final value and
    returned values vs. the model's sequential run (`conc-seq`) / closed form; `+= 1` results pairwise distinct;
  * interleavings: 2-3 threads x 1-3 operations over all twelve assignment operators (incl. failing ones)
    on 1-2 shared cells, repeated; every observed outcome (final cells, per-thread results / error) must be in
    the model's set over ALL interleavings (`conc-all`);
  * private: threads running one shared function that works on cells of its own -> every result equals the
    sequential result and the model's;
  * shared code: generated programs (iterators, map / filter / reduce, closures, loops) parsed once and run
    from 8 threads at once -> every result equals the sequential one;
  * no run deadlocks (60 s watchdog) or panics."""
import random

from gen import ast as A
from vlib import driver_run, esc_field, harness_run, sexp_parse, sexp_str
import progstream as P

THM_MODULES = ["SslModel.Thm.C16"]
TRANSLATE_PARTS = ["lockshape", "scalar"]
MIN, MAX = -2**63, 2**63 - 1
OPS = {"set": "=", "add": "+=", "sub": "-=", "mul": "*=", "div": "/=", "mod": "%=", "shl": "<<=", "shr": ">>=", "band": "&=",
       "bor": "|=", "xor": "^=", "pow": "**="}
COMMUTING = ["add", "sub", "mul", "band", "bor", "xor"]


def wrap(n):
    return (n + 2**63) % 2**64 - 2**63


def lit(n):
    return "(0 - %d - 1)" % MAX if n == MIN else ("(%d)" % n if n < 0 else str(n))


def const_for(rnd, op):
    if op in ("shl", "shr"):
        return rnd.choice([0, 1, 3, 63, 64, -1, 7])
    if op == "pow":
        return rnd.choice([0, 1, 2, 3, -1, 5])
    if op in ("div", "mod"):
        return rnd.choice([0, 1, -1, 2, 3, 7, -5])
    return rnd.choice([0, 1, -1, 2, 3, 5, 7, 255, MAX, MIN, 1 << 32, -12345, 0x0F0F])


def parse_threads(line):
    """-> dict(threads=[...], distinct=bool, cells={name: value text}) or None"""
    g = sexp_parse(line)
    if not (isinstance(g, list) and g and g[0] == "threads"):
        return None
    out = dict(threads=[], cells={}, distinct=None)
    for item in g[1:]:
        if item[0] == "distinct":
            out["distinct"] = item[1] == "1"
        elif item[0].startswith("t") and item[0][1:].isdigit():
            out["threads"].append(item[1:])
        else:
            v = item[1]
            out["cells"][item[0]] = sexp_str(v[2]) if isinstance(v, list) and v[0] == "cell#" else sexp_str(v)
    return out


def bad_line(res, line, what, replay, cls):
    res.violation("%s: %s" % (what, line[:200]), replay, dict(oracle="threads", cls=cls))


def counters(res, rnd, thorough, broken_model):
    cases = []
    for op in COMMUTING:
        for T in ((2, 4, 8, 16) if thorough else (2, 8)):
            iters = rnd.choice([50, 120, 200])
            consts = [const_for(rnd, op) if op != "mul" else rnd.choice([1, 3, 5, -1, 7, 2]) for _ in range(T)]
            init = rnd.choice([0, 1, -1, 12345, MAX, 0x5555])
            cases.append((op, T, iters, consts, init))
    # long runs of the operators whose closed form is immediate
    for T in ((4, 8, 16) if thorough else (4, 16)):
        cases.append(("add", T, 40000 if thorough else 10000, [1] * T, 0))
        cases.append(("xor", T, 20001, [rnd.choice([1, 255, MAX]) for _ in range(T)], 7))
    # `+= 1` next to assignments that leave the value as it is but go through the fallible path
    # (`/= 1`, `%= M`, `**= 1`, `<<= 0`, `>>= 0`): every increment must survive
    for idop, idc in (("div", 1), ("mod", 10**15), ("pow", 1), ("shl", 0), ("shr", 0)):
        for T in ((4, 8) if thorough else (4,)):
            cases.append(("id:" + idop, T, 20000 if thorough else 6000, [idc], 0))
    lines, reqs = [], []
    for op, T, iters, consts, init in cases:
        if op.startswith("id:"):
            half = T // 2
            setup = "m := mut 0; " + " ".join("w%d := () -> int { return m += 1; };" % i for i in range(half)) + " " + \
                " ".join("w%d := () -> int { return m %s %s; };" % (i, OPS[op[3:]], lit(consts[0])) for i in range(half, T))
            lines.append("threads\t\t%s\t%d\tm\t%s\t%s" % (",".join("w%d" % i for i in range(T)), iters, rnd.choice(["code", "fn"]), esc_field(setup)))
            reqs.append(None)
            continue
        setup = "m := mut %s; " % lit(init) + " ".join(
            "w%d := () -> int { return m %s %s; };" % (i, OPS[op], lit(c)) for i, c in enumerate(consts))
        lines.append("threads\t\t%s\t%d\tm\t%s\t%s" % (",".join("w%d" % i for i in range(T)), iters, rnd.choice(["code", "fn"]), esc_field(setup)))
        if iters <= 200:
            reqs.append("conc-seq 1 %d %s" % (init, ";".join(",".join("0:%s:%d" % (op, c) for _ in range(iters)) for c in consts)))
        else:
            reqs.append(None)
    out = harness_run(lines, timeout_per_chunk=600)
    mo = driver_run([r for r in reqs if r]) if not broken_model else []
    mi = 0
    for (op, T, iters, consts, init), line, req in zip(cases, out, reqs):
        res.evaluations += 1
        res.count("counters:" + op)
        if op.startswith("id:") and line.startswith("(threads"):
            pass
        res.nontrivial.add("counter:%s:%d:%d:%s" % (op, T, iters, consts))
        rep = dict(request=lines[cases.index((op, T, iters, consts, init))], impl=line[:600])
        r = parse_threads(line)
        if r is None or any("panic" in sexp_str(t) for t in r["threads"]):
            bad_line(res, line, "%d threads doing `m %s c` %d times each did not all finish" % (T, OPS.get(op, op), iters), rep, "deadlock" if "deadlock" in line else "panic")
            continue
        if req is not None:
            want = None
            if not broken_model:
                m = mo[mi]
                want = "(i %s)" % m.split("]")[0].lstrip("[")
            mi += 1
        else:
            want = None
        # closed form, independent of the model
        v = init
        if op.startswith("id:"):
            v = (T // 2) * iters
        elif op == "add":
            v = wrap(init + iters * sum(consts))
        elif op == "sub":
            v = wrap(init - iters * sum(consts))
        elif op == "xor":
            for c in consts:
                if iters % 2:
                    v ^= c
        elif op == "band":
            for c in consts:
                v &= c
        elif op == "bor":
            for c in consts:
                v |= c
        elif op == "mul":
            prod = 1
            for c in consts:
                prod = prod * pow(c, iters, 2**64) % 2**64
            v = wrap(init * prod)
        closed = "(i %d)" % v
        got = r["cells"].get("m")
        if want is not None and want != closed:
            res.broken.append("correspondence:conc-seq %s x%d: model %s closed form %s" % (op, iters, want, closed))
        if got != closed:
            desc = ("%d threads `m += 1` next to %d threads `m %s %s`, %d times each" % (T // 2, T - T // 2, OPS[op[3:]], consts[0], iters)) \
                if op.startswith("id:") else ("%d threads x %d times `m %s c` (c = %s) from %d" % (T, iters, OPS[op], consts, init))
            res.violation("%s: final m = %s, every sequential order gives %s (updates were lost or torn)" % (desc, got, closed), rep,
                          dict(oracle="atomic-rmw", cls=op))
        elif op == "add" and all(c == 1 for c in consts) and r["distinct"] is False:
            res.violation("%d threads x %d `m += 1`: two increments returned the same value" % (T, iters), rep, dict(oracle="atomic-rmw", cls="returned-value"))
        else:
            res.traces_validated += 1
    return len(cases)


def appends(res, rnd, thorough):
    """`m += [k]` and `m += "a"` on a shared array / string cell: the only compound assignment defined on
    non-scalar contents; every append must survive (atomic read-modify-write), whatever the content kind"""
    cases = []
    for T in ((2, 4, 16) if thorough else (4, 16)):
        for kind in ("array", "string"):
            cases.append((kind, T, 600 if thorough else 300))
    lines = []
    for kind, T, iters in cases:
        if kind == "array":
            setup = "m := mut [0]; " + " ".join("w%d := () -> int { m += [%d]; return 0; };" % (i, i + 1) for i in range(T))
        else:
            setup = "m := mut \"\"; " + " ".join("w%d := () -> int { m += \"%s\"; return 0; };" % (i, "abcdefghijklmnop"[i]) for i in range(T))
        lines.append("threads\tstd\t%s\t%d\tm\t%s\t%s" % (",".join("w%d" % i for i in range(T)), iters, rnd.choice(["code", "fn"]), esc_field(setup)))
    out = harness_run(lines, timeout_per_chunk=600)
    for (kind, T, iters), line in zip(cases, out):
        res.evaluations += 1
        res.count("appends:" + kind)
        res.nontrivial.add("append:%s:%d:%d" % (kind, T, iters))
        rep = dict(request=lines[cases.index((kind, T, iters))][:600], impl=line[:300])
        g = sexp_parse(line)
        if not (isinstance(g, list) and g and g[0] == "threads") or "panic" in line[:400]:
            bad_line(res, line, "%d threads appending to a shared %s cell did not all finish" % (T, kind), rep, "deadlock" if "deadlock" in line else "panic")
            continue
        cell = [x for x in g[1:] if isinstance(x, list) and x and x[0] == "m"]
        v = cell[0][1][2] if cell and isinstance(cell[0][1], list) and cell[0][1][0] == "cell#" else None
        if kind == "array":
            got = (len(v) - 2) if isinstance(v, list) and v and v[0] == "arr" else None
            want = 1 + T * iters
            counts_ok = True
            if got == want:
                from collections import Counter
                c = Counter(x[1] for x in v[2:] if isinstance(x, list))
                counts_ok = all(c.get(str(i + 1)) == iters for i in range(T))
        else:
            got = len(v[1]) - 2 if isinstance(v, list) and v and v[0] == "s" else None
            want = T * iters
            counts_ok = True
        if got != want or not counts_ok:
            res.violation("%d threads x %d appends (`m += ..`) to a shared %s cell: %s elements arrived, every sequential order gives %d (appends were lost)"
                          % (T, iters, kind, got, want), rep, dict(oracle="atomic-rmw", cls="append-" + kind))
        else:
            res.traces_validated += 1
    return len(cases)


def interleavings(res, rnd, n, reps, broken_model):
    cases = []
    for _ in range(n):
        T = rnd.choice([2, 2, 3])
        ncells = rnd.choice([1, 1, 2])
        budget = 6
        threads = []
        for t in range(T):
            k = rnd.randint(1, min(3, budget - (T - t - 1)))
            budget -= k
            ops = []
            for _ in range(k):
                if rnd.random() < 0.15:
                    ops.append((rnd.randrange(ncells), "read", None))
                else:
                    op = rnd.choice(list(OPS))
                    ops.append((rnd.randrange(ncells), op, const_for(rnd, op)))
            threads.append(ops)
        inits = [rnd.choice([0, 1, 2, 7, -3, 100, MAX, MIN]) for _ in range(ncells)]
        cases.append((inits, threads))
    lines, reqs = [], []
    for inits, threads in cases:
        setup = " ".join("c%d := mut %s;" % (i, lit(v)) for i, v in enumerate(inits))
        for t, ops in enumerate(threads):
            body, names = [], []
            for j, (c, op, k) in enumerate(ops):
                if op == "read":
                    body.append("r%d := *c%d;" % (j, c))
                else:
                    body.append("r%d := c%d %s %s;" % (j, c, OPS[op], lit(k)))
                names.append("r%d" % j)
            rt = "int" if len(ops) == 1 else "(" + ", ".join("int" for _ in ops) + ")"
            rv = names[0] if len(ops) == 1 else "(" + ", ".join(names) + ")"
            setup += " w%d := () -> %s { %s return %s; };" % (t, rt, " ".join(body), rv)
        line = "threads\t\t%s\t1\t%s\tfn\t%s" % (",".join("w%d" % t for t in range(len(threads))),
                                                  ",".join("c%d" % i for i in range(len(inits))), esc_field(setup))
        lines += [line] * reps
        reqs.append("conc-all %d %s %s" % (len(inits), ",".join(str(v) for v in inits),
                                            ";".join(",".join("%d:read" % c if op == "read" else "%d:%s:%d" % (c, op, k) for c, op, k in ops) for ops in threads)))
    out = harness_run(lines, timeout_per_chunk=900)
    mo = driver_run(reqs) if not broken_model else None
    for ci, (inits, threads) in enumerate(cases):
        allowed = None
        if mo is not None:
            allowed = set()
            for o in mo[ci].split():
                cells, outs = o.split("/")
                touts = []
                for t in outs.split("|"):
                    vals = t.split(",") if t else []
                    err = [v for v in vals if v.startswith("E:")]
                    touts.append("E:" + err[0].split(".")[-1] if err else ",".join(vals))
                allowed.add(cells + "/" + "|".join(touts))
        seen = set()
        for rpt in range(reps):
            line = out[ci * reps + rpt]
            res.evaluations += 1
            rep = dict(request=lines[ci * reps], model_request=reqs[ci], impl=line[:600])
            r = parse_threads(line)
            if r is None or any("panic" in sexp_str(t) for t in r["threads"]):
                bad_line(res, line, "threads with mixed assignments did not all finish", rep, "deadlock" if "deadlock" in line else "panic")
                break
            cells = "[" + ",".join(r["cells"]["c%d" % i][3:-1] for i in range(len(inits))) + "]"
            touts = []
            for t in r["threads"]:
                v = t[0]
                if isinstance(v, list) and v[0] == "error":
                    touts.append("E:" + sexp_str(v[1]).split(" ")[0].strip("()"))
                elif isinstance(v, list) and v[0] == "tup":
                    touts.append(",".join(x[1] for x in v[1:]))
                else:
                    touts.append(v[1])
            got = cells + "/" + "|".join(touts)
            seen.add(got)
            if allowed is not None and got not in allowed:
                res.violation("outcome %s of threads %s from %s is not the outcome of any interleaving of atomic assignments (model allows %s)"
                              % (got, threads, inits, sorted(allowed)[:6]), rep, dict(oracle="linearizable", cls="mixed"))
                break
        else:
            res.traces_validated += 1
        res.count("interleavings:outcomes-seen-%d" % min(len(seen), 3))
        res.nontrivial.add("mix:" + reqs[ci])
    return len(cases)


def private_cells(res, rnd, n, broken_model):
    cases = []
    for _ in range(n):
        ops = []
        for _ in range(rnd.randint(2, 8)):
            op = rnd.choice(list(OPS))
            ops.append((rnd.randrange(2), op, const_for(rnd, op)))
        cases.append(([rnd.choice([0, 1, 9, -4, MAX]), rnd.choice([2, 3, MIN])], ops))
    lines, reqs = [], []
    for inits, ops in cases:
        body = "a0 := mut %s; a1 := mut %s; " % (lit(inits[0]), lit(inits[1]))
        body += " ".join("a%d %s %s;" % (c, OPS[op], lit(k)) for c, op, k in ops)
        setup = "w := () -> (int, int) { %s return (*a0, *a1); };" % body
        lines.append("threads\t\tw,w,w,w,w,w,w,w\t40\t\tcode\t" + esc_field(setup))
        reqs.append("conc-seq 2 %d,%d %s" % (inits[0], inits[1], ",".join("%d:%s:%d" % (c, op, k) for c, op, k in ops)))
    out = harness_run(lines, timeout_per_chunk=600)
    mo = driver_run(reqs) if not broken_model else None
    for i, ((inits, ops), line) in enumerate(zip(cases, out)):
        res.evaluations += 1
        res.count("private")
        res.nontrivial.add("private:" + reqs[i])
        rep = dict(request=lines[i], impl=line[:600])
        r = parse_threads(line)
        if r is None or any("panic" in sexp_str(t) for t in r["threads"]):
            bad_line(res, line, "threads on private cells did not all finish", rep, "deadlock" if "deadlock" in line else "panic")
            continue
        firsts = set()
        same = True
        for t in r["threads"]:
            d = dict(x.split("=", 1) for x in t if isinstance(x, str) and "=" in x)
            same = same and d.get("allsame") == "1"
            firsts.add(sexp_str(t[-1]) if isinstance(t[-1], list) else d.get("first"))
        # `first=` is followed by the value as a separate token
        vals = set()
        for t in r["threads"]:
            vals.add(sexp_str(t[4]) if len(t) > 4 else "?")
        if not same or len(vals) != 1:
            res.violation("8 threads running one function over private cells did not all get the same result: %s" % sorted(vals)[:3], rep,
                          dict(oracle="private-sequential", cls="differs"))
            continue
        got = vals.pop()
        if mo is not None:
            cells, outs = mo[i].split("/")
            if "E:" in outs:
                want_err = [x for x in outs.split(",") if x.startswith("E:")][0].split(".")[-1]
                ok = got.startswith("(error") and want_err in got
                want = "error " + want_err
            else:
                a, b = cells.strip("[]").split(",")
                want = "(tup (i %s) (i %s))" % (a, b)
                ok = got == want
            if not ok:
                res.violation("function over private cells returns %s on every thread, the model's sequential run gives %s" % (got, want), rep,
                              dict(oracle="private-sequential", cls="model"))
                continue
        res.traces_validated += 1
    return len(cases)


def shared_code(res, rnd, seed, n):
    progs, _ = P.generate(seed, n, max_depth=3, features=dict(iter=0.3, mark=0.05))
    lines = ["progt\tstd\t8\t6\t" + esc_field(A.program_src(p)) for p in progs]
    out = harness_run(lines, timeout_per_chunk=1200)
    for p, line in zip(progs, out):
        res.evaluations += 1
        src = A.program_src(p)
        g = sexp_parse(line)
        if isinstance(g, list) and g and g[0] in ("rejected", "progt-skipped"):
            res.count("shared-code:skipped")
            continue
        if not (isinstance(g, list) and g and g[0] == "progt"):
            bad_line(res, line, "a program run from 8 threads at once did not finish", dict(program=src, impl=line[:400]),
                     "deadlock" if "deadlock" in line else "crash")
            continue
        res.nontrivial.add(src)
        res.count("shared-code:" + ("value" if "seq=(value" in line else "error"))
        if not line.rstrip().endswith("differing=())"):
            res.violation("one parsed program run from 8 threads at once gives results that differ from its sequential run: `%s`: %s"
                          % (src[:200], line[:300]), dict(program=src, impl=line[:600]), dict(oracle="shared-code", cls="differs"))
        else:
            res.traces_validated += 1
    return len(progs)


def run(res, tier, seed, broken_model):
    rnd = random.Random(seed)
    thorough = tier == "thorough"
    n1 = counters(res, rnd, thorough, broken_model) + appends(res, rnd, thorough)
    n2 = interleavings(res, rnd, 150 if thorough else 30, 12 if thorough else 5, broken_model)
    n3 = private_cells(res, rnd, 120 if thorough else 25, broken_model)
    n4 = shared_code(res, rnd, seed, 1500 if thorough else 150)
    res.streams["threads"] = dict(counter_scenarios=n1, mixed_scenarios=n2, private_scenarios=n3, shared_code_programs=n4)
    res.samples.append(dict(request="threads w,w,w,w 20000 m code  m := mut 0; w := () -> int { return m += 1; }", expect="m = 80000, all returned values distinct"))
    res.assumptions += [
        "std::sync::RwLock gives mutual exclusion to a write guard (Rust std, the OS futex); Arc reference counting is atomic",
        "the schedules real threads take are those the OS produces under a start barrier on 16 cores: the theorems quantify over all "
        "schedules of the model, the runs only sample the implementation's",
        "right-hand sides are evaluated before the guard is taken (checked by Gen.LockShape: `rhs` is a parameter of assign::exec), so an "
        "assignment whose right-hand side reads the same cell (`m = *m + 1`) is two steps and is not claimed atomic",
    ]
    res.rule = ("counters: six commuting operators x {2..16} threads x 50-200 iterations with per-thread constants (model conc-seq and closed form) "
                "and += 1 / ^= c at 10^4 iterations x up to 16 threads; appends (`m += [k]`, `m += \"a\"`) to a shared array / string cell from up to 16 threads; mixed: 2-3 threads x 1-3 operations over all 12 assignment operators and reads "
                "on 1-2 cells incl. failing divisors / shifts / exponents, each repeated, against the model's set over all interleavings; private: "
                "8 threads x 40 runs of one function with 2-8 assignments on its own cells; shared code: generated programs (iterator-heavy) parsed "
                "once, 8 threads x 6 runs; non-trivial = distinct scenario / program")
