//! Implementation side of the correspondence: reads one case per line on stdin, runs the real
//! SimpleSL crate in-process under catch_unwind, prints one canonical outcome line per case.
//! Line format: fields separated by TAB; inside a field `\t`, `\n`, `\\` are escaped.
mod canon;
mod modes;

use std::io::{BufRead, Write};
use std::panic;
use std::sync::Mutex;

pub static LAST_PANIC: Mutex<Option<String>> = Mutex::new(None);

pub fn unescape_field(s: &str) -> String {
    let mut out = String::with_capacity(s.len());
    let mut it = s.chars();
    while let Some(c) = it.next() {
        if c == '\\' {
            match it.next() {
                Some('t') => out.push('\t'),
                Some('n') => out.push('\n'),
                Some('r') => out.push('\r'),
                Some('\\') => out.push('\\'),
                Some(o) => {
                    out.push('\\');
                    out.push(o)
                }
                None => out.push('\\'),
            }
        } else {
            out.push(c)
        }
    }
    out
}

fn main() {
    // deep SimpleSL recursion needs a deep Rust stack; the monitor's fuel ends runaway recursion
    let worker = std::thread::Builder::new()
        .stack_size(1 << 30)
        .spawn(real_main)
        .expect("spawn worker");
    let _ = worker.join();
}

fn real_main() {
    panic::set_hook(Box::new(|info| {
        let loc = info
            .location()
            .map(|l| {
                let f = l.file();
                // keep path relative to the crate
                let f = f.rsplit_once("/repo/").map(|x| x.1).unwrap_or(f);
                let f = f.rsplit_once("registry/src/").map(|x| x.1).unwrap_or(f);
                format!("{}:{}", f, l.line())
            })
            .unwrap_or_else(|| "?".into());
        *LAST_PANIC.lock().unwrap() = Some(loc);
    }));
    let stdin = std::io::stdin();
    let stdout = std::io::stdout();
    let mut out = stdout.lock();
    for line in stdin.lock().lines() {
        let line = match line {
            Ok(l) => l,
            Err(_) => break,
        };
        if line.is_empty() {
            continue;
        }
        let fields: Vec<String> = line.split('\t').map(unescape_field).collect();
        let res = panic::catch_unwind(|| modes::dispatch(&fields));
        let text = match res {
            Ok(t) => t,
            Err(_) => {
                let loc = LAST_PANIC.lock().unwrap().take().unwrap_or_else(|| "?".into());
                format!("(harness-panic {loc})")
            }
        };
        let _ = writeln!(out, "{}", text.replace('\n', " "));
        let _ = out.flush();
    }
}
