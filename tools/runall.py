#!/usr/bin/env python3
"""Run every claimed check (quick tier by default) on the current tree and validate the evidence."""
import json, os, subprocess, sys, time
V = os.path.dirname(os.path.dirname(os.path.abspath(__file__)))
tier = sys.argv[1] if len(sys.argv) > 1 else "quick"
only = sys.argv[2:]
m = json.load(open(os.path.join(V, "MANIFEST.json")))
bad = 0
for c in m["checks"]:
    pid = c["property_id"]
    if only and pid not in only:
        continue
    t0 = time.time()
    cmd = c["quick_cmd"] if tier == "quick" else c.get("thorough_cmd", c["quick_cmd"])
    p = subprocess.run(cmd, shell=True, cwd=V, capture_output=True, text=True)
    last = [l for l in p.stdout.splitlines() if l.startswith(("OK", "VIOLATION", "KNOWN"))]
    print("%s rc=%d %.1fs %s" % (pid, p.returncode, time.time() - t0, " | ".join(last)[:300]), flush=True)
    if p.returncode != 0:
        bad += 1
        print(p.stdout[-1500:], p.stderr[-1500:])
    ev = json.load(open(os.path.join(V, "evidence", pid + ".json")))
    cov = ev["coverage"]
    ob, di = cov.get("obligations", cov.get("obligations_stated", 0)), cov.get("discharged", cov.get("obligations_discharged", 0))
    if ob != di or ob < 1:
        print("  EVIDENCE PROBLEM: obligations %s discharged %s" % (ob, di)); bad += 1
v = subprocess.run(["python3-vt", "-c", """
import json,jsonschema,glob
m=json.load(open('%s/MANIFEST.json')); jsonschema.validate(m, json.load(open('/root/.vp/MANIFEST.schema.json')))
s=json.load(open('/root/.vp/EVIDENCE.schema.json'))
for c in m['checks']:
    jsonschema.validate(json.load(open(c['evidence_file'])), s)
print('schemas ok')
""" % V], capture_output=True, text=True)
print(v.stdout.strip(), v.stderr.strip()[-500:])
sys.exit(1 if bad else 0)
