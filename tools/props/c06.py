"""C06 — lexical scoping, capture by value.  Proof: SslModel.Thm.C06 (theorems about the reference
semantics `Spec`: nearest declaration, frames, snapshot capture, callee environment, module
exports).  Correspondence: `prog` stream biased to shadowing, re-declaration after capture,
closures passed around, user-written iterators that declare colliding names and are consumed by
every operator, modules."""
import progprop
from gen.programs import INT, BOOL, STR, tup, fn, iter_of, arr, cell, multi

THM_MODULES = ["SslModel.Thm.C06"]
TRANSLATE_PARTS = ["scalar"]

I = lambda n: ("i", n)
V = lambda x: ("id", x)
IDF = ("fndecl", "idf", [("v", INT)], INT, [("return", V("v"))])
LOG = ("set", "log", ("mut", arr(("any",)), ("array", [])))


def user_iter(name, cnt, local, n, k=10):
    body = [("assign", "add", V(cnt), I(1)), ("set", local, ("bin", "mul", ("pre", "deref", V(cnt)), I(k))),
            ("if", ("bin", "le", ("pre", "deref", V(cnt)), I(n)), ("block", [("return", ("tuple", [("true",), V(local)]))]), None),
            ("return", ("tuple", [("false",), I(0)]))]
    return [("set", cnt, ("mut", INT, I(0))), ("fndecl", name, [], tup(BOOL, INT), body)]


def operator_internal_names():
    """every name the operator implementations of the CURRENT source bind: `insert("name", ..)` calls and the
    parameters / declarations / destructuring targets of the SimpleSL helper sources embedded in the crate"""
    import glob
    import os
    import re
    from vlib import REPO
    names = set()
    for path in glob.glob(os.path.join(REPO, "src", "**", "*.rs"), recursive=True):
        if path.endswith("verif.rs"):
            continue
        text = open(path, encoding="utf-8").read()
        if "mod tests" in text:
            text = text[:text.index("mod tests")]
        for m in re.finditer(r'insert\(\s*"([A-Za-z_][A-Za-z_0-9]*)"', text):
            names.add(m.group(1))
        rel = os.path.relpath(path, REPO)
        embedded = rel.startswith("src/stdlib/operators") or any(x in rel for x in (
            "bin_op/map.rs", "bin_op/filter.rs", "bin_op/partition.rs", "unary_operation/iter.rs", "type_filter.rs", "reduce"))
        if not embedded:
            continue
        for m in re.finditer(r"\b([A-Za-z_][A-Za-z_0-9]*)\s*:=", text):
            names.add(m.group(1))
        for m in re.finditer(r"\(([a-z_][A-Za-z_0-9]*(?:\s*,\s*[a-z_][A-Za-z_0-9]*)+)\)\s*:=", text):
            names.update(x.strip() for x in m.group(1).split(","))
        for m in re.finditer(r"[(,]\s*([a-z_][A-Za-z_0-9]*)\s*:\s*(?:\(|\[|int|float|string|bool|any|mut|struct)", text):
            names.add(m.group(1))
    kw = {"self", "mut", "return", "loop", "while", "for", "if", "else", "true", "false", "struct", "mod", "break", "continue", "match", "import", "in"}
    return sorted(n for n in names if n not in kw and not n[0].isupper())


def internal_ops():
    """one use of every operator whose implementation binds names of its own"""
    src3 = ("array", [I(1), ("f", 2.5), I(3)])
    ops = {
        "tfilter": lambda: ("post", "collect", ("tfilter", ("post", "iter", src3), INT)),
        "collect": lambda: ("post", "collect", ("post", "iter", ("array", [I(1), I(2)]))),
        "sum": lambda: ("post", "sum", ("post", "iter", ("array", [I(1), I(2)]))),
        "all": lambda: ("post", "all", ("post", "iter", ("array", [("true",)]))),
        "bitand": lambda: ("post", "bitand", ("post", "iter", ("array", [I(3)]))),
        "map": lambda: ("post", "collect", ("bin", "map", ("post", "iter", ("array", [I(1)])), ("fn", [("e", INT)], INT, [("return", V("e"))]))),
        "filter": lambda: ("post", "collect", ("bin", "filter", ("post", "iter", ("array", [I(1)])), ("fn", [("e", INT)], BOOL, [("return", ("true",))]))),
        "partition": lambda: ("bin", "partition", ("post", "iter", ("array", [I(1)])), ("fn", [("e", INT)], BOOL, [("return", ("true",))])),
        "reduce": lambda: ("reduce", ("post", "iter", ("array", [I(1)])), I(0), ("fn", [("a", INT), ("b", INT)], INT, [("return", V("a"))])),
        "for": lambda: ("for", "q", ("post", "iter", ("array", [I(1)])), ("block", [V("q")])),
    }
    return ops


def templates():
    T = []
    # names bound by operator implementations must not leak into, or overwrite, the caller's scope:
    # the victim is a PARAMETER (read at run time, after the operator ran in the same scope layer)
    ops = internal_ops()
    for w in operator_internal_names():
        for on, mk in ops.items():
            T.append([("fndecl", "run", [(w, INT)], ("any",), [("set", "r", mk()), ("return", ("tuple", [V(w), V("r")]))]),
                      ("call", V("run"), [I(7)])])
        # and a local declared in the same layer, of another type than the helper's binding
        T.append([IDF, ("fndecl", "run", [], ("any",), [("set", w, ("s", "mine")), ("set", "r", ops["tfilter"]()),
                                                          ("set", "r2", ops["map"]()), ("return", ("tuple", [V(w), V("r"), V("r2")]))]),
                  ("call", V("run"), [])])
    # every consumer of a user-written iterator that declares the consumer's name `x`
    consumers = {
        "collect": ("post", "collect", V("it")),
        "sum": ("post", "sum", V("it")), "product": ("post", "product", V("it")),
        "bitand": ("post", "bitand", V("it")), "bitor": ("post", "bitor", V("it")),
        "reduce": ("reduce", V("it"), I(0), ("fn", [("a", INT), ("b", INT)], INT, [("set", "x", I(77)), ("return", ("bin", "add", V("a"), V("b")))])),
        "map": ("post", "collect", ("bin", "map", V("it"), ("fn", [("e", INT)], INT, [("set", "x", I(78)), ("return", ("bin", "add", V("e"), I(1)))]))),
        "filter": ("post", "collect", ("bin", "filter", V("it"), ("fn", [("e", INT)], BOOL, [("set", "x", I(79)), ("return", ("bin", "gt", V("e"), I(10)))]))),
        "partition": ("bin", "partition", V("it"), ("fn", [("e", INT)], BOOL, [("set", "x", I(80)), ("return", ("bin", "gt", V("e"), I(10)))])),
        "tfilter": ("post", "collect", ("tfilter", V("it"), INT)),
        "all": ("post", "all", ("bin", "map", V("it"), ("fn", [("e", INT)], BOOL, [("set", "x", I(81)), ("return", ("bin", "gt", V("e"), I(0)))]))),
        "any": ("post", "any", ("bin", "map", V("it"), ("fn", [("e", INT)], BOOL, [("return", ("bin", "gt", V("e"), I(15)))]))),
    }
    for nm, cons in consumers.items():
        for xdecl in (("set", "x", ("call", V("idf"), [I(5)])), ("set", "x", ("mut", INT, I(1)))):
            read = V("x") if xdecl[2][0] == "call" else ("pre", "deref", V("x"))
            T.append([IDF, xdecl] + user_iter("it", "cnt", "x", 3) + [("set", "r", cons), ("tuple", [read, V("r")])])
            # same, from inside a function
            T.append([IDF, ("fndecl", "run", [], ("any",), [xdecl] + user_iter("it", "cnt", "x", 2) +
                       [("set", "r", cons), ("return", ("tuple", [read, V("r")]))]), ("call", V("run"), [])])
    # for loop over a user iterator with colliding names
    T.append([IDF, ("set", "x", ("call", V("idf"), [I(5)])), ("set", "acc", ("mut", INT, I(0)))] + user_iter("it", "cnt", "x", 3) +
             [("for", "y", V("it"), ("block", [("assign", "add", V("acc"), ("bin", "add", V("y"), V("x")))])), ("tuple", [V("x"), ("pre", "deref", V("acc"))])])
    # binder kind x scope kind: a name re-declared inside is the outer one again afterwards
    inner_decls = {
        "set": [("set", "x", I(2))],
        "destruct": [("destruct", ["x", "z"], ("tuple", [I(2), I(3)]))],
        "fndecl": [("fndecl", "x", [], INT, [("return", I(2))])],
        "param": [("fndecl", "g", [("x", INT)], INT, [("return", V("x"))]), ("call", V("g"), [I(2)])],
        "for": [("for", "x", ("post", "iter", ("array", [I(2), I(3)])), ("block", [V("x")]))],
        "ifset": [("ifset", "x", INT, ("call", V("idf"), [I(2)]), ("block", [V("x")]), None)],
        "match": [("match", ("call", V("idf"), [I(2)]), [("ty", "x", INT, ("block", [V("x")]))])],
    }
    scopes = {
        "none": lambda b: b if b[0][0] not in ("set", "destruct", "fndecl") else [("block", b)],   # the binder construct itself is the only scope
        "block": lambda b: [("block", b)],
        "if": lambda b: [("if", ("bin", "eq", ("call", V("idf"), [I(1)]), I(1)), ("block", b), ("block", []))],
        "loop": lambda b: [("set", "n", ("mut", INT, I(0))), ("while", ("bin", "lt", ("pre", "deref", V("n")), I(2)), ("block", [("assign", "add", V("n"), I(1))] + b))],
        "fnbody": lambda b: [("fndecl", "h", [], ("void",), b + [("return", None)]), ("call", V("h"), [])],
        "mod": lambda b: [("set", "m", ("mod", b))],
        "arm": lambda b: [("match", ("call", V("idf"), [I(0)]), [("ty", "q", INT, ("block", b))])],
        "ifsetbody": lambda b: [("ifset", "q", INT, ("call", V("idf"), [I(0)]), ("block", b), None)],
    }
    for dk, decl in inner_decls.items():
        for sk, wrap in scopes.items():
            T.append([IDF, ("set", "x", ("call", V("idf"), [I(1)]))] + wrap(decl) + [V("x")])
    # a binder inside a FUNCTION BODY that shadows a captured name: after the binder construct (and in its
    # else branch) the name is the captured value again, on every call
    for dk, decl in inner_decls.items():
        T.append([IDF, ("set", "x", ("call", V("idf"), [I(1)])),
                  ("fndecl", "h", [], ("any",), decl + [("return", V("x"))]),
                  ("tuple", [("call", V("h"), []), ("call", V("h"), []), V("x")])])
    IDU = ("fndecl", "idu", [("v", ("multi", (INT, STR)))], ("multi", (INT, STR)), [("return", V("v"))])
    for arg, in ((I(5),), (("s", "five"),)):
        # the narrowing idiom `if u: int = u {..} else {.. u ..}` on a captured union-typed name
        T.append([IDU, ("set", "u", ("call", V("idu"), [arg])),
                  ("fndecl", "h", [], ("any",), [("set", "r", ("ifset", "u", INT, V("u"), ("block", [("bin", "add", V("u"), I(1))]), ("block", [V("u")]))),
                                                  ("return", ("tuple", [V("r"), V("u")]))]),
                  ("call", V("h"), [])])
        T.append([IDU, ("set", "u", ("call", V("idu"), [arg])), ("set", "n", ("mut", INT, I(0))),
                  ("fndecl", "h", [], ("any",), [("whileset", "u", INT, ("if", ("bin", "lt", ("pre", "deref", V("n")), I(2)), ("block", [V("u")]), ("block", [("unit",)])),
                                                   ("block", [("assign", "add", V("n"), I(1))])),
                                                  ("return", ("tuple", [V("u"), ("pre", "deref", V("n"))]))]),
                  ("call", V("h"), [])])
    # a type-testing binder (`if x: T = e`, `while x: T = e`, match type arm) binds its name ONLY in the matched body: in the
    # else branch / other arms / afterwards the name is the enclosing declaration, whose value DIFFERS from the tested one
    for outer, tested, ty in ((I(7), I(99), STR), (I(7), ("s", "other"), INT), (("s", "mine"), I(99), STR)):
        oty = INT if outer[0] == "i" else STR
        elsex = ("block", [V("x")])
        clos = ("block", [("call", ("fn", [], oty, [("return", V("x"))]), [])])
        for eb in (elsex, clos):
            # parameters of a function
            T.append([("fndecl", "h", [("x", oty), ("y", ("multi", (INT, STR)))], ("any",),
                       [("set", "r", ("ifset", "x", ty, V("y"), ("block", [V("x")]), eb)), ("return", ("tuple", [V("r"), V("x")]))]),
                      ("call", V("h"), [outer, tested])])
            # run-time locals at top level
            T.append([IDF, IDU, ("set", "x", ("call", V("idf" if outer[0] == "i" else "idu"), [outer])), ("set", "y", ("call", V("idu"), [tested])),
                      ("set", "r", ("ifset", "x", ty, V("y"), ("block", [V("x")]), eb)), ("tuple", [V("r"), V("x")])])
        # else-if chain: the last else sees the enclosing name
        T.append([("fndecl", "h", [("x", oty), ("y", ("multi", (INT, STR)))], ("any",),
                   [("set", "r", ("ifset", "x", ty, V("y"), ("block", [V("x")]),
                                  ("ifset", "x", BOOL, V("y"), ("block", [V("x")]), ("block", [V("x")])))),
                    ("return", ("tuple", [V("r"), V("x")]))]),
                  ("call", V("h"), [outer, tested])])
        # match: a type arm that does not match, then an `other` arm reading the enclosing name
        T.append([("fndecl", "h", [("x", oty), ("y", ("multi", (INT, STR)))], ("any",),
                   [("set", "r", ("match", V("y"), [("ty", "x", ty, ("block", [V("x")])), ("other", ("block", [V("x")]))])),
                    ("return", ("tuple", [V("r"), V("x")]))]),
                  ("call", V("h"), [outer, tested])])
    # capture by value: redeclare after creating the closure; captured cell stays shared
    T.append([IDF, ("set", "x", ("call", V("idf"), [I(1)])), ("set", "c", ("mut", INT, I(10))),
              ("fndecl", "g", [], INT, [("return", ("bin", "add", V("x"), ("pre", "deref", V("c"))))]),
              ("set", "x", ("call", V("idf"), [I(100)])), ("assign", "set", V("c"), I(20)),
              ("set", "c", ("mut", INT, I(3000))), ("tuple", [("call", V("g"), []), V("x"), ("pre", "deref", V("c"))])])
    # closure returned from a function keeps the argument it was created with
    T.append([("fndecl", "adder", [("n", INT)], fn((INT,), INT), [("return", ("fn", [("m", INT)], INT, [("return", ("bin", "add", V("n"), V("m")))]))]),
              ("set", "a1", ("call", V("adder"), [I(1)])), ("set", "a2", ("call", V("adder"), [I(10)])),
              ("tuple", [("call", V("a1"), [I(5)]), ("call", V("a2"), [I(5)]), ("call", V("a1"), [I(7)])])])
    # closure passed into a function sees its own captured names, not the callee's
    T.append([IDF, ("set", "x", ("call", V("idf"), [I(1)])), ("fndecl", "getx", [], INT, [("return", V("x"))]),
              ("fndecl", "apply", [("k", fn((), INT))], INT, [("set", "x", I(50)), ("return", ("bin", "add", ("call", V("k"), []), V("x")))]),
              ("call", V("apply"), [V("getx")])])
    # self reference through another call path, and shadowing of the function name by a parameter
    T.append([("fndecl", "fact", [("n", INT)], INT, [("if", ("bin", "le", V("n"), I(1)), ("block", [("return", I(1))]), None),
                                                        ("return", ("bin", "mul", V("n"), ("call", V("fact"), [("bin", "sub", V("n"), I(1))])))]),
              ("fndecl", "twice", [("k", fn((INT,), INT)), ("v", INT)], INT, [("return", ("call", V("k"), [("call", V("k"), [V("v")])]))]),
              ("set", "fact2", V("fact")), ("fndecl", "fact", [("n", INT)], INT, [("return", I(-1))]),
              ("tuple", [("call", V("fact2"), [I(5)]), ("call", V("twice"), [V("fact2"), I(3)]), ("call", V("fact"), [I(5)])])])
    # module yields exactly its own top-level names (latest declaration), nothing of the enclosing scope
    T.append([IDF, ("set", "outer", ("call", V("idf"), [I(9)])),
              ("set", "m", ("mod", [("set", "a", I(1)), ("set", "a", ("bin", "add", V("outer"), I(1))), ("block", [("set", "hidden", I(3))]),
                                    ("fndecl", "f", [], INT, [("return", V("a"))])])),
              ("tuple", [V("m"), ("call", ("facc", V("m"), "f"), [])])])
    # a declared function knows its own name wherever it is called from: directly, through a parameter, and by every
    # operator that calls functions (`@`, `?`, `\\`, `$`), with the recursive call actually reached
    FACT = ("fndecl", "fact", [("n", INT)], INT, [("if", ("bin", "le", V("n"), I(1)), ("block", [("return", I(1))]), None),
                                                   ("return", ("bin", "mul", V("n"), ("call", V("fact"), [("bin", "sub", V("n"), I(1))])))])
    BIG = ("fndecl", "big", [("n", INT)], BOOL, [("if", ("bin", "gt", V("n"), I(3)), ("block", [("return", ("call", V("big"), [("bin", "sub", V("n"), I(3))]))]), None),
                                                  ("return", ("bin", "eq", V("n"), I(3)))])
    ACC = ("fndecl", "acc", [("a", INT), ("b", INT)], INT, [("if", ("bin", "gt", V("b"), I(0)), ("block", [("return", ("call", V("acc"), [("bin", "add", V("a"), I(1)), ("bin", "sub", V("b"), I(1))]))]), None),
                                                             ("return", V("a"))])
    src5 = ("post", "iter", ("array", [I(1), I(3), I(4), I(6)]))
    uses = {
        "call": ("call", V("fact"), [I(5)]),
        "map": ("post", "collect", ("bin", "map", src5, V("fact"))),
        "filter": ("post", "collect", ("bin", "filter", src5, V("big"))),
        "partition": ("bin", "partition", src5, V("big")),
        "reduce": ("reduce", src5, I(0), V("acc")),
        "param": ("call", ("fn", [("k", fn((INT,), INT))], INT, [("return", ("call", V("k"), [I(4)]))]), [V("fact")]),
        "alias": ("call", V("g2"), [I(4)]),
        "sum-of-map": ("post", "sum", ("bin", "map", src5, V("fact"))),
        "all-of-map": ("post", "all", ("bin", "map", src5, V("big"))),
    }
    for nm, e in uses.items():
        T.append([FACT, BIG, ACC, ("set", "g2", V("fact")), e])
        # ... also when the use sits inside another function and the declared name was shadowed meanwhile at the use site
        T.append([FACT, BIG, ACC, ("set", "g2", V("fact")),
                  ("fndecl", "run", [], ("any",), [("return", e)]), ("call", V("run"), [])])
    # a user-written ITERATOR that reaches itself by its declared name (skipping elements), consumed by EVERY consumer at
    # a site where that name denotes something else (re-declared after the iterator was saved under another name; shadowed
    # inside the consuming function; not in scope at all - the iterator came from a factory)
    def odds(limit):
        dc = ("pre", "deref", V("count"))
        return [("set", "count", ("mut", INT, I(0))),
                ("fndecl", "odds", [], tup(BOOL, INT),
                 [("assign", "add", V("count"), I(1)),
                  ("if", ("bin", "eq", ("bin", "mod", dc, I(2)), I(0)), ("block", [("return", ("call", V("odds"), []))]), None),
                  ("return", ("tuple", [("bin", "le", dc, limit), dc]))])]
    HELP = [("fndecl", "dbl", [("n", INT)], INT, [("return", ("bin", "mul", V("n"), I(2)))]),
            ("fndecl", "isbig", [("n", INT)], BOOL, [("return", ("bin", "gt", V("n"), I(3)))]),
            ("fndecl", "add2", [("a", INT), ("b", INT)], INT, [("return", ("bin", "add", V("a"), V("b")))])]
    consumers = {
        "collect": lambda it: ([], ("post", "collect", it)),
        "sum": lambda it: ([], ("post", "sum", it)),
        "product": lambda it: ([], ("post", "product", it)),
        "reduce": lambda it: ([], ("reduce", it, I(0), V("add2"))),
        "partition": lambda it: ([], ("bin", "partition", it, V("isbig"))),
        "map": lambda it: ([], ("post", "collect", ("bin", "map", it, V("dbl")))),
        "filter": lambda it: ([], ("post", "collect", ("bin", "filter", it, V("isbig")))),
        "tfilter": lambda it: ([], ("post", "collect", ("tfilter", it, INT))),
        "all-of-map": lambda it: ([], ("post", "all", ("bin", "map", it, V("isbig")))),
        "for": lambda it: ([("set", "s", ("mut", INT, I(0))), ("for", "k", it, ("block", [("assign", "add", V("s"), V("k"))]))], ("pre", "deref", V("s"))),
    }
    ITER_T = fn((), tup(BOOL, INT))
    for nm, mk in consumers.items():
        pre, e = mk(V("saved"))
        T.append(HELP + odds(I(7)) + [("set", "saved", V("odds")),
                                      ("fndecl", "odds", [], tup(BOOL, INT), [("return", ("tuple", [("false",), I(0)]))])] + pre + [e])
        pre, e = mk(V("it"))
        T.append(HELP + odds(I(7)) + [("fndecl", "consume", [("it", ITER_T)], ("any",),
                                       [("fndecl", "odds", [], tup(BOOL, INT), [("return", ("tuple", [("true",), I(100)]))]),
                                        ("set", "first", ("call", V("odds"), []))] + pre + [("return", e)]),
                                      ("call", V("consume"), [V("odds")])])
        T.append(HELP + [("fndecl", "make", [("limit", INT)], ITER_T, odds(V("limit")) + [("return", V("odds"))]),
                         ("set", "it", ("call", V("make"), [I(7)]))] + pre + [e])
    # every way a module's top level can declare a name: `:=`, destructuring, function declaration, re-declaration -
    # each is a field of the module (value AND static type: the field is read afterwards), names of inner scopes are not
    decls = {
        "set": ([("set", "q", ("call", V("idf"), [I(3)]))], ["q"]),
        "destruct": ([("destruct", ["q", "r"], ("tuple", [("call", V("idf"), [I(3)]), ("s", "two")]))], ["q", "r"]),
        "destruct-then-set": ([("destruct", ["q", "r"], ("tuple", [I(1), I(2)])), ("set", "n", ("bin", "add", V("q"), V("r")))], ["q", "r", "n"]),
        "set-then-destruct": ([("set", "q", ("s", "old")), ("destruct", ["q", "r"], ("tuple", [I(1), I(2)]))], ["q", "r"]),
        "fndecl": ([("fndecl", "q", [], INT, [("return", I(4))])], ["q"]),
        "fndecl-uses-destructured": ([("destruct", ["a", "b"], ("tuple", [I(5), I(6)])), ("fndecl", "q", [], INT, [("return", ("bin", "add", V("a"), V("b")))])], ["a", "b", "q"]),
        "destruct-in-block": ([("set", "q", I(1)), ("block", [("destruct", ["hid", "den"], ("tuple", [I(1), I(2)]))])], ["q"]),
    }
    for nm, (body, names) in decls.items():
        reads = [("facc", V("m"), x) if not (nm.startswith("fndecl") and x == "q") else ("call", ("facc", V("m"), x), []) for x in names]
        T.append([IDF, ("set", "outer", ("call", V("idf"), [I(9)])), ("set", "m", ("mod", body)), ("tuple", [V("m")] + reads)])
        # the module as a function result (nothing folds), read through a parameter of struct type `any`
        T.append([IDF, ("fndecl", "mk", [("seed", INT)], ("any",), [("return", ("mod", [("set", "s0", V("seed"))] + body))]),
                  ("call", V("mk"), [I(1)])])
    # a name used in a loop body BEFORE the body re-declares it (at another type; also a function re-declared below a call of
    # the outer one): every iteration starts from the binding outside the loop
    cond3 = ("bin", "ge", ("pre", "deref", V("i")), I(3))
    body = [("assign", "add", V("r"), V("x")), ("set", "x", ("s", "shadow")), ("assign", "add", V("i"), I(1))]
    fbody = [("assign", "add", V("r"), ("call", V("h"), [I(2)])), ("fndecl", "h", [("v", STR)], STR, [("return", V("v"))]), ("assign", "add", V("i"), I(1))]
    for bd, pre in ((body, [IDF, ("set", "x", ("call", V("idf"), [I(1)]))]), (fbody, [("fndecl", "h", [("v", INT)], INT, [("return", ("bin", "mul", V("v"), I(10)))])])):
        head = pre + [("set", "i", ("mut", INT, I(0))), ("set", "r", ("mut", INT, I(0)))]
        stop = ("if", cond3, ("block", [("break",)]), None)
        T.append(head + [("loop", ("block", [stop] + bd)), ("pre", "deref", V("r"))])
        T.append(head + [("while", ("true",), ("block", [stop] + bd)), ("pre", "deref", V("r"))])
        T.append(head + [("while", ("bin", "lt", ("pre", "deref", V("i")), I(3)), ("block", bd)), ("pre", "deref", V("r"))])
        T.append(head + [("for", "k", ("post", "iter", ("array", [I(7), I(8), I(9)])), ("block", bd)), ("pre", "deref", V("r"))])
        T.append([("fndecl", "run", [("n", INT)], INT, head + [("loop", ("block", [("if", ("bin", "ge", ("pre", "deref", V("i")), V("n")), ("block", [("return", ("pre", "deref", V("r")))]), None)] + bd))]),
                  ("tuple", [("call", V("run"), [I(1)]), ("call", V("run"), [I(3)])])])
    # inside a function body: a name that is a plain ALIAS of a captured function (`step := inc`), then re-declared as a
    # function of the SAME signature, then used - in the same scope, a nested block, after destructuring, in a `mod` body
    INC = ("fndecl", "inc", [("v", INT)], INT, [("return", ("bin", "add", V("v"), I(1)))])
    DEC = ("fndecl", "dec", [("v", INT)], INT, [("return", ("bin", "sub", V("v"), I(1)))])
    NEW = ("fndecl", "step", [("v", INT)], INT, [("return", ("bin", "add", V("v"), I(100)))])
    use = ("call", V("step"), [I(1)])
    bodies = [
        [("set", "step", V("inc")), NEW, ("return", use)],
        [("set", "step", V("inc")), ("set", "r0", use), NEW, ("return", ("bin", "add", V("r0"), use))],
        [("set", "step", V("inc")), ("block", [NEW, ("set", "inner", use)]), ("return", use)],
        [("set", "step", V("inc")), ("set", "r", ("block", [NEW, use])), ("return", V("r"))],
        [("destruct", ["step", "other"], ("tuple", [V("inc"), V("dec")])), NEW, ("return", ("bin", "add", use, ("call", V("other"), [I(10)])))],
        [("set", "step", V("inc")), ("set", "m", ("mod", [NEW, ("fndecl", "twice", [("v", INT)], INT, [("return", ("call", V("step"), [("call", V("step"), [V("v")])]))])])),
         ("return", ("call", ("facc", V("m"), "twice"), [I(1)]))],
        [("set", "step", V("inc")), ("fndecl", "deep", [], INT, [NEW, ("return", use)]), ("return", ("bin", "add", ("call", V("deep"), []), use))],
    ]
    for b in bodies:
        T.append([INC, DEC, ("fndecl", "outer", [], INT, b), ("tuple", [("call", V("outer"), []), ("call", V("outer"), [])])])
    # the binder of `if k: T = e` / `while k: T = e` lives in the body only - also when `e` is known while the enclosing
    # function is created (a literal, a captured value) and the binder has the name of a PARAMETER read afterwards
    U2 = multi(INT, STR)
    inner = ("fn", [("k", INT)], INT, [("set", "bonus", ("mut", INT, I(0))), ("ifset", "k", INT, V("v"), ("block", [("assign", "set", V("bonus"), V("k"))]), None),
                                        ("return", ("bin", "add", V("k"), ("pre", "deref", V("bonus"))))])
    T.append([("fndecl", "make", [("v", U2)], fn((INT,), INT), [("return", inner)]),
              ("tuple", [("call", ("call", V("make"), [I(5)]), [I(100)]), ("call", ("call", V("make"), [("s", "s")]), [I(100)])])])
    T.append([("fndecl", "f", [("k", INT)], INT, [("ifset", "k", INT, I(7), ("block", [I(0)]), None), ("return", V("k"))]), ("call", V("f"), [I(100)])])
    T.append([("fndecl", "f", [("k", INT)], INT, [("set", "seen", ("mut", INT, I(0))), ("ifset", "k", INT, I(7), ("block", [("assign", "set", V("seen"), V("k"))]), None),
                                                   ("set", "g", ("fn", [], INT, [("return", V("k"))])), ("return", ("bin", "add", ("call", V("g"), []), ("pre", "deref", V("seen"))))]),
              ("call", V("f"), [I(100)])])
    T.append([("fndecl", "f", [("k", INT)], INT, [("whileset", "k", INT, I(7), ("block", [("break",)])), ("return", V("k"))]), ("call", V("f"), [I(100)])])
    T.append([("set", "c", I(7)), ("fndecl", "f", [("k", STR)], STR, [("ifset", "k", INT, V("c"), ("block", [I(0)]), ("block", [I(1)])), ("return", V("k"))]), ("call", V("f"), [("s", "outer")])])
    # a function one of whose parameters has the function's OWN name, re-declaring an older binding of that name (a global
    # function, a constant, a local), and the name used afterwards - directly, by a closure created before / after the
    # re-declaration, inside a nested function, as a module field: the later uses denote the NEW function
    inc = lambda k: ("fn", [("f", INT)], INT, [("return", ("bin", "add", V("f"), I(k)))])
    old_fn = ("fndecl", "f", [("x", INT)], INT, [("return", ("bin", "add", V("x"), I(100)))])
    new_fn = ("fndecl", "f", [("f", INT)], INT, [("return", ("bin", "mul", V("f"), I(50)))])
    new_fn2 = ("fndecl", "f", [("a", INT), ("f", INT)], INT, [("return", ("bin", "sub", V("f"), V("a")))])
    for old in (old_fn, ("set", "f", I(7)), ("set", "f", ("pre", "deref", ("mut", INT, I(7))))):
        T.append([old, new_fn, ("call", V("f"), [I(1)])])
        T.append([old, new_fn, ("set", "g", V("f")), ("call", V("g"), [I(2)])])
        T.append([old, new_fn, ("fndecl", "b", [], INT, [("return", ("call", V("f"), [I(1)]))]), ("call", V("b"), [])])
        T.append([old, ("fndecl", "w", [], INT, [new_fn, ("return", ("call", V("f"), [I(1)]))]), ("call", V("w"), [])])
        T.append([old, ("fndecl", "w", [], ("any",), [new_fn, ("fndecl", "b", [], INT, [("return", ("call", V("f"), [I(3)]))]), ("return", V("b"))]),
                  ("call", ("call", V("w"), []), [])])
        T.append([old, ("set", "m", ("mod", [new_fn, ("set", "id", V("f"))])), ("call", ("facc", V("m"), "id"), [I(4)])])
        T.append([old, ("block", [new_fn, ("call", V("f"), [I(5)])])])
        T.append([old, new_fn2, ("call", V("f"), [I(1), I(10)])])
    T.append([old_fn, ("fndecl", "a", [], INT, [("return", ("call", V("f"), [I(1)]))]), new_fn,
              ("fndecl", "b", [], INT, [("return", ("call", V("f"), [I(1)]))]), ("tuple", [("call", V("a"), []), ("call", V("b"), [])])])
    return T


def run(res, tier, seed, broken_model):
    feats = dict(weights=dict(capture=25, useriter=25, block=14, mod=8, fndecl=14, decl=30, **{"for": 10, "if": 8}), mark=0.2)
    recs, good = progprop.stream(res, tier, seed, broken_model, 500, 12000, features=feats, templates=templates(), label="scoping")
    res.rule = ("hand templates (12 iterator consumers x {value, cell} victim x {top level, inside a function}; 7 binder kinds "
                "x 7 scope kinds; capture-by-value, returned / passed closures, self reference, module exports) + seeded "
                "type-directed programs weighted to shadowing, capture-then-redeclare and user-written iterators; "
                "non-trivial = distinct accepted program that ran to a value or documented error on both sides")
