"""Greedy shrinking of program ASTs: delete statements anywhere, unwrap marker calls, replace
operator applications by an operand — as long as the caller's predicate keeps holding."""

STMT_LISTS = {"fn": 3, "mod": 1, "fndecl": 4, "block": 1}


def _children(e):
    """yield (setter, child) for every sub-node position, and (setter, list) for statement lists"""
    if not isinstance(e, tuple):
        return
    for i, x in enumerate(e):
        if isinstance(x, tuple) and x and isinstance(x[0], str):
            yield ("node", i, x)
        elif isinstance(x, list):
            yield ("list", i, x)


def _variants(e):
    """smaller versions of node e (one step)"""
    if not isinstance(e, tuple) or not e:
        return
    k = e[0]
    # marker call -> its payload
    if k == "call" and e[1][0] == "id" and e[1][1] in ("mi", "mb", "mf", "ms") and len(e[2]) == 2:
        yield e[2][1]
    if k == "bin" and e[1] not in ("map", "filter", "partition"):
        yield e[2]
        yield e[3]
    if k in ("and", "or"):
        yield e[1]
        yield e[2]
    if k == "block" and len(e[1]) == 1:
        pass
    for kind, i, x in _children(e):
        if kind == "node":
            for v in _variants(x):
                yield e[:i] + (v,) + e[i + 1:]
        else:
            # list of statements / expressions / arms / fields
            for j in range(len(x)):
                item = x[j]
                if isinstance(item, tuple) and item and isinstance(item[0], str):
                    # delete (only sensible in statement lists; the predicate rejects the rest)
                    if (k in STMT_LISTS and STMT_LISTS[k] == i) or k in ("array",):
                        yield e[:i] + (x[:j] + x[j + 1:],) + e[i + 1:]
                    for v in _variants(item):
                        yield e[:i] + (x[:j] + [v] + x[j + 1:],) + e[i + 1:]
                elif isinstance(item, tuple) and len(item) == 2 and isinstance(item[0], str) and isinstance(item[1], tuple):
                    # struct field (k, expr)
                    for v in _variants(item[1]):
                        yield e[:i] + (x[:j] + [(item[0], v)] + x[j + 1:],) + e[i + 1:]


def shrink(stmts, pred, budget=400, seconds=45.0):
    """stmts: top-level statement list.  pred(stmts) -> bool must hold for the input.
    Bounded by a number of candidates AND by wall time (a candidate may be a long-running program)."""
    import time as _time
    deadline = _time.time() + seconds
    pred0 = pred

    def pred(c):
        if _time.time() > deadline:
            return False
        return pred0(c)
    cur = list(stmts)
    tries = 0
    progress = True
    while progress and tries < budget and _time.time() < deadline:
        progress = False
        # top-level deletions first (cheap, big wins), last statement kept
        j = 0
        while j < len(cur) - 1 and tries < budget:
            cand = cur[:j] + cur[j + 1:]
            tries += 1
            if pred(cand):
                cur = cand
                progress = True
            else:
                j += 1
        for j in range(len(cur)):
            changed = True
            while changed and tries < budget:
                changed = False
                for v in _variants(cur[j]):
                    tries += 1
                    if tries >= budget:
                        break
                    cand = cur[:j] + [v] + cur[j + 1:]
                    if pred(cand):
                        cur = cand
                        progress = changed = True
                        break
    return cur
