import SslModel.Model.Spec
/-!
  Fuel monotonicity of the reference evaluator `Spec`: an evaluation that ends without running out
  of fuel ends the same way (same value or signal, same store) with any larger amount of fuel.

  `LeR r r'` : `r` ran out of fuel, or `r = r'`;  `LeM m m'` : pointwise on stores.
  Every function of the mutual block of `Spec.eval` is monotone in its fuel (`mono_all`).
-/
set_option linter.unusedSimpArgs false
set_option linter.unusedVariables false
namespace Ssl.Spec

def LeR {α} (r r' : Except Sig α × St) : Prop :=
  (∃ σ, r = (.error .fuel, σ)) ∨ r = r'

def LeM {α} (m m' : M α) : Prop := ∀ σ, LeR (m σ) (m' σ)

theorem LeR.refl {α} (r : Except Sig α × St) : LeR r r := Or.inr rfl
theorem LeM.refl {α} (m : M α) : LeM m m := fun _ => Or.inr rfl

theorem LeR.trans {α} {a b c : Except Sig α × St} (h1 : LeR a b) (h2 : LeR b c) : LeR a c := by
  rcases h1 with h1 | h1
  · exact Or.inl h1
  · subst h1; exact h2

theorem LeM.trans {α} {a b c : M α} (h1 : LeM a b) (h2 : LeM b c) : LeM a c :=
  fun σ => (h1 σ).trans (h2 σ)

theorem LeM.fuel {α} (m : M α) : LeM (throwS .fuel) m := fun σ => Or.inl ⟨σ, rfl⟩

theorem bindM_def {α β} (m : M α) (k : α → M β) (σ : St) :
    (m >>= k) σ = (match m σ with
      | (.ok a, σ') => k a σ'
      | (.error e, σ') => (.error e, σ')) := rfl

theorem LeM.bind {α β} {m m' : M α} {k k' : α → M β} (h : LeM m m') (hk : ∀ a, LeM (k a) (k' a)) :
    LeM (m >>= k) (m' >>= k') := by
  intro σ
  rw [bindM_def, bindM_def]
  rcases h σ with ⟨σ1, h1⟩ | h1
  · left; exact ⟨σ1, by rw [h1]⟩
  · rw [← h1]
    match m σ with
    | (.ok a, σ') => exact hk a σ'
    | (.error e, σ') => exact Or.inr rfl

theorem LeM.tryCatch {α} {m m' : M α} {h h' : Sig → M α} (hm : LeM m m')
    (hh : ∀ s, LeM (h s) (h' s)) (hf : h .fuel = throwS .fuel) :
    LeM (tryCatchS m h) (tryCatchS m' h') := by
  intro σ
  unfold tryCatchS
  rcases hm σ with ⟨σ1, h1⟩ | h1
  · left; refine ⟨σ1, ?_⟩; rw [h1]; simp only [hf]; rfl
  · rw [← h1]
    match m σ with
    | (.ok a, σ') => exact Or.inr rfl
    | (.error e, σ') => exact hh e σ'

attribute [irreducible] LeM

/-- the twenty statements, for two amounts of fuel -/
structure MonoAt (f g : Nat) : Prop where
  eval : ∀ env e, LeM (eval f env e) (eval g env e)
  evalOpt : ∀ env e, LeM (evalOpt f env e) (evalOpt g env e)
  evalList : ∀ env es, LeM (evalList f env es) (evalList g env es)
  evalFields : ∀ env es, LeM (evalFields f env es) (evalFields g env es)
  evalStmt : ∀ env e, LeM (evalStmt f env e) (evalStmt g env e)
  evalStmtValue : ∀ env e, LeM (evalStmtValue f env e) (evalStmtValue g env e)
  evalSeq : ∀ env es, LeM (evalSeq f env es) (evalSeq g env es)
  callFn : ∀ fv args, LeM (callFn f fv args) (callFn g fv args)
  pull : ∀ it, LeM (pull f it) (pull g it)
  collectGo : ∀ it acc, LeM (collectGo f it acc) (collectGo g it acc)
  partitionGo : ∀ it p l r, LeM (partitionGo f it p l r) (partitionGo g it p l r)
  reduceGo : ∀ it acc h, LeM (reduceGo f it acc h) (reduceGo g it acc h)
  boolGo : ∀ it u, LeM (boolGo f it u) (boolGo g it u)
  evalArms : ∀ env v arms, LeM (evalArms f env v arms) (evalArms g env v arms)
  candGo : ∀ env v cs, LeM (candGo f env v cs) (candGo g env v cs)
  bodyOnce : ∀ env b, LeM (bodyOnce f env b) (bodyOnce g env b)
  loopGo : ∀ env b, LeM (loopGo f env b) (loopGo g env b)
  whileGo : ∀ env c b, LeM (whileGo f env c b) (whileGo g env c b)
  whileSetGo : ∀ env x t e b, LeM (whileSetGo f env x t e b) (whileSetGo g env x t e b)
  forGo : ∀ env x it b, LeM (forGo f env x it b) (forGo g env x it b)

/-- one structural step of a monotonicity proof: peel a bind, a handler, a case split; close with
    the induction hypothesis or reflexivity -/
syntax "mono_step" ident : tactic
macro_rules
  | `(tactic| mono_step $ih:ident) => `(tactic| first
      | with_reducible exact LeM.refl _
      | with_reducible exact LeM.fuel _
      | with_reducible exact ($ih).eval _ _
      | with_reducible exact ($ih).evalOpt _ _
      | with_reducible exact ($ih).evalList _ _
      | with_reducible exact ($ih).evalFields _ _
      | with_reducible exact ($ih).evalStmt _ _
      | with_reducible exact ($ih).evalStmtValue _ _
      | with_reducible exact ($ih).evalSeq _ _
      | with_reducible exact ($ih).callFn _ _
      | with_reducible exact ($ih).pull _
      | with_reducible exact ($ih).collectGo _ _
      | with_reducible exact ($ih).partitionGo _ _ _ _
      | with_reducible exact ($ih).reduceGo _ _ _
      | with_reducible exact ($ih).boolGo _ _
      | with_reducible exact ($ih).evalArms _ _ _
      | with_reducible exact ($ih).candGo _ _ _
      | with_reducible exact ($ih).bodyOnce _ _
      | with_reducible exact ($ih).loopGo _ _
      | with_reducible exact ($ih).whileGo _ _ _
      | with_reducible exact ($ih).whileSetGo _ _ _ _ _
      | with_reducible exact ($ih).forGo _ _ _ _
      | (refine LeM.tryCatch ?_ (fun _ => LeM.refl _) (by rfl))
      | with_reducible apply LeM.bind
      | intro _
      | (split <;> try simp only [])
      )

theorem monoAt_zero (g : Nat) : MonoAt 0 g := by
  constructor <;> intros <;> unfold LeM <;> intro σ <;> left <;> refine ⟨σ, ?_⟩ <;>
    simp only [eval, evalOpt, evalList, evalFields, evalStmt,
      evalStmtValue, evalSeq, callFn, pull, collectGo, partitionGo, reduceGo, boolGo, evalArms, candGo,
      bodyOnce, loopGo, whileGo, whileSetGo, forGo, throwS]

theorem mono_eval (f g : Nat) (ih : MonoAt f g) (env : Env) (e : Expr) :
    LeM (eval (f + 1) env e) (eval (g + 1) env e) := by
  cases e
  case pre op e => cases op <;> simp only [eval] <;> (repeat (any_goals (mono_step ih)))
  case bin op a b => cases op <;> simp only [eval] <;> (repeat (any_goals (mono_step ih)))
  case post op e => cases op <;> simp only [eval] <;> (repeat (any_goals (mono_step ih)))
  all_goals (simp only [eval]; repeat (any_goals (mono_step ih)))

syntax "mono_auto" ident : tactic
macro_rules
  | `(tactic| mono_auto $ih:ident) => `(tactic| repeat (any_goals (mono_step $ih)))

theorem monoAt_succ (f g : Nat) (ih : MonoAt f g) : MonoAt (f + 1) (g + 1) := by
  constructor
  · exact mono_eval f g ih
  · intro env e; cases e <;> simp only [evalOpt] <;> mono_auto ih
  · intro env es; cases es <;> simp only [evalList] <;> mono_auto ih
  · intro env es; cases es <;> simp only [evalFields] <;> mono_auto ih
  · intro env e; cases e <;> simp only [evalStmt] <;> mono_auto ih
  · intro env e; simp only [evalStmtValue]; mono_auto ih
  · intro env es
    cases es with
    | nil => simp only [evalSeq]; mono_auto ih
    | cons s rest => cases rest <;> simp only [evalSeq] <;> mono_auto ih
  · intro fv args; simp only [callFn]; mono_auto ih
  · intro it; simp only [pull]; mono_auto ih
  · intro it acc; simp only [collectGo]; mono_auto ih
  · intro it p l r; simp only [partitionGo]; mono_auto ih
  · intro it acc h; simp only [reduceGo]; mono_auto ih
  · intro it u; simp only [boolGo]; mono_auto ih
  · intro env v arms
    cases arms with
    | nil => simp only [evalArms]; mono_auto ih
    | cons arm rest => cases arm <;> simp only [evalArms] <;> mono_auto ih
  · intro env v cs; cases cs <;> simp only [candGo] <;> mono_auto ih
  · intro env b; simp only [bodyOnce]; mono_auto ih
  · intro env b; simp only [loopGo]; mono_auto ih
  · intro env c b; simp only [whileGo]; mono_auto ih
  · intro env x t e b; simp only [whileSetGo]; mono_auto ih
  · intro env x it b; simp only [forGo]; mono_auto ih

theorem monoAt_le : ∀ (f g : Nat), f ≤ g → MonoAt f g
  | 0, g, _ => monoAt_zero g
  | f + 1, 0, h => absurd h (by omega)
  | f + 1, g + 1, h => monoAt_succ f g (monoAt_le f g (by omega))

theorem LeM.apply {α} {m m' : M α} (h : LeM m m') (σ : St) : LeR (m σ) (m' σ) := by
  unfold LeM at h; exact h σ

theorem LeM.intro {α} {m m' : M α} (h : ∀ σ, LeR (m σ) (m' σ)) : LeM m m' := by
  unfold LeM; exact h

/-- an evaluation that does not run out of fuel is not changed by more fuel -/
theorem LeR.eq_of_not_fuel {α} {r r' : Except Sig α × St} (h : LeR r r')
    (hf : ∀ σ, r ≠ (.error .fuel, σ)) : r' = r := by
  rcases h with ⟨σ, h⟩ | h
  · exact absurd h (hf σ)
  · exact h.symm

end Ssl.Spec
