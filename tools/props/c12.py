"""C12 — control flow.  Proof: SslModel.Thm.C12 (signals: calls contain return/break/continue, loops
catch break/continue and evaluate to (), selection of if / if-set / while-set / match arms, block value).
Correspondence: systematic nestings of the three conditionals and the four loop forms inside functions
with break / continue / return at every depth, scrutinees of every union member, arrays with every
stored tag, branch markers in the log — implementation vs. `Spec`."""
import progprop
from gen import types as T
from gen.programs import INT, BOOL, STR, FLOAT, VOID, tup, fn, iter_of, arr, cell, multi

THM_MODULES = ["SslModel.Thm.C12", "SslModel.Thm.C12Loops"]
TRANSLATE_PARTS = ["scalar"]

I = lambda n: ("i", n)
V = lambda x: ("id", x)
ANY = ("any",)
LOG = ("set", "log", ("mut", arr(ANY), ("array", [])))


def mark(n):
    return ("assign", "add", V("log"), ("array", [I(n)]))


def idu(t, name="idu"):
    return ("fndecl", name, [("v", t)], t, [("return", V("v"))])


def loops(kind, body, n=3):
    """(preamble, loop statement) running `body` (a statement list using the loop variable `k`: int) n times"""
    if kind == "loop":
        return ([("set", "cn", ("mut", INT, I(0)))],
                ("loop", ("block", [("assign", "add", V("cn"), I(1)),
                                    ("if", ("bin", "gt", ("pre", "deref", V("cn")), I(n)), ("block", [("break",)]), None),
                                    ("set", "k", ("pre", "deref", V("cn")))] + body)))
    if kind == "while":
        return ([("set", "cn", ("mut", INT, I(0)))],
                ("while", ("bin", "lt", ("pre", "deref", V("cn")), I(n)),
                 ("block", [("assign", "add", V("cn"), I(1)), ("set", "k", ("pre", "deref", V("cn")))] + body)))
    if kind == "whileset":
        nx = ("fndecl", "nx", [], multi(INT, VOID),
              [("assign", "add", V("cn"), I(1)),
               ("if", ("bin", "le", ("pre", "deref", V("cn")), I(n)), ("block", [("return", ("pre", "deref", V("cn")))]), None),
               ("return", ("unit",))])
        return ([("set", "cn", ("mut", INT, I(0))), nx], ("whileset", "k", INT, ("call", V("nx"), []), ("block", body)))
    if kind == "for":
        return ([], ("for", "k", ("post", "iter", ("array", [I(j + 1) for j in range(n)])), ("block", body)))
    raise ValueError(kind)


def wrap(kind, stmt, kk):
    """put `stmt` (a signal, taken when k == kk) at some depth of non-loop constructs"""
    cond = ("bin", "eq", V("k"), I(kk))
    if kind == "direct":
        return [("if", cond, ("block", [stmt]), None)]
    if kind == "block":
        return [("block", [("block", [("if", cond, ("block", [mark(70), stmt]), None)])])]
    if kind == "else":
        return [("if", ("bin", "ne", V("k"), I(kk)), ("block", [mark(71)]), ("block", [stmt]))]
    if kind == "ifset":
        return [("ifset", "q", INT, ("call", V("idu"), [V("k")]), ("block", [("if", cond, ("block", [stmt]), None)]), ("block", [mark(72)]))]
    if kind == "arm":
        return [("match", ("call", V("idu"), [V("k")]),
                 [("ty", "s", STR, ("block", [mark(73)])), ("ty", "q", INT, ("block", [("if", cond, ("block", [stmt]), None), mark(74)]))])]
    if kind == "valarm":
        return [("match", V("k"), [("val", [I(kk)], ("block", [stmt])), ("other", ("block", [mark(75)]))])]
    if kind == "mod":
        return [("set", "mm", ("mod", [("set", "z", V("k")), ("if", cond, ("block", [stmt]), None)]))]
    raise ValueError(kind)


def templates():
    out = []
    U = multi(INT, STR)
    for lk in ("loop", "while", "whileset", "for"):
        for wk in ("direct", "block", "else", "ifset", "arm", "valarm", "mod"):
            for sig in ("break", "continue", "return"):
                if wk == "mod" and sig != "return":
                    pass
                stmt = ("return", I(99)) if sig == "return" else (sig,)
                body = [mark(1)] + wrap(wk, stmt, 2) + [mark(2), ("assign", "add", V("log"), ("array", [V("k")]))]
                pre, lp = loops(lk, body)
                run = ("fndecl", "run", [], INT, pre + [mark(10), lp, mark(11), ("return", I(7))])
                out.append([LOG, idu(U), run, ("set", "r", ("call", V("run"), [])), ("tuple", [V("r"), ("pre", "deref", V("log"))])])
            # nested loops: signal in the inner loop only affects the inner one
            for lk2 in ("loop", "while", "whileset", "for"):
                if lk2 == lk and lk in ("loop", "while", "whileset"):
                    continue   # both would use the counter `cn`
                for sig in ("break", "continue"):
                    inner_body = [("if", ("bin", "eq", V("k"), I(2)), ("block", [(sig,)]), None), mark(3)]
                    ipre, ilp = loops(lk2, inner_body, 3)
                    if lk2 in ("loop", "while", "whileset") and lk in ("loop", "while", "whileset"):
                        continue
                    body = [mark(1)] + ipre + [ilp, mark(2)]
                    # the inner preamble re-creates `cn` for counter loops: keep names apart
                    body = rename(body, {"cn": "cn2", "nx": "nx2"}) if lk2 != "for" else body
                    pre, lp = loops(lk, body, 2)
                    run = ("fndecl", "run", [], INT, pre + [lp, mark(11), ("return", I(7))])
                    out.append([LOG, idu(U), run, ("set", "r", ("call", V("run"), [])), ("tuple", [V("r"), ("pre", "deref", V("log"))])])
    # a ONE-PASS inner loop (`loop { ..; break }` / `while true { ..; break }`) holding another signal at some depth of
    # non-loop constructs: that signal still belongs to the inner loop, whatever the folder makes of the trailing `break`
    for lk in ("loop", "while", "whileset", "for"):
        for inner in ("loop", "whiletrue"):
            for wk in ("direct", "block", "else", "ifset", "arm", "valarm"):
                for sig in ("break", "continue"):
                    tries = ("set", "tries", ("mut", INT, I(0)))
                    guard = ("if", ("bin", "gt", ("pre", "deref", V("tries")), I(2)), ("block", [("break",)]), None)
                    ibody = [("assign", "add", V("tries"), I(1)), guard, mark(3)] + wrap(wk, (sig,), 2) + [mark(4), ("break",)]
                    ilp = ("loop", ("block", ibody)) if inner == "loop" else ("while", ("true",), ("block", ibody))
                    body = [mark(1), tries, ilp, mark(2)]
                    pre, lp = loops(lk, body, 3)
                    run = ("fndecl", "run", [], INT, pre + [lp, mark(11), ("return", I(7))])
                    out.append([LOG, idu(U), run, ("set", "r", ("call", V("run"), [])), ("tuple", [V("r"), ("pre", "deref", V("log"))])])
    # the same at top level (no enclosing function) and without an enclosing loop: the signal must not escape
    for inner in ("loop", "whiletrue"):
        for sig in ("break", "continue"):
            ibody = [("assign", "add", V("tries"), I(1)), ("if", ("bin", "gt", ("pre", "deref", V("tries")), I(2)), ("block", [("break",)]), None),
                     mark(3), ("if", ("bin", "eq", ("pre", "deref", V("tries")), I(1)), ("block", [(sig,)]), None), mark(4), ("break",)]
            ilp = ("loop", ("block", ibody)) if inner == "loop" else ("while", ("true",), ("block", ibody))
            out.append([LOG, ("set", "tries", ("mut", INT, I(0))), ilp, ("tuple", [("pre", "deref", V("tries")), ("pre", "deref", V("log"))])])
    # if / else selection and value
    for c in (("true",), ("false",)):
        for has_else in (True, False):
            out.append([LOG, ("fndecl", "hb", [("v", BOOL)], BOOL, [("return", V("v"))]),
                        ("set", "r", ("if", ("call", V("hb"), [c]), ("block", [mark(1), I(10)]), ("block", [mark(2), ("s", "no")]) if has_else else None)),
                        ("tuple", [V("r"), ("pre", "deref", V("log"))])])
    # match: every union member as scrutinee, arms in every order, value / type / other arms
    U3 = multi(INT, STR, FLOAT)
    scrutinees = [I(1), I(5), ("s", "a"), ("s", ""), ("f", 1.5), ("f", 0.0)]
    import itertools
    for sc in scrutinees:
        for order in itertools.permutations([("ty", "a", INT, ("block", [mark(1), I(1)])), ("ty", "b", STR, ("block", [mark(2), I(2)])),
                                             ("ty", "c", FLOAT, ("block", [mark(3), I(3)]))]):
            out.append([LOG, idu(U3), ("set", "r", ("match", ("call", V("idu"), [sc]), list(order))), ("tuple", [V("r"), ("pre", "deref", V("log"))])])
        out.append([LOG, idu(U3), ("set", "r", ("match", ("call", V("idu"), [sc]),
                                              [("val", [I(5), ("s", "")], ("block", [mark(1), I(1)])), ("ty", "b", multi(STR, FLOAT), ("block", [mark(2), I(2)])),
                                               ("other", ("block", [mark(3), I(3)]))])), ("tuple", [V("r"), ("pre", "deref", V("log"))])])
        # a broader type arm first shadows the narrower one
        out.append([LOG, idu(U3), ("set", "r", ("match", ("call", V("idu"), [sc]),
                                              [("ty", "a", multi(INT, STR), ("block", [mark(1), I(1)])), ("ty", "b", STR, ("block", [mark(2), I(2)])),
                                               ("ty", "c", ANY, ("block", [mark(3), I(3)]))])), ("tuple", [V("r"), ("pre", "deref", V("log"))])])
    # if-set / match by *run-time* type on arrays with different stored tags
    AU = multi(arr(INT), arr(STR), arr(ANY))
    mk_arrays = {
        "literal-int": ("array", [I(1), I(2)]), "literal-str": ("array", [("s", "a")]), "literal-mixed": ("array", [I(1), ("s", "a")]),
        "empty-literal": ("array", []), "repeat0-int": ("repeat", I(1), I(0)), "repeat0-str": ("repeat", ("s", "a"), I(0)),
        "slice-empty": ("slice", ("array", [I(1), I(2)]), I(5), None, None), "slice-int": ("slice", ("array", [I(1), ("s", "a")]), I(0), I(1), None),
        "collect-int": ("post", "collect", ("post", "iter", ("array", [I(1)]))),
        "collect-empty": ("post", "collect", ("tfilter", ("post", "iter", ("array", [("s", "a")])), INT)),
        "partition-right": ("tacc", ("bin", "partition", ("post", "iter", ("array", [I(1), I(2)])), ("fn", [("e", INT)], BOOL, [("return", ("true",))])), 1),
        "concat": ("bin", "add", ("array", [I(1)]), ("array", [("s", "a")])),
        "concat-empty": ("bin", "add", ("repeat", I(1), I(0)), ("array", [("s", "a")])),
    }
    for nm, e in mk_arrays.items():
        ida = ("fndecl", "ida", [("v", arr(ANY))], arr(ANY), [("return", V("v"))])
        out.append([LOG, ida, ("set", "a", ("call", V("ida"), [e])),
                    ("set", "r1", ("ifset", "x", arr(INT), V("a"), ("block", [mark(1), I(1)]), ("block", [mark(2), I(2)]))),
                    ("set", "r2", ("match", V("a"), [("ty", "x", arr(("never",)), ("block", [I(0)])), ("ty", "x", arr(STR), ("block", [I(1)])),
                                                     ("ty", "x", arr(INT), ("block", [I(2)])), ("ty", "x", arr(multi(INT, STR)), ("block", [I(3)])),
                                                     ("other", ("block", [I(4)]))])),
                    ("tuple", [V("r1"), V("r2"), ("pre", "deref", V("log"))])])
    # VALUE arms compare by `==`, which for arrays ignores the stored element tag: a candidate equal to the scrutinee
    # selects its arm whatever the provenance (and tag) of either array - alone, after a non-matching candidate, and
    # nested in a tuple
    empties = ["empty-literal", "repeat0-int", "repeat0-str", "slice-empty", "collect-empty"]
    ones = {"lit": ("array", [I(1)]), "slice": ("slice", ("array", [I(1), ("s", "a")]), I(0), I(1), None),
            "collect": ("post", "collect", ("post", "iter", ("array", [I(1)]))),
            "partition-left": ("tacc", ("bin", "partition", ("post", "iter", ("array", [I(1), ("f", 2.5)])), ("fn", [("e", multi(INT, FLOAT))], BOOL, [("return", ("bin", "eq", V("e"), I(1)))])), 0),
            "repeat": ("repeat", I(1), I(1))}
    pairs = [(mk_arrays[a], mk_arrays[b]) for a in empties for b in empties] + [(ones[a], ones[b]) for a in ones for b in ones]
    for sc, cand in pairs:
        ida = ("fndecl", "ida", [("v", arr(ANY))], arr(ANY), [("return", V("v"))])
        out.append([LOG, ida, ("set", "a", ("call", V("ida"), [sc])),
                    ("set", "r1", ("match", V("a"), [("val", [cand], ("block", [mark(1), I(1)])), ("other", ("block", [mark(2), I(2)]))])),
                    ("set", "r2", ("match", V("a"), [("val", [("array", [I(9)]), cand], ("block", [mark(3), I(3)])), ("other", ("block", [mark(4), I(4)]))])),
                    ("set", "r3", ("match", ("tuple", [I(7), V("a")]), [("val", [("tuple", [I(7), cand])], ("block", [I(5)])), ("other", ("block", [I(6)]))])),
                    ("tuple", [V("r1"), V("r2"), V("r3"), ("pre", "deref", V("log"))])])
    # if-set / while-set / type arms with struct patterns: width and depth subtyping between the pattern
    # and the static type of the scrutinee (wider, narrower, union with non-structs, any)
    def st(*fs):
        return ("struct", tuple(fs))
    SA, SAB = st(("a", INT)), st(("a", INT), ("b", INT))
    SAU, SAS = st(("a", multi(INT, STR))), st(("a", STR))
    vals = {"ab": ("struct", [("a", I(1)), ("b", I(2))]), "a": ("struct", [("a", I(5))]), "as": ("struct", [("a", ("s", "x"))]),
            "int": I(7), "bc": ("struct", [("b", I(1)), ("c", I(2))])}
    statics = {"int|ab": multi(INT, SAB), "a|as": multi(SA, SAS), "any": ANY, "au": SAU, "ab": SAB, "int|a|str": multi(INT, SA, STR)}
    fits = {"int|ab": ("ab", "int"), "a|as": ("a", "as", "ab"), "any": ("ab", "a", "as", "int", "bc"), "au": ("a", "as", "ab"),
            "ab": ("ab",), "int|a|str": ("int", "a", "ab")}
    for sn, stype in statics.items():
        for vn in fits[sn]:
            for pn, pat in (("SA", SA), ("SAB", SAB), ("SAU", SAU), ("SAS", SAS), ("S0", st())):
                ids = ("fndecl", "ids", [("v", stype)], stype, [("return", V("v"))])
                out.append([LOG, ids, ("set", "v", ("call", V("ids"), [vals[vn]])),
                            ("set", "r1", ("ifset", "x", pat, V("v"), ("block", [mark(1), I(1)]), ("block", [mark(2), I(2)]))),
                            ("set", "r2", ("match", V("v"), [("ty", "x", pat, ("block", [mark(3), I(3)])), ("other", ("block", [mark(4), I(4)]))])),
                            ("tuple", [V("r1"), V("r2"), ("pre", "deref", V("log"))])])
        # while-set over a struct pattern: runs while the producer hands out a struct
        nxs = ("fndecl", "nxs", [], multi(SAB, VOID),
               [("assign", "add", V("cn"), I(1)),
                ("if", ("bin", "le", ("pre", "deref", V("cn")), I(2)), ("block", [("return", ("struct", [("a", ("pre", "deref", V("cn"))), ("b", I(0))]))]), None),
                ("return", ("unit",))])
        for pn, pat in (("SA", SA), ("SAB", SAB), ("SAU", SAU)):
            out.append([LOG, ("set", "cn", ("mut", INT, I(0))), nxs,
                        ("whileset", "x", pat, ("call", V("nxs"), []), ("block", [mark(1)])),
                        ("tuple", [("pre", "deref", V("cn")), ("pre", "deref", V("log"))])])
    from props import c04
    out += c04.dead_branch_templates()
    # blocks evaluate to their last statement, loops to ()
    out.append([LOG, ("set", "b", ("block", [mark(1), I(1), ("s", "last")])), ("set", "e", ("block", [])),
                ("set", "l", ("for", "k", ("post", "iter", ("array", [I(1)])), ("block", [I(5)]))),
                ("set", "w", ("while", ("bin", "lt", I(1), I(0)), ("block", [I(5)]))), ("tuple", [V("b"), V("e"), V("l"), V("w")])])
    # bodies written WITHOUT braces: `while c stmt`, `loop stmt`, `for x in it stmt`, `v => expr,`, `if c a else b`
    B = lambda e: ("bare", e)
    out.append([LOG, idu(U), ("set", "i", ("mut", INT, I(0))), ("while", ("bin", "lt", ("pre", "deref", V("i")), I(3)), B(("assign", "add", V("i"), I(1)))), ("pre", "deref", V("i"))])
    out.append([LOG, idu(U), ("set", "i", ("mut", INT, I(0))), ("loop", B(("if", ("bin", "ge", ("assign", "add", V("i"), I(1)), I(3)), B(("break",)), B(mark(1))))), ("tuple", [("pre", "deref", V("i")), ("pre", "deref", V("log"))])])
    out.append([LOG, idu(U), ("set", "n", ("mut", INT, I(0))), ("for", "x", ("post", "iter", ("array", [I(1), I(2), I(3)])), B(("assign", "add", V("n"), V("x")))), ("pre", "deref", V("n"))])
    for x in (1, 2, 5):
        out.append([LOG, idu(U), ("set", "r", ("match", ("call", V("idu"), [I(x)]), [("val", [I(1)], B(("s", "one"))), ("val", [I(2), I(3)], B(("bin", "add", ("s", "t"), ("s", "wo")))), ("other", B(("s", "other")))])),
                    ("set", "q", ("match", I(x), [("val", [I(1)], B(I(10))), ("ty", "k", INT, B(("bin", "mul", V("k"), I(2))))])), ("tuple", [V("r"), V("q")])])
        out.append([LOG, idu(U), ("fndecl", "f", [("v", INT)], INT, [("for", "k", ("post", "iter", ("array", [I(1), I(2), I(5)])), B(("if", ("bin", "eq", V("k"), V("v")), B(("return", ("bin", "mul", V("k"), I(10)))), None))), ("return", I(-1))]),
                    ("call", V("f"), [I(x)])])
    # `else if` chains written directly (the else branch is the next `if`, no braces), with and without a last `else`
    for x in (1, 2, 3):
        chain = ("if", ("bin", "eq", ("call", V("idu"), [I(x)]), I(1)), ("block", [mark(1), ("s", "a")]),
                 B(("if", ("bin", "eq", ("call", V("idu"), [I(x)]), I(2)), ("block", [mark(2), ("s", "b")]), ("block", [mark(3), ("s", "c")]))))
        open_chain = ("if", ("bin", "eq", ("call", V("idu"), [I(x)]), I(1)), ("block", [mark(1), ("s", "a")]),
                      B(("if", ("bin", "eq", ("call", V("idu"), [I(x)]), I(2)), ("block", [mark(2), ("s", "b")]), None)))
        out.append([LOG, idu(U), ("set", "r", chain), ("set", "q", open_chain), ("tuple", [V("r"), V("q"), ("pre", "deref", V("log"))])])
    # the default arm is an arm like any other: written above another arm it wins (arms are tried top to bottom)
    for x in (1, 2, 3):
        m1 = ("match", ("call", V("idu"), [I(x)]), [("val", [I(1)], ("block", [mark(1), ("s", "one")])), ("other", ("block", [mark(2), ("s", "default")])),
                                                   ("val", [I(2)], ("block", [mark(3), ("s", "two")]))])
        m2 = ("match", ("call", V("idu"), [I(x)]), [("ty", "s", STR, ("block", [mark(1), I(10)])), ("other", ("block", [mark(2), I(20)])), ("ty", "n", INT, ("block", [mark(3), I(30)]))])
        m3 = ("match", ("call", V("idu"), [I(x)]), [("other", ("block", [mark(2), I(20)])), ("ty", "n", INT, ("block", [mark(3), I(30)])), ("val", [I(x)], ("block", [mark(4), I(40)]))])
        out.append([LOG, idu(U), ("set", "r", ("tuple", [m1, m2, m3])), ("tuple", [V("r"), ("pre", "deref", V("log"))])])
        out.append([LOG, idu(U), ("set", "i", ("mut", INT, I(0))), ("set", "n", ("mut", INT, I(0))),
                    ("loop", ("block", [("assign", "add", V("i"), I(1)), ("assign", "add", V("n"), I(1)),
                                        ("match", ("call", V("idu"), [("pre", "deref", V("i"))]), [("val", [I(1)], ("block", [("continue",)])), ("other", ("block", [("break",)])),
                                                                                                   ("val", [I(2)], ("block", [("continue",)]))])])),
                    ("tuple", [("pre", "deref", V("n")), ("pre", "deref", V("log"))])])
    return out


def rename(e, m):
    if isinstance(e, tuple):
        if len(e) == 2 and e[0] == "id" and e[1] in m:
            return ("id", m[e[1]])
        if e and e[0] in ("set", "fndecl") and e[1] in m:
            return (e[0], m[e[1]]) + tuple(rename(x, m) for x in e[2:])
        return tuple(rename(x, m) for x in e)
    if isinstance(e, list):
        return [rename(x, m) for x in e]
    return e


def run(res, tier, seed, broken_model):
    feats = dict(mark=0.3, weights=dict(**{"if": 18, "ifset": 14, "match": 16, "for": 14, "while": 12, "loop": 10, "whileset": 10},
                                        fndecl=14, decl=20, breakcont=30, earlyreturn=14))
    recs, good = progprop.stream(res, tier, seed, broken_model, 400, 12000, features=feats, templates=templates(), label="control", depth=4)
    res.rule = ("systematic templates: 4 loop forms x 7 enclosing constructs (direct, blocks, else branch, if-set body, type arm, "
                "value arm, module) x {break, continue, return} inside a function; inner/outer loop pairs; if with/without else; "
                "match with every union member as scrutinee x all 6 arm orders, value/other arms, shadowing arms; if-set and match "
                "by run-time type on arrays with 13 provenances of stored tag; block/loop values; + seeded control-flow-heavy "
                "programs; non-trivial = distinct accepted program compared with Spec")
