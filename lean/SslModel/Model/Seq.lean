/-!
  Indexing (`src/instruction/at.rs`) and slicing (`src/instruction/slicing.rs` + slyce 0.3.1)
  over positions of a sequence of length `n`.  Strings are sequences of Unicode scalar values
  (`chars()`), arrays sequences of values; both use the same index arithmetic.
  `i as isize` is the identity on the 64-bit targets assumed throughout.
-/
namespace Ssl.Seq

/-- `at::exec`: `index >= 0 → index as usize`, otherwise `len + index` (error if still negative),
    then `.nth(index)` / `.get(index)` (error if ≥ len).  `none` = `IndexOutOfBounds`. -/
def atIdx (n : Nat) (i : Int) : Option Nat :=
  if 0 ≤ i then
    (if i.toNat < n then some i.toNat else none)
  else
    let j := (n : Int) + i
    if j < 0 then none else (if j.toNat < n then some j.toNat else none)

/-- slyce's `Index` -/
inductive Index where
  | head (k : Nat) | tail (k : Nat) | default
  deriving DecidableEq, Repr

/-- the conversion done in `Slicing::exec` (after the fix: sign split with `unsigned_abs`,
    which — unlike slyce's own `From<isize>` — cannot overflow at `i64::MIN`) -/
def toIndex : Option Int → Index
  | none => .default
  | some i => if i < 0 then .tail i.natAbs else .head i.toNat

def clamp (x lo hi : Int) : Int := min (max x lo) hi

/-- `Index::to_bound` -/
def toBound (ix : Index) (len lo hi : Int) : Option Int :=
  match ix with
  | .head k => some (clamp k lo hi)
  | .tail k => some (clamp (len - k) lo hi)
  | .default => none

/-- slyce's `Iter::next` loop, collected; fuel bounds the number of emitted positions -/
def iter : Nat → Int → Int → Int → List Int
  | 0, _, _, _ => []
  | fuel + 1, i, stop, step =>
    if step = 0 then []
    else if (if step ≥ 0 then i < stop else i > stop) then i :: iter fuel (i + step) stop step
    else []

/-- `Slice::indices(len)` -/
def sliceIdx (n : Nat) (start stop step : Option Int) : List Int :=
  let len : Int := n
  let st := step.getD 1
  let defStart : Int := if st ≥ 0 then 0 else len - 1
  let defEnd : Int := if st ≥ 0 then len else -1
  let lo := if st ≥ 0 then defStart else defEnd
  let hi := if st ≥ 0 then defEnd else defStart
  let i := (toBound (toIndex start) len lo hi).getD defStart
  let e := (toBound (toIndex stop) len lo hi).getD defEnd
  iter (n + 1) i e st

/-! Independent specification: CPython's `PySlice_AdjustIndices` + `range` (Objects/sliceobject.c),
    with the documented deviation that step 0 selects nothing instead of raising. -/

def pyAdjust (len : Int) (v : Option Int) (step : Int) (isStart : Bool) : Int :=
  match v with
  | none => if isStart then (if step < 0 then len - 1 else 0) else (if step < 0 then -1 else len)
  | some x =>
    if x < 0 then
      (if x + len < 0 then (if step < 0 then -1 else 0) else x + len)
    else if x ≥ len then (if step < 0 then len - 1 else len)
    else x

/-- length of `range(start, stop, step)` -/
def pyLen (start stop step : Int) : Nat :=
  if step > 0 then (if start < stop then ((stop - start - 1) / step + 1).toNat else 0)
  else if step < 0 then (if stop < start then ((start - stop - 1) / (-step) + 1).toNat else 0)
  else 0

def pyIndices (n : Nat) (start stop step : Option Int) : List Int :=
  let st := step.getD 1
  if st = 0 then [] else
  let s := pyAdjust n start st true
  let e := pyAdjust n stop st false
  (List.range (pyLen s e st)).map fun (k : Nat) => s + (k : Int) * st

/-- apply a slice to a list -/
def slice {α} (xs : List α) (start stop step : Option Int) : List α :=
  (sliceIdx xs.length start stop step).filterMap fun i => xs[i.toNat]?

def at? {α} (xs : List α) (i : Int) : Option α := (atIdx xs.length i).bind fun k => xs[k]?

end Ssl.Seq
