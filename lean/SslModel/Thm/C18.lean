import SslModel.Model.StdLib
/-!
# C18 — standard library functions honour their declared signatures

The export table (`Gen.stdExports`) and the `TypeOf` table (`Gen.typeOfTable`) are regenerated from
src/stdlib*.rs and src/variable/type_of.rs on every run.  Proved here, for every row of the table:

* `results_in_declared_type` — whatever Rust value of the function's Rust return type comes back,
  its conversion to a SimpleSL value (`From<_> for Variable`) inhabits the declared result type
  (functions whose result type is given by a `#[return_type]` attribute are excluded: for those
  the attribute is a claim about the function body; they are listed in `overridden` and judged by
  the correspondence run);
* `arguments_import` — every value of a declared parameter type is accepted by the
  `TryFrom<&Variable>` conversion the generated wrapper unwraps, so the two `unwrap`s of the
  argument import cannot fail on a well-typed call; `[int]` arrays consist of ints
  (`int_array_elements`, the inner `unwrap` of `str_from_utf8*`);
* the integer helpers: bit counts add up to 64, `reverse_bits` / `swap_bytes` are involutions,
  leading/trailing counts are bounded and characterise the first set bit, `ilog` is the floor
  logarithm and is `()` exactly when `num ≤ 0` or `base < 2`.

String, float and operating-system behaviour is not modelled in Lean: those functions are judged on
generated calls against an independent oracle (tools/props/c18.py).
-/
set_option linter.unusedSimpArgs false
namespace Ssl.C18
open Ssl Ssl.Std Ssl.Gen

/-! ## signatures -/

/-- the Rust return types that occur in the table without a `#[return_type]` override -/
def plainRets : List RustTy :=
  [.unit, .bool, .i64, .u32, .usize, .f64, .strRef, .string, .arcStr,
   .option .i64, .option .u32, .option .f64, .option .string, .ioResult .string, .ioResult .unit]

theorem rets_listed : ∀ e ∈ stdExports, e.retOverride.isNone = true → e.ret ∈ plainRets := by
  decide

/-- what `TypeOf` yields on those types (each row checked by evaluation of the generated table) -/
def declaredRet : RustTy → Ty
  | .unit => .void | .bool => .bool | .i64 | .u32 | .usize => .int | .f64 => .float
  | .strRef | .string | .arcStr => .str
  | .option .i64 | .option .u32 => .multi [.int, .void]
  | .option .f64 => .multi [.float, .void]
  | .option .string => .multi [.str, .void]
  | .ioResult .string => .multi [.str, ioErrorTy]
  | .ioResult .unit => .multi [.void, ioErrorTy]
  | _ => .never

theorem concat_str_err : Ty.concat .str ioErrorTy = .multi [.str, ioErrorTy] := by
  simp [Ty.concat, Ty.eqv, ioErrorTy]
theorem concat_void_err : Ty.concat .void ioErrorTy = .multi [.void, ioErrorTy] := by
  simp [Ty.concat, Ty.eqv, ioErrorTy]

theorem typeOf_plainRets : ∀ r ∈ plainRets, typeOf r = some (declaredRet r) := by
  intro r hr
  simp only [plainRets, List.mem_cons, List.mem_nil_iff, or_false] at hr
  rcases hr with h | h | h | h | h | h | h | h | h | h | h | h | h | h | h <;> subst h
  all_goals first
    | rfl
    | (show some (Ty.concat .str ioErrorTy) = _; rw [concat_str_err]; rfl)
    | (show some (Ty.concat .void ioErrorTy) = _; rw [concat_void_err]; rfl)

theorem conv_in_typeOf : ∀ r ∈ plainRets, ∃ d, typeOf r = some d ∧
    ∀ rv : RustVal, rv.hasTy r = true → (conv rv).hasTy d = true := by
  intro r hr
  refine ⟨declaredRet r, typeOf_plainRets r hr, ?_⟩
  simp only [plainRets, List.mem_cons, List.mem_nil_iff, or_false] at hr
  rcases hr with h | h | h | h | h | h | h | h | h | h | h | h | h | h | h <;> subst h
  all_goals
    intro rv h
    simp only [declaredRet, ioErrorTy]
    cases rv <;> simp only [RustVal.hasTy, Bool.false_eq_true] at h
  all_goals first
    | (simp [conv, Val.hasTy, Val.hasTyAny, Val.hasFields, Val.hasField]; done)
    | (rename_i v; cases v <;> simp only [RustVal.hasTy, Bool.false_eq_true] at h <;>
        simp [conv, Val.hasTy, Val.hasTyAny, Val.hasFields, Val.hasField])

/-- **results belong to the declared result type** -/
theorem results_in_declared_type (e : StdExport) (he : e ∈ stdExports) (hno : e.retOverride = none) :
    ∃ d, retTy e = some d ∧ ∀ rv : RustVal, rv.hasTy e.ret = true → (conv rv).hasTy d = true := by
  have hl := rets_listed e he (by simp [hno])
  obtain ⟨d, hd, hall⟩ := conv_in_typeOf e.ret hl
  exact ⟨d, by simp [retTy, hno, hd], hall⟩

/-- the functions whose result type is asserted by attribute -/
def overridden : List String := (stdExports.filter (fun e => e.retOverride.isSome)).map (·.name)
example : overridden = ["split", "chars", "bytes"] := by decide

/-- the Rust parameter types in the table -/
def paramRustTys : List RustTy := [.i64, .f64, .strRef, .slice, .varRef]

theorem params_listed : ∀ e ∈ stdExports, ∀ p ∈ e.params, p.2.1 ∈ paramRustTys := by decide

theorem params_typed : ∀ e ∈ stdExports, ∀ p ∈ e.params, (paramTy p).isSome = true := by decide

theorem accepts_of_hasTy_typeOf : ∀ r ∈ paramRustTys, ∀ d, typeOf r = some d →
    ∀ v : Val, v.hasTy d = true → accepts r v = true := by
  intro r hr d hd v hv
  simp only [paramRustTys, List.mem_cons, List.mem_nil_iff, or_false] at hr
  rcases hr with h | h | h | h | h <;> subst h
  · have : typeOf .i64 = some .int := rfl
    rw [this] at hd; cases hd; cases v <;> simp_all [Val.hasTy, accepts]
  · have : typeOf .f64 = some .float := rfl
    rw [this] at hd; cases hd; cases v <;> simp_all [Val.hasTy, accepts]
  · have : typeOf .strRef = some .str := rfl
    rw [this] at hd; cases hd; cases v <;> simp_all [Val.hasTy, accepts]
  · have : typeOf .slice = some (.arr .any) := rfl
    rw [this] at hd; cases hd; cases v <;> simp_all [Val.hasTy, accepts]
  · cases v <;> rfl

/-- the `#[var_type]` overrides that occur: anything on a `&Variable`, `[int]` on a slice -/
def overrideShape : RustTy → Option Ty → Bool
  | _, none => true
  | .varRef, some _ => true
  | .slice, some (.arr .int) => true
  | _, _ => false

theorem overrides_shaped : ∀ e ∈ stdExports, ∀ p ∈ e.params, overrideShape p.2.1 p.2.2 = true := by
  decide

theorem override_cases : ∀ e ∈ stdExports, ∀ p ∈ e.params, ∀ t, p.2.2 = some t →
    (p.2.1 = .varRef) ∨ (p.2.1 = .slice ∧ t = .arr .int) := by
  intro e he p hp t ht
  have := overrides_shaped e he p hp
  rw [ht] at this
  generalize p.2.1 = r at this ⊢
  unfold overrideShape at this
  split at this <;> simp_all

/-- **argument import cannot fail**: every value of the declared parameter type is accepted by
    the conversion the wrapper unwraps -/
theorem arguments_import (e : StdExport) (he : e ∈ stdExports) (p : String × RustTy × Option Ty)
    (hp : p ∈ e.params) (d : Ty) (hd : paramTy p = some d) (v : Val) (hv : v.hasTy d = true) :
    accepts p.2.1 v = true := by
  cases hov : p.2.2 with
  | none =>
    have hd' : typeOf p.2.1 = some d := by simpa [paramTy, hov] using hd
    exact accepts_of_hasTy_typeOf _ (params_listed e he p hp) d hd' v hv
  | some t =>
    have hd' : t = d := by simpa [paramTy, hov] using hd
    subst hd'
    rcases override_cases e he p hp t hov with h | ⟨h, ht⟩
    · rw [h]; cases v <;> rfl
    · rw [h]; subst ht
      cases v <;> simp_all [Val.hasTy, accepts]

/-- the elements of an `[int]` array are ints (`Variable::as_int(..).unwrap()` in `str_from_utf8*`) -/
theorem int_array_elements (ty : Ty) (es : List Val) (h : (Val.arr ty es).hasTy (.arr .int) = true) :
    ∀ x ∈ es, ∃ i, x = .int i := by
  simp only [Val.hasTy] at h
  induction es with
  | nil => intro x hx; cases hx
  | cons y ys ih =>
    simp only [Val.allHasTy, Bool.and_eq_true] at h
    intro x hx
    rcases List.mem_cons.mp hx with rfl | hx
    · cases x <;> simp [Val.hasTy] at h
      exact ⟨_, rfl⟩
    · exact ih h.2 x hx

/-- non-vacuity: the table has the 81 entries of the five modules and `len` -/
example : stdExports.length = 81 := by decide

/-! ## bit counting -/

theorem cpop_compl_aux (x : I64) : ∀ n, n ≤ 64 → ∀ a b,
    x.cpopNatRec n a + (~~~x).cpopNatRec n b = a + b + n := by
  intro n
  induction n with
  | zero => intro _ a b; simp [BitVec.cpopNatRec]
  | succ n ih =>
    intro hn a b
    simp only [BitVec.cpopNatRec]
    rw [ih (by omega)]
    have : (~~~x).getLsbD n = !x.getLsbD n := by
      simp [BitVec.getLsbD_not]; omega
    rw [this]
    cases x.getLsbD n <;> simp <;> omega

/-- `count_ones(x) + count_zeros(x) = 64` -/
theorem ones_plus_zeros (x : I64) : countOnes x + countZeros x = 64 := by
  simp only [countOnes, countZeros]
  have := cpop_compl_aux x 64 (Nat.le_refl _) 0 0
  omega

theorem leadingZerosFrom_le (x : I64) : ∀ n, leadingZerosFrom x n ≤ n := by
  intro n
  induction n with
  | zero => simp [leadingZerosFrom]
  | succ n ih => simp only [leadingZerosFrom]; split <;> omega

/-- the four leading/trailing counts are at most 64 -/
theorem counts_bounded (x : I64) :
    leadingZeros x ≤ 64 ∧ leadingOnes x ≤ 64 ∧ trailingZeros x ≤ 64 ∧ trailingOnes x ≤ 64 :=
  ⟨leadingZerosFrom_le _ _, leadingZerosFrom_le _ _, leadingZerosFrom_le _ _, leadingZerosFrom_le _ _⟩

/-- below the count every bit (from the top) is clear, and the bit at the count is set -/
theorem leadingZerosFrom_spec (x : I64) : ∀ n,
    (∀ i, i < leadingZerosFrom x n → x.getLsbD (n - 1 - i) = false) ∧
    (leadingZerosFrom x n < n → x.getLsbD (n - 1 - leadingZerosFrom x n) = true) := by
  intro n
  induction n with
  | zero => simp [leadingZerosFrom]
  | succ n ih =>
    simp only [leadingZerosFrom]
    by_cases hb : x.getLsbD n = true
    · simp [hb]
    · simp only [hb, Bool.false_eq_true, if_false]
      have hb' : x.getLsbD n = false := by simpa using hb
      constructor
      · intro i hi
        cases i with
        | zero => simpa using hb'
        | succ i =>
          have := ih.1 i (by omega)
          have e : n + 1 - 1 - (i + 1) = n - 1 - i := by omega
          rw [e]; exact this
      · intro hlt
        have := ih.2 (by omega)
        have e : n + 1 - 1 - (1 + leadingZerosFrom x n) = n - 1 - leadingZerosFrom x n := by omega
        rw [e]; exact this

/-- `leading_zeros(x) = 64` exactly for `x = 0` -/
theorem leadingZeros_eq_64_iff (x : I64) : leadingZeros x = 64 ↔ x = 0 := by
  constructor
  · intro h
    apply BitVec.eq_of_getLsbD_eq
    intro i hi
    have := (leadingZerosFrom_spec x 64).1 (63 - i) (by unfold leadingZeros at h; omega)
    have e : 64 - 1 - (63 - i) = i := by omega
    rw [e] at this
    simp [this]
  · intro h
    subst h
    decide

/-- `reverse_bits` is an involution -/
theorem reverseBits_involutive (x : I64) : reverseBits (reverseBits x) = x := by
  simp [reverseBits, BitVec.reverse_reverse_eq]

/-- `trailing_zeros(x) = leading_zeros(reverse_bits(x))` and the symmetric statement -/
theorem trailing_leading (x : I64) :
    trailingZeros x = leadingZeros (reverseBits x) ∧ leadingZeros x = trailingZeros (reverseBits x) := by
  simp [trailingZeros, reverseBits, BitVec.reverse_reverse_eq]

/-- bit `i` of `swap_bytes(x)` is bit `i % 8` of byte `7 - i / 8` of `x` -/
theorem swapBytes_getLsbD (x : I64) (i : Nat) (hi : i < 64) :
    (swapBytes x).getLsbD i = x.getLsbD (8 * (7 - i / 8) + i % 8) := by
  iterate 64
    rcases i with _ | i
    · simp [swapBytes, byteTo, Nat.testBit]
  omega

/-- `swap_bytes` is an involution -/
theorem swapBytes_involutive (x : I64) : swapBytes (swapBytes x) = x := by
  apply BitVec.eq_of_getLsbD_eq
  intro i hi
  rw [swapBytes_getLsbD _ _ hi, swapBytes_getLsbD _ _ (by omega)]
  congr 1
  omega

/-! ## integer logarithm -/

theorem ilogNat_spec (b : Nat) (hb : 2 ≤ b) : ∀ fuel n, 0 < n → n < 2 ^ fuel →
    b ^ ilogNat b fuel n ≤ n ∧ n < b ^ (ilogNat b fuel n + 1) := by
  intro fuel
  induction fuel with
  | zero => intro n h0 h1; simp at h1; omega
  | succ fuel ih =>
    intro n h0 h1
    simp only [ilogNat]
    by_cases hlt : n < b
    · simp [hlt]; omega
    · simp only [hlt, if_false]
      have hq0 : 0 < n / b := Nat.div_pos (by omega) (by omega)
      have hq1 : n / b < 2 ^ fuel := by
        have : n / b ≤ n / 2 := Nat.div_le_div_left hb (by omega)
        have : n / 2 < 2 ^ fuel := by
          rw [Nat.div_lt_iff_lt_mul (by omega)]; rw [Nat.pow_succ] at h1; omega
        omega
      obtain ⟨l, u⟩ := ih (n / b) hq0 hq1
      constructor
      · have : b ^ (1 + ilogNat b fuel (n / b)) = b ^ ilogNat b fuel (n / b) * b := by
          rw [Nat.add_comm, Nat.pow_succ]
        rw [this]
        exact (Nat.le_div_iff_mul_le (by omega)).mp l
      · have : b ^ (1 + ilogNat b fuel (n / b) + 1) = b ^ (ilogNat b fuel (n / b) + 1) * b := by
          rw [Nat.add_comm 1, Nat.pow_succ]
        rw [this]
        exact (Nat.div_lt_iff_lt_mul (by omega)).mp u

/-- `ilog(num, base)` is `()` exactly when `num ≤ 0` or `base < 2` -/
theorem ilog_none_iff (n b : I64) : ilog n b = none ↔ (n.toInt ≤ 0 ∨ b.toInt < 2) := by
  unfold ilog
  split
  · simp; omega
  · simp; omega

/-- otherwise it is the floor logarithm: `base^r ≤ num < base^(r+1)` (over the integers) -/
theorem ilog_floor_log (n b : I64) (r : Nat) (h : ilog n b = some r) :
    (b.toInt) ^ r ≤ n.toInt ∧ n.toInt < (b.toInt) ^ (r + 1) := by
  unfold ilog at h
  split at h
  · cases h
  · rename_i hc
    cases h
    have hn : 0 < n.toInt := by omega
    have hb : 2 ≤ b.toInt := by omega
    have hnlt : n.toInt.toNat < 2 ^ 64 := by
      have := BitVec.toInt_lt (x := n); omega
    have := ilogNat_spec b.toInt.toNat (by omega) 64 n.toInt.toNat (by omega) hnlt
    obtain ⟨l, u⟩ := this
    have eb : b.toInt = (b.toInt.toNat : Int) := by omega
    have en : n.toInt = (n.toInt.toNat : Int) := by omega
    constructor
    · rw [eb, en]; exact_mod_cast l
    · rw [eb, en]; exact_mod_cast u

/-- the result fits the `u32` it is returned as (at most 62) -/
theorem ilog_small (n b : I64) (r : Nat) (h : ilog n b = some r) : r ≤ 62 := by
  unfold ilog at h
  split at h
  · cases h
  · rename_i hc
    cases h
    have hnlt : n.toInt.toNat < 2 ^ 63 := by
      have := BitVec.toInt_lt (x := n); omega
    have ⟨l, _⟩ := ilogNat_spec b.toInt.toNat (by omega) 64 n.toInt.toNat (by omega) (by omega)
    generalize ilogNat b.toInt.toNat 64 n.toInt.toNat = r at l
    by_cases hr : r ≤ 62
    · exact hr
    exfalso
    have h1 : 2 ^ 63 ≤ 2 ^ r := Nat.pow_le_pow_right (by omega) (by omega)
    have h2 : 2 ^ r ≤ b.toInt.toNat ^ r := Nat.pow_le_pow_left (by omega) r
    omega

example : ilog 1000#64 10#64 = some 3 := by decide
example : ilog 999#64 10#64 = some 2 := by decide
example : ilog 8#64 1#64 = none := by decide

end Ssl.C18
