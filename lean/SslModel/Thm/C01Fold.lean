import SslModel.Thm.C01StD
import SslModel.Thm.C04Fold
/-!
# C01 for programs with constants: the chain through the folding pass

The implementation type-checks a program as written, folds it, and reports the static type of the
folded program.  The checker model is tied to the implementation on programs with nothing to fold,
and - composed with the folding model - on programs full of constants (stream `fold-types`).  This
file closes the chain on the model side: the ORIGINAL program, run under the reference semantics,
yields a value of the type the checker model assigns to the FOLDED program.

  value of `prog`  =  value of `fold prog`          (Thm/C04Fold: `foldProgram_correct`)
                   ∈  `tySProgram (fold prog)`      (Thm/C01StD:  `program_outcome`)
-/
namespace Ssl.CS
open Ssl Ssl.Ty Ssl.Val Ssl.Spec Ssl.Check Ssl.CheckF Ssl.CheckS Ssl.C01 Ssl.Fold

theorem folded_program_sound (prog prog' : List Expr) (T : Ty)
    (hc : coveredS prog = true) (hf : foldProgram prog = .ok prog')
    (ht : tySProgram [] prog' = .ok T) (f : Nat) :
    (match (evalSeq f [[]] prog {}).1 with
     | .ok p => sub p.1.asType T = true ∧ hasTy p.1 T = true
     | .error (.err _) => True
     | .error .fuel => True
     | .error _ => False) := by
  by_cases hfuel : ∃ σ', evalSeq f [[]] prog {} = (.error .fuel, σ')
  · obtain ⟨σ', h⟩ := hfuel
    rw [h]; trivial
  · obtain ⟨f0, h0⟩ := foldProgram_correct prog prog' hc hf f [[]] {} _ rfl
      (fun σ' h => hfuel ⟨σ', h⟩)
    have := program_outcome f0 prog' T ht
    rw [h0 f0 (Nat.le_refl _)] at this
    exact this

/-- the hypotheses are satisfiable: the demonstration program of Thm/C04Fold (a constant carried through a name into a
    pruned branch, a folded index, a dropped statement, a cell) folds, and the folded program is typed `int` -/
theorem demoFolded_typed : tySProgram [] demoFolded = .ok .int := by
  simp [tySProgram, demoFolded, tySSeq, tySStmt, tyS, tySList, Res.bind, okW, binTy, TEnv.lookup, lastTy, pairTy, accNum,
    accAddScalar, accAdd, concat, wf, wfL, membersOk, nodupL, memL, eqv, eqvL, sub, anyMatch, matchesL, allMatch, helperRet,
    isMulti, isNever, query, foldQ, joinO]

example (f : Nat) :
    (match (evalSeq f [[]] demoProgram {}).1 with
     | .ok p => sub p.1.asType .int = true ∧ hasTy p.1 .int = true
     | .error (.err _) => True
     | .error .fuel => True
     | .error _ => False) :=
  folded_program_sound demoProgram demoFolded .int demo_covered demo_folds demoFolded_typed f

end Ssl.CS
