import SslModel.Thm.C12
import SslModel.Gen.ExecErrors
/-!
# C02 — accepted programs do not go wrong at run time

In the reference semantics `Spec`, everything the implementation could only answer with a panic
is the outcome `Sig.wrong`.  Proved here:

* on operands of the kinds the checker admits, no scalar operator, index or slice is `wrong`: the
  only failures are the documented run-time errors;
* `break` / `continue` / `return` never escape a function call, loops never let `break` /
  `continue` out (from C12);
* the run-time errors of the model are exactly the variants of `ExecError` in the source.

That *accepted programs* never reach `wrong` (progress for the whole evaluator) is not proved; for
the running implementation it is decided by the panic oracle on generated programs and host calls
(tools/props/c02.py).
-/
set_option linter.unusedSimpArgs false
namespace Ssl.C02
open Ssl Ssl.Spec

def notWrong (r : Except Sig Val) : Prop :=
  (∃ v, r = .ok v) ∨ (∃ e, r = .error (.err e))

theorem ofScalar_notWrong (r : Except ExecErr Scalar) : notWrong (ofScalar r) := by
  cases r with
  | error e => exact Or.inr ⟨e, rfl⟩
  | ok s => cases s <;> exact Or.inl ⟨_, rfl⟩

/-- (int, int): every arithmetic, bitwise, shift and comparison operator is defined or raises a
    documented error -/
theorem int_operators_total (op : BinOp) (x y : I64)
    (h : op ≠ .map ∧ op ≠ .filter ∧ op ≠ .partition) : notWrong (binScalar op (.int x) (.int y)) := by
  cases op <;> first
    | (simp only [binScalar]; exact ofScalar_notWrong _)
    | (simp only [binScalar]; exact Or.inl ⟨_, rfl⟩)
    | (exfalso; simp at h)

/-- (float, float): + - * / ** and the comparisons -/
theorem float_operators_total (op : BinOp) (x y : F64)
    (h : op = .add ∨ op = .sub ∨ op = .mul ∨ op = .div ∨ op = .pow ∨ op = .lt ∨ op = .le ∨ op = .gt ∨
         op = .ge ∨ op = .eq ∨ op = .ne) : notWrong (binScalar op (.float x) (.float y)) := by
  rcases h with rfl | rfl | rfl | rfl | rfl | rfl | rfl | rfl | rfl | rfl | rfl <;>
    exact Or.inl ⟨_, rfl⟩

/-- (bool, bool): & | ^ == != -/
theorem bool_operators_total (op : BinOp) (x y : Bool)
    (h : op = .band ∨ op = .bor ∨ op = .bxor ∨ op = .eq ∨ op = .ne) :
    notWrong (binScalar op (.bool x) (.bool y)) := by
  rcases h with rfl | rfl | rfl | rfl | rfl <;> exact Or.inl ⟨_, rfl⟩

/-- (string, string) and (array, array): + -/
theorem concat_total (x y : String) (t1 t2 : Ty) (a b : List Val) :
    notWrong (binScalar .add (.str x) (.str y)) ∧ notWrong (binScalar .add (.arr t1 a) (.arr t2 b)) :=
  ⟨Or.inl ⟨_, rfl⟩, Or.inl ⟨_, rfl⟩⟩

/-- == and != are defined on every pair of values -/
theorem equality_total (x y : Val) : notWrong (binScalar .eq x y) ∧ notWrong (binScalar .ne x y) := by
  constructor <;> cases x <;> cases y <;> exact Or.inl ⟨_, rfl⟩

/-- indexing an array or a string with an int is a value or IndexOutOfBounds -/
theorem index_total (t : Ty) (es : List Val) (s : String) (i : I64) :
    notWrong (atVal (.arr t es) (.int i)) ∧ notWrong (atVal (.str s) (.int i)) := by
  constructor
  · simp only [atVal]
    split
    · split
      · exact Or.inl ⟨_, rfl⟩
      · exact Or.inr ⟨_, rfl⟩
    · exact Or.inr ⟨_, rfl⟩
  · simp only [atVal]
    split
    · split
      · exact Or.inl ⟨_, rfl⟩
      · exact Or.inr ⟨_, rfl⟩
    · exact Or.inr ⟨_, rfl⟩

/-- slicing an array or a string with int / absent bounds never fails at all (C09) -/
theorem slice_total (t : Ty) (es : List Val) (s : String) (a b c : Option I64) :
    (∃ v, sliceVal (.arr t es) (a.map .int) (b.map .int) (c.map .int) = .ok v) ∧
    (∃ v, sliceVal (.str s) (a.map .int) (b.map .int) (c.map .int) = .ok v) := by
  constructor <;> (cases a <;> cases b <;> cases c <;> exact ⟨_, rfl⟩)

/-- prefix operators on the kinds the checker admits -/
theorem prefix_total (x : I64) (f : F64) (b : Bool) :
    (∃ v, preScalar .neg (.int x) = .ok v) ∧ (∃ v, preScalar .neg (.float f) = .ok v) ∧
    (∃ v, preScalar .not (.int x) = .ok v) ∧ (∃ v, preScalar .not (.bool b) = .ok v) :=
  ⟨⟨_, rfl⟩, ⟨_, rfl⟩, ⟨_, rfl⟩, ⟨_, rfl⟩⟩

/-- no break / continue / return escapes a call (so none reaches the top level through one) -/
theorem signals_contained (f : Nat) (fv : Val) (args : List Val) (σ σ' : St) (s : Sig)
    (h : callFn f fv args σ = (.error s, σ')) : C12.isEscape s = false :=
  C12.call_contains_signals f fv args σ σ' s h

theorem loops_contain_break_continue (f : Nat) (env : Env) (body : Expr) (σ σ' : St) (s : Sig)
    (h : loopGo f env body σ = (.error s, σ')) : s ≠ .brk ∧ s ≠ .cont :=
  C12.loop_catches_break_continue f env body σ σ' s h

/-- the documented run-time errors, regenerated from src/errors/exec_error.rs -/
theorem errors_enumerated :
    Gen.execErrors = ["IndexOutOfBounds", "NegativeExponent", "NegativeLength", "OverflowShift",
                      "ZeroDivision", "ZeroModulo"] := by decide

end Ssl.C02
