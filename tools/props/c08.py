"""C08 — scalar operators.  Proof: SslModel.Thm.C08 over Gen/ScalarOps (translated).
Correspondence: `scalar` stream (implementation vs. model), direct oracle: big-integer spec."""
import random
import struct

from vlib import (driver_run, esc_field, harness_run, sexp_parse, sexp_str)

THM_MODULES = ["SslModel.Thm.C08"]
TRANSLATE_PARTS = ["scalar", "errors"]

MIN, MAX = -2**63, 2**63 - 1
GRID = sorted(set([0, 1, -1, 2, -2, 3, 7, -7, 31, 32, 33, 62, 63, 64, 65, -63, -64, -65,
                   2**31 - 1, 2**31, 2**31 + 1, 2**32 - 1, 2**32, 2**32 + 1, -2**31, -2**32,
                   2**62, -2**62, MAX - 1, MAX, MIN, MIN + 1, 2**53, 10, -10, 255, 256,
                   0x5555555555555555, -0x5555555555555556, 4294967297, 2**33]))
BINOPS = {  # module name -> (symbol, kind)
    "add": ("+", "int"), "subtract": ("-", "int"), "multiply": ("*", "int"),
    "divide": ("/", "int"), "modulo": ("%", "int"), "pow": ("**", "int"),
    "lshift": ("<<", "int"), "rshift": (">>", "int"), "bitwise_and": ("&", "int"),
    "bitwise_or": ("|", "int"), "xor": ("^", "int"), "greater": (">", "bool"),
    "greater_equal": (">=", "bool"), "lower": ("<", "bool"), "lower_equal": ("<=", "bool"),
}
EXEC_ERRORS = {"IndexOutOfBounds", "NegativeLength", "NegativeExponent", "ZeroDivision",
               "ZeroModulo", "OverflowShift"}


def wrap(x):
    return (x + 2**63) % 2**64 - 2**63


def spec(op, a, b):
    """the documented arithmetic with unbounded integers (the direct oracle)"""
    def tdiv(a, b):
        q = abs(a) // abs(b)
        return q if (a < 0) == (b < 0) else -q
    if op == "add": return "(i %d)" % wrap(a + b)
    if op == "subtract": return "(i %d)" % wrap(a - b)
    if op == "multiply": return "(i %d)" % wrap(a * b)
    if op == "divide":
        return "(error ZeroDivision)" if b == 0 else "(i %d)" % wrap(tdiv(a, b))
    if op == "modulo":
        return "(error ZeroModulo)" if b == 0 else "(i %d)" % wrap(a - b * tdiv(a, b))
    if op == "pow":
        return "(error NegativeExponent)" if b < 0 else "(i %d)" % wrap(pow(a, b, 2**64))
    if op == "lshift":
        return "(error OverflowShift)" if not 0 <= b <= 63 else "(i %d)" % wrap(a << b)
    if op == "rshift":
        return "(error OverflowShift)" if not 0 <= b <= 63 else "(i %d)" % wrap(a >> b)
    if op == "bitwise_and": return "(i %d)" % wrap(a & b)
    if op == "bitwise_or": return "(i %d)" % wrap(a | b)
    if op == "xor": return "(i %d)" % wrap(a ^ b)
    if op == "greater": return "true" if a > b else "false"
    if op == "greater_equal": return "true" if a >= b else "false"
    if op == "lower": return "true" if a < b else "false"
    if op == "lower_equal": return "true" if a <= b else "false"
    raise KeyError(op)


def spec1(op, a):
    return "(i %d)" % (wrap(-a) if op == "unary_minus" else wrap(~a))


def lit(n):
    if n == MIN:
        return "(-9223372036854775807 - 1)"
    return "(%d)" % n if n >= 0 else "(-%d)" % -n


def programs(op, a, b):
    sym, kind = BINOPS[op]
    forms = {
        "literal": "%s %s %s" % (lit(a), sym, lit(b)),
        "runtime": "f := (a: int, b: int) -> %s { return a %s b }; f(%s, %s)" % (kind, sym, lit(a), lit(b)),
    }
    if kind == "int":
        forms["compound"] = "c := mut %s; r := (c %s= %s); (r, *c)" % (lit(a), sym, lit(b))
    # mixed forms: one operand a literal the folder sees, the other known only at run time
    forms["mixed-rhs-literal"] = "f := (a: int) -> %s { return a %s %s }; f(%s)" % (kind, sym, lit(b), lit(a))
    forms["mixed-lhs-literal"] = "f := (b: int) -> %s { return %s %s b }; f(%s)" % (kind, lit(a), sym, lit(b))
    return forms


def programs1(op, a):
    sym = "-" if op == "unary_minus" else "!"
    return {"literal": "%s%s" % (sym, lit(a)),
            "runtime": "f := (a: int) -> int { return %sa }; f(%s)" % (sym, lit(a))}


def outcome_of(line, form):
    """reduce a harness outcome line to the scalar answer form used by model and spec"""
    s = sexp_parse(line)
    if not isinstance(s, list):
        return line
    if s[0] == "rejected" and s[1] in EXEC_ERRORS:
        return "(error %s)" % s[1]       # folded at parse time
    if s[0] == "accepted":
        r = s[2]
        if r[0] == "error":
            return "(error %s)" % r[1]
        if r[0] == "value":
            v = r[1]
            if form == "compound":
                # (tup r content): both must agree
                if isinstance(v, list) and v[0] == "tup" and sexp_str(v[1]) == sexp_str(v[2]):
                    return sexp_str(v[1])
                return "(compound-mismatch %s)" % sexp_str(v)
            return sexp_str(v)
        return sexp_str(r)
    return sexp_str(s)


def cases(tier, seed):
    rnd = random.Random(seed)
    grid = GRID
    out = []
    if tier == "quick":
        # every operator on every grid pair, form rotating; plus all forms on a sub-grid
        sub = [0, 1, -1, 2, 3, 63, 64, -64, 2**32, 2**32 + 1, MAX, MIN, MIN + 1, -7, 7]
        k = 0
        for op in BINOPS:
            forms = list(programs(op, 0, 0))
            for a in grid:
                for b in grid:
                    if a in sub and b in sub:
                        for f in forms:
                            out.append((op, a, b, f))
                    else:
                        out.append((op, a, b, forms[k % len(forms)]))
                        k += 1
        nrand = 3000
    else:
        for op in BINOPS:
            for a in grid:
                for b in grid:
                    for f in programs(op, a, b):
                        out.append((op, a, b, f))
        nrand = 150000
    for _ in range(nrand):
        op = rnd.choice(list(BINOPS))
        a = rnd.choice([rnd.randint(MIN, MAX), rnd.randint(-1000, 1000), rnd.choice(grid)])
        if op in ("lshift", "rshift"):
            b = rnd.choice([rnd.randint(-3, 70), rnd.randint(MIN, MAX)])
        elif op == "pow":
            b = rnd.choice([rnd.randint(0, 70), rnd.randint(0, MAX), rnd.randint(2**32, 2**34), rnd.randint(-5, 5)])
        else:
            b = rnd.choice([rnd.randint(MIN, MAX), rnd.randint(-1000, 1000), rnd.choice(grid)])
        out.append((op, a, b, rnd.choice(list(programs(op, a, b)))))
    un = []
    for op in ("unary_minus", "not"):
        for a in grid + [rnd.randint(MIN, MAX) for _ in range(200)]:
            for f in ("literal", "runtime"):
                un.append((op, a, f))
    return out, un


# ---------------------------------------------------------------- floats
FGRID = [0.0, -0.0, 1.0, -1.0, 0.5, -0.5, 2.0, 3.0, 1e308, -1e308, 5e-324, -5e-324,
         2.2250738585072014e-308, 1e-310, 1e16, 1e15, 0.1, 0.2, 1.5, -2.5,
         float("inf"), float("-inf"), float("nan"), 9007199254740993.0, 1e-5]
FOPS = {"add": "+", "subtract": "-", "multiply": "*", "divide": "/", "pow": "**",
        "greater": ">", "greater_equal": ">=", "lower": "<", "lower_equal": "<=", "equal": "==", "not_equal": "!="}


def fbits(x):
    b = struct.unpack("<Q", struct.pack("<d", x))[0]
    if x != x:
        return "7ff8000000000000"
    return "%016x" % b


def fsrc(x):
    """an expression evaluating to exactly x at run time (no folding of specials needed)"""
    b = struct.unpack("<q", struct.pack("<d", x))[0]
    return "std.math.from_bits(%s)" % lit(b)


def flit(x):
    if x != x or x in (float("inf"), float("-inf")):
        return None
    r = repr(abs(x))
    if "." not in r and "e" not in r:
        r += ".0"
    return "(-%s)" % r if (x < 0 or fbits(x)[0] in "89abcdef") else "(%s)" % r


def fcases(tier, seed):
    rnd = random.Random(seed + 1)
    out = []
    for op, sym in FOPS.items():
        kind = "bool" if op in ("greater", "greater_equal", "lower", "lower_equal", "equal", "not_equal") else "float"
        for a in FGRID:
            for b in FGRID:
                progs = {"runtime": "f := (a: float, b: float) -> %s { return a %s b }; f(%s, %s)" % (kind, sym, fsrc(a), fsrc(b))}
                if flit(a) and flit(b):
                    progs["literal"] = "%s %s %s" % (flit(a), sym, flit(b))
                if kind == "float":
                    progs["compound"] = "c := mut %s; r := (c %s= %s); (r, *c)" % (fsrc(a), sym, fsrc(b))
                # mixed forms: one operand a literal the folder sees (and may want to simplify away:
                # x + 0.0, x * 1.0, x ** 1.0, ...), the other known only at run time
                if flit(b):
                    progs["mixed-rhs-literal"] = "f := (a: float) -> %s { return a %s %s }; f(%s)" % (kind, sym, flit(b), fsrc(a))
                if flit(a):
                    progs["mixed-lhs-literal"] = "f := (b: float) -> %s { return %s %s b }; f(%s)" % (kind, flit(a), sym, fsrc(b))
                units = (0.0, 1.0, -1.0, 2.0)
                if tier == "quick" and (a in units or b in units) and (fbits(a)[1:] == "000000000000000" or fbits(b)[1:] == "000000000000000" or a != a or b != b or a in units and b in units):
                    pass   # identity / absorbing candidates next to signed zeros and NaN: every form, also in the quick tier
                elif tier == "quick":
                    k = rnd.choice(list(progs))
                    progs = {k: progs[k]}
                for form, p in progs.items():
                    out.append((op, a, b, form, p))
    return out


def run(res, tier, seed, broken_model):
    bin_cases, un_cases = cases(tier, seed)
    # implementation
    hl, keys = [], []
    for (op, a, b, form) in bin_cases:
        hl.append("prog\t\t" + esc_field(programs(op, a, b)[form]))
        keys.append(("bin", op, a, b, form))
    for (op, a, form) in un_cases:
        hl.append("prog\t\t" + esc_field(programs1(op, a)[form]))
        keys.append(("un", op, a, None, form))
    fc = fcases(tier, seed)
    for (op, a, b, form, p) in fc:
        hl.append("prog\tstd\t" + esc_field(p))
        keys.append(("f", op, a, b, form))
    impl = harness_run(hl)
    # model
    ml = []
    for k in keys:
        if k[0] == "bin":
            ml.append("scalar %s %d %d" % (k[1], k[2], k[3]))
        elif k[0] == "un":
            ml.append("scalar1 %s %d" % (k[1], k[2]))
        else:
            ml.append("fscalar %s %s %s" % (k[1], fbits(k[2]), fbits(k[3])))
    model = driver_run(ml) if not broken_model else ["(no-model)"] * len(ml)
    res.streams["scalar"] = dict(cases=len(keys), int_binary=len(bin_cases), int_unary=len(un_cases),
                                 float=len(fc))
    res.rule = ("boundary grid of %d ints: all pairs x 15 operators x {literal/folded, run-time, compound "
                "assignment} (quick: all forms on a 15-value sub-grid, rotating form elsewhere) + seeded random "
                "operands incl. exponents >= 2^32; %d-value float grid pairs x 9 operators; non-trivial = "
                "distinct (operator, operands, form) whose implementation outcome is a value or a documented "
                "error" % (len(GRID), len(FGRID)))
    for k, iline, mline in zip(keys, impl, model):
        res.evaluations += 1
        kind, op, a, b, form = k
        got = outcome_of(iline, form)
        res.count("form:" + form)
        res.count("op:" + op)
        if kind == "f":
            res.count("outcome:float")
            if got.startswith("(f ") or got in ("true", "false"):
                res.nontrivial.add(k)
            if got != mline:
                res.disagreements_checked += 1
                # floats: Lean's Float is the platform double; a difference is a correspondence
                # failure and an IEEE failure at once (no independent spec)
                res.violation("float %s: %s %s %s [%s] impl=%s model=%s" % (op, a, FOPS[op], b, form, got, mline),
                              dict(program=hl[len(res.samples)] if False else None, op=op, a=fbits(a), b=fbits(b), form=form,
                                   impl=iline, model=mline),
                              dict(oracle="float-model", op=op, form=form))
            continue
        want = spec(op, a, b) if kind == "bin" else spec1(op, a)
        if got.startswith("(i ") or got in ("true", "false"):
            res.count("outcome:value")
            res.nontrivial.add(k)
        elif got.startswith("(error "):
            res.count("outcome:" + got)
            res.nontrivial.add(k)
        else:
            res.count("outcome:other")
        if len(res.samples) < 6 and (len(res.samples) * 977 + 13) % 7 == res.evaluations % 7:
            prog = programs(op, a, b)[form] if kind == "bin" else programs1(op, a)[form]
            res.samples.append(dict(program=prog, impl=iline, model=mline, spec=want))
        if got != want:
            # direct oracle failure on the implementation: a property violation
            prog = programs(op, a, b)[form] if kind == "bin" else programs1(op, a)[form]
            res.violation("%s: `%s` gives %s, documented arithmetic gives %s" % (op, prog, got, want),
                          dict(program=prog, op=op, a=a, b=b, form=form, impl=iline, spec=want, model=mline),
                          dict(oracle="spec", op=op, form=form,
                               cls="exp>=2^32" if op == "pow" and b is not None and b >= 2**32 else "value"))
        elif mline != got and not broken_model:
            res.disagreements_checked += 1
            # implementation agrees with the spec, model does not: model defect -> the tie is
            # broken, no property violation on this input
            res.broken.append("correspondence:scalar %s %s %s: impl=%s model=%s" % (op, a, b, got, mline))
        else:
            res.traces_validated += 1
