/-!
  SimpleSL types (`src/variable/type.rs`, `function_type.rs`, `struct_type.rs`, `multi_type.rs`).
  Unions (`HashSet<Type>`) and structs (`HashMap<Arc<str>, Type>`) are lists here; the list order
  stands for the hash iteration order of one particular run, so every function below that folds
  over members is *as written*: first member seeds the fold, the rest is folded in list order.
-/
set_option linter.unusedSimpArgs false
namespace Ssl

inductive Ty where
  | bool | int | float | str | void | any | never
  | fn (params : List Ty) (ret : Ty)
  | arr (e : Ty)
  | tup (es : List Ty)
  | multi (ms : List Ty)
  | cell (e : Ty)
  | struct (fs : List (String × Ty))
  deriving Repr, Inhabited

namespace Ty

mutual
def size : Ty → Nat
  | .fn ps r => 1 + sizeL ps + size r
  | .arr e => 1 + size e
  | .tup es => 1 + sizeL es
  | .multi ms => 1 + sizeL ms
  | .cell e => 1 + size e
  | .struct fs => 1 + sizeF fs
  | _ => 1
def sizeL : List Ty → Nat
  | [] => 0
  | t :: ts => 1 + size t + sizeL ts
def sizeF : List (String × Ty) → Nat
  | [] => 0
  | (_, t) :: fs => 1 + size t + sizeF fs
end

def lookupF (k : String) : List (String × Ty) → Option Ty
  | [] => none
  | (k', t) :: fs => if k == k' then some t else lookupF k fs

theorem lookupF_size {k : String} {fs : List (String × Ty)} {t : Ty} (h : lookupF k fs = some t) :
    size t < sizeF fs := by
  induction fs with
  | nil => simp [lookupF] at h
  | cons p fs ih =>
    obtain ⟨k', t'⟩ := p
    simp only [lookupF] at h
    split at h
    · cases h; simp [sizeF]; omega
    · have := ih h; simp [sizeF]; omega

/-! ### `==` (derived `PartialEq`; `HashSet` / `HashMap` equality for unions / structs) -/
mutual
def eqv : Ty → Ty → Bool
  | .bool, .bool | .int, .int | .float, .float | .str, .str | .void, .void
  | .any, .any | .never, .never => true
  | .fn ps r, .fn ps2 r2 => eqvL ps ps2 && eqv r r2
  | .arr a, .arr b => eqv a b
  | .tup as, .tup bs => eqvL as bs
  | .multi as, .multi bs => as.length == bs.length && subL as bs
  | .cell a, .cell b => eqv a b
  | .struct fa, .struct fb => fa.length == fb.length && subF fa fb
  | _, _ => false
termination_by a b => size a + size b
decreasing_by all_goals (simp only [size, sizeL, sizeF]; omega)
/-- pointwise equality of slices -/
def eqvL : List Ty → List Ty → Bool
  | [], [] => true
  | a :: as, b :: bs => eqv a b && eqvL as bs
  | _, _ => false
termination_by as bs => sizeL as + sizeL bs
decreasing_by all_goals (simp only [size, sizeL, sizeF]; omega)
/-- every member of `as` is (equal to) a member of `bs` -/
def subL : List Ty → List Ty → Bool
  | [], _ => true
  | a :: as, bs => memL a bs && subL as bs
termination_by as bs => sizeL as + sizeL bs
decreasing_by all_goals (simp only [size, sizeL, sizeF]; omega)
def memL : Ty → List Ty → Bool
  | _, [] => false
  | a, b :: bs => eqv a b || memL a bs
termination_by a bs => size a + sizeL bs
decreasing_by all_goals (simp only [size, sizeL, sizeF]; omega)
/-- every field of `fa` is in `fb` with an equal type -/
def subF : List (String × Ty) → List (String × Ty) → Bool
  | [], _ => true
  | (k, t) :: fa, fb => fieldEq k t fb && subF fa fb
termination_by fa fb => sizeF fa + sizeF fb
decreasing_by all_goals (simp only [size, sizeL, sizeF]; omega)
def fieldEq (k : String) (t : Ty) : List (String × Ty) → Bool
  | [] => false
  | (k', t') :: fb => if k == k' then eqv t t' else fieldEq k t fb
termination_by fb => size t + sizeF fb
decreasing_by all_goals (simp only [size, sizeL, sizeF]; omega)
end

/-! ### `Type::matches` — the arms in source order -/
mutual
def sub : Ty → Ty → Bool
  | .never, _ => true
  | .fn ps r, .fn ps2 r2 => matchesParams ps2 ps && sub r r2
  | .arr a, .arr b => sub a b
  | .struct fa, .struct fb => structMatches fa fb
  | .multi ms, o => allMatch ms o
  | a, .multi ms => anyMatch a ms
  | _, .any => true
  | .tup as, .tup bs => matchesL as bs
  | a, b => eqv a b
termination_by a b => size a + size b
decreasing_by all_goals (simp only [size, sizeL, sizeF]; omega)
/-- `FunctionType::matches` on parameters: same length, `type2.matches(type1)` pointwise.
    Called with the *other* function's parameters first. -/
def matchesParams : List Ty → List Ty → Bool
  | [], [] => true
  | p2 :: ps2, p :: ps => sub p2 p && matchesParams ps2 ps
  | _, _ => false
termination_by as bs => sizeL as + sizeL bs
decreasing_by all_goals (simp only [size, sizeL, sizeF]; omega)
def matchesL : List Ty → List Ty → Bool
  | [], [] => true
  | a :: as, b :: bs => sub a b && matchesL as bs
  | _, _ => false
termination_by as bs => sizeL as + sizeL bs
decreasing_by all_goals (simp only [size, sizeL, sizeF]; omega)
def allMatch : List Ty → Ty → Bool
  | [], _ => true
  | m :: ms, o => sub m o && allMatch ms o
termination_by ms o => sizeL ms + size o
decreasing_by all_goals (simp only [size, sizeL, sizeF]; omega)
def anyMatch : Ty → List Ty → Bool
  | _, [] => false
  | a, m :: ms => sub a m || anyMatch a ms
termination_by a ms => size a + sizeL ms
decreasing_by all_goals (simp only [size, sizeL, sizeF]; omega)
/-- `StructType::matches`: every field of `other` is present in `self` with a matching type -/
def structMatches : List (String × Ty) → List (String × Ty) → Bool
  | _, [] => true
  | fa, (k, t2) :: fb => fieldMatches fa k t2 && structMatches fa fb
termination_by fa fb => sizeF fa + sizeF fb
decreasing_by all_goals (simp only [size, sizeL, sizeF]; omega)
def fieldMatches : List (String × Ty) → String → Ty → Bool
  | [], _, _ => false
  | (k', t1) :: fa, k, t2 => if k == k' then sub t1 t2 else fieldMatches fa k t2
termination_by fa _ t2 => sizeF fa + size t2
decreasing_by all_goals (simp only [size, sizeL, sizeF]; omega)
end

/-! ### `Type::concat` (join) -/

/-- insertion into a `HashSet<Type>` -/
def insertM (t : Ty) (ms : List Ty) : List Ty := if memL t ms then ms else ms ++ [t]
def extendM (ms ns : List Ty) : List Ty := ns.foldl (fun acc t => insertM t acc) ms

def concat (a b : Ty) : Ty :=
  match a, b with
  | .never, o => o
  | o, .never => o
  | .any, _ => .any
  | _, .any => .any
  | a, b =>
    if eqv a b then a else
    match a, b with
    | .multi as, .multi bs => .multi (extendM as bs)
    | .multi as, t => .multi (insertM t as)
    | t, .multi bs => .multi (insertM t bs)
    | a, b => .multi [a, b]

def concatL : List Ty → Ty
  | [] => .never
  | t :: ts => ts.foldl concat t

/-! ### `Type::conjoin` (meet used for parameters of a union of functions) -/
mutual
def conjoin : Ty → Ty → Ty
  | a, b =>
    if eqv a b then a else
    match a, b with
    | o, .any => o
    | .any, o => o
    | .arr x, .arr y => .arr (conjoin x y)
    | .tup xs, .tup ys => if xs.length != ys.length then .never else .tup (conjoinL xs ys)
    | .multi ms, o => conjoinM ms o
    | o, .multi ms => conjoinM ms o
    | .fn ps r, .fn ps2 r2 =>
      if ps.length != ps2.length then .never else
      let rt := conjoin r r2
      if eqv rt .never then .never else .fn (List.zipWith concat ps ps2) rt
    | _, _ => .never
termination_by a b => size a + size b
decreasing_by all_goals (simp only [size, sizeL, sizeF]; omega)
def conjoinL : List Ty → List Ty → List Ty
  | a :: as, b :: bs => conjoin a b :: conjoinL as bs
  | _, _ => []
termination_by as bs => sizeL as + sizeL bs
decreasing_by all_goals (simp only [size, sizeL, sizeF]; omega)
/-- `multi.iter().map(|t| t.conjoin(other)).reduce(Type::concat).unwrap_or(Never)` -/
def conjoinM : List Ty → Ty → Ty
  | [], _ => .never
  | [m], o => conjoin m o
  | m :: ms, o => concat (conjoin m o) (conjoinM ms o)
termination_by ms o => sizeL ms + size o
decreasing_by all_goals (simp only [size, sizeL, sizeF]; omega)
end

/-! ### the query folds over union members, as written (first member seeds the fold).
    A union member that is itself a union (impossible for types built by `concat` / `from_str`)
    answers `none` here, where the Rust code would recurse. -/

def foldQ {α} (base : Ty → Option α) (comb : α → α → Option α) : List Ty → Option α
  | [] => none
  | m :: ms => do
    let first ← base m
    ms.foldlM (fun acc t => do let c ← base t; comb acc c) first

def query {α} (base : Ty → Option α) (comb : α → α → Option α) (t : Ty) : Option α :=
  match t with
  | .multi ms => foldQ base comb ms
  | t => base t

def joinO (a b : Ty) : Option Ty := some (concat a b)

def indexResult : Ty → Option Ty :=
  query (fun | .arr e => some e | .str => some .str | _ => none) joinO
def elementType : Ty → Option Ty := query (fun | .arr e => some e | _ => none) joinO
def returnType : Ty → Option Ty := query (fun | .fn _ r => some r | _ => none) joinO
def params : Ty → Option (List Ty) :=
  query (fun | .fn ps _ => some ps | _ => none)
    (fun acc cur => if acc.length != cur.length then none else some (List.zipWith conjoin acc cur))

/-- `mut_element_type`: the type read through `*x` (join of the members' contents) -/
def mutElementType : Ty → Option Ty := query (fun | .cell e => some e | _ => none) joinO

/-- `mut_assign_type`: the type a value must match to be stored whatever member cell `x` is
    (meet of the members' contents, folded from `any`) -/
def mutAssignType (t : Ty) : Option Ty :=
  match t with
  | .cell e => some e
  | .multi ms => ms.foldlM (fun acc m => match m with
      | .cell e => some (conjoin acc e)
      | _ => none) .any
  | _ => none

def isFunction : Ty → Bool
  | .fn _ _ => true | .multi ms => ms.all (fun | .fn _ _ => true | _ => false) | _ => false
def isTuple : Ty → Bool
  | .tup _ => true | .multi ms => ms.all (fun | .tup _ => true | _ => false) | _ => false
def isMut : Ty → Bool
  | .cell _ => true | .multi ms => ms.all (fun | .cell _ => true | _ => false) | _ => false

def tupleLen : Ty → Option Nat :=
  query (fun | .tup es => some es.length | _ => none) (fun a c => if a == c then some a else none)
def minTupleLen (t : Ty) : Option Nat :=
  match t with
  | .multi ms => foldQ (fun | .tup es => some es.length | _ => none) (fun a c => some (min a c)) ms
  | t => tupleLen t

def flattenTuple : Ty → Option (List Ty) :=
  query (fun | .tup es => some es | _ => none)
    (fun acc cur => if acc.length != cur.length then none else some (List.zipWith concat acc cur))

def iterElement : Ty → Option Ty :=
  query (fun
    | .fn [] r => (match flattenTuple r with
        | some [b, e] => if eqv b .bool then some e else none
        | _ => none)
    | _ => none) joinO

def tupleElementAt (i : Nat) : Ty → Option Ty :=
  query (fun | .tup es => es[i]? | _ => none) joinO
def fieldType (k : String) : Ty → Option Ty :=
  query (fun | .struct fs => lookupF k fs | _ => none) joinO
def hasField (k : String) : Ty → Bool
  | .struct fs => (lookupF k fs).isSome
  | .multi ms => ms.all (fun | .struct fs => (lookupF k fs).isSome | _ => false)
  | _ => false

def canBeIndexed (t : Ty) : Bool := sub t (.multi [.str, .arr .any])
def iteratorType : Ty := .fn [] (.tup [.bool, .any])
def isIterator (t : Ty) : Bool := sub t iteratorType
def isStruct (t : Ty) : Bool := sub t (.struct [])

/-! ### well-formedness: what `from_str`, `concat` and the checker can build -/
mutual
def wf : Ty → Bool
  | .fn ps r => wfL ps && wf r
  | .arr e => wf e
  | .tup es => wfL es
  | .multi ms => decide (2 ≤ ms.length) && wfL ms && membersOk ms && nodupL ms
  | .cell e => wf e
  | .struct fs => wfF fs && nodupKeys fs
  | _ => true
def wfL : List Ty → Bool
  | [] => true
  | t :: ts => wf t && wfL ts
def wfF : List (String × Ty) → Bool
  | [] => true
  | (_, t) :: fs => wf t && wfF fs
def membersOk : List Ty → Bool
  | [] => true
  | .multi _ :: _ => false
  | .any :: _ => false
  | .never :: _ => false
  | _ :: ms => membersOk ms
def nodupL : List Ty → Bool
  | [] => true
  | t :: ts => !memL t ts && nodupL ts
def nodupKeys : List (String × Ty) → Bool
  | [] => true
  | (k, _) :: fs => !(fs.any (fun p => p.1 == k)) && nodupKeys fs
end

end Ty
end Ssl
