import SslModel.Lemmas.Mono
import SslModel.Model.Fold
/-!
  Simulation up to fuel, and the facts about constants, used by the correctness proof of the folding
  model (`Thm/C04Fold`).

  `Sim m m'` : for every store there is an amount of fuel from which on the family `m'` ends exactly
  as `m` does — unless `m` itself ran out of fuel.  `Pure m v` : `m` ends with the value `v` and the
  store it started from — unless it ran out of fuel.
-/
set_option linter.unusedSimpArgs false
set_option linter.unusedVariables false
namespace Ssl.Fold
open Ssl Ssl.Spec

def Sim {α} (m : M α) (m' : Nat → M α) : Prop :=
  ∀ σ, ∃ f0, ∀ f, f0 ≤ f → LeR (m σ) (m' f σ)

def Pure {α} (m : M α) (v : α) : Prop := ∀ σ, LeR (m σ) (.ok v, σ)

theorem Sim.fuel {α} (m' : Nat → M α) : Sim (throwS .fuel) m' :=
  fun σ => ⟨0, fun _ _ => Or.inl ⟨σ, rfl⟩⟩

theorem Sim.const {α} (m : M α) : Sim m (fun _ => m) := fun σ => ⟨0, fun _ _ => Or.inr rfl⟩

/-- the right side may be unfolded one step of fuel -/
theorem Sim.shift {α} {m : M α} {m' : Nat → M α} (h : Sim m (fun f => m' (f + 1))) : Sim m m' := by
  intro σ
  obtain ⟨f0, h0⟩ := h σ
  refine ⟨f0 + 1, fun f hf => ?_⟩
  obtain ⟨k, rfl⟩ : ∃ k, f = k + 1 := ⟨f - 1, by omega⟩
  exact h0 k (by omega)

theorem Sim.shift2 {α} {m : M α} {m' : Nat → M α} (h : Sim m (fun f => m' (f + 2))) : Sim m m' :=
  Sim.shift (Sim.shift h)

theorem Sim.bind {α β} {m : M α} {m' : Nat → M α} {k : α → M β} {k' : Nat → α → M β}
    (h : Sim m m') (hk : ∀ a, Sim (k a) (fun f => k' f a)) :
    Sim (m >>= k) (fun f => m' f >>= k' f) := by
  intro σ
  obtain ⟨f0, h0⟩ := h σ
  cases hm : m σ with
  | mk r σ1 =>
    cases r with
    | error e =>
      refine ⟨f0, fun f hf => ?_⟩
      show LeR ((m >>= k) σ) ((m' f >>= k' f) σ)
      rcases h0 f hf with ⟨σ2, h2⟩ | h2
      · left; refine ⟨σ2, ?_⟩; rw [bindM_def, h2]
      · right; rw [bindM_def, bindM_def, ← h2, hm]
    | ok a =>
      obtain ⟨f1, h1⟩ := hk a σ1
      refine ⟨max f0 f1, fun f hf => ?_⟩
      show LeR ((m >>= k) σ) ((m' f >>= k' f) σ)
      rcases h0 f (by omega) with ⟨σ2, h2⟩ | h2
      · rw [hm] at h2; cases h2
      · rw [bindM_def, bindM_def, ← h2, hm]
        exact h1 f (by omega)

/-- what a computation guarantees about the values it yields -/
def Post {α} (m : M α) (P : α → Prop) : Prop := ∀ σ a σ', m σ = (.ok a, σ') → P a

/-- `Sim.bind` where the continuation is simulated only on the values the first part can yield -/
theorem Sim.bindP {α β} {m : M α} {m' : Nat → M α} {k : α → M β} {k' : Nat → α → M β} {P : α → Prop}
    (h : Sim m m') (hp : Post m P) (hk : ∀ a, P a → Sim (k a) (fun f => k' f a)) :
    Sim (m >>= k) (fun f => m' f >>= k' f) := by
  intro σ
  obtain ⟨f0, h0⟩ := h σ
  cases hm : m σ with
  | mk r σ1 =>
    cases r with
    | error e =>
      refine ⟨f0, fun f hf => ?_⟩
      show LeR ((m >>= k) σ) ((m' f >>= k' f) σ)
      rcases h0 f hf with ⟨σ2, h2⟩ | h2
      · left; refine ⟨σ2, ?_⟩; rw [bindM_def, h2]
      · right; rw [bindM_def, bindM_def, ← h2, hm]
    | ok a =>
      obtain ⟨f1, h1⟩ := hk a (hp σ a σ1 hm) σ1
      refine ⟨max f0 f1, fun f hf => ?_⟩
      show LeR ((m >>= k) σ) ((m' f >>= k' f) σ)
      rcases h0 f (by omega) with ⟨σ2, h2⟩ | h2
      · rw [hm] at h2; cases h2
      · rw [bindM_def, bindM_def, ← h2, hm]
        exact h1 f (by omega)

theorem Post.of_pure {α} {m : M α} {v : α} {P : α → Prop} (h : Pure m v) (hv : P v) : Post m P := by
  intro σ a σ' hm
  rcases h σ with ⟨σ1, h1⟩ | h1
  · rw [hm] at h1; cases h1
  · rw [hm] at h1; cases h1; exact hv

theorem Post.bind {α β} {m : M α} {k : α → M β} {P : β → Prop} (hk : ∀ a, Post (k a) P) : Post (m >>= k) P := by
  intro σ b σ' hm
  rw [bindM_def] at hm
  cases h : m σ with
  | mk r σ1 =>
    rw [h] at hm
    cases r with
    | error e => cases hm
    | ok a => exact hk a σ1 b σ' hm

theorem Post.bind2 {α β} {m : M α} {k : α → M β} {Q : α → Prop} {P : β → Prop} (hm : Post m Q)
    (hk : ∀ a, Q a → Post (k a) P) : Post (m >>= k) P := by
  intro σ b σ' hb
  rw [bindM_def] at hb
  cases h : m σ with
  | mk r σ1 =>
    rw [h] at hb
    cases r with
    | error e => cases hb
    | ok a => exact hk a (hm σ a σ1 h) σ1 b σ' hb

theorem Post.pure {α} {v : α} {P : α → Prop} (hv : P v) : Post (pure v : M α) P := by
  intro σ a σ' h
  cases h; exact hv

/-- a monotone family simulates each of its members -/
theorem Sim.of_mono {α} {m' : Nat → M α} (hm : ∀ f g, f ≤ g → LeM (m' f) (m' g)) (f : Nat) :
    Sim (m' f) m' := fun σ => ⟨f, fun g hg => (hm f g hg).apply σ⟩

theorem Sim.trans_le {α} {m0 m : M α} {m' : Nat → M α} (h0 : LeM m0 m) (h : Sim m m') : Sim m0 m' := by
  intro σ
  obtain ⟨f0, hf⟩ := h σ
  exact ⟨f0, fun f hle => (h0.apply σ).trans (hf f hle)⟩

theorem Sim.tryCatch {α} {m : M α} {m' : Nat → M α} {h : Sig → M α} {h' : Nat → Sig → M α}
    (hm : Sim m m') (hh : ∀ s, Sim (h s) (fun f => h' f s)) (hf : h .fuel = throwS .fuel) :
    Sim (tryCatchS m h) (fun f => tryCatchS (m' f) (h' f)) := by
  intro σ
  obtain ⟨f0, h0⟩ := hm σ
  cases hmσ : m σ with
  | mk r σ1 =>
    cases r with
    | ok a =>
      refine ⟨f0, fun f hle => ?_⟩
      show LeR (tryCatchS m h σ) (tryCatchS (m' f) (h' f) σ)
      rcases h0 f hle with ⟨σ2, h2⟩ | h2
      · rw [hmσ] at h2; cases h2
      · right; unfold tryCatchS; rw [← h2, hmσ]
    | error e =>
      obtain ⟨f1, h1⟩ := hh e σ1
      refine ⟨max f0 f1, fun f hle => ?_⟩
      show LeR (tryCatchS m h σ) (tryCatchS (m' f) (h' f) σ)
      rcases h0 f (by omega) with ⟨σ2, h2⟩ | h2
      · left; refine ⟨σ2, ?_⟩
        rw [hmσ] at h2; cases h2
        unfold tryCatchS; rw [hmσ]; simp only [hf]; rfl
      · have := h1 f (by omega)
        unfold tryCatchS; rw [← h2, hmσ]; exact this

/-! ### `Pure` -/

theorem Pure.pure {α} (v : α) : Pure (pure v : M α) v := fun _ => Or.inr rfl

theorem Pure.fuel {α} (v : α) : Pure (throwS .fuel : M α) v := fun σ => Or.inl ⟨σ, rfl⟩

theorem Pure.bind {α β} {m : M α} {k : α → M β} {a : α} {b : β} (h : Pure m a) (hk : Pure (k a) b) :
    Pure (m >>= k) b := by
  intro σ
  rw [bindM_def]
  rcases h σ with ⟨σ1, h1⟩ | h1
  · left; exact ⟨σ1, by rw [h1]⟩
  · rw [h1]; exact hk σ

/-- a computation that yields `v` purely is simulated by any family that eventually yields `v` -/
theorem Sim.of_pure {α} {m : M α} {m' : Nat → M α} {v : α} (h : Pure m v)
    (h' : ∀ σ, ∃ f0, ∀ f, f0 ≤ f → m' f σ = (.ok v, σ)) : Sim m m' := by
  intro σ
  obtain ⟨f0, hf⟩ := h' σ
  refine ⟨f0, fun f hle => ?_⟩
  rcases h σ with h1 | h1
  · exact Or.inl h1
  · right; rw [h1, hf f hle]

/-- what is simulated by a family that eventually yields `v` purely, yields `v` purely -/
theorem Pure.of_sim {α} {m : M α} {m' : Nat → M α} {v : α} (h : Sim m m')
    (h' : ∀ σ, ∃ f0, ∀ f, f0 ≤ f → m' f σ = (.ok v, σ)) : Pure m v := by
  intro σ
  obtain ⟨f0, hf⟩ := h σ
  obtain ⟨f1, hv⟩ := h' σ
  rcases hf (max f0 f1) (by omega) with h1 | h1
  · exact Or.inl h1
  · right; rw [h1, hv _ (by omega)]

/-- the values a computation yields are the values of a constant it is simulated by -/
theorem Post.of_sim_const {m : M Val} {m' : Nat → M Val} {v : Val} (h : Sim m m')
    (h' : ∀ σ, ∃ f0, ∀ f, f0 ≤ f → m' f σ = (.ok v, σ)) : Post m (fun a => a = v) :=
  Post.of_pure (Pure.of_sim h h') rfl

/-- every value the left side yields is a value the right side yields with some amount of fuel -/
theorem Post.of_sim {α} {m : M α} {m' : Nat → M α} (h : Sim m m') :
    Post m (fun a => ∃ f' σ σ', m' f' σ = (.ok a, σ')) := by
  intro σ a σ' hm
  obtain ⟨f0, hf⟩ := h σ
  rcases hf f0 (Nat.le_refl _) with ⟨σ1, h1⟩ | h1
  · rw [hm] at h1; cases h1
  · exact ⟨f0, σ, σ', by rw [← h1, hm]⟩

/-! ### constants evaluate to their value, in any environment, without touching the store -/

def EvC (e : Expr) : Prop := ∀ (env : Env) (σ : St), ∃ f0, ∀ f, f0 ≤ f → eval f env e σ = (.ok (valOf e), σ)
def EvCL (es : List Expr) : Prop :=
  ∀ (env : Env) (σ : St), ∃ f0, ∀ f, f0 ≤ f → evalList f env es σ = (.ok (valOfL es), σ)

theorem evC_lit (e : Expr) (v : Val) (h : ∀ f env, eval (f + 1) env e = pure v) (hv : valOf e = v) : EvC e := by
  intro env σ
  refine ⟨1, fun f hf => ?_⟩
  obtain ⟨k, rfl⟩ : ∃ k, f = k + 1 := ⟨f - 1, by omega⟩
  rw [h, hv]; rfl

mutual
theorem eval_const : ∀ (e : Expr), isConst e = true → EvC e
  | .litBool b, _ => evC_lit (.litBool b) (.bool b) (fun f env => by simp only [eval]) (by simp only [valOf])
  | .litInt i, _ => evC_lit (.litInt i) (.int (BitVec.ofInt 64 i)) (fun f env => by simp only [eval]) (by simp only [valOf])
  | .litFloat x, _ => evC_lit (.litFloat x) (.float x) (fun f env => by simp only [eval]) (by simp only [valOf])
  | .litStr s, _ => evC_lit (.litStr s) (.str s) (fun f env => by simp only [eval]) (by simp only [valOf])
  | .litUnit, _ => evC_lit .litUnit .unit (fun f env => by simp only [eval]) (by simp only [valOf])
  | .array es, h => by
    intro env σ
    simp only [isConst] at h
    obtain ⟨f0, h0⟩ := evalList_const es h env σ
    refine ⟨f0 + 1, fun f hf => ?_⟩
    obtain ⟨k, rfl⟩ : ∃ k, f = k + 1 := ⟨f - 1, by omega⟩
    simp only [eval, bindM_def, h0 k (by omega), valOf]; rfl
  | .tuple es, h => by
    intro env σ
    simp only [isConst] at h
    obtain ⟨f0, h0⟩ := evalList_const es h env σ
    refine ⟨f0 + 1, fun f hf => ?_⟩
    obtain ⟨k, rfl⟩ : ∃ k, f = k + 1 := ⟨f - 1, by omega⟩
    simp only [eval, bindM_def, h0 k (by omega), valOf]; rfl
theorem evalList_const : ∀ (es : List Expr), isConstL es = true → EvCL es
  | [], _ => by
    intro env σ
    refine ⟨1, fun f hf => ?_⟩
    obtain ⟨k, rfl⟩ : ∃ k, f = k + 1 := ⟨f - 1, by omega⟩
    simp only [evalList, valOfL]; rfl
  | e :: es, h => by
    intro env σ
    simp only [isConstL, Bool.and_eq_true] at h
    obtain ⟨f0, h0⟩ := eval_const e h.1 env σ
    obtain ⟨f1, h1⟩ := evalList_const es h.2 env σ
    refine ⟨max f0 f1 + 1, fun f hf => ?_⟩
    obtain ⟨k, rfl⟩ : ∃ k, f = k + 1 := ⟨f - 1, by omega⟩
    simp only [evalList, bindM_def, h0 k (by omega), h1 k (by omega), valOfL]; rfl
end

end Ssl.Fold
