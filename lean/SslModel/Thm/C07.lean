import SslModel.Model.Spec
/-!
# C07 — evaluation order: left to right, exactly once, short-circuit

In the reference semantics `Spec` every effect (cell write, allocation) is a change of the store
`σ : St` threaded through the state monad `M`; "evaluated before" is "its store transformation is
applied first", "exactly once" is "its transformation occurs once in the composition", and "not
evaluated" is "the store is returned unchanged".  The theorems below spell the composition out for
every construct the property names, with the store explicit where short-circuiting matters.
The implementation is tied to `Spec` by the marker-log programs of tools/props/c07.py.
-/
namespace Ssl.C07
open Ssl Ssl.Spec

/-- sequencing in `M`: run `m`, and only if it yields a value run `k` on it, in the store `m` left -/
theorem bind_def {α β} (m : M α) (k : α → M β) (σ : St) :
    (m >>= k) σ = (match m σ with
      | (.ok a, σ') => k a σ'
      | (.error e, σ') => (.error e, σ')) := rfl

def isScalarOp (op : BinOp) : Bool :=
  match op with | .map | .filter | .partition => false | _ => true

/-- binary operators: left operand, then right operand, each once, then the operation; if the left
    operand fails the right one is not evaluated -/
theorem bin_left_then_right (f : Nat) (env : Env) (op : BinOp) (a b : Expr) (σ : St)
    (h : isScalarOp op = true) :
    eval (f + 1) env (.bin op a b) σ =
      (match eval f env a σ with
       | (.error e, σ1) => (.error e, σ1)
       | (.ok x, σ1) =>
         match eval f env b σ1 with
         | (.error e, σ2) => (.error e, σ2)
         | (.ok y, σ2) => (binScalar op x y, σ2)) := by
  cases op <;> simp [isScalarOp] at h <;>
    (simp only [eval, bind_def, liftE]
     cases eval f env a σ with
     | mk r σ1 => cases r <;> simp only [] <;> (try rfl)
                  cases eval f env b σ1 with
                  | mk r2 σ2 => cases r2 <;> rfl)

/-- `&&`: the right operand is evaluated only when the left one is `true` -/
theorem and_short_circuit (f : Nat) (env : Env) (a b : Expr) (σ σ1 : St)
    (h : eval f env a σ = (.ok (.bool false), σ1)) :
    eval (f + 1) env (.and a b) σ = (.ok (.bool false), σ1) := by
  simp only [eval, bind_def, h, liftE, asBool]; rfl

theorem and_evaluates_right (f : Nat) (env : Env) (a b : Expr) (σ σ1 : St)
    (h : eval f env a σ = (.ok (.bool true), σ1)) :
    eval (f + 1) env (.and a b) σ = eval f env b σ1 := by
  simp only [eval, bind_def, h, liftE, asBool]; rfl

/-- `||`: the right operand is evaluated only when the left one is `false` -/
theorem or_short_circuit (f : Nat) (env : Env) (a b : Expr) (σ σ1 : St)
    (h : eval f env a σ = (.ok (.bool true), σ1)) :
    eval (f + 1) env (.or a b) σ = (.ok (.bool true), σ1) := by
  simp only [eval, bind_def, h, liftE, asBool]; rfl

theorem or_evaluates_right (f : Nat) (env : Env) (a b : Expr) (σ σ1 : St)
    (h : eval f env a σ = (.ok (.bool false), σ1)) :
    eval (f + 1) env (.or a b) σ = eval f env b σ1 := by
  simp only [eval, bind_def, h, liftE, asBool]; rfl

/-- expression lists (array / tuple elements, call arguments): first element, then the rest -/
theorem list_left_to_right (f : Nat) (env : Env) (e : Expr) (es : List Expr) :
    evalList (f + 1) env (e :: es) = (do
      let v ← eval f env e
      let vs ← evalList f env es
      pure (v :: vs)) := by
  simp only [evalList]

theorem struct_fields_in_order (f : Nat) (env : Env) (k : String) (e : Expr)
    (es : List (String × Expr)) :
    evalFields (f + 1) env ((k, e) :: es) = (do
      let v ← eval f env e
      let vs ← evalFields f env es
      pure ((k, v) :: vs)) := by
  simp only [evalFields]

/-- a call evaluates the function, then the arguments left to right, then calls -/
theorem call_function_then_arguments (f : Nat) (env : Env) (g : Expr) (args : List Expr) :
    eval (f + 1) env (.call g args) = (do
      let fv ← eval f env g
      let vs ← evalList f env args
      callFn f fv vs) := by
  simp only [eval]

theorem array_elements_in_order (f : Nat) (env : Env) (es : List Expr) :
    eval (f + 1) env (.array es) = (do
      let vs ← evalList f env es
      pure (Val.mkArray vs)) := by
  simp only [eval]

theorem tuple_elements_in_order (f : Nat) (env : Env) (es : List Expr) :
    eval (f + 1) env (.tuple es) = (do
      let vs ← evalList f env es
      pure (.tup vs)) := by
  simp only [eval]

theorem repeat_value_then_length (f : Nat) (env : Env) (v n : Expr) :
    eval (f + 1) env (.arrayRepeat v n) = (do
      let v ← eval f env v
      let n ← eval f env n
      match n with
      | .int n =>
        if n.toInt < 0 then throwS (.err .NegativeLength)
        else pure (.arr v.asType (List.replicate n.toInt.toNat v))
      | _ => wrong "array length is not an int") := by
  simp only [eval]; rfl

/-- slicing: the sequence, then start, stop, step -/
theorem slice_operand_then_bounds (f : Nat) (env : Env) (a : Expr) (s e st : Option Expr) :
    eval (f + 1) env (.slice a s e st) = (do
      let x ← eval f env a
      let s ← evalOpt f env s
      let e ← evalOpt f env e
      let st ← evalOpt f env st
      liftE (sliceVal x s e st)) := by
  simp only [eval]

theorem index_operand_then_index (f : Nat) (env : Env) (a i : Expr) :
    eval (f + 1) env (.at a i) = (do
      let x ← eval f env a
      let y ← eval f env i
      liftE (atVal x y)) := by
  simp only [eval]

/-- assignment: the target, then the value, then (for `op=`) read – compute – write -/
theorem assign_target_then_value (f : Nat) (env : Env) (op : AssignOp) (t v : Expr) :
    eval (f + 1) env (.assign op t v) = (do
      let c ← eval f env t
      let v ← eval f env v
      match c with
      | .cell loc _ =>
        match assignBase op with
        | none => do writeCell loc v; pure v
        | some bop => do
          let cur ← readCell loc
          let r ← liftE (binScalar bop cur v)
          writeCell loc r
          pure r
      | _ => wrong "assignment to a non-cell") := by
  simp only [eval]; rfl

theorem reduce_iterator_initial_function (f : Nat) (env : Env) (it init g : Expr) :
    eval (f + 1) env (.reduce it init g) = (do
      let it ← eval f env it
      let init ← eval f env init
      let g ← eval f env g
      reduceGo f it init (.inr g)) := by
  simp only [eval]

/-- only the chosen branch of `if` is evaluated -/
theorem if_true_branch_only (f : Nat) (env : Env) (c t : Expr) (e : Option Expr) (σ σ1 : St)
    (h : eval f env c σ = (.ok (.bool true), σ1)) :
    eval (f + 1) env (.ifElse c t e) σ = eval f env t σ1 := by
  simp only [eval, bind_def, h, liftE, asBool]; rfl

theorem if_false_branch_only (f : Nat) (env : Env) (c t e : Expr) (σ σ1 : St)
    (h : eval f env c σ = (.ok (.bool false), σ1)) :
    eval (f + 1) env (.ifElse c t (some e)) σ = eval f env e σ1 := by
  simp only [eval, bind_def, h, liftE, asBool]; rfl

theorem if_false_no_else (f : Nat) (env : Env) (c t : Expr) (σ σ1 : St)
    (h : eval f env c σ = (.ok (.bool false), σ1)) :
    eval (f + 1) env (.ifElse c t none) σ = (.ok .unit, σ1) := by
  simp only [eval, bind_def, h, liftE, asBool]; rfl

/-- match: the scrutinee once, then the arms top to bottom -/
theorem match_scrutinee_once (f : Nat) (env : Env) (e : Expr) (arms : List Arm) :
    eval (f + 1) env (.matchE e arms) = (do
      let v ← eval f env e
      evalArms f env v arms) := by
  simp only [eval]

/-- value candidates are evaluated left to right and evaluation stops at the first equal one -/
theorem candidates_until_first_hit (f : Nat) (env : Env) (v : Val) (c : Expr) (cs : List Expr) :
    candGo (f + 1) env v (c :: cs) = (do
      let w ← eval f env c
      if veq w v then pure true else candGo f env v cs) := by
  simp only [candGo]

theorem value_arm_then_next_arm (f : Nat) (env : Env) (v : Val) (cands : List Expr) (body : Expr)
    (rest : List Arm) :
    evalArms (f + 1) env v (.val cands body :: rest) = (do
      let hit ← candGo f env v cands
      if hit then eval f env body else evalArms f env v rest) := by
  simp only [evalArms]

/-- an arm that is not selected does not evaluate its body -/
theorem type_arm_skipped (f : Nat) (env : Env) (v : Val) (x : String) (t : Ty) (body : Expr)
    (rest : List Arm) (h : Ty.sub v.asType t = false) :
    evalArms (f + 1) env v (.ty x t body :: rest) = evalArms f env v rest := by
  simp only [evalArms, h]; rfl

end Ssl.C07
