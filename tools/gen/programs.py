"""Seeded, type-directed generator of SimpleSL programs (mostly accepted by the checker).
Every program starts with a log cell and marker functions, so that evaluation order and control
flow are observable; it ends with `(result, *log)`.  All random choices come from one
random.Random."""
from gen import types as T
from gen.ast import MIN

INT, BOOL, FLOAT, STR, VOID, ANY, NEVER = ("int",), ("bool",), ("float",), ("str",), ("void",), ("any",), ("never",)


def arr(t):
    return ("arr", t)


def tup(*ts):
    return ("tup", tuple(ts))


def fn(ps, r):
    return ("fn", tuple(ps), r)


def cell(t):
    return ("cell", t)


def iter_of(t):
    return fn((), tup(BOOL, t))


def multi(*ms):
    return T.mk_multi(list(ms))


S_AB = ("struct", (("a", INT), ("b", STR)))
U_IS = multi(INT, STR)
U_IV = multi(INT, VOID)
U_IFS = multi(INT, FLOAT, STR)

VALUE_TYPES = [INT, INT, INT, BOOL, FLOAT, STR, arr(INT), arr(STR), arr(ANY), tup(INT, STR), tup(BOOL, INT),
               S_AB, U_IS, U_IV, U_IFS, arr(U_IS), ANY]
MARKED = {"int": "mi", "bool": "mb", "float": "mf", "str": "ms"}


class Scope:
    def __init__(self, parent=None, in_loop=False, fn_ret=None, is_fn=False):
        self.vars = {}
        self.parent = parent
        self.in_loop = in_loop if not is_fn else False
        self.fn_ret = fn_ret if is_fn else (parent.fn_ret if parent else None)
        self.in_fn = is_fn or (parent.in_fn if parent else False)
        if parent and not is_fn:
            self.in_loop = in_loop or parent.in_loop

    def visible(self):
        out = {}
        s = self
        chain = []
        while s:
            chain.append(s)
            s = s.parent
        for s in reversed(chain):
            out.update(s.vars)
        return out

    def declare(self, name, ty):
        self.vars[name] = ty


class ProgGen:
    def __init__(self, rnd, max_depth=3, stmts=(3, 8), features=None):
        self.r = rnd
        self.max_depth = max_depth
        self.stmts = stmts
        self.counter = 0
        self.marker = 0
        self.stats = {}
        self.features = features or {}

    # ------------------------------------------------------------------ helpers
    def stat(self, k):
        self.stats[k] = self.stats.get(k, 0) + 1

    def fresh(self, prefix="x"):
        self.counter += 1
        return "%s%d" % (prefix, self.counter)

    def pick_name(self, scope):
        """mostly fresh names, sometimes re-declare / shadow a visible one"""
        vis = [n for n in scope.visible() if n[0] in "xyzc" and not n.startswith("cnt")]
        if vis and self.r.random() < 0.25:
            self.stat("shadow")
            return self.r.choice(vis)
        return self.fresh()

    def vars_of(self, scope, pred):
        return [n for n, t in scope.visible().items() if pred(t)]

    def mark(self, t, e):
        """wrap e in a marker call that appends a fresh id to the log (observability)"""
        if t[0] in MARKED and self.r.random() < self.features.get("mark", 0.35):
            self.marker += 1
            return ("call", ("id", MARKED[t[0]]), [("i", self.marker), e])
        return e

    # ------------------------------------------------------------------ expressions
    def expr(self, t, scope, d):
        """an expression whose static type matches t"""
        k = t[0]
        self.stat("expr:" + k)
        if k == "int":
            return self.mark(t, self.e_int(scope, d))
        if k == "bool":
            return self.mark(t, self.e_bool(scope, d))
        if k == "float":
            return self.mark(t, self.e_float(scope, d))
        if k == "str":
            return self.mark(t, self.e_str(scope, d))
        if k == "void":
            return ("unit",)
        if k == "any":
            return self.expr(self.r.choice(VALUE_TYPES[:-1]), scope, d)
        if k == "multi":
            return self.expr(self.r.choice(t[1]), scope, d)
        if k == "arr":
            return self.e_arr(t[1], scope, d)
        if k == "tup":
            vs = self.vars_of(scope, lambda u: u == t)
            if vs and self.r.random() < 0.3:
                return ("id", self.r.choice(vs))
            return ("tuple", [self.expr(x, scope, d - 1) for x in t[1]])
        if k == "struct":
            vs = self.vars_of(scope, lambda u: u == t)
            if vs and self.r.random() < 0.3:
                return ("id", self.r.choice(vs))
            fs = [(f, self.expr(x, scope, d - 1)) for f, x in t[1]]
            self.r.shuffle(fs)
            return ("struct", fs)
        if k == "cell":
            vs = self.vars_of(scope, lambda u: u == t)
            if vs and self.r.random() < 0.6:
                return ("id", self.r.choice(vs))
            return ("mut", t[1], self.expr(t[1], scope, d - 1))
        if k == "fn":
            if t[1] == () and t[2][0] == "tup" and len(t[2][1]) == 2 and t[2][1][0] == BOOL:
                return self.e_iter(t[2][1][1], scope, d)
            vs = self.vars_of(scope, lambda u: u == t)
            if vs and self.r.random() < 0.5:
                return ("id", self.r.choice(vs))
            return self.fn_literal(t, scope, d)
        if k == "never":
            return ("array", [])
        raise ValueError(t)

    def var_or(self, t, scope, alt):
        vs = self.vars_of(scope, lambda u: u == t)
        if vs and self.r.random() < 0.55:
            return ("id", self.r.choice(vs))
        return alt()

    def lit_int(self):
        return ("i", self.r.choice([0, 1, 2, 3, 5, 7, 10, -1, -2, -7, 63, 64, 100, 2**31, 2**63 - 1, MIN, 255]))

    def small_int(self, lo=0, hi=4):
        return ("i", self.r.randint(lo, hi))

    def e_int(self, scope, d):
        r = self.r
        if d <= 0:
            return self.var_or(INT, scope, self.lit_int)
        c = r.random()
        if c < 0.14:
            return self.var_or(INT, scope, self.lit_int)
        if c < 0.34:
            op = r.choice(["add", "sub", "mul", "band", "bor", "bxor"])
            return ("bin", op, self.expr(INT, scope, d - 1), self.expr(INT, scope, d - 1))
        if c < 0.40:
            op = r.choice(["div", "mod"])
            divisor = ("i", r.choice([1, 2, 3, -1, -2, 7])) if r.random() < 0.92 else self.expr(INT, scope, d - 1)
            return ("bin", op, self.expr(INT, scope, d - 1), divisor)
        if c < 0.44:
            return ("bin", "pow", self.expr(INT, scope, d - 1), self.small_int(0, 5) if r.random() < 0.97 else ("i", -1))
        if c < 0.48:
            amt = self.small_int(0, 6) if r.random() < 0.97 else ("i", r.choice([63, 64, -1]))
            return ("bin", r.choice(["shl", "shr"]), self.expr(INT, scope, d - 1), amt)
        if c < 0.52:
            return ("pre", r.choice(["neg", "not"]), self.expr(INT, scope, d - 1))
        if c < 0.58:
            arrs = self.vars_of(scope, lambda u: u == arr(INT))
            a = ("id", r.choice(arrs)) if arrs and r.random() < 0.7 else ("array", [self.expr(INT, scope, d - 1) for _ in range(r.randint(1, 3))])
            n = len(a[1]) if a[0] == "array" else 2
            idx = ("i", r.randint(-n, n - 1)) if r.random() < 0.97 else ("i", r.choice([5, -6, 99]))
            return ("at", a, idx)
        if c < 0.62:
            ts = self.vars_of(scope, lambda u: u[0] == "tup" and INT in u[1])
            if ts:
                v = r.choice(ts)
                return ("tacc", ("id", v), list(scope.visible()[v][1]).index(INT))
            return ("tacc", ("tuple", [self.expr(INT, scope, d - 1), self.expr(STR, scope, d - 1)]), 0)
        if c < 0.65:
            ss = self.vars_of(scope, lambda u: u == S_AB)
            base = ("id", r.choice(ss)) if ss else self.expr(S_AB, scope, d - 1)
            return ("facc", base, "a")
        if c < 0.72:
            cs = [n for n in self.vars_of(scope, lambda u: u == cell(INT)) if not n.startswith("cnt")]
            if cs:
                cv = ("id", r.choice(cs))
                if r.random() < 0.5:
                    return ("pre", "deref", cv)
                op = r.choice(["set", "add", "sub", "mul", "band", "bor", "bxor", "add", "shl", "div", "mod", "pow"])
                rhs = self.expr(INT, scope, d - 1)
                if op in ("div", "mod"):
                    rhs = ("i", r.choice([1, 2, 3, -2])) if r.random() < 0.9 else rhs
                if op in ("shl", "pow"):
                    rhs = self.small_int(0, 4)
                self.stat("assign:" + op)
                return ("assign", op, cv, rhs)
            return ("pre", "deref", ("mut", INT, self.expr(INT, scope, d - 1)))
        if c < 0.80:
            fs = self.vars_of(scope, lambda u: u[0] == "fn" and u[2] == INT and u[1] != () and all(p in (INT, BOOL, STR, ANY, U_IS) for p in u[1]))
            fs = [f for f in fs if not f.startswith("m") and not f.startswith("rec")]
            if fs:
                f = r.choice(fs)
                ft = scope.visible()[f]
                return ("call", ("id", f), [self.expr(p, scope, d - 1) for p in ft[1]])
            return self.var_or(INT, scope, self.lit_int)
        if c < 0.84:
            x = self.expr(r.choice([arr(INT), STR, arr(ANY)]), scope, d - 1)
            return ("call", ("facc", ("id", "std"), "len"), [x])
        if c < 0.93:
            it = self.e_iter(INT, scope, d - 1)
            op = r.choice(["sum", "product", "bitand", "bitor", "sum"])
            self.stat("reduce:" + op)
            return ("post", op, it)
        # user reduce with a function literal
        it = self.e_iter(INT, scope, d - 1)
        f = ("fn", [("acc", INT), ("cur", INT)], INT,
             [("return", ("bin", r.choice(["add", "sub", "mul", "bxor"]), ("id", "acc"), ("id", "cur")))])
        self.stat("reduce:user")
        return ("reduce", it, self.expr(INT, scope, d - 1), f)

    def e_bool(self, scope, d):
        r = self.r
        if d <= 0:
            return self.var_or(BOOL, scope, lambda: (r.choice(["true", "false"]),))
        c = r.random()
        if c < 0.15:
            return self.var_or(BOOL, scope, lambda: (r.choice(["true", "false"]),))
        if c < 0.40:
            t = r.choice([INT, INT, FLOAT])
            return ("bin", r.choice(["gt", "ge", "lt", "le"]), self.expr(t, scope, d - 1), self.expr(t, scope, d - 1))
        if c < 0.58:
            t = r.choice([INT, STR, BOOL, arr(INT), tup(INT, STR), U_IS, S_AB, FLOAT, arr(ANY), VOID])
            self.stat("eq:" + t[0])
            return ("bin", r.choice(["eq", "ne"]), self.expr(t, scope, d - 1), self.expr(t, scope, d - 1))
        if c < 0.76:
            return (r.choice(["and", "or"]), self.expr(BOOL, scope, d - 1), self.expr(BOOL, scope, d - 1))
        if c < 0.82:
            return ("pre", "not", self.expr(BOOL, scope, d - 1))
        if c < 0.90:
            return ("bin", r.choice(["band", "bor", "bxor"]), self.expr(BOOL, scope, d - 1), self.expr(BOOL, scope, d - 1))
        it = self.e_iter(BOOL, scope, d - 1)
        return ("post", r.choice(["all", "any"]), it)

    def e_float(self, scope, d):
        r = self.r
        lit = lambda: ("f", r.choice([0.0, 0.5, 1.0, 2.5, -1.5, 1e10, 3.25, -0.0, 100.0]))
        if d <= 0 or r.random() < 0.3:
            return self.var_or(FLOAT, scope, lit)
        c = r.random()
        if c < 0.75:
            return ("bin", r.choice(["add", "sub", "mul", "div"]), self.expr(FLOAT, scope, d - 1), self.expr(FLOAT, scope, d - 1))
        if c < 0.85:
            return ("pre", "neg", self.expr(FLOAT, scope, d - 1))
        return ("post", r.choice(["sum", "product"]), self.e_iter(FLOAT, scope, d - 1))

    def e_str(self, scope, d):
        r = self.r
        lit = lambda: ("s", r.choice(["", "a", "bc", "héllo", "x y", "q\"uote", "\U0001F600z", "tab\\", "abcdef"]))
        if d <= 0 or r.random() < 0.3:
            return self.var_or(STR, scope, lit)
        c = r.random()
        if c < 0.4:
            return ("bin", "add", self.expr(STR, scope, d - 1), self.expr(STR, scope, d - 1))
        if c < 0.55:
            return ("at", ("s", "abcdé"), ("i", r.randint(-5, 4)))
        if c < 0.8:
            return self.slice_of(self.expr(STR, scope, d - 1), scope, d)
        if c < 0.9:
            return ("post", "sum", self.e_iter(STR, scope, d - 1))
        ss = self.vars_of(scope, lambda u: u == S_AB)
        base = ("id", r.choice(ss)) if ss else self.expr(S_AB, scope, d - 1)
        return ("facc", base, "b")

    def slice_of(self, base, scope, d):
        r = self.r
        def b():
            c = r.random()
            if c < 0.35:
                return None
            if c < 0.9:
                return ("i", r.randint(-4, 5))
            return self.expr(INT, scope, d - 1)
        step = None if r.random() < 0.5 else ("i", r.choice([1, 2, -1, -2, 3, 0]))
        return ("slice", base, b(), b(), step)

    def e_arr(self, et, scope, d):
        r = self.r
        t = arr(et)
        if d <= 0:
            return self.var_or(t, scope, lambda: self.arr_lit(et, scope, 0, 0))
        c = r.random()
        vs = self.vars_of(scope, lambda u: u == t)
        if vs and c < 0.2:
            return ("id", r.choice(vs))
        if c < 0.55 or et[0] == "never":
            return self.arr_lit(et, scope, d - 1, r.randint(0, 3)) if et[0] != "never" else ("array", [])
        if c < 0.65:
            return ("repeat", self.expr(et, scope, d - 1), self.small_int(0, 3) if r.random() < 0.98 else ("i", -1))
        if c < 0.78:
            return ("bin", "add", self.e_arr(et, scope, d - 1), self.e_arr(et, scope, d - 1))
        if c < 0.88:
            return self.slice_of(self.e_arr(et, scope, d - 1), scope, d)
        if et in (INT, STR, BOOL, FLOAT):
            return ("post", "collect", self.e_iter(et, scope, d - 1))
        return self.arr_lit(et, scope, d - 1, r.randint(0, 2))

    def e_iter(self, et, scope, d):
        """an expression of type () -> (bool, et)"""
        r = self.r
        t = iter_of(et)
        vs = self.vars_of(scope, lambda u: u == t)
        c = r.random()
        if vs and c < 0.25:
            self.stat("iter:var")
            return ("id", r.choice(vs))
        if d <= 0 or c < 0.55:
            self.stat("iter:array")
            n = r.randint(0, 4)
            return ("post", "iter", self.arr_lit(et, scope, max(d - 1, 0), n))
        if c < 0.75 and et in (INT, STR, BOOL, FLOAT):
            self.stat("iter:map")
            src_t = r.choice([INT, INT, STR]) if et != INT else INT
            f = ("fn", [("e", src_t)], et, [("return", self.expr(et, self.fn_scope(scope, [("e", src_t)], et), min(d - 1, 1)))])
            return ("bin", "map", self.e_iter(src_t, scope, d - 1), f)
        if c < 0.88 and et in (INT, STR):
            self.stat("iter:filter")
            p = ("fn", [("e", et)], BOOL, [("return", self.expr(BOOL, self.fn_scope(scope, [("e", et)], BOOL), min(d - 1, 1)))])
            return ("bin", "filter", self.e_iter(et, scope, d - 1), p)
        if et in (INT, STR):
            self.stat("iter:tfilter")
            mixed = ("post", "iter", ("array", [self.expr(r.choice([INT, STR, BOOL]), scope, 0) for _ in range(r.randint(1, 4))]))
            return ("tfilter", mixed, et)
        self.stat("iter:array")
        return ("post", "iter", self.arr_lit(et, scope, 0, r.randint(0, 3)))

    def arr_lit(self, et, scope, d, n):
        """array literal of n elements; an empty one is written `[e; 0]` so that it keeps the element type
        (`[]` is a `[!]`, and reducers over `[!]~` are the known finding F-never; kept at a low rate)"""
        if n == 0 and self.r.random() > self.features.get("bare_empty", 0.03):
            return ("repeat", self.expr(et, scope, 0), ("i", 0))
        return ("array", [self.expr(et, scope, d) for _ in range(n)])

    def fn_scope(self, scope, params, ret):
        s = Scope(scope, is_fn=True, fn_ret=ret)
        for x, t in params:
            s.declare(x, t)
        return s

    def fn_literal(self, t, scope, d):
        ps = [(self.fresh("p"), p) for p in t[1]]
        s = self.fn_scope(scope, ps, t[2])
        body = self.stmts_list(s, d - 1, self.r.randint(0, 2))
        body.append(("return", self.expr(t[2], s, max(d - 1, 0)) if t[2] != VOID else None))
        self.stat("fn-literal")
        return ("fn", ps, t[2], body)

    # ------------------------------------------------------------------ statements
    def stmts_list(self, scope, d, n):
        out = []
        for _ in range(n):
            out.extend(self.stmt(scope, d))
        return out

    def stmt(self, scope, d):
        """one or more statements (a template may need a preamble); declares into scope"""
        r = self.r
        kinds = [("decl", 30), ("cell", 10), ("assign", 12), ("destruct", 5), ("fndecl", 8), ("block", 6), ("if", 10),
                 ("ifset", 6), ("match", 7), ("for", 7), ("while", 5), ("loop", 3), ("capture", 6), ("useriter", 5),
                 ("mod", 3), ("whileset", 3), ("exprstmt", 6)]
        w = self.features.get("weights")
        if w:
            kinds = [(k, w.get(k, v)) for k, v in kinds]
        if scope.in_fn and scope.fn_ret is not None:
            kinds.append(("earlyreturn", 5))
        if scope.in_loop:
            kinds.append(("breakcont", 10))
        if d <= 0:
            kinds = [k for k in kinds if k[0] in ("decl", "cell", "assign", "exprstmt", "breakcont", "earlyreturn")]
        total = sum(w for _, w in kinds)
        x = r.uniform(0, total)
        for k, w in kinds:
            x -= w
            if x <= 0:
                break
        self.stat("stmt:" + k)
        return getattr(self, "s_" + k)(scope, d)

    def s_decl(self, scope, d):
        t = self.r.choice(VALUE_TYPES + [fn((INT,), INT), iter_of(INT), fn((INT, INT), INT), fn((INT,), BOOL)])
        e = self.expr(t, scope, d)
        # a function literal bound with := is a *declaration* (the body sees the name as the function)
        name = self.fresh() if t[0] == "fn" else self.pick_name(scope)
        # the checker types the name by the expression it is bound to; by construction that is t or narrower.
        # A narrower static type only matters for unions / any, where we bind through an annotated function.
        if t[0] in ("multi", "any"):
            return self.decl_via_param(name, t, e, scope)
        scope.declare(name, t)
        return [("set", name, e)]

    def decl_via_param(self, name, t, e, scope):
        """give `name` exactly the static type t: x := (v: t) -> t { return v }(e) is not expressible, so
        bind a one-armed identity function first"""
        f = self.fresh("idf")
        scope.declare(f, fn((t,), t))
        scope.declare(name, t)
        return [("fndecl", f, [("v", t)], t, [("return", ("id", "v"))]), ("set", name, ("call", ("id", f), [e]))]

    def s_cell(self, scope, d):
        t = self.r.choice([INT, INT, INT, STR, arr(ANY), U_IS, BOOL, FLOAT, arr(INT)])
        name = self.fresh("c")
        e = ("mut", t, self.expr(t, scope, d))
        scope.declare(name, cell(t))
        out = [("set", name, e)]
        if self.r.random() < 0.3:
            alias = self.fresh("c")
            scope.declare(alias, cell(t))
            out.append(("set", alias, ("id", name)))
            self.stat("alias")
        return out

    def s_assign(self, scope, d):
        r = self.r
        cs = [(n, t) for n, t in scope.visible().items() if t[0] == "cell" and n != "log" and not n.startswith("cnt")]
        if not cs:
            return self.s_cell(scope, d)
        n, t = r.choice(cs)
        ct = t[1]
        if ct == INT:
            op = r.choice(["set", "add", "sub", "mul", "div", "mod", "pow", "shl", "shr", "band", "bor", "bxor"])
            rhs = self.expr(INT, scope, d)
            if op in ("div", "mod") and r.random() < 0.9:
                rhs = ("i", r.choice([1, 2, 5, -3]))
            if op in ("shl", "shr", "pow") and r.random() < 0.97:
                rhs = self.small_int(0, 5)
        elif ct == FLOAT:
            op = r.choice(["set", "add", "sub", "mul", "div"])
            rhs = self.expr(FLOAT, scope, d)
        elif ct == STR:
            op = r.choice(["set", "add"])
            rhs = self.expr(STR, scope, d)
        elif ct == BOOL:
            op = r.choice(["set", "band", "bor", "bxor"])
            rhs = self.expr(BOOL, scope, d)
        elif ct[0] == "arr":
            op = r.choice(["set", "add"])
            rhs = self.e_arr(ct[1], scope, d)
        else:
            op = "set"
            rhs = self.expr(ct, scope, d)
        self.stat("assign:" + op)
        return [("assign", op, ("id", n), rhs)]

    def s_destruct(self, scope, d):
        t = self.r.choice([tup(INT, STR), tup(BOOL, INT), tup(INT, INT)])
        e = self.expr(t, scope, d) if t != tup(INT, INT) else ("tuple", [self.expr(INT, scope, d - 1), self.expr(INT, scope, d - 1)])
        a, b = self.pick_name(scope), self.fresh()
        scope.declare(a, t[1][0])
        scope.declare(b, t[1][1])
        return [("destruct", [a, b], e)]

    def s_fndecl(self, scope, d):
        r = self.r
        name = self.fresh("f")
        if r.random() < 0.3:
            # bounded recursion by name: rec(n) = if n <= 0 { base } else { step(rec(n - 1)) }
            name = self.fresh("rec")
            ps = [("n", INT)]
            s = self.fn_scope(scope, ps, INT)
            base = self.expr(INT, s, 1)
            body = [("if", ("bin", "le", ("id", "n"), ("i", 0)), ("block", [("return", base)]), None),
                    ("return", ("bin", r.choice(["add", "mul", "bxor"]),
                                ("call", ("id", name), [("bin", "sub", ("id", "n"), ("i", 1))]), self.expr(INT, s, 1)))]
            scope.declare(name, fn((INT,), INT))
            self.stat("fn:recursive")
            return [("fndecl", name, ps, INT, body), ("set", self.fresh(), ("call", ("id", name), [("i", r.randint(0, 4))]))]
        pts = [r.choice([INT, INT, STR, BOOL, U_IS, ANY]) for _ in range(r.randint(0, 2))]
        ret = r.choice([INT, INT, BOOL, STR, VOID, U_IS, arr(INT)])
        ps = [(self.fresh("p"), p) for p in pts]
        s = self.fn_scope(scope, ps, ret)
        body = self.stmts_list(s, d - 1, r.randint(0, 3))
        body.append(("return", self.expr(ret, s, max(d - 1, 0)) if ret != VOID else None))
        scope.declare(name, fn(tuple(pts), ret))
        return [("fndecl", name, ps, ret, body)]

    def s_block(self, scope, d):
        s = Scope(scope)
        body = self.stmts_list(s, d - 1, self.r.randint(1, 3))
        return [("block", body)]

    def branch(self, scope, d, t=None):
        s = Scope(scope)
        body = self.stmts_list(s, d - 1, self.r.randint(0, 2))
        if t is not None:
            body.append(self.expr(t, s, max(d - 1, 0)))
        return ("block", body)

    def s_if(self, scope, d):
        r = self.r
        c = self.expr(BOOL, scope, d)
        if r.random() < 0.5:
            t = r.choice([INT, STR, BOOL])
            t2 = t if r.random() < 0.6 else r.choice([INT, STR])
            name = self.pick_name(scope)
            node = ("if", c, self.branch(scope, d, t), self.branch(scope, d, t2))
            rt = multi(t, t2)
            if rt[0] == "multi":
                scope.declare(name, rt)
            else:
                scope.declare(name, rt)
            return [("set", name, node)]
        return [("if", c, self.branch(scope, d), self.branch(scope, d) if r.random() < 0.6 else None)]

    def union_var(self, scope, d):
        """(preamble, name, type) of a visible variable of union type"""
        vs = [(n, t) for n, t in scope.visible().items() if t in (U_IS, U_IV, U_IFS)]
        if vs and self.r.random() < 0.6:
            n, t = self.r.choice(vs)
            return [], n, t
        t = self.r.choice([U_IS, U_IV, U_IFS])
        n = self.fresh("u")
        pre = self.decl_via_param(n, t, self.expr(t, scope, d - 1), scope)
        return pre, n, t

    def s_ifset(self, scope, d):
        pre, n, t = self.union_var(scope, d)
        m = self.r.choice(t[1])
        s = Scope(scope)
        y = self.fresh("y")
        s.declare(y, m)
        body = ("block", self.stmts_list(s, d - 1, self.r.randint(1, 2)))
        els = self.branch(scope, d) if self.r.random() < 0.6 else None
        return pre + [("ifset", y, m, ("id", n), body, els)]

    def s_match(self, scope, d):
        r = self.r
        pre, n, t = self.union_var(scope, d)
        arms = []
        members = list(t[1])
        r.shuffle(members)
        rt = r.choice([INT, STR])
        if self.features.get("value_arms", True) and INT in members and r.random() < 0.5:
            s = Scope(scope)
            cands = [self.expr(INT, scope, 0) for _ in range(r.randint(1, 3))]
            arms.append(("val", cands, ("block", self.stmts_list(s, d - 1, r.randint(0, 1)) + [self.expr(rt, s, 0)])))
            self.stat("match:value-arm")
        use_other = r.random() < 0.3
        for m in members[: (len(members) - 1 if use_other else len(members))]:
            s = Scope(scope)
            y = self.fresh("y")
            s.declare(y, m)
            arms.append(("ty", y, m, ("block", self.stmts_list(s, d - 1, r.randint(0, 1)) + [self.expr(rt, s, max(d - 1, 0))])))
        if use_other:
            s = Scope(scope)
            arms.append(("other", ("block", [self.expr(rt, s, 0)])))
        name = self.pick_name(scope)
        scope.declare(name, rt)
        return pre + [("set", name, ("match", ("id", n), arms))]

    def loop_body(self, scope, d, extra=None):
        s = Scope(scope, in_loop=True)
        for x, t in (extra or []):
            s.declare(x, t)
        return ("block", self.stmts_list(s, d - 1, self.r.randint(1, 3)))

    def s_for(self, scope, d):
        et = self.r.choice([INT, INT, STR])
        it = self.e_iter(et, scope, d - 1)
        x = self.pick_name(scope)
        return [("for", x, it, self.loop_body(scope, d, [(x, et)]))]

    def s_while(self, scope, d):
        cnt = self.fresh("cnt")
        scope.declare(cnt, cell(INT))
        n = self.r.randint(0, 4)
        s = Scope(scope, in_loop=True)
        body = [("assign", "add", ("id", cnt), ("i", 1))] + self.stmts_list(s, d - 1, self.r.randint(0, 2))
        return [("set", cnt, ("mut", INT, ("i", 0))),
                ("while", ("bin", "lt", ("pre", "deref", ("id", cnt)), ("i", n)), ("block", body))]

    def s_loop(self, scope, d):
        cnt = self.fresh("cnt")
        scope.declare(cnt, cell(INT))
        n = self.r.randint(0, 3)
        s = Scope(scope, in_loop=True)
        body = [("assign", "add", ("id", cnt), ("i", 1)),
                ("if", ("bin", "gt", ("pre", "deref", ("id", cnt)), ("i", n)), ("block", [("break",)]), None)]
        body += self.stmts_list(s, d - 1, self.r.randint(0, 2))
        return [("set", cnt, ("mut", INT, ("i", 0))), ("loop", ("block", body))]

    def s_whileset(self, scope, d):
        """pull from an iterator with `while x: (bool, int) = ...`-like narrowing: the pulled union narrows to int"""
        r = self.r
        q = self.fresh("q")
        f = self.fresh("nx")
        cntn = self.fresh("cnt")
        n = r.randint(0, 3)
        scope.declare(cntn, cell(INT))
        scope.declare(f, fn((), U_IV))
        body_fn = [("assign", "add", ("id", cntn), ("i", 1)),
                   ("if", ("bin", "le", ("pre", "deref", ("id", cntn)), ("i", n)),
                    ("block", [("return", ("bin", "mul", ("pre", "deref", ("id", cntn)), ("i", 3)))]), None),
                   ("return", ("unit",))]
        return [("set", cntn, ("mut", INT, ("i", 0))),
                ("fndecl", f, [], U_IV, body_fn),
                ("whileset", q, INT, ("call", ("id", f), []), self.loop_body(scope, d, [(q, INT)]))]

    def s_breakcont(self, scope, d):
        c = self.expr(BOOL, scope, min(d, 1))
        return [("if", c, ("block", [(self.r.choice(["break", "continue"]),)]), None)]

    def s_earlyreturn(self, scope, d):
        c = self.expr(BOOL, scope, min(d, 1))
        rt = scope.fn_ret
        return [("if", c, ("block", [("return", self.expr(rt, scope, 1) if rt != VOID else None)]), None)]

    def s_exprstmt(self, scope, d):
        t = self.r.choice([INT, BOOL, STR])
        return [self.expr(t, scope, d)]

    def s_capture(self, scope, d):
        """closure created, captured name re-declared afterwards, closure called: capture by value"""
        r = self.r
        v = self.fresh("x")
        f = self.fresh("g")
        c = self.fresh("c")
        e1, e2 = self.expr(INT, scope, 1), self.expr(INT, scope, 1)
        scope.declare(v, INT)
        scope.declare(c, cell(INT))
        scope.declare(f, fn((), INT))
        out = [("set", v, e1), ("set", c, ("mut", INT, ("i", r.randint(0, 9)))),
               ("fndecl" if r.random() < 0.5 else "set", f) + (
                   ([], INT, [("return", ("bin", "add", ("id", v), ("pre", "deref", ("id", c))))]))]
        if out[-1][0] == "set":
            out[-1] = ("set", f, ("fn", [], INT, [("return", ("bin", "add", ("id", v), ("pre", "deref", ("id", c))))]))
        out += [("set", v, e2), ("assign", "add", ("id", c), ("i", 100)),
                ("set", self.fresh(), ("call", ("id", f), []))]
        self.stat("capture-then-redeclare")
        return out

    def s_useriter(self, scope, d):
        """a user-written iterator that declares local names (colliding with the consumer's), consumed by
        a randomly chosen operator"""
        r = self.r
        cnt = self.fresh("cnt")
        it = self.fresh("it")
        victim = self.vars_of(scope, lambda u: u == INT)
        local = r.choice(victim) if victim and r.random() < 0.7 else self.fresh("x")
        n = r.randint(0, 4)
        k = r.randint(1, 5)
        body = [("assign", "add", ("id", cnt), ("i", 1)),
                ("set", local, ("bin", "mul", ("pre", "deref", ("id", cnt)), ("i", k))),
                ("if", ("bin", "le", ("pre", "deref", ("id", cnt)), ("i", n)),
                 ("block", [("return", ("tuple", [("true",), ("id", local)]))]), None),
                ("return", ("tuple", [("false",), ("i", 0)]))]
        scope.declare(cnt, cell(INT))
        scope.declare(it, iter_of(INT))
        out = [("set", cnt, ("mut", INT, ("i", 0))), ("fndecl" if r.random() < 0.5 else "set", it, None)]
        if out[-1][0] == "fndecl":
            out[-1] = ("fndecl", it, [], tup(BOOL, INT), body)
        else:
            out[-1] = ("set", it, ("fn", [], tup(BOOL, INT), body))
        consumer = r.choice(["collect", "sum", "reduce", "for", "map", "filter", "partition", "tfilter", "bitor", "product"])
        self.stat("useriter:" + consumer)
        res = self.fresh("x")
        I = ("id", it)
        if consumer == "collect":
            scope.declare(res, arr(INT)); out.append(("set", res, ("post", "collect", I)))
        elif consumer in ("sum", "bitor", "product"):
            scope.declare(res, INT); out.append(("set", res, ("post", consumer, I)))
        elif consumer == "reduce":
            scope.declare(res, INT)
            out.append(("set", res, ("reduce", I, ("i", 1), ("fn", [("a", INT), ("b", INT)], INT,
                                                        [("set", local, ("i", 77)), ("return", ("bin", "add", ("id", "a"), ("id", "b")))]))))
        elif consumer == "for":
            x = self.fresh("x")
            out.append(("for", x, I, self.loop_body(scope, min(d, 2), [(x, INT)])))
        elif consumer == "map":
            scope.declare(res, arr(INT))
            out.append(("set", res, ("post", "collect", ("bin", "map", I, ("fn", [("e", INT)], INT, [("return", ("bin", "add", ("id", "e"), ("i", 1)))])))))
        elif consumer == "filter":
            scope.declare(res, arr(INT))
            out.append(("set", res, ("post", "collect", ("bin", "filter", I, ("fn", [("e", INT)], BOOL, [("return", ("bin", "gt", ("id", "e"), ("i", 2)))])))))
        elif consumer == "partition":
            scope.declare(res, tup(arr(INT), arr(INT)))
            out.append(("set", res, ("bin", "partition", I, ("fn", [("e", INT)], BOOL, [("return", ("bin", "eq", ("bin", "mod", ("id", "e"), ("i", 2)), ("i", 0)))]))))
        else:
            scope.declare(res, arr(INT))
            out.append(("set", res, ("post", "collect", ("tfilter", I, INT))))
        return out

    def s_mod(self, scope, d):
        s = Scope(scope)
        body = self.stmts_list(s, d - 1, self.r.randint(1, 3))
        name = self.fresh("m")
        # the module's type is a struct of its top-level names; we only use it through a field we know
        key = self.fresh("k")
        body.append(("set", key, self.expr(INT, s, 1)))
        out = [("set", name, ("mod", body))]
        v = self.fresh("x")
        scope.declare(v, INT)
        out.append(("set", v, ("facc", ("id", name), key)))
        return out

    # ------------------------------------------------------------------ whole programs
    def program(self):
        self.counter = 0
        self.marker = 0
        top = Scope()
        LOG = ("set", "log", ("mut", arr(ANY), ("array", [])))
        pre = [LOG]
        for tn, fnm in (("int", "mi"), ("bool", "mb"), ("float", "mf"), ("str", "ms")):
            t = (tn,)
            pre.append(("fndecl", fnm, [("k", INT), ("v", t)], t,
                        [("assign", "add", ("id", "log"), ("array", [("id", "k")])), ("return", ("id", "v"))]))
            top.declare(fnm, fn((INT, t), t))
        top.declare("log", cell(arr(ANY)))
        top.declare("std", ("struct", ()))
        body = self.stmts_list(top, self.max_depth, self.r.randint(*self.stmts))
        final_t = self.r.choice([INT, BOOL, STR, arr(INT), tup(INT, STR), U_IS, FLOAT])
        cells = [n for n, t in top.vars.items() if t[0] == "cell" and n != "log"]
        observed = [("pre", "deref", ("id", c)) for c in cells[:6]]
        final = ("tuple", [self.expr(final_t, top, 2), ("pre", "deref", ("id", "log"))] + observed)
        return pre + body + [final]
