#!/usr/bin/env python3
"""Regression over all kept seeded changes: apply each to /repo, run the quick checks that are recorded as
catching it, restore /repo.  Prints one line per seed; exit 1 if a recorded detection no longer happens."""
import glob, json, os, subprocess, sys
V = os.path.dirname(os.path.dirname(os.path.abspath(__file__)))
bad = 0
only = sys.argv[1:]
for d in sorted(glob.glob(os.path.join(V, "seeded", "*"))):
    sid = os.path.basename(d)
    if only and sid not in only:
        continue
    meta = json.load(open(os.path.join(d, "meta.json")))
    if meta.get("judged_not_a_violation"):
        print("%s: skipped (judged not to violate the property as stated; see meta.json)" % sid)
        continue
    props = meta.get("detected_by") or [meta.get("breaks")]
    st = subprocess.run("git -C /repo status --short", shell=True, capture_output=True, text=True).stdout.strip()
    if st:
        print("REPO NOT CLEAN, abort:", st); sys.exit(2)
    ap = subprocess.run(["git", "-C", "/repo", "apply", os.path.join(d, "patch.diff")], capture_output=True, text=True)
    if ap.returncode != 0:
        print("%s: patch no longer applies (%s)" % (sid, ap.stderr.strip()[:100]))
        bad += 1
        continue
    try:
        got = []
        for p in props:
            r = subprocess.run([sys.executable, os.path.join(V, "tools", "check.py"), p], capture_output=True, text=True, timeout=3000)
            if r.returncode != 0 and "VIOLATION" in r.stdout:
                got.append(p)
        print("%s: caught by %s%s" % (sid, got, "" if set(got) == set(props) else "   <-- recorded: %s" % props))
        if not got:
            bad += 1
    finally:
        subprocess.run("git -C /repo checkout -- .", shell=True)
# evidence files were rewritten by runs on mutated trees: regenerate on the clean tree
print("now run tools/runall.py to regenerate evidence on the clean tree")
sys.exit(1 if bad else 0)
