import SslModel.Thm.C20
/-!
# C20 — whole values survive printing and re-parsing

`ValText.debugVal` models `{:?}` of a value, `ValText.readVal` / `parseVal` the `only_var` grammar rule and
`Variable::from_str`.  Proved here, for every value built from bool, int, ASCII string, (), arrays and
tuples (>= 2 components) to any depth: the printed text is read back as the value whose arrays carry the
element type `Array::from` computes for a literal (`norm v`; a value built from literals is its own `norm`).
-/
set_option linter.unusedSimpArgs false
set_option linter.unusedVariables false
namespace Ssl.C20
open Ssl Ssl.ValText


theorem digitVal_digitChar : ∀ d : Fin 10, digitVal (Nat.digitChar d.val) = some d.val := by decide

theorem radixValue_toDigits (n : Nat) : radixValue 10 (Nat.toDigits 10 n) = some n := by
  induction n using Nat.strongRecOn with
  | _ n ih =>
    rw [Nat.toDigits_eq_if (by decide)]
    split
    · rename_i h
      have := digitVal_digitChar ⟨n, h⟩
      simp only at this
      simp [radixValue, this, h]
    · rename_i h
      have h1 := ih (n / 10) (by omega)
      have h2 := digitVal_digitChar ⟨n % 10, by omega⟩
      simp only at h2
      rw [radixValue_snoc 10 _ (Nat.digitChar (n % 10)) (n / 10) (n % 10) h1 h2 (by omega)]
      congr 1; omega

theorem mem_toDigits (n : Nat) : ∀ c ∈ Nat.toDigits 10 n, ∃ d : Fin 10, c = Nat.digitChar d.val := by
  induction n using Nat.strongRecOn with
  | _ n ih =>
    rw [Nat.toDigits_eq_if (by decide)]
    split
    · rename_i h
      intro c hc
      simp only [List.mem_singleton] at hc
      exact ⟨⟨n, h⟩, hc⟩
    · intro c hc
      simp only [List.mem_append, List.mem_singleton] at hc
      cases hc with
      | inl h => exact ih (n / 10) (by omega) c h
      | inr h => exact ⟨⟨n % 10, by omega⟩, h⟩

theorem digitChar_facts : ∀ d : Fin 10, isDigitOf 10 (Nat.digitChar d.val) = true ∧
    (Nat.digitChar d.val != '_' && Nat.digitChar d.val != ' ') = true ∧
    Nat.digitChar d.val ≠ 'b' ∧ Nat.digitChar d.val ≠ 'o' ∧ Nat.digitChar d.val ≠ 'x' := by decide

/-- what may follow a printed value: not something that would continue a number -/
def Stop : List Char → Bool
  | [] => true
  | c :: _ => c == ',' || c == ']' || c == ')' 

theorem takeWhile_digits (ds rest : List Char) (hd : ∀ c ∈ ds, isDigitOf 10 c = true) (hr : Stop rest = true) :
    (ds ++ rest).takeWhile (fun c => isDigitOf 10 c || c == '_') = ds ∧
    (ds ++ rest).dropWhile (fun c => isDigitOf 10 c || c == '_') = rest := by
  induction ds with
  | nil =>
    cases rest with
    | nil => simp
    | cons c cs =>
      have : (isDigitOf 10 c || c == '_') = false := by
        simp only [Stop, Bool.or_eq_true, beq_iff_eq] at hr
        rcases hr with (h | h) | h <;> subst h <;> decide
      simp [List.takeWhile, List.dropWhile, this]
  | cons c cs ih =>
    have hc := hd c (by simp)
    obtain ⟨i1, i2⟩ := ih (fun x hx => hd x (by simp [hx]))
    simp [List.takeWhile, List.dropWhile, hc, i1, i2]

/-- reading a decimal digit string followed by something that does not continue it -/
theorem readInt_decimal (neg : Bool) (n : Nat) (rest : List Char) (hr : Stop rest = true) :
    readInt neg (Nat.toDigits 10 n ++ rest) = some (parseIntDigits 10 neg (Nat.toDigits 10 n), rest) := by
  have hmem := mem_toDigits n
  have hd : ∀ c ∈ Nat.toDigits 10 n, isDigitOf 10 c = true := by
    intro c hc; obtain ⟨d, rfl⟩ := hmem c hc; exact (digitChar_facts d).1
  obtain ⟨t1, t2⟩ := takeWhile_digits _ rest hd hr
  cases hds : Nat.toDigits 10 n with
  | nil => exact absurd hds Nat.toDigits_ne_nil
  | cons d ds =>
    rw [hds] at t1 t2 hd hmem
    have hd0 := hd d (by simp)
    obtain ⟨k, hk⟩ := hmem d (by simp)
    have hdb : d ≠ 'b' := by rw [hk]; exact (digitChar_facts k).2.2.1
    -- the second character is not a radix letter
    have h2 : ∀ c cs, ds ++ rest = c :: cs → c ≠ 'b' ∧ c ≠ 'o' ∧ c ≠ 'x' := by
      intro c cs hcs
      cases ds with
      | nil =>
        simp only [List.nil_append] at hcs
        subst hcs
        simp only [Stop, Bool.or_eq_true, beq_iff_eq] at hr
        rcases hr with (h | h) | h <;> subst h <;> decide
      | cons e es =>
        simp only [List.cons_append, List.cons.injEq] at hcs
        obtain ⟨k2, hk2⟩ := hmem e (by simp)
        rw [← hcs.1, hk2]
        exact (digitChar_facts k2).2.2
    simp only [List.cons_append] at t1 t2 ⊢
    unfold readInt
    simp only []
    split
    · rename_i body heq
      simp only [List.cons.injEq] at heq
      exact absurd rfl (h2 _ _ heq.2).1
    · rename_i body heq
      simp only [List.cons.injEq] at heq
      exact absurd rfl (h2 _ _ heq.2).2.1
    · rename_i body heq
      simp only [List.cons.injEq] at heq
      exact absurd rfl (h2 _ _ heq.2).2.2
    · rename_i d1 tail _ _ _ heq
      simp only [List.cons.injEq] at heq
      obtain ⟨rfl, rfl⟩ := heq
      simp [hd0, t1, t2]
    · rename_i heq
      cases heq


theorem filter_toDigits (m : Nat) :
    (Nat.toDigits 10 m).filter (fun c => c != '_' && c != ' ') = Nat.toDigits 10 m := by
  rw [List.filter_eq_self]
  intro c hc
  obtain ⟨d, rfl⟩ := mem_toDigits m c hc
  exact (digitChar_facts d).2.1

theorem parse_toDigits_pos (m : Nat) :
    parseIntDigits 10 false (Nat.toDigits 10 m) = (if m ≤ 2 ^ 63 - 1 then some (m : Int) else none) := by
  apply int_literal_value
  · rw [filter_toDigits]; cases h : Nat.toDigits 10 m with
    | nil => exact absurd h Nat.toDigits_ne_nil
    | cons _ _ => rfl
  · rw [filter_toDigits]; exact radixValue_toDigits m

theorem parse_toDigits_neg (m : Nat) :
    parseIntDigits 10 true (Nat.toDigits 10 m) = (if m ≤ 2 ^ 63 then some (-(m : Int)) else none) := by
  apply negative_int_literal_value
  · rw [filter_toDigits]; cases h : Nat.toDigits 10 m with
    | nil => exact absurd h Nat.toDigits_ne_nil
    | cons _ _ => rfl
  · rw [filter_toDigits]; exact radixValue_toDigits m

theorem toString_int_toList (z : Int) :
    (toString z).toList = if 0 ≤ z then Nat.toDigits 10 z.toNat else '-' :: Nat.toDigits 10 (-z).toNat := by
  rw [Int.toString_eq_repr, Int.repr_eq_if]
  split
  · exact Nat.toList_repr
  · rw [String.toList_append, Nat.toList_repr]; rfl



/-- a string body in which every `\` is followed by a character and no unescaped `"` occurs -/
def bal : List Char → Bool
  | [] => true
  | c :: t =>
    if c == '\\' then (match t with | [] => false | _ :: t2 => bal t2)
    else c != '"' && bal t

theorem readStrBody_bal : ∀ (body : List Char), bal body = true → ∀ (f : Nat) (acc rest : List Char),
    body.length + 1 ≤ f → readStrBody f (body ++ '"' :: rest) acc = some (acc.reverse ++ body, rest)
  | [], _, f, acc, rest, hf => by
    obtain ⟨g, rfl⟩ : ∃ g, f = g + 1 := ⟨f - 1, by simp at hf; omega⟩
    simp [readStrBody]
  | c :: t, hb, f, acc, rest, hf => by
    obtain ⟨g, rfl⟩ : ∃ g, f = g + 1 := ⟨f - 1, by simp at hf; omega⟩
    simp only [List.length_cons] at hf
    by_cases hbs : c = '\\'
    · subst hbs
      cases t with
      | nil => simp [bal] at hb
      | cons c2 t2 =>
        simp only [bal, beq_self_eq_true, if_true] at hb
        have ih := readStrBody_bal t2 hb g (c2 :: '\\' :: acc) rest (by simp only [List.length_cons] at hf; omega)
        simp only [List.cons_append, readStrBody, ih]
        simp
    · have hb' : (c != '"' && bal t) = true := by
        have : (c == '\\') = false := by simpa using hbs
        unfold bal at hb
        simpa [this] using hb
      simp only [Bool.and_eq_true, bne_iff_ne, ne_eq] at hb'
      have ih := readStrBody_bal t hb'.2 g (c :: acc) rest (by omega)
      have hq : c ≠ '"' := hb'.1
      simp only [List.cons_append]
      rw [readStrBody.eq_def]
      simp [hq, hbs, ih]
termination_by body => body.length


theorem bal_plain (c : Char) (t : List Char) (h1 : c ≠ '\\') (h2 : c ≠ '"') : bal (c :: t) = bal t := by
  have e1 : (c == '\\') = false := by simpa using h1
  have e2 : (c != '"') = true := by simpa using h2
  rw [bal.eq_def]; simp [e1, e2]

theorem bal_esc (c : Char) (t : List Char) : bal ('\\' :: c :: t) = bal t := by
  rw [bal.eq_def]; simp

theorem hexDigit_plain : ∀ k : Fin 16, hexDigit k.val ≠ '\\' ∧ hexDigit k.val ≠ '"' := by decide

theorem bal_hexOf (n : Nat) (hn : n < 256) (t : List Char) : bal (hexOf n ++ t) = bal t := by
  unfold hexOf
  split
  · rename_i h
    have := hexDigit_plain ⟨n, h⟩
    simp only [List.singleton_append]
    exact bal_plain _ _ this.1 this.2
  · have h1 := hexDigit_plain ⟨n / 16 % 16, by omega⟩
    have h2 := hexDigit_plain ⟨n % 16, by omega⟩
    simp only [List.cons_append, List.nil_append]
    rw [bal_plain _ _ h1.1 h1.2, bal_plain _ _ h2.1 h2.2]

theorem bal_escapeChar (c : Char) (t : List Char) : bal (escapeChar c ++ t) = bal t := by
  unfold escapeChar
  split
  · simp only [List.cons_append, List.nil_append]; exact bal_esc _ _
  split
  · simp only [List.cons_append, List.nil_append]; exact bal_esc _ _
  split
  · simp only [List.cons_append, List.nil_append]; exact bal_esc _ _
  split
  · simp only [List.cons_append, List.nil_append]; exact bal_esc _ _
  split
  · simp only [List.cons_append, List.nil_append]; exact bal_esc _ _
  split
  · rename_i h
    have hn : c.toNat < 256 := by
      simp only [Bool.or_eq_true, decide_eq_true_eq, beq_iff_eq] at h
      omega
    simp only [List.cons_append, List.nil_append, List.append_assoc]
    rw [bal_esc, bal_plain _ _ (by decide) (by decide), bal_hexOf _ hn, bal_plain _ _ (by decide) (by decide)]
  · rename_i h1 h2 _ _ _ _
    simp only [List.cons_append, List.nil_append]
    exact bal_plain _ _ (by simpa using h2) (by simpa using h1)

theorem bal_escape (s : List Char) : bal (escape s) = true := by
  induction s with
  | nil => simp [escape, bal]
  | cons c s ih =>
    have : escape (c :: s) = escapeChar c ++ escape s := by simp [escape]
    rw [this, bal_escapeChar, ih]

theorem escapeChar_length_pos (c : Char) : 1 ≤ (escapeChar c).length := by
  unfold escapeChar
  repeat (split; simp)
  simp

theorem escape_length (s : List Char) : s.length ≤ (escape s).length := by
  induction s with
  | nil => simp
  | cons c s ih =>
    have : escape (c :: s) = escapeChar c ++ escape s := by simp [escape]
    rw [this]
    have := escapeChar_length_pos c
    simp only [List.length_cons, List.length_append]
    omega

/-- `ascii_string_roundtrip` with any sufficient fuel -/
theorem ascii_string_roundtrip_ge (s : List Char) (hs : ∀ c ∈ s, c.toNat < 128) :
    ∀ f, s.length + 1 ≤ f → unescape f (escape s) = some s := by
  induction s with
  | nil =>
    intro f hf
    obtain ⟨g, rfl⟩ : ∃ g, f = g + 1 := ⟨f - 1, by simp at hf; omega⟩
    simp [escape, unescape]
  | cons c s ih =>
    intro f hf
    obtain ⟨g, rfl⟩ : ∃ g, f = g + 1 := ⟨f - 1, by simp at hf; omega⟩
    have : escape (c :: s) = escapeChar c ++ escape s := by simp [escape]
    rw [this, unescape_escapeChar c (hs c (by simp)) g (escape s),
      ih (fun x hx => hs x (by simp [hx])) g (by simp only [List.length_cons] at hf; omega)]
    rfl

mutual
/-- the values of the property: bool, int, (ASCII) string, (), arrays and tuples (>= 2 components) of them -/
def lit : Val → Bool
  | .bool _ => true
  | .int _ => true
  | .unit => true
  | .str s => s.toList.all (fun c => decide (c.toNat < 128))
  | .arr _ es => litL es
  | .tup es => decide (2 ≤ es.length) && litL es
  | _ => false
termination_by v => Val.size v
decreasing_by all_goals (simp only [Val.size]; omega)
def litL : List Val → Bool
  | [] => true
  | v :: vs => lit v && litL vs
termination_by vs => Val.sizeL vs
decreasing_by all_goals (simp only [Val.sizeL]; omega)
end

mutual
/-- the value with every array's stored element type recomputed from its elements, as `Array::from` does for a literal -/
def norm : Val → Val
  | .arr _ es => Val.mkArray (normL es)
  | .tup es => .tup (normL es)
  | .bool b => .bool b
  | .int i => .int i
  | .float x => .float x
  | .str s => .str s
  | .unit => .unit
  | .struct fs => .struct fs
  | .cell l t => .cell l t
  | .fn a b c d e f => .fn a b c d e f
termination_by v => Val.size v
decreasing_by all_goals (simp only [Val.size]; omega)
def normL : List Val → List Val
  | [] => []
  | v :: vs => norm v :: normL vs
termination_by vs => Val.sizeL vs
decreasing_by all_goals (simp only [Val.sizeL]; omega)
end

/-- the text of the elements after the first: each preceded by `, ` -/
def moreText : List Val → Option (List Char)
  | [] => some []
  | v :: vs =>
    match debugVal v, moreText vs with
    | some a, some b => some (',' :: ' ' :: (a ++ b))
    | _, _ => none

theorem debugList_cons (v : Val) (vs : List Val) :
    debugList (v :: vs) = (match debugVal v, moreText vs with
      | some a, some b => some (a ++ b)
      | _, _ => none) := by
  induction vs generalizing v with
  | nil =>
    simp only [debugList, moreText]
    cases debugVal v <;> simp
  | cons w ws ih =>
    rw [debugList]
    · rw [ih w]
      simp only [moreText]
      cases debugVal v <;> cases debugVal w <;> cases moreText ws <;> simp
    · simp

def isWs (c : Char) : Bool := c == ' ' || c == '\t' || c == '\n' || c == '\r'
/-- the first character of a printed value: not white space and not a closing bracket or separator -/
def startOk (c : Char) : Bool := !isWs c && c != ']' && c != ')' && c != ',' && c != ';'
def headOk : List Char → Bool
  | c :: _ => startOk c
  | [] => false

theorem skipWs_start (c : Char) (cs : List Char) (h : isWs c = false) : skipWs (c :: cs) = c :: cs := by
  simp only [isWs] at h
  simp [skipWs, h]

theorem skipWs_space (cs : List Char) : skipWs (' ' :: cs) = skipWs cs := by
  simp [skipWs]

theorem readVal_space (f : Nat) (cs : List Char) : readVal f (' ' :: cs) = readVal f cs := by
  cases f with
  | zero => simp [readVal]
  | succ g => simp only [readVal, skipWs_space]

theorem read_true (f : Nat) (rest : List Char) :
    readVal (f + 1) ("true".toList ++ rest) = some (.bool true, rest) := by
  simp [readVal, skipWs]

theorem read_false (f : Nat) (rest : List Char) :
    readVal (f + 1) ("false".toList ++ rest) = some (.bool false, rest) := by
  simp [readVal, skipWs]

theorem read_unit (f : Nat) (rest : List Char) :
    readVal (f + 1) ("()".toList ++ rest) = some (.unit, rest) := by
  simp [readVal, skipWs]

theorem read_str (s : String) (hs : ∀ c ∈ s.toList, c.toNat < 128) (f : Nat) (rest : List Char) :
    readVal (f + 1) (['"'] ++ escape s.toList ++ ['"'] ++ rest) = some (.str s, rest) := by
  have h1 := readStrBody_bal (escape s.toList) (bal_escape _) ((escape s.toList ++ '"' :: rest).length + 1) [] rest
    (by simp only [List.length_append, List.length_cons]; omega)
  have h2 := ascii_string_roundtrip_ge s.toList hs ((escape s.toList).length + 1) (by have := escape_length s.toList; omega)
  simp only [List.singleton_append, List.cons_append, List.nil_append, List.append_assoc]
  simp only [readVal, skipWs]
  simp only [List.length_append, List.length_cons, List.reverse_nil, List.nil_append] at h1
  simp [h1, h2, String.ofList_toList]


theorem readVal_digit (k : Fin 10) (cs : List Char) (f : Nat) :
    readVal (f + 1) (Nat.digitChar k.val :: cs) =
      (match readInt false (Nat.digitChar k.val :: cs) with
       | some (some i, rest) => some (.int (BitVec.ofInt 64 i), rest)
       | _ => none) := by
  match k with
  | ⟨0, _⟩ =>
    simp [readVal, skipWs, Nat.digitChar]
    rcases readInt false ('0' :: cs) with _ | ⟨_ | _, _⟩ <;> rfl
  | ⟨1, _⟩ =>
    simp [readVal, skipWs, Nat.digitChar]
    rcases readInt false ('1' :: cs) with _ | ⟨_ | _, _⟩ <;> rfl
  | ⟨2, _⟩ =>
    simp [readVal, skipWs, Nat.digitChar]
    rcases readInt false ('2' :: cs) with _ | ⟨_ | _, _⟩ <;> rfl
  | ⟨3, _⟩ =>
    simp [readVal, skipWs, Nat.digitChar]
    rcases readInt false ('3' :: cs) with _ | ⟨_ | _, _⟩ <;> rfl
  | ⟨4, _⟩ =>
    simp [readVal, skipWs, Nat.digitChar]
    rcases readInt false ('4' :: cs) with _ | ⟨_ | _, _⟩ <;> rfl
  | ⟨5, _⟩ =>
    simp [readVal, skipWs, Nat.digitChar]
    rcases readInt false ('5' :: cs) with _ | ⟨_ | _, _⟩ <;> rfl
  | ⟨6, _⟩ =>
    simp [readVal, skipWs, Nat.digitChar]
    rcases readInt false ('6' :: cs) with _ | ⟨_ | _, _⟩ <;> rfl
  | ⟨7, _⟩ =>
    simp [readVal, skipWs, Nat.digitChar]
    rcases readInt false ('7' :: cs) with _ | ⟨_ | _, _⟩ <;> rfl
  | ⟨8, _⟩ =>
    simp [readVal, skipWs, Nat.digitChar]
    rcases readInt false ('8' :: cs) with _ | ⟨_ | _, _⟩ <;> rfl
  | ⟨9, _⟩ =>
    simp [readVal, skipWs, Nat.digitChar]
    rcases readInt false ('9' :: cs) with _ | ⟨_ | _, _⟩ <;> rfl
  | ⟨n + 10, h⟩ => omega


theorem digitChar_notWs : ∀ k : Fin 10, isWs (Nat.digitChar k.val) = false ∧ startOk (Nat.digitChar k.val) = true := by decide

theorem read_int (i : BitVec 64) (f : Nat) (rest : List Char) (hr : Stop rest = true) :
    readVal (f + 1) ((toString i.toInt).toList ++ rest) = some (.int i, rest) := by
  rw [toString_int_toList]
  have hlt := BitVec.toInt_lt (x := i)
  have hge := BitVec.le_toInt (x := i)
  split
  · rename_i h0
    cases hds : Nat.toDigits 10 i.toInt.toNat with
    | nil => exact absurd hds Nat.toDigits_ne_nil
    | cons d ds =>
      obtain ⟨k, hk⟩ := mem_toDigits i.toInt.toNat d (by rw [hds]; simp)
      have hri := readInt_decimal false i.toInt.toNat rest hr
      rw [hds] at hri
      subst hk
      simp only [List.cons_append] at hri ⊢
      rw [readVal_digit, hri, ← hds, parse_toDigits_pos]
      have : i.toInt.toNat ≤ 2 ^ 63 - 1 := by omega
      simp only [this, if_true]
      have e : ((i.toInt.toNat : Nat) : Int) = i.toInt := Int.toNat_of_nonneg h0
      simp [e]
  · rename_i h0
    cases hds : Nat.toDigits 10 (-i.toInt).toNat with
    | nil => exact absurd hds Nat.toDigits_ne_nil
    | cons d ds =>
      obtain ⟨k, hk⟩ := mem_toDigits (-i.toInt).toNat d (by rw [hds]; simp)
      have hri := readInt_decimal true (-i.toInt).toNat rest hr
      rw [hds] at hri
      subst hk
      have hws := (digitChar_notWs k).1
      simp only [List.cons_append] at hri ⊢
      simp only [readVal]
      rw [skipWs_start '-' _ (by decide)]
      simp only [skipWs_start _ _ hws, hri]
      rw [← hds, parse_toDigits_neg]
      have : (-i.toInt).toNat ≤ 2 ^ 63 := by omega
      simp only [this, if_true]
      have e : (((-i.toInt).toNat : Nat) : Int) = -i.toInt := Int.toNat_of_nonneg (by omega)
      simp [e]


theorem startOk_facts (c : Char) (h : startOk c = true) :
    isWs c = false ∧ c ≠ ']' ∧ c ≠ ')' ∧ c ≠ ',' ∧ c ≠ ';' := by
  simp only [startOk, Bool.and_eq_true, Bool.not_eq_true', bne_iff_ne, ne_eq] at h
  exact ⟨h.1.1.1.1, h.1.1.1.2, h.1.1.2, h.1.2, h.2⟩

theorem readVal_arr_step (f : Nat) (c : Char) (cs : List Char) (v : Val) (rest1 : List Char) (vs : List Val)
    (rest3 : List Char) (hc : startOk c = true) (h1 : readVal f (c :: cs) = some (v, rest1))
    (h2 : ∀ r2, skipWs rest1 ≠ ';' :: r2) (h3 : readMore f rest1 [v] = some (vs, ']' :: rest3)) :
    readVal (f + 1) ('[' :: c :: cs) = some (Val.mkArray vs, rest3) := by
  obtain ⟨w, n1, n2, n3, n4⟩ := startOk_facts c hc
  simp only [readVal]
  rw [skipWs_start '[' _ (by decide)]
  simp only []
  rw [skipWs_start c _ w]
  split
  · rename_i heq
    simp only [List.cons.injEq] at heq
    exact absurd heq.1 n1
  · rw [h1]
    simp only []
    rw [h3]
    simp [skipWs]


theorem readVal_tup_step (f : Nat) (c : Char) (cs : List Char) (v : Val) (rest1 : List Char) (vs : List Val)
    (rest3 : List Char) (hc : startOk c = true) (h1 : readVal f (c :: cs) = some (v, rest1))
    (h3 : readMore f rest1 [v] = some (vs, ')' :: rest3)) (hl : 2 ≤ vs.length) :
    readVal (f + 1) ('(' :: c :: cs) = some (.tup vs, rest3) := by
  obtain ⟨w, n1, n2, n3, n4⟩ := startOk_facts c hc
  simp only [readVal]
  rw [skipWs_start '(' _ (by decide)]
  split
  all_goals (rename_i heq; simp only [List.cons.injEq] at heq)
  all_goals try (exact absurd heq.1 (by decide))
  · exact absurd heq.2.1 n2
  · obtain ⟨_, rfl⟩ := heq
    rw [h1]
    simp only []
    rw [h3]
    simp [skipWs, hl]
  · exact absurd ⟨trivial, rfl⟩ (heq (c :: cs))


/-- printing and reading back one value: the printed text is read back as `norm v`, whatever `Stop` text follows -/
def Reads (v : Val) : Prop := ∃ t, debugVal v = some t ∧ headOk t = true ∧ Val.size v ≤ t.length ∧
  ∀ f rest, Stop rest = true → Val.size v + 1 ≤ f → readVal f (t ++ rest) = some (norm v, rest)

theorem moreText_shape : ∀ vs m, moreText vs = some m → m = [] ∨ ∃ tl, m = ',' :: tl := by
  intro vs m h
  cases vs with
  | nil => simp [moreText] at h; exact Or.inl h
  | cons v vs =>
    simp only [moreText] at h
    cases h1 : debugVal v <;> cases h2 : moreText vs <;> simp [h1, h2] at h
    exact Or.inr ⟨_, h.symm⟩

theorem stop_close (m rest : List Char) (close : Char) (hc : close = ']' ∨ close = ')')
    (hm : m = [] ∨ ∃ tl, m = ',' :: tl) : Stop (m ++ close :: rest) = true := by
  rcases hm with rfl | ⟨tl, rfl⟩
  · rcases hc with rfl | rfl <;> simp [Stop]
  · simp [Stop]

theorem readMore_texts : ∀ (vs : List Val), (∀ v ∈ vs, Reads v) → ∃ m, moreText vs = some m ∧ Val.sizeL vs ≤ m.length ∧
    ∀ (f : Nat) (close : Char) (rest : List Char) (acc : List Val), (close = ']' ∨ close = ')') → Val.sizeL vs + 1 ≤ f →
      readMore f (m ++ close :: rest) acc = some (acc ++ normL vs, close :: rest) := by
  intro vs
  induction vs with
  | nil =>
    intro _
    refine ⟨[], by simp [moreText], by simp [Val.sizeL], ?_⟩
    intro f close rest acc hc hf
    obtain ⟨g, rfl⟩ : ∃ g, f = g + 1 := ⟨f - 1, by omega⟩
    have hw : isWs close = false := by rcases hc with rfl | rfl <;> decide
    have hne : close ≠ ',' := by rcases hc with rfl | rfl <;> decide
    simp only [List.nil_append, readMore]
    rw [skipWs_start close _ hw]
    split
    · rename_i heq
      simp only [List.cons.injEq] at heq
      exact absurd heq.1 hne
    · simp [normL]
  | cons v vs ih =>
    intro h
    obtain ⟨t, ht, hh, hsz, hread⟩ := h v (by simp)
    obtain ⟨m, hm, hmsz, hmore⟩ := ih (fun x hx => h x (by simp [hx]))
    refine ⟨',' :: ' ' :: (t ++ m), by simp [moreText, ht, hm], ?_, ?_⟩
    · simp only [Val.sizeL, List.length_cons, List.length_append]; omega
    · intro f close rest acc hc hf
      obtain ⟨g, rfl⟩ : ∃ g, f = g + 1 := ⟨f - 1, by omega⟩
      simp only [Val.sizeL] at hf
      have hstop := stop_close m rest close hc (moreText_shape vs m hm)
      have h1 := hread g (m ++ close :: rest) hstop (by omega)
      have h2 := hmore g close rest (acc ++ [norm v]) hc (by omega)
      simp only [List.cons_append, List.append_assoc, readMore]
      rw [skipWs_start ',' _ (by decide)]
      simp only []
      rw [readVal_space, h1]
      simp only []
      rw [h2]
      simp [normL]


theorem normL_length (vs : List Val) : (normL vs).length = vs.length := by
  induction vs with
  | nil => simp [normL]
  | cons v vs ih => simp [normL, ih]

theorem litL_mem {vs : List Val} (h : litL vs = true) {x : Val} (hx : x ∈ vs) : lit x = true := by
  induction vs with
  | nil => cases hx
  | cons v vs ih =>
    simp only [litL, Bool.and_eq_true] at h
    cases hx with
    | head => exact h.1
    | tail _ h' => exact ih h.2 h'

theorem sizeL_mem {vs : List Val} {x : Val} (hx : x ∈ vs) : Val.size x < Val.sizeL vs := by
  induction vs with
  | nil => cases hx
  | cons v vs ih =>
    cases hx with
    | head => simp [Val.sizeL]; omega
    | tail _ h' => have := ih h'; simp [Val.sizeL]; omega

theorem skipWs_not_semicolon (m rest : List Char) (close : Char) (hc : close = ']' ∨ close = ')')
    (hm : m = [] ∨ ∃ tl, m = ',' :: tl) : ∀ r2, skipWs (m ++ close :: rest) ≠ ';' :: r2 := by
  intro r2
  rcases hm with rfl | ⟨tl, rfl⟩
  · rcases hc with rfl | rfl <;> simp [skipWs]
  · simp [skipWs]

theorem headOk_int (z : Int) : headOk (toString z).toList = true ∧ 1 ≤ (toString z).toList.length := by
  rw [toString_int_toList]
  split
  · cases hds : Nat.toDigits 10 z.toNat with
    | nil => exact absurd hds Nat.toDigits_ne_nil
    | cons d ds =>
      obtain ⟨k, hk⟩ := mem_toDigits z.toNat d (by rw [hds]; simp)
      subst hk
      exact ⟨(digitChar_notWs k).2, by simp⟩
  · exact ⟨by simp [headOk, startOk, isWs], by simp⟩

/-- the elements of a non-empty list: text, and how the reader takes them after an opening bracket -/
theorem reads_list (v : Val) (vs : List Val) (hv : Reads v) (hvs : ∀ x ∈ vs, Reads x) :
    ∃ c t' m, debugList (v :: vs) = some (c :: t' ++ m) ∧ startOk c = true ∧
      Val.size v + Val.sizeL vs ≤ (c :: t' ++ m).length ∧
      ∀ (g : Nat) (close : Char) (rest : List Char), (close = ']' ∨ close = ')') → Val.size v + Val.sizeL vs + 2 ≤ g →
        readVal g (c :: t' ++ (m ++ close :: rest)) = some (norm v, m ++ close :: rest) ∧
        (∀ r2, skipWs (m ++ close :: rest) ≠ ';' :: r2) ∧
        readMore g (m ++ close :: rest) [norm v] = some (norm v :: normL vs, close :: rest) := by
  obtain ⟨t, ht, hh, hsz, hread⟩ := hv
  obtain ⟨m, hm, hmsz, hmore⟩ := readMore_texts vs hvs
  cases t with
  | nil => simp [headOk] at hh
  | cons c t' =>
    refine ⟨c, t', m, by rw [debugList_cons, ht, hm], hh, by simp only [List.length_append] at hsz ⊢; omega, ?_⟩
    intro g close rest hc hg
    have hshape := moreText_shape vs m hm
    refine ⟨?_, skipWs_not_semicolon m rest close hc hshape, ?_⟩
    · have := hread g (m ++ close :: rest) (stop_close m rest close hc hshape) (by omega)
      simpa using this
    · have := hmore g close rest [norm v] hc (by omega)
      simpa using this

theorem reads_all : ∀ n : Nat, ∀ v : Val, Val.size v ≤ n → lit v = true → Reads v := by
  intro n
  induction n with
  | zero => intro v h; cases v <;> simp [Val.size] at h <;> omega
  | succ n ih =>
    intro v hs hl
    cases v with
    | bool b =>
      cases b
      · refine ⟨"false".toList, by simp [debugVal], by decide, by simp [Val.size], ?_⟩
        intro f rest _ hf
        obtain ⟨g, rfl⟩ : ∃ g, f = g + 1 := ⟨f - 1, by simp [Val.size] at hf; omega⟩
        simpa [norm] using read_false g rest
      · refine ⟨"true".toList, by simp [debugVal], by decide, by simp [Val.size], ?_⟩
        intro f rest _ hf
        obtain ⟨g, rfl⟩ : ∃ g, f = g + 1 := ⟨f - 1, by simp [Val.size] at hf; omega⟩
        simpa [norm] using read_true g rest
    | int i =>
      refine ⟨(toString i.toInt).toList, by simp [debugVal], (headOk_int _).1, by simp only [Val.size]; exact (headOk_int _).2, ?_⟩
      intro f rest hr hf
      obtain ⟨g, rfl⟩ : ∃ g, f = g + 1 := ⟨f - 1, by simp [Val.size] at hf; omega⟩
      simpa [norm] using read_int i g rest hr
    | str s =>
      have hascii : ∀ c ∈ s.toList, c.toNat < 128 := by
        simp only [lit, List.all_eq_true, decide_eq_true_eq] at hl
        exact hl
      refine ⟨['"'] ++ escape s.toList ++ ['"'], by simp [debugVal], by simp [headOk, startOk, isWs], by simp [Val.size], ?_⟩
      intro f rest _ hf
      obtain ⟨g, rfl⟩ : ∃ g, f = g + 1 := ⟨f - 1, by simp [Val.size] at hf; omega⟩
      simpa [norm] using read_str s hascii g rest
    | unit =>
      refine ⟨"()".toList, by simp [debugVal], by decide, by simp [Val.size], ?_⟩
      intro f rest _ hf
      obtain ⟨g, rfl⟩ : ∃ g, f = g + 1 := ⟨f - 1, by simp [Val.size] at hf; omega⟩
      simpa [norm] using read_unit g rest
    | arr ty es =>
      simp only [lit] at hl
      simp only [Val.size] at hs
      cases es with
      | nil =>
        refine ⟨"[]".toList, by simp [debugVal, debugList], by decide, by simp [Val.size, Val.sizeL], ?_⟩
        intro f rest _ hf
        obtain ⟨g, rfl⟩ : ∃ g, f = g + 1 := ⟨f - 1, by simp [Val.size] at hf; omega⟩
        simp [readVal, skipWs, norm, normL]
      | cons v vs =>
        have hv : Reads v := ih v (by simp only [Val.sizeL] at hs; omega) (litL_mem hl (by simp))
        have hvs : ∀ x ∈ vs, Reads x := fun x hx =>
          ih x (by have := sizeL_mem hx; simp only [Val.sizeL] at hs; omega) (litL_mem hl (by simp [hx]))
        obtain ⟨c, t', m, hdl, hc, hlen, hrd⟩ := reads_list v vs hv hvs
        refine ⟨['['] ++ (c :: t' ++ m) ++ [']'], by simp [debugVal, hdl], by simp [headOk, startOk, isWs], ?_, ?_⟩
        · simp only [Val.size, Val.sizeL, List.length_append, List.length_cons, List.length_nil] at hlen ⊢; omega
        · intro f rest _ hf
          obtain ⟨g, rfl⟩ : ∃ g, f = g + 1 := ⟨f - 1, by simp [Val.size] at hf; omega⟩
          simp only [Val.size, Val.sizeL] at hf
          obtain ⟨h1, h2, h3⟩ := hrd g ']' rest (Or.inl rfl) (by omega)
          have := readVal_arr_step g c (t' ++ (m ++ ']' :: rest)) (norm v) (m ++ ']' :: rest) (norm v :: normL vs) rest hc
            (by simpa using h1) h2 h3
          simpa [norm, normL] using this
    | tup es =>
      simp only [lit, Bool.and_eq_true, decide_eq_true_eq] at hl
      simp only [Val.size] at hs
      cases es with
      | nil => simp at hl
      | cons v vs =>
        have hv : Reads v := ih v (by simp only [Val.sizeL] at hs; omega) (litL_mem hl.2 (by simp))
        have hvs : ∀ x ∈ vs, Reads x := fun x hx =>
          ih x (by have := sizeL_mem hx; simp only [Val.sizeL] at hs; omega) (litL_mem hl.2 (by simp [hx]))
        obtain ⟨c, t', m, hdl, hc, hlen, hrd⟩ := reads_list v vs hv hvs
        refine ⟨['('] ++ (c :: t' ++ m) ++ [')'], by simp [debugVal, hdl], by simp [headOk, startOk, isWs], ?_, ?_⟩
        · simp only [Val.size, Val.sizeL, List.length_append, List.length_cons, List.length_nil] at hlen ⊢; omega
        · intro f rest _ hf
          obtain ⟨g, rfl⟩ : ∃ g, f = g + 1 := ⟨f - 1, by simp [Val.size] at hf; omega⟩
          simp only [Val.size, Val.sizeL] at hf
          obtain ⟨h1, h2, h3⟩ := hrd g ')' rest (Or.inr rfl) (by omega)
          have hlen2 : 2 ≤ (norm v :: normL vs).length := by
            simp only [List.length_cons, normL_length]; simpa using hl.1
          have := readVal_tup_step g c (t' ++ (m ++ ')' :: rest)) (norm v) (m ++ ')' :: rest) (norm v :: normL vs) rest hc
            (by simpa using h1) h3 hlen2
          simpa [norm, normL] using this
    | float _ => simp [lit] at hl
    | struct _ => simp [lit] at hl
    | cell _ _ => simp [lit] at hl
    | fn _ _ _ _ _ _ => simp [lit] at hl


/-- **every value of the property's class is read back from its printed text** as the value a literal builds (`norm v`):
    any nesting of arrays and tuples over bool, int (MIN and MAX included), ASCII strings and `()` -/
theorem value_roundtrip (v : Val) (hl : lit v = true) :
    ∃ t, debugVal v = some t ∧ parseVal (String.ofList t) = some (norm v) := by
  obtain ⟨t, ht, _, hsz, hread⟩ := reads_all _ v (Nat.le_refl _) hl
  refine ⟨t, ht, ?_⟩
  have := hread (t.length + 2) [] (by simp [Stop]) (by omega)
  simp only [List.append_nil] at this
  simp [parseVal, this, skipWs]

theorem normL_idem_of (vs : List Val) (h : ∀ v ∈ vs, norm (norm v) = norm v) : normL (normL vs) = normL vs := by
  induction vs with
  | nil => simp [normL]
  | cons v vs ih => simp [normL, h v (by simp), ih (fun x hx => h x (by simp [hx]))]

theorem norm_idem_aux : ∀ n : Nat, ∀ v : Val, Val.size v ≤ n → norm (norm v) = norm v := by
  intro n
  induction n with
  | zero => intro v h; cases v <;> simp [Val.size] at h <;> omega
  | succ n ih =>
    intro v hs
    cases v with
    | arr ty es =>
      simp only [Val.size] at hs
      have := normL_idem_of es (fun x hx => ih x (by have := sizeL_mem hx; omega))
      simp only [norm, Val.mkArray, this]
    | tup es =>
      simp only [Val.size] at hs
      have := normL_idem_of es (fun x hx => ih x (by have := sizeL_mem hx; omega))
      simp only [norm, this]
    | _ => simp [norm]

/-- `norm` is a projection: the values literals build are exactly its fixed points -/
theorem norm_idem (v : Val) : norm (norm v) = norm v := norm_idem_aux _ v (Nat.le_refl _)

/-- for a value as a literal builds it (`norm v = v`) the printed text reads back as exactly that value -/
theorem literal_value_roundtrip (v : Val) (hl : lit v = true) (hn : norm v = v) :
    ∃ t, debugVal v = some t ∧ parseVal (String.ofList t) = some v := by
  obtain ⟨t, ht, hp⟩ := value_roundtrip v hl
  exact ⟨t, ht, by rw [hp, hn]⟩

/-- non-vacuity: a nested value with MIN_INT, a string with a quote, a backslash and a control character, an empty array -/
def sampleVal : Val :=
  norm (.tup [.int (BitVec.ofInt 64 (-9223372036854775808)), .arr .any [.str "a\"\\\n\x1b", .str ""], .unit,
              .arr .any [], .tup [.bool true, .int 7]])

example : lit sampleVal = true ∧ norm sampleVal = sampleVal := by
  constructor
  · simp [sampleVal, norm, normL, Val.mkArray, lit, litL]
  · exact norm_idem _


end Ssl.C20
