"""Rewrite the table of seeded changes in DESIGN.md (section 12.6) from seeded/*/meta.json."""
import glob
import json
import os
import re

ROOT = os.path.dirname(os.path.dirname(os.path.abspath(__file__)))
HEADER = "| seeded change (seeded/<id>/) | needs, to manifest | caught by (quick tier) | first line of the report |"


def cell(s, n):
    s = " ".join(str(s).split())
    return s[:n].replace("|", "\\|")


def rows():
    out = []
    for p in sorted(glob.glob(os.path.join(ROOT, "seeded", "*", "meta.json"))):
        m = json.load(open(p))
        sid = os.path.basename(os.path.dirname(p))
        needs = cell(m.get("needs_to_manifest", ""), 240)
        if m.get("judged_not_a_violation"):
            out.append("| %s | %s | - (judged not a violation of the property as stated, see below) |  |" % (sid, needs))
            continue
        det = m.get("detected_by") or []
        first = ""
        for r in m.get("ran", []):
            if r.get("rc") == 1 and r.get("first"):
                first = r["first"]
                break
        first = " ".join(first.split())
        if len(first) >= 110:
            first = first[:110] + "…"
        first = first.replace("|", "\\|")
        out.append("| %s | %s | %s | %s |" % (sid, needs, ", ".join(det), first))
    return out


def main():
    path = os.path.join(ROOT, "DESIGN.md")
    lines = open(path).read().split("\n")
    i = lines.index(HEADER)
    j = i + 2
    while j < len(lines) and lines[j].startswith("| "):
        j += 1
    new = lines[:i + 2] + rows() + lines[j:]
    open(path, "w").write("\n".join(new))
    print("rows:", len(rows()))


if __name__ == "__main__":
    main()
