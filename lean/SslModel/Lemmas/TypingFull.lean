import SslModel.Lemmas.Typing
import SslModel.Lemmas.TyTrans
/-!
  Soundness of `Type::matches` for ALL values (functions and cells included), on well-formed types:
  functions by transitivity of `matches` (`sub_trans`), cells by transitivity of `==`.
-/
set_option linter.unusedSimpArgs false
set_option linter.unusedVariables false
namespace Ssl.Val
open Ssl Ssl.Ty

/- every function value inside carries a well-formed type (its declared signature) -/
mutual
def okv : Val → Bool
  | .arr _ es => okvL es
  | .tup es => okvL es
  | .struct fs => okvF fs
  | .fn id ps r body env self => Ty.wf (Val.fn id ps r body env self).asType
  | _ => true
def okvL : List Val → Bool
  | [] => true
  | v :: vs => okv v && okvL vs
def okvF : List (String × Val) → Bool
  | [] => true
  | (_, v) :: fs => okv v && okvF fs
end

theorem okvL_mem {vs : List Val} (h : okvL vs = true) {x : Val} (hx : x ∈ vs) : okv x = true := by
  induction vs with
  | nil => cases hx
  | cons v vs ih =>
    simp only [okvL, Bool.and_eq_true] at h
    rcases List.mem_cons.mp hx with rfl | hx
    · exact h.1
    · exact ih h.2 hx

theorem okvF_mem {fs : List (String × Val)} (h : okvF fs = true) {p : String × Val} (hp : p ∈ fs) : okv p.2 = true := by
  induction fs with
  | nil => cases hp
  | cons q fs ih =>
    obtain ⟨k, v⟩ := q
    simp only [okvF, Bool.and_eq_true] at h
    rcases List.mem_cons.mp hp with rfl | hp
    · exact h.1
    · exact ih h.2 hp

theorem matches_sound_full_aux : ∀ n : Nat, ∀ (v : Val) (A B : Ty), Ty.size A + Ty.size B ≤ n → okv v = true →
    wf A = true → wf B = true → sub A B = true → hasTy v A = true → hasTy v B = true := by
  intro n
  induction n with
  | zero => intro v A B h; have := Ty.size_pos A; omega
  | succ n ih =>
    intro v A B hs hok wA wB hsub hA
    by_cases hn : isNever A = true
    · cases A <;> simp [isNever] at hn
      rw [hasTy_never] at hA; cases hA
    by_cases hm : isMulti A = true
    · cases A <;> simp [isMulti] at hm
      rename_i ms
      rw [hasTy_multi, hasTyAny_iff] at hA
      obtain ⟨m, hmem, hm⟩ := hA
      rw [sub_multi_left, allMatch_eq, List.all_eq_true] at hsub
      have := hsub m hmem
      simp only [Ty.size] at hs
      exact ih v m B (by have := size_lt_sizeL hmem; omega) hok (isMulti_false_of_member wA hmem).2.2.2 wB
        (by simpa using this) hm
    have hn' : isNever A = false := by simpa using hn
    have hm' : isMulti A = false := by simpa using hm
    cases B with
    | any => exact hasTy_any v
    | never => rw [sub_regular_never A hm' hn'] at hsub; cases hsub
    | multi ms =>
      rw [sub_multi_right A ms hm' hn', anyMatch_eq, List.any_eq_true] at hsub
      obtain ⟨m, hmem, hm2⟩ := hsub
      rw [hasTy_multi, hasTyAny_iff]
      simp only [Ty.size] at hs
      exact ⟨m, hmem, ih v A m (by have := size_lt_sizeL hmem; omega) hok wA (isMulti_false_of_member wB hmem).2.2.2 hm2 hA⟩
    | bool => have := sub_base_right A .bool (by simp) hm' hn' hsub; subst this; exact hA
    | int => have := sub_base_right A .int (by simp) hm' hn' hsub; subst this; exact hA
    | float => have := sub_base_right A .float (by simp) hm' hn' hsub; subst this; exact hA
    | str => have := sub_base_right A .str (by simp) hm' hn' hsub; subst this; exact hA
    | void => have := sub_base_right A .void (by simp) hm' hn' hsub; subst this; exact hA
    | fn ps r =>
      obtain ⟨ps', r', rfl⟩ := (sub_shape_right A _ hm' hn' hsub).1 ps r rfl
      cases v <;> simp [hasTy] at hA
      rename_i id vps vr body env self
      simp only [okv] at hok
      simp only [hasTy]
      exact Ty.sub_trans _ _ _ hok wA wB hA hsub
    | arr e =>
      obtain ⟨a, rfl⟩ := (sub_shape_right A _ hm' hn' hsub).2.2.1 e rfl
      obtain ⟨t, es, rfl⟩ := arr_of_hasTy hA
      rw [sub_arr] at hsub
      rw [hasTy_arr, allHasTy_iff] at hA ⊢
      simp only [okv] at hok
      simp only [Ty.size] at hs
      simp only [wf] at wA wB
      intro x hx
      exact ih x a e (by omega) (okvL_mem hok hx) wA wB hsub (hA x hx)
    | tup ts =>
      obtain ⟨as, rfl⟩ := (sub_shape_right A _ hm' hn' hsub).2.2.2.1 ts rfl
      obtain ⟨vs, rfl⟩ := tup_of_hasTy hA
      rw [sub_tup] at hsub
      rw [hasTy_tup] at hA ⊢
      simp only [okv] at hok
      simp only [Ty.size] at hs
      simp only [wf] at wA wB
      have key : ∀ (vs : List Val) (as ts : List Ty), Ty.sizeL as + Ty.sizeL ts ≤ n → okvL vs = true →
          wfL as = true → wfL ts = true →
          matchesL as ts = true → hasTyL vs as = true → hasTyL vs ts = true := by
        intro vs
        induction vs with
        | nil =>
          intro as ts _ _ _ _ hm hh
          cases as with
          | nil => cases ts with
            | nil => simp [hasTyL]
            | cons t ts => simp [matchesL] at hm
          | cons a as => simp [hasTyL] at hh
        | cons v vs ihv =>
          intro as ts hsz hf wa wt hm hh
          cases as with
          | nil => simp [hasTyL] at hh
          | cons a as =>
            cases ts with
            | nil => simp [matchesL] at hm
            | cons t ts =>
              rw [matchesL_cons, Bool.and_eq_true] at hm
              rw [hasTyL, Bool.and_eq_true] at hh ⊢
              simp only [okvL, Bool.and_eq_true] at hf
              simp only [Ty.sizeL] at hsz
              simp only [wfL, Bool.and_eq_true] at wa wt
              exact ⟨ih v a t (by omega) hf.1 wa.1 wt.1 hm.1 hh.1, ihv as ts (by omega) hf.2 wa.2 wt.2 hm.2 hh.2⟩
      exact key vs as ts (by omega) hok wA wB hsub hA
    | cell e =>
      obtain ⟨e', rfl⟩ := (sub_shape_right A _ hm' hn' hsub).2.1 e rfl
      cases v <;> simp [hasTy] at hA
      rename_i loc t0
      rw [sub_cell] at hsub
      simp only [hasTy]
      exact Ty.eqv_trans _ _ _ hA hsub
    | struct fts =>
      obtain ⟨fa, rfl⟩ := (sub_shape_right A _ hm' hn' hsub).2.2.2.2 fts rfl
      obtain ⟨fs, rfl⟩ := struct_of_hasTy hA
      rw [sub_struct] at hsub
      rw [hasTy_struct] at hA ⊢
      simp only [okv] at hok
      simp only [Ty.size] at hs
      simp only [wf, Bool.and_eq_true] at wA wB
      have hmem := hasFields_mem fs fa hA
      have key : ∀ (fts : List (String × Ty)), Ty.sizeF fts ≤ n - Ty.sizeF fa - 1 → wfF fts = true →
          structMatches fa fts = true → hasFields fs fts = true := by
        intro fts
        induction fts with
        | nil => intro _ _ _; rw [hasFields]
        | cons q fts ihf =>
          obtain ⟨k, t2⟩ := q
          intro hsz wft hm
          rw [structMatches, Bool.and_eq_true] at hm
          rw [hasFields, Bool.and_eq_true]
          simp only [Ty.sizeF] at hsz
          simp only [wfF, Bool.and_eq_true] at wft
          refine ⟨?_, ihf (by omega) wft.2 hm.2⟩
          obtain ⟨p, hp, hk, hsub1⟩ := fieldMatches_mem fa k t2 hm.1
          have h1 := hmem p hp
          rw [hasField_key_congr fs k p.1 p.2 hk] at h1
          refine hasField_mono fs k p.2 t2 ?_ h1
          intro pv hpv hty
          have hlt := Ty.size_lt_sizeF (k := p.1) (x := p.2) (fs := fa) hp
          exact ih pv.2 p.2 t2 (by omega) (okvF_mem hok hpv) (wfF_mem wA.1 hp) wft.1 hsub1 hty
      exact key fts (by omega) wB.1 hsub

end Ssl.Val
