import SslModel.Model.Spec
/-!
# C19 — equality is by content, independent of static or stored types

Theorems about `Spec.veq`, the model of `PartialEq for Variable` (after the repair of array
equality), and about `F64.feq`, IEEE equality defined on bit patterns.
-/
set_option linter.unusedSimpArgs false
namespace Ssl.C19
open Ssl Ssl.Spec

/-! ## floats: IEEE equality -/

theorem feq_symm (a b : F64) : F64.feq a b = F64.feq b a := by
  unfold F64.feq
  have h1 : (a.toNat == b.toNat) = (b.toNat == a.toNat) := by
    cases h : (a.toNat == b.toNat) <;> cases h2 : (b.toNat == a.toNat) <;> simp_all
  rw [h1, Bool.and_comm (F64.isZero a), Bool.and_comm (!F64.isNaN a)]

theorem feq_refl (a : F64) (h : F64.isNaN a = false) : F64.feq a a = true := by
  simp [F64.feq, h]

theorem nan_not_equal_to_itself (a : F64) (h : F64.isNaN a = true) : F64.feq a a = false := by
  simp [F64.feq, h]

theorem nan_not_equal_to_anything (a b : F64) (h : F64.isNaN a = true) :
    F64.feq a b = false ∧ F64.feq b a = false := by
  simp [F64.feq, h]

/-- `+0.0 == -0.0` -/
theorem signed_zeros_equal : F64.feq 0 0x8000000000000000 = true := by decide

/-! ## kinds are disjoint; `!=` is the negation of `==` -/

def kind : Val → Nat
  | .bool _ => 0 | .int _ => 1 | .float _ => 2 | .str _ => 3 | .unit => 4 | .arr .. => 5
  | .tup _ => 6 | .struct _ => 7 | .cell .. => 8 | .fn .. => 9

theorem kinds_disjoint (a b : Val) (h : kind a ≠ kind b) : veq a b = false := by
  cases a <;> cases b <;> simp [kind] at h <;> simp [veq]

theorem eq_operator (x y : Val) : binScalar .eq x y = .ok (.bool (veq x y)) := by
  cases x <;> cases y <;> rfl

theorem ne_is_not_eq (x y : Val) : binScalar .ne x y = .ok (.bool (!veq x y)) := by
  cases x <;> cases y <;> rfl

/-! ## scalars by value; arrays, tuples, structs element-wise; the stored element type is ignored -/

theorem bool_by_value (a b : Bool) : veq (.bool a) (.bool b) = (a == b) := by simp [veq]
theorem int_by_value (a b : I64) : veq (.int a) (.int b) = (a == b) := by simp [veq]
theorem string_by_value (a b : String) : veq (.str a) (.str b) = (a == b) := by simp [veq]
theorem unit_equal : veq .unit .unit = true := by simp [veq]
theorem float_by_ieee (a b : F64) : veq (.float a) (.float b) = F64.feq a b := by simp [veq]

/-- however the two arrays were produced (whatever their stored element types), equality is that of
    their element lists -/
theorem array_tag_independent (t1 t2 : Ty) (as bs : List Val) :
    veq (.arr t1 as) (.arr t2 bs) = veqL as bs := by simp [veq]

theorem array_retag (t1 t2 t3 t4 : Ty) (as bs : List Val) :
    veq (.arr t1 as) (.arr t2 bs) = veq (.arr t3 as) (.arr t4 bs) := by simp [veq]

theorem tuple_elementwise (as bs : List Val) : veq (.tup as) (.tup bs) = veqL as bs := by simp [veq]

theorem list_elementwise (a b : Val) (as bs : List Val) :
    veqL (a :: as) (b :: bs) = (veq a b && veqL as bs) := by simp [veqL]

theorem list_length_mismatch (a : Val) (as : List Val) :
    veqL (a :: as) [] = false ∧ veqL [] (a :: as) = false := by simp [veqL]

theorem struct_as_map (fa fb : List (String × Val)) :
    veq (.struct fa) (.struct fb) = (fa.length == fb.length && veqF fa fb) := by simp [veq]

/-! ## functions and cells by identity -/

theorem cell_by_identity (a b : Nat) (t1 t2 : Ty) : veq (.cell a t1) (.cell b t2) = (a == b) := by
  simp [veq]

theorem fn_by_identity (a b : Nat) (p1 p2 : List (String × Ty)) (r1 r2 : Ty) (b1 b2 : List Expr)
    (e1 e2 : Frame) (s1 s2 : Option String) :
    veq (.fn a p1 r1 b1 e1 s1) (.fn b p2 r2 b2 e2 s2) = (a == b) := by
  simp [veq]

/-! ## reflexive for values containing no NaN -/

mutual
/-- no NaN anywhere inside; struct keys distinct (what a `HashMap` guarantees) -/
def clean : Val → Bool
  | .float b => !F64.isNaN b
  | .arr _ es => cleanL es
  | .tup es => cleanL es
  | .struct fs => cleanF fs && nodupKeys fs
  | _ => true
def cleanL : List Val → Bool
  | [] => true
  | v :: vs => clean v && cleanL vs
def cleanF : List (String × Val) → Bool
  | [] => true
  | (_, v) :: fs => clean v && cleanF fs
def nodupKeys : List (String × Val) → Bool
  | [] => true
  | (k, _) :: fs => !(fs.any (fun p => p.1 == k)) && nodupKeys fs
end

theorem size_pos (v : Val) : 0 < Val.size v := by cases v <;> simp [Val.size] <;> omega

theorem veqField_of_mem {k : String} {v : Val} {fs : List (String × Val)} (hn : nodupKeys fs = true)
    (hm : (k, v) ∈ fs) (hr : veq v v = true) : veqField k v fs = true := by
  induction fs with
  | nil => cases hm
  | cons p fs ih =>
    obtain ⟨k', w⟩ := p
    rw [veqField]
    simp only [nodupKeys, Bool.and_eq_true, Bool.not_eq_true'] at hn
    rcases List.mem_cons.mp hm with h | h
    · cases h; simp [hr]
    · have hne : (k == k') = false := by
        cases hkk : (k == k') with
        | false => rfl
        | true =>
          have : k = k' := by simpa using hkk
          subst this
          have : fs.any (fun p => p.1 == k) = true := by
            rw [List.any_eq_true]; exact ⟨(k, v), h, by simp⟩
          rw [this] at hn; exact absurd hn.1 (by simp)
      simp [hne, ih hn.2 h]

theorem veqF_of (fa fb : List (String × Val)) (hn : nodupKeys fb = true)
    (hr : ∀ p ∈ fa, veq p.2 p.2 = true) (hs : ∀ p ∈ fa, p ∈ fb) : veqF fa fb = true := by
  induction fa with
  | nil => rw [veqF]
  | cons p fa ih =>
    obtain ⟨k, v⟩ := p
    rw [veqF]
    have h1 := veqField_of_mem hn (hs (k, v) List.mem_cons_self) (hr (k, v) List.mem_cons_self)
    have h2 := ih (fun x hx => hr x (List.mem_cons_of_mem _ hx)) (fun x hx => hs x (List.mem_cons_of_mem _ hx))
    simp [h1, h2]

theorem veqL_refl_of (vs : List Val) (hr : ∀ x ∈ vs, veq x x = true) : veqL vs vs = true := by
  induction vs with
  | nil => rw [veqL]
  | cons v vs ih =>
    rw [veqL]
    simp [hr v List.mem_cons_self, ih (fun x hx => hr x (List.mem_cons_of_mem _ hx))]

theorem size_lt_sizeL {x : Val} {vs : List Val} (h : x ∈ vs) : Val.size x < Val.sizeL vs := by
  induction vs with
  | nil => cases h
  | cons v vs ih =>
    simp only [Val.sizeL]
    rcases List.mem_cons.mp h with rfl | h
    · omega
    · have := ih h; omega

theorem size_lt_sizeF {p : String × Val} {fs : List (String × Val)} (h : p ∈ fs) :
    Val.size p.2 < Val.sizeF fs := by
  induction fs with
  | nil => cases h
  | cons q fs ih =>
    obtain ⟨k, v⟩ := q
    simp only [Val.sizeF]
    rcases List.mem_cons.mp h with rfl | h
    · simp; omega
    · have := ih h; omega

theorem cleanL_mem {vs : List Val} (h : cleanL vs = true) {x : Val} (hx : x ∈ vs) : clean x = true := by
  induction vs with
  | nil => cases hx
  | cons v vs ih =>
    simp only [cleanL, Bool.and_eq_true] at h
    rcases List.mem_cons.mp hx with rfl | hx
    · exact h.1
    · exact ih h.2 hx

theorem cleanF_mem {fs : List (String × Val)} (h : cleanF fs = true) {p : String × Val} (hp : p ∈ fs) :
    clean p.2 = true := by
  induction fs with
  | nil => cases hp
  | cons q fs ih =>
    obtain ⟨k, v⟩ := q
    simp only [cleanF, Bool.and_eq_true] at h
    rcases List.mem_cons.mp hp with rfl | hp
    · exact h.1
    · exact ih h.2 hp

theorem veq_refl_aux : ∀ n : Nat, ∀ v : Val, Val.size v ≤ n → clean v = true → veq v v = true := by
  intro n
  induction n with
  | zero => intro v h; have := size_pos v; omega
  | succ n ih =>
    intro v hs hc
    cases v with
    | bool b => simp [veq] | int i => simp [veq] | str s => simp [veq] | unit => simp [veq]
    | cell l t => simp [veq] | fn id ps r body env self => simp [veq]
    | float b =>
      simp only [clean, Bool.not_eq_true'] at hc
      simp [veq, F64.feq, hc]
    | arr t es =>
      simp only [clean] at hc; simp only [Val.size] at hs
      rw [array_tag_independent]
      exact veqL_refl_of es (fun x hx => ih x (by have := size_lt_sizeL hx; omega) (cleanL_mem hc hx))
    | tup es =>
      simp only [clean] at hc; simp only [Val.size] at hs
      rw [tuple_elementwise]
      exact veqL_refl_of es (fun x hx => ih x (by have := size_lt_sizeL hx; omega) (cleanL_mem hc hx))
    | struct fs =>
      simp only [clean, Bool.and_eq_true] at hc; simp only [Val.size] at hs
      rw [struct_as_map]
      have := veqF_of fs fs hc.2
        (fun p hp => ih p.2 (by have := size_lt_sizeF hp; omega) (cleanF_mem hc.1 hp)) (fun x hx => hx)
      simp [this]

/-- `==` is reflexive on values containing no NaN -/
theorem veq_refl_noNaN (v : Val) (h : clean v = true) : veq v v = true :=
  veq_refl_aux (Val.size v) v (Nat.le_refl _) h

/-! ## symmetric, first for values without structs (no hypothesis on the other operand) -/

mutual
def structFree : Val → Bool
  | .arr _ es => structFreeL es
  | .tup es => structFreeL es
  | .struct _ => false
  | _ => true
def structFreeL : List Val → Bool
  | [] => true
  | v :: vs => structFree v && structFreeL vs
end

theorem structFreeL_mem {vs : List Val} (h : structFreeL vs = true) {x : Val} (hx : x ∈ vs) :
    structFree x = true := by
  induction vs with
  | nil => cases hx
  | cons v vs ih =>
    simp only [structFreeL, Bool.and_eq_true] at h
    rcases List.mem_cons.mp hx with rfl | hx
    · exact h.1
    · exact ih h.2 hx

theorem beq_comm_nat (a b : Nat) : (a == b) = (b == a) := by
  cases h : (a == b) <;> cases h2 : (b == a) <;> simp_all

theorem veqL_symm_of : ∀ (as bs : List Val),
    (∀ x ∈ as, ∀ y, veq x y = veq y x) → veqL as bs = veqL bs as := by
  intro as
  induction as with
  | nil => intro bs _; cases bs <;> simp [veqL]
  | cons a as ih =>
    intro bs h
    cases bs with
    | nil => simp [veqL]
    | cons b bs =>
      rw [veqL, veqL, h a List.mem_cons_self b, ih bs (fun x hx => h x (List.mem_cons_of_mem _ hx))]

theorem veq_symm_aux : ∀ n : Nat, ∀ a b : Val, Val.size a ≤ n → structFree a = true →
    veq a b = veq b a := by
  intro n
  induction n with
  | zero => intro a b h; have := size_pos a; omega
  | succ n ih =>
    intro a b hs hf
    cases a with
    | bool x => cases b <;> simp [veq]; exact Bool.beq_comm
    | int x => cases b <;> simp [veq]; exact Bool.beq_comm
    | str x => cases b <;> simp [veq]; exact Bool.beq_comm
    | unit => cases b <;> simp [veq]
    | float x => cases b <;> simp [veq]; exact feq_symm _ _
    | cell l t => cases b <;> simp [veq]; exact beq_comm_nat _ _
    | fn id ps r body env self => cases b <;> simp [veq]; exact beq_comm_nat _ _
    | struct fs => simp [structFree] at hf
    | arr t es =>
      simp only [structFree] at hf; simp only [Val.size] at hs
      cases b <;> simp [veq]
      exact veqL_symm_of es _ (fun x hx y => ih x y (by have := size_lt_sizeL hx; omega) (structFreeL_mem hf hx))
    | tup es =>
      simp only [structFree] at hf; simp only [Val.size] at hs
      cases b <;> simp [veq]
      exact veqL_symm_of es _ (fun x hx y => ih x y (by have := size_lt_sizeL hx; omega) (structFreeL_mem hf hx))

theorem veq_symm_partial (a b : Val) (h : structFree a = true) : veq a b = veq b a :=
  veq_symm_aux (Val.size a) a b (Nat.le_refl _) h

/-! ## symmetric for all values whose structs have distinct keys (what a `HashMap` holds) -/

mutual
def keysOk : Val → Bool
  | .arr _ es => keysOkL es
  | .tup es => keysOkL es
  | .struct fs => keysOkF fs && nodupKeys fs
  | _ => true
def keysOkL : List Val → Bool
  | [] => true
  | v :: vs => keysOk v && keysOkL vs
def keysOkF : List (String × Val) → Bool
  | [] => true
  | (_, v) :: fs => keysOk v && keysOkF fs
end

theorem keysOkL_mem {vs : List Val} (h : keysOkL vs = true) {x : Val} (hx : x ∈ vs) : keysOk x = true := by
  induction vs with
  | nil => cases hx
  | cons v vs ih =>
    simp only [keysOkL, Bool.and_eq_true] at h
    rcases List.mem_cons.mp hx with rfl | hx
    · exact h.1
    · exact ih h.2 hx

theorem keysOkF_mem {fs : List (String × Val)} (h : keysOkF fs = true) {p : String × Val} (hp : p ∈ fs) :
    keysOk p.2 = true := by
  induction fs with
  | nil => cases hp
  | cons q fs ih =>
    obtain ⟨k, v⟩ := q
    simp only [keysOkF, Bool.and_eq_true] at h
    rcases List.mem_cons.mp hp with rfl | hp
    · exact h.1
    · exact ih h.2 hp

def lookupV (k : String) : List (String × Val) → Option Val
  | [] => none
  | (k', v) :: fs => if k == k' then some v else lookupV k fs

theorem veqField_iff (k : String) (v : Val) (fb : List (String × Val)) :
    veqField k v fb = true ↔ ∃ w, lookupV k fb = some w ∧ veq v w = true := by
  induction fb with
  | nil => rw [veqField]; simp [lookupV]
  | cons p fb ih =>
    obtain ⟨k', w⟩ := p
    rw [veqField]
    simp only [lookupV]
    by_cases hk : (k == k') = true
    · simp [hk]
    · simp only [hk, Bool.false_eq_true, if_false]; exact ih

theorem veqF_iff (fa fb : List (String × Val)) :
    veqF fa fb = true ↔ ∀ p ∈ fa, veqField p.1 p.2 fb = true := by
  induction fa with
  | nil => rw [veqF]; simp
  | cons p fa ih =>
    obtain ⟨k, v⟩ := p
    rw [veqF, Bool.and_eq_true, ih]; simp

theorem lookupV_mem {k : String} {fs : List (String × Val)} {v : Val} (h : lookupV k fs = some v) : (k, v) ∈ fs := by
  induction fs with
  | nil => simp [lookupV] at h
  | cons p fs ih =>
    obtain ⟨k', w⟩ := p
    simp only [lookupV] at h
    split at h
    · rename_i hk
      have : k = k' := by simpa using hk
      cases h; subst this; simp
    · exact List.mem_cons_of_mem _ (ih h)

theorem lookupV_of_mem {k : String} {v : Val} {fs : List (String × Val)} (hn : nodupKeys fs = true)
    (hm : (k, v) ∈ fs) : lookupV k fs = some v := by
  induction fs with
  | nil => cases hm
  | cons p fs ih =>
    obtain ⟨k', w⟩ := p
    simp only [nodupKeys, Bool.and_eq_true, Bool.not_eq_true'] at hn
    simp only [lookupV]
    rcases List.mem_cons.mp hm with h | h
    · cases h; simp
    · have hne : (k == k') = false := by
        cases hkk : (k == k') with
        | false => rfl
        | true =>
          have : k = k' := by simpa using hkk
          subst this
          have : fs.any (fun p => p.1 == k) = true := by
            rw [List.any_eq_true]; exact ⟨(k, v), h, by simp⟩
          rw [this] at hn; exact absurd hn.1 (by simp)
      simp [hne, ih hn.2 h]

theorem keys_nodup {fs : List (String × Val)} (hn : nodupKeys fs = true) : (fs.map (·.1)).Nodup := by
  induction fs with
  | nil => simp
  | cons p fs ih =>
    obtain ⟨k, v⟩ := p
    simp only [nodupKeys, Bool.and_eq_true, Bool.not_eq_true'] at hn
    simp only [List.map_cons, List.nodup_cons]
    refine ⟨?_, ih hn.2⟩
    intro hmem
    rw [List.mem_map] at hmem
    obtain ⟨q, hq, hqk⟩ := hmem
    have : fs.any (fun p => p.1 == k) = true := by
      rw [List.any_eq_true]; exact ⟨q, hq, by simp [hqk]⟩
    rw [this] at hn; exact absurd hn.1 (by simp)

/-- two maps of the same size with distinct keys: if every key of the first is a key of the
    second, then every key of the second is a key of the first -/
theorem keys_pigeonhole (fa fb : List (String × Val)) (ha : nodupKeys fa = true) (hb : nodupKeys fb = true)
    (hlen : fa.length = fb.length) (hsub : ∀ p ∈ fa, p.1 ∈ fb.map (·.1)) :
    ∀ q ∈ fb, q.1 ∈ fa.map (·.1) := by
  intro q hq
  apply Classical.byContradiction
  intro hnot
  have hqk : q.1 ∈ fb.map (·.1) := List.mem_map.mpr ⟨q, hq, rfl⟩
  have hsub' : fa.map (·.1) ⊆ (fb.map (·.1)).erase q.1 := by
    intro x hx
    have hxq : x ≠ q.1 := fun h => hnot (h ▸ hx)
    obtain ⟨p, hp, rfl⟩ := List.mem_map.mp hx
    exact (List.mem_erase_of_ne hxq).2 (hsub p hp)
  have h1 := List.Nodup.length_le_of_subset (keys_nodup ha) hsub'
  have h2 : ((fb.map (·.1)).erase q.1).length = (fb.map (·.1)).length - 1 := by
    rw [List.length_erase]; simp [hqk]
  have h3 : 1 ≤ (fb.map (·.1)).length := List.length_pos_of_mem hqk
  simp only [List.length_map] at h1 h2 h3
  omega

theorem veqL_symm_both : ∀ (as bs : List Val),
    (∀ x ∈ as, ∀ y ∈ bs, veq x y = veq y x) → veqL as bs = veqL bs as := by
  intro as
  induction as with
  | nil => intro bs _; cases bs <;> simp [veqL]
  | cons a as ih =>
    intro bs h
    cases bs with
    | nil => simp [veqL]
    | cons b bs =>
      rw [veqL, veqL, h a List.mem_cons_self b List.mem_cons_self,
        ih bs (fun x hx y hy => h x (List.mem_cons_of_mem _ hx) y (List.mem_cons_of_mem _ hy))]

/-- one direction for maps, given symmetry on the stored values -/
theorem veqF_flip (fa fb : List (String × Val)) (ha : nodupKeys fa = true) (hb : nodupKeys fb = true)
    (hlen : fa.length = fb.length)
    (hs : ∀ p ∈ fa, ∀ q ∈ fb, veq p.2 q.2 = veq q.2 p.2)
    (h : veqF fa fb = true) : veqF fb fa = true := by
  rw [veqF_iff] at h ⊢
  have hsub : ∀ p ∈ fa, p.1 ∈ fb.map (·.1) := by
    intro p hp
    obtain ⟨w, hl, _⟩ := (veqField_iff p.1 p.2 fb).mp (h p hp)
    exact List.mem_map.mpr ⟨(p.1, w), lookupV_mem hl, rfl⟩
  intro q hq
  have := keys_pigeonhole fa fb ha hb hlen hsub q hq
  obtain ⟨p, hp, hpk⟩ := List.mem_map.mp this
  obtain ⟨w, hl, hv⟩ := (veqField_iff p.1 p.2 fb).mp (h p hp)
  have hq' : (p.1, q.2) ∈ fb := by rw [hpk]; exact hq
  have hw : w = q.2 := by
    have := lookupV_of_mem hb hq'
    rw [hl] at this; cases this; rfl
  subst hw
  rw [veqField_iff]
  refine ⟨p.2, ?_, ?_⟩
  · rw [← hpk]; exact lookupV_of_mem ha hp
  · rw [← hs p hp q hq]; exact hv

theorem veq_symm_full_aux : ∀ n : Nat, ∀ a b : Val, Val.size a + Val.size b ≤ n → keysOk a = true → keysOk b = true →
    veq a b = veq b a := by
  intro n
  induction n with
  | zero => intro a b h; have := size_pos a; omega
  | succ n ih =>
    intro a b hs ka kb
    cases a with
    | bool x => cases b <;> simp [veq]; exact Bool.beq_comm
    | int x => cases b <;> simp [veq]; exact Bool.beq_comm
    | str x => cases b <;> simp [veq]; exact Bool.beq_comm
    | unit => cases b <;> simp [veq]
    | float x => cases b <;> simp [veq]; exact feq_symm _ _
    | cell l t => cases b <;> simp [veq]; exact beq_comm_nat _ _
    | fn id ps r body env self => cases b <;> simp [veq]; exact beq_comm_nat _ _
    | arr t es =>
      cases b <;> simp [veq]
      rename_i t2 es2
      simp only [keysOk] at ka kb; simp only [Val.size] at hs
      exact veqL_symm_both es es2 (fun x hx y hy => ih x y
        (by have := size_lt_sizeL hx; have := size_lt_sizeL hy; omega) (keysOkL_mem ka hx) (keysOkL_mem kb hy))
    | tup es =>
      cases b <;> simp [veq]
      rename_i es2
      simp only [keysOk] at ka kb; simp only [Val.size] at hs
      exact veqL_symm_both es es2 (fun x hx y hy => ih x y
        (by have := size_lt_sizeL hx; have := size_lt_sizeL hy; omega) (keysOkL_mem ka hx) (keysOkL_mem kb hy))
    | struct fa =>
      cases b <;> simp [veq]
      rename_i fb
      simp only [keysOk, Bool.and_eq_true] at ka kb; simp only [Val.size] at hs
      have hsym : ∀ p ∈ fa, ∀ q ∈ fb, veq p.2 q.2 = veq q.2 p.2 := fun p hp q hq => ih p.2 q.2
        (by have := size_lt_sizeF hp; have := size_lt_sizeF hq; omega) (keysOkF_mem ka.1 hp) (keysOkF_mem kb.1 hq)
      have hsym' : ∀ q ∈ fb, ∀ p ∈ fa, veq q.2 p.2 = veq p.2 q.2 := fun q hq p hp => (hsym p hp q hq).symm
      by_cases hlen : fa.length = fb.length
      · have e1 : (fa.length == fb.length) = true := by simp [hlen]
        have e2 : (fb.length == fa.length) = true := by simp [hlen]
        rw [e1, e2]
        simp only [Bool.true_and]
        cases h1 : veqF fa fb <;> cases h2 : veqF fb fa <;> try rfl
        · have := veqF_flip fb fa kb.2 ka.2 hlen.symm hsym' h2
          rw [h1] at this; exact absurd this (by simp)
        · have := veqF_flip fa fb ka.2 kb.2 hlen hsym h1
          rw [h2] at this; exact absurd this (by simp)
      · have e1 : (fa.length == fb.length) = false := by simp [hlen]
        have e2 : (fb.length == fa.length) = false := by simp [Ne.symm hlen]
        rw [e1, e2]; simp

/-- **`==` is symmetric** on all values whose structs have distinct keys -/
theorem veq_symm (a b : Val) (ha : keysOk a = true) (hb : keysOk b = true) : veq a b = veq b a :=
  veq_symm_full_aux _ a b (Nat.le_refl _) ha hb

/-! ## non-vacuity -/
example : clean (.arr .int [.tup [.int 1, .str "a"], .struct [("k", .float 0)]]) = true := by
  simp [clean, cleanL, cleanF, nodupKeys]; decide

end Ssl.C19
