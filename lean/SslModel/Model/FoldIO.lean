import SslModel.Model.Fold
import SslModel.Model.SpecIO
/-! wire format of folded programs: the inverse of `Spec.exprOf` (DESIGN Appendix B), with two
    normalisations shared with the converter of the implementation's dump: an absent `else` is
    printed as `unit`, and stored tags do not appear -/
namespace Ssl.Fold
open Ssl Ssl.Spec Sexp

def preOpName : PreOp → String | .not => "not" | .neg => "neg" | .deref => "deref"
def binOpName : BinOp → String
  | .add => "add" | .sub => "sub" | .mul => "mul" | .div => "div" | .mod => "mod" | .pow => "pow"
  | .eq => "eq" | .ne => "ne" | .gt => "gt" | .ge => "ge" | .lt => "lt" | .le => "le"
  | .band => "band" | .bor => "bor" | .bxor => "bxor" | .shl => "shl" | .shr => "shr"
  | .filter => "filter" | .map => "map" | .partition => "partition"
def assignOpName : AssignOp → String
  | .set => "set" | .add => "add" | .sub => "sub" | .mul => "mul" | .div => "div" | .mod => "mod"
  | .pow => "pow" | .shl => "shl" | .shr => "shr" | .band => "band" | .bor => "bor" | .bxor => "bxor"
def postOpName : PostOp → String
  | .sum => "sum" | .product => "product" | .all => "all" | .any => "any" | .bitand => "bitand"
  | .bitor => "bitor" | .collect => "collect" | .iter => "iter"

def sp (l : List String) : String := "(" ++ " ".intercalate l ++ ")"

mutual
partial def showExpr : Expr → String
  | .litBool b => if b then "true" else "false"
  | .litInt i => s!"(i {i64 i})"
  | .litFloat x => s!"(f {floatBits x})"
  | .litStr s => s!"(s {Sexp.quote s})"
  | .litUnit => "unit"
  | .var x => s!"(id {x})"
  | .array es => sp ("array" :: es.map showExpr)
  | .arrayRepeat v n => sp ["repeat", showExpr v, showExpr n]
  | .tuple es => sp ("tuple" :: es.map showExpr)
  | .struct fs => sp ("struct" :: fs.map fun (k, e) => sp [k, showExpr e])
  | .mutE _ e => sp ["mut", showExpr e]
  | .fn ps r body => sp ("fn" :: sp (ps.map fun (x, t) => sp [x, t.render]) :: r.render :: body.map showExpr)
  | .modE body => sp ("mod" :: body.map showExpr)
  | .pre op e => sp ["pre", preOpName op, showExpr e]
  | .bin op a b => sp ["bin", binOpName op, showExpr a, showExpr b]
  | .and a b => sp ["and", showExpr a, showExpr b]
  | .or a b => sp ["or", showExpr a, showExpr b]
  | .assign op a b => sp ["assign", assignOpName op, showExpr a, showExpr b]
  | .at a i => sp ["at", showExpr a, showExpr i]
  | .slice a s e st => sp ["slice", showExpr a, showOptE s, showOptE e, showOptE st]
  | .call g args => sp ("call" :: showExpr g :: args.map showExpr)
  | .tacc e n => sp ["tacc", showExpr e, toString n]
  | .facc e k => sp ["facc", showExpr e, k]
  | .tfilter e t => sp ["tfilter", showExpr e, t.render]
  | .post op e => sp ["post", postOpName op, showExpr e]
  | .reduce it init g => sp ["reduce", showExpr it, showExpr init, showExpr g]
  | .set x e => sp ["set", x, showExpr e]
  | .destruct xs e => sp ["destruct", sp xs, showExpr e]
  | .fndecl x ps r body => sp ("fndecl" :: x :: sp (ps.map fun (x, t) => sp [x, t.render]) :: r.render :: body.map showExpr)
  | .block body => sp ("block" :: body.map showExpr)
  | .ifElse c t e => sp ["if", showExpr c, showExpr t, match e with | some e => showExpr e | none => "unit"]
  | .ifSet x ty e b els => sp ["ifset", x, ty.render, showExpr e, showExpr b,
      match els with | some e => showExpr e | none => "unit"]
  | .matchE e arms => sp ("match" :: showExpr e :: arms.map showArm)
  | .ret e => sp ["return", match e with | some e => showExpr e | none => "unit"]
  | .loop b => sp ["loop", showExpr b]
  | .while c b => sp ["while", showExpr c, showExpr b]
  | .whileSet x ty e b => sp ["whileset", x, ty.render, showExpr e, showExpr b]
  | .forE x it b => sp ["for", x, showExpr it, showExpr b]
  | .brk => "break"
  | .cont => "continue"
  | .native n => sp ["native", n]
partial def showOptE : Option Expr → String
  | none => "_"
  | some e => showExpr e
partial def showArm : Arm → String
  | .ty x t b => sp ["ty", x, t.render, showExpr b]
  | .val cs b => sp ["val", sp (cs.map showExpr), showExpr b]
  | .other b => sp ["other", showExpr b]
end

def showResult : R (List Expr) → String
  | .ok p => sp ("folded" :: p.map showExpr)
  | .error (.exec e) => s!"(error {e.name})"
  | .error (.unsup why) => "(unsup " ++ Sexp.quote why ++ ")"

end Ssl.Fold
