"""C17 — embedding API.  Proof: SslModel.Thm.C17 (in `Spec`, running xs ++ ys as one program equals
running xs and then ys in the environment and store xs left, for every split; evaluation is a
function; host admissibility = in-language admissibility).  Correspondence / oracles on the real API:
`repl` stream — statement sequences x every split into REPL inputs through Code::parse + exec_unscoped
on one interpreter vs. one batch parse of each prefix; `reexec` — interpreter bindings before / after
exec and three executions of one Code; `host` — Function::create_call vs. the in-language call."""
import itertools
import random

import progprop
import progstream as P
from gen import ast as A
from gen.programs import ProgGen, Scope, INT, BOOL, STR, FLOAT, VOID, tup, fn, iter_of, arr, cell, multi
from props import c01
from vlib import esc_field, harness_run, sexp_parse, sexp_str

THM_MODULES = ["SslModel.Thm.C17"]
TRANSLATE_PARTS = ["scalar"]


def gen_sequence(rnd, n):
    """n top-level statements and the names they declare"""
    g = ProgGen(rnd, max_depth=2, features=dict(mark=0.0, weights=dict(mod=0, useriter=4, capture=8, block=6)))
    top = Scope()
    top.declare("std", ("struct", ()))
    stmts = []
    while len(stmts) < n:
        stmts.extend(g.stmt(top, 2))
    stmts = stmts[:n]
    names = []
    for s in stmts:
        if s[0] in ("set", "fndecl"):
            names.append(s[1])
        elif s[0] == "destruct":
            names.extend(s[1])
    return stmts, sorted(set(names))


def splits(n, rnd, limit):
    """ways to cut a sequence of n statements into consecutive non-empty chunks"""
    all_masks = list(itertools.product([0, 1], repeat=n - 1))
    if len(all_masks) > limit:
        all_masks = [tuple(0 for _ in range(n - 1)), tuple(1 for _ in range(n - 1))] + rnd.sample(all_masks, limit - 2)
    out = []
    for m in all_masks:
        cuts = [i + 1 for i, b in enumerate(m) if b] + [n]
        out.append(cuts)
    return out


def binder_sequences():
    """a top-level name, then a construct that binds the same name locally (to another value) and runs, then
    reads of the name: the local binding must be gone on both routes, wherever the inputs are cut"""
    binders = [
        "r := if v: int = src[0] { v * 2 } else { 0 }",
        "r := if v: float = src[1] { 1 } else { 0 }",
        "while v: int = nx() { w += v }",
        "for v in [10, 20]~ { w += v }",
        "r := match src[0] { v: int => { v + 1 } => { 0 } }",
        "{ v := 99; w += v }",
        "(p, q) := { (v, z) := (5, 6); (v + z, z) }",
        "g := (v: int) -> int { return v + 1 }; r := g(41)",
        "m := mod { v := 77 }",
        "r := [10, 20]~ @ (v: int) -> int { return v + 1 } $]",
        "r := [10, 20]~ $0 (v: int, c: int) -> int { return v + c }",
        "loop { v := 5; w += v; break }",
        # blocks / branches made of ONE declaring instruction
        "{ v := 99 }",
        "{ (v, z) := (5, 6) }",
        "{ v := () -> int { return 3 } }",
        "if true { v := 5 } else { v := 6 }",
        "if *w == 0 { v := 5 }",
        "r := match src[0] { y: int => { v := y } => { 0 } }",
        # scrutinees only known at run time (nothing of the construct is folded away when it is parsed)
        "r := match nx() { v: int => { v + 1 } => { 0 } }",
        "r := match nx() { v: int => v * 2, => 0, }",
        "r := match nx() { v: int|() => 5, }",
        "r := match (nx(), 3) { v: (int, int) => 1, => 0, }",
        "r := if v: int = nx() { v * 2 } else { 0 }",
        "r := if v: int = nx() v * 2 else 0",
        "r := match nx() { y: int => { v := y } => { 0 } }",
        "for v in [nx(), 20]~ { w += 1 }",
        "r := [nx(), 20]~ @ (v: int|()) -> int { return 1 } $]",
        "(v, z) := { (v, z) := (nx(), 6); (1, z) }; v",
    ]
    out = []
    for first in ("v := 1", "v := \"top\"", "v := mut 1"):
        for b in binders:
            texts = [first, "src := [42, 0.5]", "w := mut 0", "cnt := mut 0",
                     "nx := () -> int|() { cnt += 1; if *cnt < 3 { return *cnt }; return () }", b, "v", "t := (v, *w)"]
            out.append((texts, "v,r,t,p,q"))
    return out


def internal_name_sequences():
    """a top-level variable named like a name an operator implementation binds for itself (`default`, `iterator`, `func`,
    `res`, ..), an operator run in the next input, the variable read in the one after: the REPL route looks the name up in the
    interpreter, the batch route has folded it"""
    from props import c06
    seqs = []
    ops = c06.internal_ops()
    for w in c06.operator_internal_names():
        if w == "r":
            continue
        for on, mk in ops.items():
            e = mk()
            seqs.append((["%s := 7" % w, ("r := %s" % A.src(e)) if e[0] != "for" else A.src(e), "%s + 1" % w], w))
    return seqs


def run(res, tier, seed, broken_model):
    rnd = random.Random(seed)
    nseq = 60 if tier == "quick" else 1500
    lines, metas = [], []
    sequences = list(binder_sequences()) + internal_name_sequences()
    for _ in range(nseq):
        n = rnd.randint(2, 7)
        try:
            stmts, names = gen_sequence(rnd, n)
        except Exception:
            continue
        sequences.append(([A.src(s) for s in stmts], ",".join(names)))
    nseq = len(sequences)
    for texts, nm in sequences:
        n = len(texts)
        # batch reference: every prefix as ONE input
        for k in range(1, n + 1):
            lines.append("repl\tstd\t%s\t%s" % (nm, esc_field("; ".join(texts[:k]))))
            metas.append(("batch", len(metas), k, None, texts))
        for cuts in splits(n, rnd, 16 if tier == "quick" else 64):
            chunks, prev = [], 0
            for c in cuts:
                chunks.append("; ".join(texts[prev:c]))
                prev = c
            lines.append("repl\tstd\t%s\t%s" % (nm, "\t".join(esc_field(c) for c in chunks)))
            metas.append(("split", None, None, cuts, texts))
    out = harness_run(lines)
    res.streams["repl"] = dict(sequences=nseq, runs=len(lines))
    # index batch results
    batch = {}
    cur_texts = None
    for m, o in zip(metas, out):
        if m[0] == "batch":
            batch[(id(m[4]), m[2])] = o
    compared = 0
    for m, o in zip(metas, out):
        res.evaluations += 1
        if m[0] != "split":
            continue
        texts, cuts = m[4], m[3]
        s = sexp_parse(o)
        if not (isinstance(s, list) and s and s[0] == "repl"):
            res.violation("REPL route crashed: %s on %s" % (o[:100], texts), dict(inputs=texts, cuts=cuts, impl=o), dict(oracle="repl-crash"))
            continue
        steps = s[1:]
        if any(sexp_str(st[1]).startswith("(parse-panic") or sexp_str(st[1]).startswith("(panic") for st in steps):
            res.violation("REPL route panics: %s" % sexp_str(s)[:300], dict(inputs=texts, cuts=cuts, impl=o), dict(oracle="panic", root="repl"))
            continue
        ok_inc = all(st[1][0] == "value" for st in steps)
        for st, c in zip(steps, cuts):
            b = sexp_parse(batch[(id(texts), c)])
            if not (isinstance(b, list) and b and b[0] == "repl"):
                continue
            bst = b[1]
            if bst[1][0] != "value" or not ok_inc:
                res.count("repl:one-route-did-not-complete")
                continue
            compared += 1
            res.nontrivial.add((tuple(texts[:c]), tuple(cuts)))
            if sexp_str(P.mask_junk(st[1])) != sexp_str(P.mask_junk(bst[1])) or sexp_str(P.mask_junk(st[2])) != sexp_str(P.mask_junk(bst[2])):
                res.violation("REPL and batch differ after statement %d of `%s` split at %s: incremental %s / %s, batch %s / %s" %
                              (c, "; ".join(texts), cuts, sexp_str(st[1])[:150], sexp_str(st[2])[:200], sexp_str(bst[1])[:150], sexp_str(bst[2])[:200]),
                              dict(inputs=texts, cuts=cuts, incremental=o, batch=batch[(id(texts), c)]), dict(oracle="repl-vs-batch"))
            else:
                res.traces_validated += 1
    res.count("repl:boundaries-compared", compared)
    # exec isolation and repeatability
    rlines, rmeta = [], []
    for _ in range(40 if tier == "quick" else 1000):
        try:
            stmts, names = gen_sequence(rnd, rnd.randint(1, 4))
        except Exception:
            continue
        setup = "a := 5; b := \"s\"; c := [1, 2]; d := (x: int) -> int { return x + a }; e := (1, true); x := 7"
        body = "; ".join(A.src(s) for s in stmts) + "; (a, b, c, d(x), e)"
        rlines.append("reexec\tstd\t%s\t%s" % (esc_field(setup), esc_field(body)))
        rmeta.append(body)
    # every construct that creates mutable state when it is EVALUATED - a cell, an iterator's cursor, the placeholder an
    # exhausted iterator hands out - must create it afresh on each execution of the same Code (nothing of it may be
    # built once at parse time and kept in the Code)
    fresh = [
        "c := mut 0; c += 1; *c",
        "it := [1, 2, 3]~; it(); it()",
        "it := [mut 5]~; it(); (m, c) := it(); c += 1; (m, *c)",
        "it := [mut 5]~ ? mut int; first := it(); (more, cell) := it(); cell += 1; (*(first.1), more, *cell)",
        "it := [mut 5, 2]~ ? mut int|int; it(); it(); (more, cell) := it(); r := if c: mut int = cell { c += 1; *c } else { cell }; (more, r)",
        "it := [mut 1]~ @ (c: mut int) -> mut int { return c }; it(); (m, d) := it(); d += 1; (m, *d)",
        "it := [mut 1]~ ? (c: mut int) -> bool { return true }; it(); (m, d) := it(); d += 1; (m, *d)",
        "f := () -> int { c := mut 0; c += 1; return *c }; (f(), f())",
        "f := () -> int { it := [mut 5]~ ? mut int; it(); cell := it().1; cell += 1; return *cell }; (f(), f())",
        "a := [mut 0; 2]; a[0] += 1; (*a[0], *a[1])",
        "p := [mut 1, mut 2]~ \\ (c: mut int) -> bool { return *c > 1 }; (p.0)[0] += 10; (*(p.0)[0], *(p.1)[0])",
        "s := [mut 1, mut 2]~ $]; s[0] += 1; (*s[0], *s[1])",
        "m := mod { k := mut 0 }; m.k += 1; *m.k",
        "g := () -> mut int { return mut 7 }; c := g(); c += 1; (*c, *g())",
    ]
    for body in fresh:
        rlines.append("reexec\tstd\t\t%s" % esc_field(body))
        rmeta.append(body)
    rout = harness_run(rlines)
    res.streams["reexec"] = dict(programs=len(rlines), fresh_state_templates=len(fresh))
    for body, o in zip(rmeta, rout):
        res.evaluations += 1
        s = sexp_parse(o)
        if not (isinstance(s, list) and s and s[0] == "reexec"):
            if o.startswith("(rejected"):
                continue
            res.violation("reexec failed: %s on `%s`" % (o[:100], body[:200]), dict(program=body, impl=o), dict(oracle="reexec-crash", cls=o[:20]))
            continue
        before, after, runs = sexp_str(s[1][1:]), sexp_str(s[2][1:]), [sexp_str(P.mask_junk(x)) for x in s[3][1:]]
        res.nontrivial.add(body)
        if before != after:
            res.violation("exec changed the interpreter it was parsed against: `%s`: before %s after %s" % (body[:200], before[:200], after[:200]),
                          dict(program=body, impl=o), dict(oracle="exec-isolation"))
        elif len(set(runs)) != 1:
            res.violation("executing the same Code again gives a different result: `%s`: %s" % (body[:200], runs),
                          dict(program=body, impl=o), dict(oracle="exec-repeatable"))
        else:
            res.traces_validated += 1
    c01.host_calls(res, rnd, 80 if tier == "quick" else 2000, broken_model, "C17")
    # tie to Spec: the batch route of whole sequences through the prog stream
    recs, good = progprop.stream(res, tier, seed + 3, broken_model, 150, 4000, features=dict(mark=0.1), label="batch-vs-Spec", depth=2)
    if lines:
        res.samples.append(dict(repl_request=lines[min(len(lines) - 1, 9)][:400], answer=out[min(len(out) - 1, 9)][:400]))
    res.rule = ("statement sequences of length 2..7 (declarations, cells, closures, control flow, user iterators) x every split into "
                "REPL inputs (all 2^(n-1) up to a cap, sampled above) run through Code::parse + exec_unscoped on one interpreter, "
                "against one batch parse of each prefix: same last result and same values of all top-level names at every "
                "boundary where both routes complete; exec three times against an interpreter whose bindings are compared before / "
                "after; host calls with admissible and inadmissible vectors compared with the in-language call; non-trivial = "
                "distinct (prefix, split) / program / call")
