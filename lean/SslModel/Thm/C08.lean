import SslModel.Gen.ScalarOps
import SslModel.Lemmas.Int64
/-!
# C08 — scalar operators are total and follow the documented arithmetic

Every theorem is stated over the operator descriptions `Ssl.Gen.*` that
`tools/translate.py` regenerates from `src/instruction/bin_op/**` and `prefix_op.rs` on
every run, for **all** `BitVec 64` operands.  `x.toInt` is the signed value, `Int.bmod _ 2^64`
the wrap into `[-2^63, 2^63)`.
-/
namespace Ssl.C08
open Ssl BitVec

/-! ## + - * unary minus wrap modulo 2^64 -/

theorem add_wraps (a b : I64) : IsInt (Gen.add.interp a b) ((a.toInt + b.toInt).bmod M64) := by
  refine ⟨a + b, ?_, ?_⟩
  · simp [Gen.add, IntOp.interp, firstError, IntExpr.eval]
  · simp [BitVec.toInt_add]

theorem sub_wraps (a b : I64) : IsInt (Gen.subtract.interp a b) ((a.toInt - b.toInt).bmod M64) := by
  refine ⟨a - b, ?_, ?_⟩
  · simp [Gen.subtract, IntOp.interp, firstError, IntExpr.eval]
  · simp [BitVec.toInt_sub]

theorem mul_wraps (a b : I64) : IsInt (Gen.multiply.interp a b) ((a.toInt * b.toInt).bmod M64) := by
  refine ⟨a * b, ?_, ?_⟩
  · simp [Gen.multiply, IntOp.interp, firstError, IntExpr.eval]
  · simp [BitVec.toInt_mul]

theorem neg_wraps (a : I64) : (Gen.unary_minus.eval a).toInt = (- a.toInt).bmod M64 := by
  simp [Gen.unary_minus, UnExpr.eval, BitVec.toInt_neg]

/-! ## / truncates toward zero, `MIN / -1 = MIN`; error iff divisor is 0 -/

theorem div_zero (a b : I64) (hb : b.toInt = 0) : Gen.divide.interp a b = .error .ZeroDivision := by
  apply interp_of_guard_true
  simp [Gen.divide, firstError, (holds_rhsZero b).mpr hb]

theorem div_trunc (a b : I64) (hb : b.toInt ≠ 0) (h : a ≠ BitVec.intMin 64 ∨ b ≠ -1) :
    IsInt (Gen.divide.interp a b) (a.toInt.tdiv b.toInt) := by
  have hg : Guard.rhsZero.holds b = false := by
    rw [Bool.eq_false_iff, Ne, holds_rhsZero]; exact hb
  refine ⟨a.sdiv b, ?_, BitVec.toInt_sdiv_of_ne_or_ne a b h⟩
  rw [interp_of_guards_false]
  · simp [Gen.divide, IntExpr.eval]
  · simp [Gen.divide, firstError, hg]

theorem div_min_neg1 :
    Gen.divide.interp (BitVec.intMin 64) (-1) = .ok (.int (BitVec.intMin 64)) := by
  simp [Gen.divide, IntOp.interp, firstError, Guard.holds, IntExpr.eval]; decide

/-! ## % takes the sign of the dividend, `MIN % -1 = 0`; error iff divisor is 0 -/

theorem rem_zero (a b : I64) (hb : b.toInt = 0) : Gen.modulo.interp a b = .error .ZeroModulo := by
  apply interp_of_guard_true
  simp [Gen.modulo, firstError, (holds_rhsZero b).mpr hb]

theorem rem_sign (a b : I64) (hb : b.toInt ≠ 0) :
    IsInt (Gen.modulo.interp a b) (a.toInt.tmod b.toInt) := by
  have hg : Guard.rhsZero.holds b = false := by
    rw [Bool.eq_false_iff, Ne, holds_rhsZero]; exact hb
  refine ⟨a.srem b, ?_, BitVec.toInt_srem a b⟩
  rw [interp_of_guards_false]
  · simp [Gen.modulo, IntExpr.eval]
  · simp [Gen.modulo, firstError, hg]

theorem rem_min_neg1 : Gen.modulo.interp (BitVec.intMin 64) (-1) = .ok (.int 0) := by
  simp [Gen.modulo, IntOp.interp, firstError, Guard.holds, IntExpr.eval]; decide

/-! ## `**` is exponentiation modulo 2^64 for every non-negative exponent -/

theorem pow_neg (a e : I64) (he : e.toInt < 0) :
    Gen.pow.interp a e = .error .NegativeExponent := by
  apply interp_of_guard_true
  simp [Gen.pow, firstError, (holds_rhsNegative e).mpr he]

theorem pow_correct (a e : I64) (he : 0 ≤ e.toInt) :
    IsInt (Gen.pow.interp a e) ((a.toInt ^ e.toInt.toNat).bmod M64) := by
  have hg : Guard.rhsNegative.holds e = false := by
    rw [Bool.eq_false_iff, Ne, holds_rhsNegative]; omega
  have hn : e.toInt.toNat = e.toNat := by
    have := BitVec.toInt_eq_toNat_of_msb (x := e) (by
      rw [← Bool.not_eq_true, BitVec.msb_eq_toInt]; simp; omega)
    omega
  refine ⟨a ^ e.toNat, ?_, ?_⟩
  · rw [interp_of_guards_false]
    · simp [Gen.pow, IntExpr.eval, powSqMulU64Val_eq]
    · simp [Gen.pow, firstError, hg]
  · rw [toInt_pow, hn]

/-! ## shifts accept exactly 0..=63; `>>` is arithmetic -/

theorem shl_err (a b : I64) (h : b.toInt < 0 ∨ 63 < b.toInt) :
    Gen.lshift.interp a b = .error .OverflowShift := by
  apply interp_of_guard_true
  simp [Gen.lshift, firstError, (holds_rhsOutside b).mpr h]

theorem shr_err (a b : I64) (h : b.toInt < 0 ∨ 63 < b.toInt) :
    Gen.rshift.interp a b = .error .OverflowShift := by
  apply interp_of_guard_true
  simp [Gen.rshift, firstError, (holds_rhsOutside b).mpr h]

theorem shl_ok (a b : I64) (h0 : 0 ≤ b.toInt) (h1 : b.toInt ≤ 63) :
    IsInt (Gen.lshift.interp a b) ((a.toInt * 2 ^ b.toInt.toNat).bmod M64) := by
  have hg : Guard.rhsOutside0to63.holds b = false := by
    rw [Bool.eq_false_iff, Ne, holds_rhsOutside]; omega
  have hn : b.toInt.toNat = b.toNat := by
    have := BitVec.toInt_eq_toNat_of_msb (x := b) (by
      rw [← Bool.not_eq_true, BitVec.msb_eq_toInt]; simp; omega)
    omega
  refine ⟨a <<< b.toNat, ?_, ?_⟩
  · rw [interp_of_guards_false]
    · simp [Gen.lshift, IntExpr.eval]
    · simp [Gen.lshift, firstError, hg]
  · rw [BitVec.toInt_shiftLeft, Nat.shiftLeft_eq, hn, BitVec.toInt_eq_toNat_bmod a,
      Int.bmod_mul_bmod]
    simp

theorem shr_ok (a b : I64) (h0 : 0 ≤ b.toInt) (h1 : b.toInt ≤ 63) :
    IsInt (Gen.rshift.interp a b) (a.toInt / 2 ^ b.toInt.toNat) := by
  have hg : Guard.rhsOutside0to63.holds b = false := by
    rw [Bool.eq_false_iff, Ne, holds_rhsOutside]; omega
  have hn : b.toInt.toNat = b.toNat := by
    have := BitVec.toInt_eq_toNat_of_msb (x := b) (by
      rw [← Bool.not_eq_true, BitVec.msb_eq_toInt]; simp; omega)
    omega
  refine ⟨a.sshiftRight b.toNat, ?_, ?_⟩
  · rw [interp_of_guards_false]
    · simp [Gen.rshift, IntExpr.eval]
    · simp [Gen.rshift, firstError, hg]
  · rw [BitVec.toInt_sshiftRight, Int.shiftRight_eq_div_pow, hn]; simp

/-! ## & | ^ ! are bitwise -/

theorem and_bitwise (a b : I64) :
    ∃ r, Gen.bitwise_and.interp a b = .ok (.int r) ∧ ∀ i, r.getLsbD i = (a.getLsbD i && b.getLsbD i) :=
  ⟨a &&& b, by simp [Gen.bitwise_and, IntOp.interp, firstError, IntExpr.eval], fun _ => by simp⟩

theorem or_bitwise (a b : I64) :
    ∃ r, Gen.bitwise_or.interp a b = .ok (.int r) ∧ ∀ i, r.getLsbD i = (a.getLsbD i || b.getLsbD i) :=
  ⟨a ||| b, by simp [Gen.bitwise_or, IntOp.interp, firstError, IntExpr.eval], fun _ => by simp⟩

theorem xor_bitwise (a b : I64) :
    ∃ r, Gen.xor.interp a b = .ok (.int r) ∧ ∀ i, r.getLsbD i = (a.getLsbD i ^^ b.getLsbD i) :=
  ⟨a ^^^ b, by simp [Gen.xor, IntOp.interp, firstError, IntExpr.eval], fun _ => by simp⟩

theorem not_bitwise (a : I64) (i : Nat) (hi : i < 64) :
    (Gen.not.eval a).getLsbD i = !a.getLsbD i := by
  simp [Gen.not, UnExpr.eval, hi]

/-! ## comparisons of ints are signed -/

theorem lt_signed (a b : I64) : IsBool (Gen.lower.interp a b) (decide (a.toInt < b.toInt)) := by
  simp [IsBool, Gen.lower, IntOp.interp, firstError, IntExpr.eval, BitVec.slt_eq_decide]
theorem le_signed (a b : I64) : IsBool (Gen.lower_equal.interp a b) (decide (a.toInt ≤ b.toInt)) := by
  simp [IsBool, Gen.lower_equal, IntOp.interp, firstError, IntExpr.eval, BitVec.sle_eq_decide]
theorem gt_signed (a b : I64) : IsBool (Gen.greater.interp a b) (decide (a.toInt > b.toInt)) := by
  simp [IsBool, Gen.greater, IntOp.interp, firstError, IntExpr.eval, BitVec.slt_eq_decide]
theorem ge_signed (a b : I64) : IsBool (Gen.greater_equal.interp a b) (decide (a.toInt ≥ b.toInt)) := by
  simp [IsBool, Gen.greater_equal, IntOp.interp, firstError, IntExpr.eval, BitVec.sle_eq_decide]

/-! ## nothing else errors -/

/-- operators without guards never fail -/
theorem errors_exact_total :
    ∀ op ∈ [Gen.add, Gen.subtract, Gen.multiply, Gen.bitwise_and, Gen.bitwise_or, Gen.xor,
            Gen.greater, Gen.greater_equal, Gen.lower, Gen.lower_equal],
      ∀ a b, ∃ r, op.interp a b = .ok r := by
  intro op hop a b
  simp only [List.mem_cons, List.mem_nil_iff, or_false] at hop
  rcases hop with h | h | h | h | h | h | h | h | h | h <;> subst h <;>
    exact ⟨_, interp_of_guards_false _ a b rfl⟩

theorem errors_exact_div (a b : I64) (e : ExecErr) :
    Gen.divide.interp a b = .error e ↔ (b.toInt = 0 ∧ e = .ZeroDivision) := by
  by_cases hb : b.toInt = 0
  · rw [div_zero a b hb]; simp [hb]; exact eq_comm
  · have hg : Guard.rhsZero.holds b = false := by
      rw [Bool.eq_false_iff, Ne, holds_rhsZero]; exact hb
    rw [interp_of_guards_false _ _ _ (by simp [Gen.divide, firstError, hg])]; simp [hb]

theorem errors_exact_rem (a b : I64) (e : ExecErr) :
    Gen.modulo.interp a b = .error e ↔ (b.toInt = 0 ∧ e = .ZeroModulo) := by
  by_cases hb : b.toInt = 0
  · rw [rem_zero a b hb]; simp [hb]; exact eq_comm
  · have hg : Guard.rhsZero.holds b = false := by
      rw [Bool.eq_false_iff, Ne, holds_rhsZero]; exact hb
    rw [interp_of_guards_false _ _ _ (by simp [Gen.modulo, firstError, hg])]; simp [hb]

theorem errors_exact_pow (a b : I64) (e : ExecErr) :
    Gen.pow.interp a b = .error e ↔ (b.toInt < 0 ∧ e = .NegativeExponent) := by
  by_cases hb : b.toInt < 0
  · rw [pow_neg a b hb]; simp [hb]; exact eq_comm
  · have hg : Guard.rhsNegative.holds b = false := by
      rw [Bool.eq_false_iff, Ne, holds_rhsNegative]; exact hb
    rw [interp_of_guards_false _ _ _ (by simp [Gen.pow, firstError, hg])]; simp [hb]

theorem errors_exact_shl (a b : I64) (e : ExecErr) :
    Gen.lshift.interp a b = .error e ↔ ((b.toInt < 0 ∨ 63 < b.toInt) ∧ e = .OverflowShift) := by
  by_cases hb : b.toInt < 0 ∨ 63 < b.toInt
  · rw [shl_err a b hb]; simp [hb]; exact eq_comm
  · have hg : Guard.rhsOutside0to63.holds b = false := by
      rw [Bool.eq_false_iff, Ne, holds_rhsOutside]; exact hb
    rw [interp_of_guards_false _ _ _ (by simp [Gen.lshift, firstError, hg])]; simp [hb]

theorem errors_exact_shr (a b : I64) (e : ExecErr) :
    Gen.rshift.interp a b = .error e ↔ ((b.toInt < 0 ∨ 63 < b.toInt) ∧ e = .OverflowShift) := by
  by_cases hb : b.toInt < 0 ∨ 63 < b.toInt
  · rw [shr_err a b hb]; simp [hb]; exact eq_comm
  · have hg : Guard.rhsOutside0to63.holds b = false := by
      rw [Bool.eq_false_iff, Ne, holds_rhsOutside]; exact hb
    rw [interp_of_guards_false _ _ _ (by simp [Gen.rshift, firstError, hg])]; simp [hb]

/-! ## bool operators are the logical operations -/

theorem bool_tables : ∀ a b : Bool,
    BoolExpr.band.eval a b = (a && b) ∧ BoolExpr.bor.eval a b = (a || b) ∧
    BoolExpr.bxor.eval a b = (a != b) := by decide

/-- the bool arms of `& | ^` in the source are the ones modelled -/
theorem bool_arms_as_modelled :
    (List.lookup "bitwise_and" Gen.floatArms).map (·.2) = some (some "band") ∧
    (List.lookup "bitwise_or" Gen.floatArms).map (·.2) = some (some "bor") ∧
    (List.lookup "xor" Gen.floatArms).map (·.2) = some (some "bxor") ∧
    Gen.unaryOther.contains ("not", "bool", "bnot") = true := by decide

/-! ## one semantics on all three paths (run time, folding, compound assignment) -/

def assignBase : List (String × String) :=
  [("AssignAdd", "Add"), ("AssignSubtract", "Subtract"), ("AssignMultiply", "Multiply"),
   ("AssignDivide", "Divide"), ("AssignModulo", "Modulo"), ("AssignPow", "Pow"),
   ("AssignLShift", "LShift"), ("AssignRShift", "RShift"), ("AssignBitwiseAnd", "BitwiseAnd"),
   ("AssignBitwiseOr", "BitwiseOr"), ("AssignXor", "Xor")]

/-- every compound assignment applies the `exec` of the module that runs its base operator -/
theorem three_paths_assign :
    ∀ p ∈ assignBase, List.lookup p.1 Gen.assignTable = List.lookup p.2 Gen.execTable ∧
      (List.lookup p.2 Gen.execTable).isSome = true := by decide

def scalarOps : List String :=
  ["Add", "Subtract", "Multiply", "Divide", "Modulo", "Greater", "GreaterOrEqual", "Lower",
   "LowerOrEqual", "BitwiseAnd", "BitwiseOr", "Xor", "LShift", "RShift"]

/-- every scalar operator that is folded at all is folded by the module that executes it, and
    that module folds two constants by calling its own `exec` -/
theorem three_paths_fold :
    ∀ op ∈ scalarOps, List.lookup op Gen.foldTable = List.lookup op Gen.execTable ∧
      ((List.lookup op Gen.execTable).bind (fun m => List.lookup m Gen.foldsThroughOwnExec)) = some true := by decide

/-- `**` is the one scalar operator that is never folded (so there is nothing to disagree) -/
theorem pow_not_folded : List.lookup "Pow" Gen.foldTable = none := by decide

/-! ## non-vacuity: the hypotheses are met by boundary operands -/
example : (BitVec.intMin 64 : I64).toInt ≠ 0 ∧ ((5 : I64) ≠ BitVec.intMin 64 ∨ (-1 : I64) ≠ -1) := by decide
example : (0 : Int) ≤ (63 : I64).toInt ∧ (63 : I64).toInt ≤ 63 := by decide
example : (0 : Int) ≤ (BitVec.ofNat 64 (2 ^ 32) : I64).toInt := by decide

end Ssl.C08
