import SslModel.Lemmas.Mono
/-!
# C05 — the reference semantics assigns a program at most one outcome

`Spec` is a function of the program, the environment, the store and the fuel, so for a fixed fuel
its answer is unique by construction.  What is proved here is that the fuel does not matter: two
runs of the same program from the same state with DIFFERENT amounts of fuel that both complete
(neither runs out of fuel) end in the same value and final environment, or the same error / signal,
and the same store — for whole statement lists, expressions and calls.  (Consequence of the fuel
monotonicity of all twenty evaluator functions, `Lemmas/Mono.lean`.)  The correspondence streams
compare the implementation with `Spec` run at one fixed fuel; this theorem is why the choice of
that fuel cannot change a verdict other than to `inconclusive`.
-/
namespace Ssl.C05
open Ssl Ssl.Spec

theorem agree_of_mono {α} {m : Nat → M α} (hm : ∀ a b, a ≤ b → LeM (m a) (m b)) (f g : Nat) (σ : St)
    (hf : ∀ σ', m f σ ≠ (.error .fuel, σ')) (hg : ∀ σ', m g σ ≠ (.error .fuel, σ')) : m f σ = m g σ := by
  rcases Nat.le_total f g with h | h
  · rcases (hm f g h).apply σ with ⟨σ', h1⟩ | h1
    · exact absurd h1 (hf σ')
    · exact h1
  · rcases (hm g f h).apply σ with ⟨σ', h1⟩ | h1
    · exact absurd h1 (hg σ')
    · exact h1.symm

/-- a program (statement list): the outcome does not depend on the fuel it was given -/
theorem program_outcome_unique (prog : List Expr) (env : Env) (σ : St) (f g : Nat)
    (hf : ∀ σ', evalSeq f env prog σ ≠ (.error .fuel, σ')) (hg : ∀ σ', evalSeq g env prog σ ≠ (.error .fuel, σ')) :
    evalSeq f env prog σ = evalSeq g env prog σ :=
  agree_of_mono (m := fun k => evalSeq k env prog) (fun a b h => (monoAt_le a b h).evalSeq env prog) f g σ hf hg

/-- an expression -/
theorem expr_outcome_unique (e : Expr) (env : Env) (σ : St) (f g : Nat)
    (hf : ∀ σ', eval f env e σ ≠ (.error .fuel, σ')) (hg : ∀ σ', eval g env e σ ≠ (.error .fuel, σ')) :
    eval f env e σ = eval g env e σ :=
  agree_of_mono (m := fun k => eval k env e) (fun a b h => (monoAt_le a b h).eval env e) f g σ hf hg

/-- a call of a function value (the embedding API's `create_call` … `exec`) -/
theorem call_outcome_unique (fv : Val) (args : List Val) (σ : St) (f g : Nat)
    (hf : ∀ σ', callFn f fv args σ ≠ (.error .fuel, σ')) (hg : ∀ σ', callFn g fv args σ ≠ (.error .fuel, σ')) :
    callFn f fv args σ = callFn g fv args σ :=
  agree_of_mono (m := fun k => callFn k fv args) (fun a b h => (monoAt_le a b h).callFn fv args) f g σ hf hg

/-- more fuel never changes a completed run -/
theorem more_fuel_same_outcome (prog : List Expr) (env : Env) (σ : St) (f k : Nat)
    (hf : ∀ σ', evalSeq f env prog σ ≠ (.error .fuel, σ')) :
    evalSeq (f + k) env prog σ = evalSeq f env prog σ := by
  rcases ((monoAt_le f (f + k) (by omega)).evalSeq env prog).apply σ with ⟨σ', h1⟩ | h1
  · exact absurd h1 (hf σ')
  · exact h1.symm

example : ∀ σ', evalSeq 5 [[]] [.litInt 1] {} ≠ (.error .fuel, σ') := by
  intro σ' h; simp [evalSeq, evalStmt, eval, pure, bindM_def] at h

end Ssl.C05
