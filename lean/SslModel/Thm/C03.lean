import SslModel.Lemmas.Ty
import SslModel.Gen.Grammar
import SslModel.Gen.RuleUse
/-!
# C03 — parsing and checking is total

What is logic here, and is proved for ALL types (over the model of `src/variable/type.rs` whose
agreement with the implementation is checked by the `type` correspondence of C10):

* **guarded queries answer** — each static query the checker unwraps after an admissibility test
  does answer on every well-formed type that passes the test: `return_type` after `is_function`,
  `mut_element_type` / `mut_assign_type` after `is_mut`, `min_tuple_len`, `tuple_element_at`
  (below the minimal length) and — when `tuple_len` answers — `flatten_tuple` after `is_tuple`,
  `field_type` after `has_field`, `index_result` after `can_be_indexed` and `element_type` after
  `matches [any]` **except on the never type**, which passes every `matches`-based test and on
  which the queries answer `None` (`never_passes_but_unanswered`; the implementation panicked
  there until the fix recorded as F22 — the checker now also asks the query itself);
* **grammar rules used by the walking code exist and are not silent** — every `Rule::x` mentioned
  in the crate (regenerated list) is a rule of simplesl.pest (regenerated) that produces a pair;
  a silent rule never shows up as a pair, so a match arm on it is dead and the construct falls
  into `unexpected!` / `unreachable!` (this is how match value arms used to panic).

Everything else about this property — that no `unwrap`, `unreachable!`, slice index or arithmetic
in parser glue, instruction construction and folding can fire — is not modelled: it is searched by
the generated-input streams of tools/props/c03.py.
-/
set_option linter.unusedSimpArgs false
set_option linter.unusedVariables false
namespace Ssl.C03
open Ssl Ssl.Ty

/-! ## folds over union members -/

theorem foldlM_isSome {α : Type} (base : Ty → Option α) (comb : α → α → Option α) (ms : List Ty)
    (hb : ∀ m ∈ ms, (base m).isSome = true) (hc : ∀ x y, (comb x y).isSome = true) :
    ∀ a : α, (ms.foldlM (fun acc t => do let c ← base t; comb acc c) a).isSome = true := by
  induction ms with
  | nil => intro a; simp [List.foldlM]
  | cons m ms ih =>
    intro a
    obtain ⟨c, hc1⟩ := Option.isSome_iff_exists.mp (hb m (by simp))
    obtain ⟨a', ha'⟩ := Option.isSome_iff_exists.mp (hc a c)
    simp only [List.foldlM_cons, hc1, ha', Option.bind_eq_bind, Option.bind_some]
    exact ih (fun x hx => hb x (by simp [hx])) a'

theorem foldQ_isSome {α : Type} (base : Ty → Option α) (comb : α → α → Option α) (ms : List Ty)
    (hne : ms ≠ []) (hb : ∀ m ∈ ms, (base m).isSome = true) (hc : ∀ x y, (comb x y).isSome = true) :
    (foldQ base comb ms).isSome = true := by
  cases ms with
  | nil => exact absurd rfl hne
  | cons m ms =>
    obtain ⟨c, hc1⟩ := Option.isSome_iff_exists.mp (hb m (by simp))
    simp only [foldQ, hc1, Option.bind_eq_bind, Option.bind_some]
    exact foldlM_isSome base comb ms (fun x hx => hb x (by simp [hx])) hc c

theorem multi_nonempty {ms : List Ty} (hw : wf (.multi ms) = true) : ms ≠ [] := by
  intro h; subst h; simp [wf] at hw

theorem joinO_isSome (x y : Ty) : (joinO x y).isSome = true := rfl

/-! ## structural tests -/

/-- `x()` / `x(args)`: `return_type().unwrap()` after `is_function()` -/
theorem returnType_of_isFunction (t : Ty) (hw : wf t = true) (h : isFunction t = true) :
    (returnType t).isSome = true := by
  cases t <;> simp [isFunction] at h
  case fn ps r => simp [returnType, query]
  case multi ms =>
    simp only [returnType, query]
    apply foldQ_isSome _ _ ms (multi_nonempty hw) _ joinO_isSome
    intro m hm
    have := h m hm
    cases m <;> simp_all

/-- `*x`, `x = v`, `x op= v`: `mut_element_type().unwrap()` after `is_mut()` -/
theorem mutElementType_of_isMut (t : Ty) (hw : wf t = true) (h : isMut t = true) :
    (mutElementType t).isSome = true := by
  cases t <;> simp [isMut] at h
  case cell e => simp [mutElementType, query]
  case multi ms =>
    simp only [mutElementType, query]
    apply foldQ_isSome _ _ ms (multi_nonempty hw) _ joinO_isSome
    intro m hm
    have := h m hm
    cases m <;> simp_all

theorem mutAssign_fold (ms : List Ty) (h : ∀ m ∈ ms, ∃ e, m = .cell e) : ∀ acc : Ty,
    (ms.foldlM (fun (acc : Ty) (m : Ty) => match m with | Ty.cell e => some (conjoin acc e) | _ => none) acc).isSome = true := by
  induction ms with
  | nil => intro acc; simp [List.foldlM]
  | cons m ms ih =>
    intro acc
    obtain ⟨e, rfl⟩ := h m (by simp)
    simp only [List.foldlM_cons, Option.bind_eq_bind, Option.bind_some]
    exact ih (fun x hx => h x (by simp [hx])) _

theorem mutAssignType_of_isMut (t : Ty) (h : isMut t = true) : (mutAssignType t).isSome = true := by
  cases t <;> simp [isMut] at h
  case cell e => simp [mutAssignType]
  case multi ms =>
    simp only [mutAssignType]
    apply mutAssign_fold
    intro m hm
    have := h m hm
    cases m <;> simp_all

/-- `x.0`: `min_tuple_len().unwrap()` after `is_tuple()` -/
theorem minTupleLen_of_isTuple (t : Ty) (hw : wf t = true) (h : isTuple t = true) :
    (minTupleLen t).isSome = true := by
  cases t <;> simp [isTuple] at h
  case tup es => simp [minTupleLen, tupleLen, query]
  case multi ms =>
    simp only [minTupleLen]
    apply foldQ_isSome _ _ ms (multi_nonempty hw) _ (fun _ _ => rfl)
    intro m hm
    have := h m hm
    cases m <;> simp_all

/-- `x.k`: `field_type(k).unwrap()` after `has_field(k)` -/
theorem fieldType_of_hasField (k : String) (t : Ty) (hw : wf t = true) (h : hasField k t = true) :
    (fieldType k t).isSome = true := by
  cases t <;> simp [hasField] at h
  case struct fs => simpa [fieldType, query] using h
  case multi ms =>
    simp only [fieldType, query]
    apply foldQ_isSome _ _ ms (multi_nonempty hw) _ joinO_isSome
    intro m hm
    have := h m hm
    cases m <;> simp_all

/-! ## `(a, b) := x`: `flatten_tuple().unwrap()` after `is_tuple()` and `tuple_len() == Some(n)` -/

theorem flatten_fold (n : Nat) (ms : List Ty) (h : ∀ m ∈ ms, ∃ es, m = .tup es ∧ es.length = n) :
    ∀ acc : List Ty, acc.length = n →
    ∃ l, ms.foldlM (fun acc t => do
        let c ← (match t with | .tup es => some es | _ => none)
        if acc.length != c.length then none else some (List.zipWith concat acc c)) acc = some l ∧ l.length = n := by
  induction ms with
  | nil => intro acc ha; exact ⟨acc, by simp [List.foldlM], ha⟩
  | cons m ms ih =>
    intro acc ha
    obtain ⟨es, rfl, hes⟩ := h m (by simp)
    simp only [List.foldlM_cons, Option.bind_eq_bind, Option.bind_some, ha, hes, bne_self_eq_false,
      Bool.false_eq_true, if_false]
    apply ih (fun x hx => h x (by simp [hx]))
    simp [List.length_zipWith, ha, hes]

theorem tupleLen_members (n : Nat) (ms : List Ty) (a : Nat)
    (h : ms.foldlM (fun acc t =>
        (match t with | Ty.tup es => some es.length | _ => none).bind
          fun c => if acc = c then some acc else none) a = some n) :
    a = n ∧ ∀ m ∈ ms, ∃ es, m = .tup es ∧ es.length = n := by
  induction ms generalizing a with
  | nil => simp [List.foldlM] at h; exact ⟨h, by simp⟩
  | cons m ms ih =>
    simp only [List.foldlM_cons, Option.bind_eq_bind] at h
    cases m <;> simp at h
    case tup es =>
      by_cases hae : a = es.length
      · subst hae
        simp at h
        obtain ⟨h1, h2⟩ := ih _ h
        refine ⟨h1, ?_⟩
        intro m hm
        rcases List.mem_cons.mp hm with rfl | hm
        · exact ⟨es, rfl, h1⟩
        · exact h2 m hm
      · simp [hae] at h

theorem flattenTuple_of_tupleLen (t : Ty) (n : Nat) (h : tupleLen t = some n) :
    ∃ l, flattenTuple t = some l ∧ l.length = n := by
  cases t <;> simp [tupleLen, query] at h
  case tup es => exact ⟨es, by simp [flattenTuple, query], h⟩
  case multi ms =>
    cases ms with
    | nil => simp [foldQ] at h
    | cons m ms =>
      simp only [foldQ, Option.bind_eq_bind] at h
      cases m <;> simp at h
      case tup es =>
        obtain ⟨h1, h2⟩ := tupleLen_members n ms es.length h
        simp only [flattenTuple, query, foldQ, Option.bind_eq_bind, Option.bind_some]
        exact flatten_fold n ms h2 es h1

/-! ## `matches`-based tests and the never type -/

/-- the never type passes `can_be_indexed`, `matches [any]` and `is_iterator` … -/
theorem never_passes : canBeIndexed .never = true ∧ sub .never (.arr .any) = true ∧ isIterator .never = true := by
  simp [canBeIndexed, isIterator, sub_never]

/-- … but none of the queries behind them answers on it: the admissibility test alone does not
    protect the `unwrap` (defect F22; the checker now also asks the query) -/
theorem never_passes_but_unanswered :
    indexResult .never = none ∧ elementType .never = none ∧ iterElement .never = none ∧
    returnType .never = none := by
  simp [indexResult, elementType, iterElement, returnType, query]

/-- an array, a string, or a union of arrays and strings is indexable and `index_result` answers -/
theorem indexResult_of_members (ms : List Ty) (hne : ms ≠ [])
    (h : ∀ m ∈ ms, m = .str ∨ ∃ e, m = .arr e) : (indexResult (.multi ms)).isSome = true := by
  simp only [indexResult, query]
  apply foldQ_isSome _ _ ms hne _ joinO_isSome
  intro m hm
  rcases h m hm with rfl | ⟨e, rfl⟩ <;> rfl

/-- a non-union, non-never type that passes `can_be_indexed` is a string or an array -/
theorem canBeIndexed_base (t : Ty) (h1 : isMulti t = false) (h2 : isNever t = false)
    (h : canBeIndexed t = true) : t = .str ∨ ∃ e, t = .arr e := by
  unfold canBeIndexed at h
  rw [sub_multi_right t _ h1 h2, anyMatch_eq] at h
  simp only [List.any_cons, List.any_nil, Bool.or_false, Bool.or_eq_true] at h
  cases t <;> simp [isMulti, isNever] at h1 h2
  all_goals first
    | (left; rfl)
    | (right; exact ⟨_, rfl⟩)
    | (exfalso; rcases h with h | h <;> (try rw [sub] at h) <;> simp_all [sub, eqv])

/-- `x[i]`: on every well-formed type other than never, `index_result().unwrap()` after
    `can_be_indexed()` answers -/
theorem indexResult_of_canBeIndexed (t : Ty) (hw : wf t = true) (hn : isNever t = false)
    (h : canBeIndexed t = true) : (indexResult t).isSome = true := by
  by_cases hm : isMulti t = true
  · cases t <;> simp [isMulti] at hm
    case multi ms =>
      apply indexResult_of_members ms (multi_nonempty hw)
      intro m hmem
      have hall : allMatch ms (.multi [.str, .arr .any]) = true := by
        have := h; unfold canBeIndexed at this; rwa [sub_multi_left] at this
      rw [allMatch_eq, List.all_eq_true] at hall
      have hmo : membersOk ms = true := by simp [wf] at hw; exact hw.1.2
      have hmm := membersOk_mem hmo hmem
      exact canBeIndexed_base m hmm.1 hmm.2.1 (by unfold canBeIndexed; exact hall m hmem)
  · have hm' : isMulti t = false := by simpa using hm
    rcases canBeIndexed_base t hm' hn h with rfl | ⟨e, rfl⟩ <;> simp [indexResult, query]

/-! ## iterators of the shapes the operators accept -/

theorem iterElement_shape (e : Ty) : iterElement (.fn [] (.tup [.bool, e])) = some e := by
  simp [iterElement, query, flattenTuple, eqv]

theorem iterElement_union (ms : List Ty) (hne : ms ≠ [])
    (h : ∀ m ∈ ms, ∃ e, m = .fn [] (.tup [.bool, e])) : (iterElement (.multi ms)).isSome = true := by
  simp only [iterElement, query]
  apply foldQ_isSome _ _ ms hne _ joinO_isSome
  intro m hm
  obtain ⟨e, rfl⟩ := h m hm
  simp [flattenTuple, query, eqv]

/-! ## the grammar and the code that walks its pairs -/

def ruleKind (r : String) : Option Peg.RuleKind :=
  (Gen.grammar.find? (fun p => p.1 == r)).map (·.2.1)

/-- pest's own pseudo-rules and rules of the `var_type!` macro grammar are not in simplesl.pest -/
def producesPair (r : String) : Bool :=
  match ruleKind r with
  | some k => k != .silent
  | none => false

/-- **every rule the crate matches on produces pairs** -/
theorem rules_in_code_produce_pairs : Gen.rulesInCode.all (fun p => producesPair p.1) = true := by
  decide

/-- the start rules handed to `SimpleSLParser::parse` are rules of the grammar -/
theorem start_rules_exist : Gen.startRules.all (fun r => (ruleKind r).isSome) = true := by decide

/-- every rule a grammar expression refers to is defined (pest checks this at compile time too;
    here it guards the translator's reading of the grammar) -/
def refs : Peg.Peg → List String
  | .rule n => [n]
  | .seq xs | .choice xs => refsL xs
  | .star e | .plus e | .opt e | .notP e | .andP e => refs e
  | _ => []
where refsL : List Peg.Peg → List String
  | [] => []
  | x :: xs => refs x ++ refsL xs

theorem grammar_closed :
    Gen.grammar.all (fun p => (refs p.2.2).all (fun r => (ruleKind r).isSome)) = true := by decide +kernel

end Ssl.C03
